package c12

// The window inside ONE storage refresh: the first rule list of the index has
// already been re-downloaded and recompiled, but the storage still serves the
// previous list objects until the very end of the refresh.  The content server
// holds back the downloads of everything that follows the first list (count
// based) while readers keep asking for first-list hosts whose verdict differs
// between the two versions.  After Refresh RETURNED the readers wait at a
// barrier and every key they touched is asked once.

import (
	"context"
	"fmt"
	"sync"
	"sync/atomic"
	"time"

	"github.com/AdguardTeam/AdGuardDNS/internal/filter"
	"github.com/AdguardTeam/AdGuardDNS/verif/vkit"
	"github.com/miekg/dns"
)

type rlKey struct {
	I  int
	QT uint16
}

func (k rlKey) host() string { return fmt.Sprintf("r%d.vla.test", k.I) }

func rlKeyOf(idx, wide int) rlKey {
	idx %= wide * 2
	return rlKey{I: idx / 2, QT: []uint16{dns.TypeA, dns.TypeAAAA}[idx%2]}
}

// rlExpect is the content definition: host i is blocked by vl_a in version v
// iff i+v is even.
func rlExpect(k rlKey, v int, o obs) (ok bool, want string) {
	if (k.I+v)%2 != 0 {
		return o.Kind == "none", "not filtered"
	}
	rule := fmt.Sprintf("||r%d.vla.test^", k.I)
	return o.Kind == "blocked" && o.List == "vl_a" && o.Rule == rule, "blocked by vl_a rule " + rule
}

func ruleListWindowPhase(r *vkit.Run, s *srv) {
	n := r.N(3, 24)
	for i := 0; i < n; i++ {
		if !oneRuleListWindow(r, s, i) {
			return
		}
	}
	s.setGate(nil)
}

func oneRuleListWindow(r *vkit.Run, s *srv, idx int) (goOn bool) {
	rng := r.Rand("rl-window", idx)
	const (
		nReaders  = 12
		wide      = 3000
		rounds    = 4
		warmOps   = 1500 // reader calls between two refreshes
		holdOps   = 500  // reader calls every later download is held back for
		readerCap = 400000
	)
	s.setGate(nil)
	hookFn.Store(nil)
	c := baseContent()
	c.WideRL = wide
	v := 1 + rng.IntN(3)
	c.RL["vl_a"] = v
	s.set(c)
	e, err := newEnv(s, "rl-window", prodOpt)
	if err != nil {
		r.Inconclusive("rule-list window: cannot build storage: " + err.Error())
		return false
	}
	defer e.close()
	reqs := newRequesters()
	// Readers 0,1 mod 4 are anonymous filtering groups (one long-lived
	// *filter.ConfigGroup each, as in production), readers 2,3 mod 4 are
	// profile clients without custom rules.
	mkReq := func(w int) *requester {
		q := onlyComp(reqs[rng.IntN(len(reqs))], "rulelist")
		q.RuleLists = ids("vl_a", "vl_b", "vl_c")
		q.Name = fmt.Sprintf("group-%d", w)
		if w%4 >= 2 {
			q.Name = fmt.Sprintf("client-%d", w)
			q.Profile = &profile{ID: q.Name, Idx: 8, Enabled: false, Ver: 1}
		}
		return q.fix()
	}
	readers := make([]*requester, nReaders)
	for w := range readers {
		readers[w] = mkReq(w)
	}
	// after the refresh the same group (reader 0 builds its filter with
	// ForConfig for every query) and the same client (reader 2) ask again
	groupProber, clientProber := readers[0], readers[2]

	var (
		ops, inWindow, panics atomic.Int64
		groupBuildsInWindow   atomic.Int64 // ForConfig(*filter.ConfigGroup) calls inside the window
		pause, stop           atomic.Bool
		window                atomic.Bool // list 1 re-downloaded, Refresh not yet returned
		mu                    sync.Mutex
		cond                  = sync.NewCond(&mu)
		parked, finished      int
		touched               [nReaders]map[int]bool // keys touched since the refresh started
		refreshing            atomic.Bool
		firstPanic            atomic.Pointer[map[string]any]
	)
	for w := range touched {
		touched[w] = map[int]bool{}
	}
	// Everything the refresh downloads after the first rule list is held back
	// until the readers have made holdOps more calls.
	s.setGate(func(p string) {
		if !refreshing.Load() {
			return
		}
		switch p {
		case "/rl/index", "/rl/vl_a":
			return
		}
		// list 1 has been recompiled: the storage downloads the next item
		window.Store(true)
		target := ops.Load() + holdOps
		deadline := time.Now().Add(watchdog)
		for ops.Load() < target && time.Now().Before(deadline) {
			mu.Lock()
			done := finished == nReaders
			mu.Unlock()
			if done {
				return
			}
			time.Sleep(200 * time.Microsecond)
		}
	})
	defer s.setGate(nil)
	ctx := context.Background()
	var wg sync.WaitGroup
	for w := 0; w < nReaders; w++ {
		wg.Add(1)
		go func(w int) {
			defer wg.Done()
			defer func() {
				mu.Lock()
				finished++
				mu.Unlock()
				cond.Broadcast()
			}()
			q := readers[w]
			next := w * (wide * 2 / nReaders)
			// half of the readers use a filter obtained before the refresh
			var held filter.Interface
			if w%2 == 1 {
				held = e.st.ForConfig(ctx, q.config(0))
			}
			call := func(k rlKey, n int) {
				defer func() {
					if p := recover(); p != nil {
						panics.Add(1)
						w := map[string]any{
							"phase": "rule-list-window", "history_index": idx, "when": "reader call while Refresh was running: " + fmt.Sprint(refreshing.Load()),
							"host": k.host(), "qtype": dns.Type(k.QT).String(), "panic": fmt.Sprint(p),
							"filter_obtained_before_the_refresh": held != nil,
						}
						firstPanic.CompareAndSwap(nil, &w)
					}
				}()
				f := held
				if f == nil {
					inWin := window.Load()
					f = e.st.ForConfig(ctx, q.config(0))
					if q.Profile == nil && inWin && window.Load() {
						groupBuildsInWindow.Add(1)
					}
				}
				_, _ = f.FilterRequest(ctx, &filter.Request{
					DNS: q.newReq(k.host(), k.QT, uint16(n)), Messages: q.Msgs, RemoteIP: q.RemoteIP,
					Host: k.host(), QType: k.QT, QClass: dns.ClassINET,
				})
			}
			for n := 0; n < readerCap && !stop.Load(); n++ {
				if pause.Load() {
					mu.Lock()
					parked++
					cond.Broadcast()
					for pause.Load() {
						cond.Wait()
					}
					parked--
					mu.Unlock()
					if held != nil {
						held = e.st.ForConfig(ctx, q.config(0))
					}
					continue
				}
				k := rlKeyOf(next, wide)
				w0 := window.Load()
				rf := refreshing.Load()
				call(k, n)
				if w0 || window.Load() {
					inWindow.Add(1)
				}
				if rf || refreshing.Load() {
					mu.Lock()
					touched[w][next%(wide*2)] = true
					mu.Unlock()
				}
				ops.Add(1)
				next++
			}
		}(w)
	}
	finish := func() {
		stop.Store(true)
		pause.Store(false)
		cond.Broadcast()
		wg.Wait()
	}
	stale := 0
	for round := 0; round < rounds; round++ {
		target := ops.Load() + warmOps
		deadline := time.Now().Add(watchdog)
		for ops.Load() < target {
			mu.Lock()
			done := finished == nReaders
			mu.Unlock()
			if done {
				break
			}
			if time.Now().After(deadline) {
				finish()
				r.Inconclusive("rule-list window: watchdog: readers made no progress")
				return false
			}
			time.Sleep(200 * time.Microsecond)
		}
		old := v
		v++
		c.RL["vl_a"] = v
		s.set(c)
		win0 := inWindow.Load()
		refreshing.Store(true)
		err = e.st.Refresh(ctx)
		pause.Store(true)
		refreshing.Store(false)
		window.Store(false)
		if err != nil {
			finish()
			r.Bucket("refresh_errors", 1)
			r.Inconclusive("rule-list window: refresh failed: " + err.Error())
			return true
		}
		mu.Lock()
		deadline = time.Now().Add(watchdog)
		for parked+finished < nReaders && time.Now().Before(deadline) {
			mu.Unlock()
			time.Sleep(100 * time.Microsecond)
			mu.Lock()
		}
		ok := parked+finished == nReaders
		keys := map[int]bool{}
		for w := range touched {
			for k := range touched[w] {
				keys[k] = true
			}
			touched[w] = map[int]bool{}
		}
		mu.Unlock()
		if !ok {
			finish()
			r.Inconclusive("rule-list window: watchdog: readers did not reach the barrier")
			return false
		}
		r.Bucket("rl_window_refreshes", 1)
		r.Bucket("rl_window_reader_calls_between_list1_recompiled_and_refresh_return", inWindow.Load()-win0)
		r.Bucket("rl_window_keys_touched_during_a_refresh", int64(len(keys)))
		r.Bucket("rl_window_group_filters_built_inside_the_window", groupBuildsInWindow.Swap(0))
		for ki := range keys {
			k := rlKeyOf(ki, wide)
			o := ask(e, groupProber, 0, query{Host: k.host(), QType: k.QT}, 98)
			r.Bucket("rl_window_probes_after_refresh_returned", 1)
			r.Bucket("rl_window_group_probes_after_refresh_returned", 1)
			good, want := rlExpect(k, v, o)
			var oc obs
			clientGood := false
			if !good || ki%3 == 0 {
				oc = ask(e, clientProber, 1, query{Host: k.host(), QType: k.QT}, 97)
				r.Bucket("rl_window_probes_after_refresh_returned", 1)
				clientGood, _ = rlExpect(k, v, oc)
				if good && !clientGood {
					o, good = oc, false
				}
			}
			if good {
				continue
			}
			stale++
			wit := map[string]any{
				"phase": "rule-list-window", "history_index": idx, "round": round, "version_before": old, "version_after": v,
				"rule": "host r<i>.vla.test is blocked by vl_a in version v iff i+v is even; vl_a is the first list of the index, the downloads after it are held back while readers ask",
				"host": k.host(), "qtype": dns.Type(k.QT).String(), "expected": want, "observed": o, "when": "query started after Refresh returned, readers at the barrier",
			}
			wit["asked_by"] = "filtering group (the same *filter.ConfigGroup that was used during the refresh)"
			if oc.Kind != "" {
				wit["same_query_by_a_profile_client"] = oc
				if o == oc {
					wit["asked_by"] = "profile client"
				}
			}
			switch okOld, _ := rlExpect(k, old, o); {
			case okOld && clientGood:
				r.Violation("stale:rulelist:group-keeps-pre-refresh-lists-after-refresh",
					"after the storage refresh RETURNED a filtering group is still answered from the previous rule-list version (its filter was assembled while the refresh was running), while a profile client already gets the new version", wit)
			case o.Kind == "panic":
				r.Violation("rulelist:panic-during-refresh", "filtering panics on a result that was cached during the storage refresh", wit)
			case okOld:
				r.Violation("stale:rulelist:result-from-refresh-window-served",
					"a query that STARTED after the storage refresh RETURNED is answered with a rule-list result of the previous version (computed while the refresh was still running)", wit)
			default:
				r.Violation("rulelist:unexplained-answer-after-refresh", "neither the old nor the new version explains the answer", wit)
			}
		}
		pause.Store(false)
		cond.Broadcast()
	}
	finish()
	if w := firstPanic.Load(); w != nil {
		(*w)["panics"] = panics.Load()
		r.Violation("rulelist:panic-during-refresh", "a filter query panicked while a storage refresh was running", *w)
	}
	r.Bucket("rl_window_reader_calls", ops.Load())
	r.Bucket("rl_window_reader_panics", panics.Load())
	r.Bucket("rl_window_stale_or_failed_probes", int64(stale))
	r.Eval(fmt.Sprintf("rl-window|history=%d", idx%2), inWindow.Load() > 0)
	return true
}
