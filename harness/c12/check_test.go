// Package c12 monitors property C12: filter result caches are invisible and
// never survive a list refresh.
//
// Twin real filterstorage.Default instances (one with production-like caches,
// one whose every registered cache is cleared before every call) are fed the
// same histories from the same local content server; a third storage built
// from scratch after every refresh is the freshness reference.  Concurrent
// histories are checked against a version-register model.
package c12

import (
	"context"
	"encoding/hex"
	"fmt"
	"math/rand/v2"
	"sort"
	"strings"
	"sync"
	"sync/atomic"
	"testing"
	"time"

	"github.com/AdguardTeam/AdGuardDNS/internal/filter"
	"github.com/AdguardTeam/AdGuardDNS/internal/metrics"
	"github.com/AdguardTeam/AdGuardDNS/internal/verifhook"
	"github.com/AdguardTeam/AdGuardDNS/verif/vkit"
	"github.com/miekg/dns"
	"github.com/prometheus/client_golang/prometheus"
	promtest "github.com/prometheus/client_golang/prometheus/testutil"
)

// hookFn is the current handler of the repository's verif hook points.
var hookFn atomic.Pointer[func(point string)]

var hookHits atomic.Int64

func installHook() {
	verifhook.Set(func(p string) {
		if p == "hashprefix.afterMatch" {
			hookHits.Add(1)
		}
		if f := hookFn.Load(); f != nil {
			(*f)(p)
		}
	})
}

func TestCheck(t *testing.T) {
	r := vkit.Start(t, "C12", "exploration")
	defer r.Finish()
	r.Rule("sequential: seeded histories of filter queries (requests and responses) from 8 requesters (5 profiles incl. two devices of one profile, " +
		"2 anonymous groups; 6 message constructors: null-IP/NXDOMAIN/REFUSED/custom-IP, TTL 0 s..1 h, EDE/SDE on/off; requests with/without EDNS, DO, CD) " +
		"interleaved with storage refreshes (rule-list versions, index membership, blocked-service index, both safe-search lists), hash-list refreshes, " +
		"custom-rule updates and queries with an outdated profile snapshot; every query runs on the cached twin, the cache-cleared twin and a storage built " +
		"from scratch after the last refresh.  One evaluated case = one query step; class = (step kind, requester, qtype, request/response, verdict kind, " +
		"filter family, sharing) where sharing says whether the same cache key was asked before by the same requester, by ANOTHER requester, or before the " +
		"last refresh/update; non-trivial = asked before by another requester or before the last refresh/update (i.e. a cache entry written by someone " +
		"else / under older content could be served).  straddle: a reader parked by the hashprefix.afterMatch hook across a completed hash-list refresh " +
		"(non-trivial = the reader was really parked and the refresh returned meanwhile).  concurrent: 8 readers x 1 refresher histories per component, " +
		"decided by an interval rule and by porcupine against a per-host version register (non-trivial = at least one read overlapped a refresh).  " +
		"safe-search stress: 16 readers cycling over 36000 (host, qtype, list) keys whose verdict changes with every version, 6 in-place refreshes per history; " +
		"after each refresh returned the readers wait at a barrier and every key they touched last is asked once.  " +
		"rule-list window: 12 readers ask for 6000 first-list keys whose verdict changes with the version while the server holds back every download after the first list; panics recovered; every key touched during the refresh is asked once after it returned.  " +
		"shared cached list: 8+8 goroutines of two profiles that share a cached list (1..6 matching rules of different kinds per probe host) but differ in an exception list, released together per (host, qtype); every verdict compared with the cache-off twin")
	r.Assume("rule lists, blocked-service lists and safe-search lists carry no client-specific modifiers ($client etc.); custom rules may")
	r.Assume("ConfigCustom.UpdateTime advances whenever the rules of a profile change (documented meaning of the field); a request that carries an OLDER " +
		"snapshot than one the storage has already seen may be answered with the newer rules (documented: the cached filter is used unless it is older than the request's UpdateTime)")
	r.Assume("refreshes of one component are sequential (one refresh worker per refresher), queries are concurrent")
	r.Assume("64-bit keyed-hash collisions of result-cache keys and 31-bit random urlfilter list-id collisions do not occur in a run")

	installHook()
	defer verifhook.Set(nil)

	s := newSrv()
	defer s.close()

	hits0 := hashHitCounters()
	cust0 := promtest.ToFloat64(metrics.FilterCustomCacheLookupsHits)

	t0 := time.Now()
	sequentialPhase(r)
	t1 := time.Now()
	straddlePhase(r, s)
	t2 := time.Now()
	concurrentPhase(r, s)
	t3 := time.Now()
	safeSearchStressPhase(r, s)
	t4 := time.Now()
	ruleListWindowPhase(r, s)
	t5 := time.Now()
	sharedCachedListPhase(r, s)
	r.Extra("phase_wall_s", map[string]float64{
		"shared_cached_list": time.Since(t5).Seconds(),
		"rule_list_window":   t5.Sub(t4).Seconds(),
		"sequential":         t1.Sub(t0).Seconds(), "straddle": t2.Sub(t1).Seconds(), "concurrent": t3.Sub(t2).Seconds(),
		"safe_search_stress": t4.Sub(t3).Seconds(),
	})

	r.Bucket("hashprefix_result_cache_hits", int64(hashHitCounters()-hits0))
	r.Bucket("custom_filter_cache_hits", int64(promtest.ToFloat64(metrics.FilterCustomCacheLookupsHits)-cust0))
	r.Bucket("hook_hits_total", hookHits.Load())

	r.Require("seq_queries", 1000)
	r.Require("seq_key_asked_before_by_other_requester", 200)
	r.Require("seq_key_asked_before_last_refresh", 100)
	r.Require("seq_queries_with_populated_caches_in_cached_twin", 1000)
	r.Require("seq_storage_refreshes", 50)
	r.Require("seq_hash_refreshes", 50)
	r.Require("seq_custom_updates", 50)
	r.Require("seq_outdated_snapshot_queries", 20)
	r.Require("seq_probe_queries", 300)
	for _, k := range zeroKinds {
		r.Require("seq_requery_of_cached_host_after_zero_rule_refresh_"+k, 40)
	}
	r.Require("hashprefix_result_cache_hits", 200)
	r.Require("custom_filter_cache_hits", 200)
	r.Require("hook_hits_total", 100)
	r.Require("straddle_interleavings_resolved", 20)
	r.Require("conc_histories_checked", 12)
	r.Require("conc_reads_overlapping_a_refresh", 50)
	r.Require("conc_reads_after_a_refresh", 200)
	r.Require("porcupine_ok", 20)
	r.Require("shared_list_concurrent_verdicts_compared_cached_storage", 60000)
	r.Require("shared_list_concurrent_verdicts_compared_cache_off_twin", 60000)
	r.Require("rl_window_refreshes", 8)
	r.Require("rl_window_group_filters_built_inside_the_window", 2000)
	r.Require("rl_window_group_probes_after_refresh_returned", 2000)
	r.Require("seq_failed_hash_refreshes", 30)
	r.Require("seq_requery_of_cached_host_after_failed_hash_refresh", 300)
	r.Require("seq_answer_name_case_pair_lower_case_first", 100)
	r.Require("seq_answer_name_case_pair_mixed_case_first", 100)
	r.Require("seq_qtype_pair_mod_256_low_type_first", 100)
	r.Require("seq_qtype_pair_mod_256_high_type_first", 100)
	r.Require("rl_window_reader_calls_between_list1_recompiled_and_refresh_return", 5000)
	r.Require("rl_window_probes_after_refresh_returned", 2000)
	r.Require("ss_stress_refreshes", 12)
	r.Require("ss_stress_reader_calls_overlapping_a_refresh", 2000)
	r.Require("ss_stress_probed_keys_touched_during_the_refresh", 200)
	r.Require("ss_stress_probes_after_refresh_returned", 2000)
}

func hashHitCounters() float64 {
	var n float64
	for _, c := range []prometheus.Counter{
		metrics.HashPrefixFilterCacheSafeBrowsingHits,
		metrics.HashPrefixFilterCacheAdultBlockingHits,
		metrics.HashPrefixFilterCacheNewRegDomainsHits,
	} {
		n += promtest.ToFloat64(c)
	}
	return n
}

// ---------------------------------------------------------------------------
// sequential histories: transparency and freshness
// ---------------------------------------------------------------------------

func isHashList(l string) bool {
	switch filter.ID(l) {
	case filter.IDAdultBlocking, filter.IDSafeBrowsing, filter.IDNewRegDomains:
		return true
	}
	return false
}

// family maps a filter-list ID of a verdict to the cache family behind it.
func family(l string) string {
	switch {
	case l == "":
		return "none"
	case isHashList(l):
		return "hashprefix"
	case strings.HasPrefix(l, "vl_"):
		return "rulelist"
	case filter.ID(l) == filter.IDBlockedService:
		return "blocked-service"
	case filter.ID(l) == filter.IDCustom:
		return "custom"
	case filter.ID(l) == filter.IDGeneralSafeSearch, filter.ID(l) == filter.IDYoutubeSafeSearch:
		return "safe-search"
	}
	return "other"
}

type prevObs struct {
	epoch    int
	cached   obs
	uncached obs
}

type seenInfo struct {
	by    map[string]bool
	epoch int
}

type seqHist struct {
	r   *vkit.Run
	s   *srv
	idx int
	rng *rand.Rand
	opt envOpt

	c                       content
	cached, uncached, fresh *env
	reqs                    []*requester

	log       []string
	mutations []string
	epoch     int
	presented map[string]map[int]bool
	seen      map[string]*seenInfo
	prev      map[string]prevObs
	hashPop   map[string]string
	hot       []query
	aborted   bool
}

func (h *seqHist) logf(format string, a ...any) {
	h.log = append(h.log, fmt.Sprintf("#%d ", len(h.log))+fmt.Sprintf(format, a...))
}

func (h *seqHist) witness(extra map[string]any) map[string]any {
	w := map[string]any{
		"phase": "sequential", "history_index": h.idx, "cache_sizes": h.opt, "content_now": h.c,
		"mutations_so_far": h.mutations,
	}
	lo := 0
	if len(h.log) > 80 {
		lo = len(h.log) - 80
	}
	w["last_steps"] = h.log[lo:]
	for k, v := range extra {
		w[k] = v
	}
	return w
}

func randContent(rng *rand.Rand) content {
	c := content{RL: map[string]int{}, Svc: map[string]int{}, Hash: map[string]int{}}
	for _, id := range ruleListIDs {
		c.RL[id] = 1 + rng.IntN(maxV)
	}
	if rng.IntN(3) == 0 {
		c.RL["vl_c"] = 0
	}
	c.Svc["svc_a"] = 1 + rng.IntN(maxV)
	c.Svc["svc_b"] = rng.IntN(maxV + 1)
	c.SSGen = 1 + rng.IntN(maxV)
	c.SSYT = 1 + rng.IntN(maxV)
	for _, k := range hashKinds {
		c.Hash[k] = rng.IntN(maxV + 1)
	}
	return c
}

func newVer(rng *rand.Rand, old, lo int) int {
	for {
		v := lo + rng.IntN(maxV+1-lo)
		if v != old {
			return v
		}
	}
}

var qtypes = []uint16{dns.TypeA, dns.TypeA, dns.TypeA, dns.TypeA, dns.TypeAAAA, dns.TypeAAAA, dns.TypeHTTPS, dns.TypeHTTPS, dns.TypeTXT, dns.TypeCNAME}

func hostPool() (pool []string) {
	for _, id := range ruleListIDs {
		l := label(id)
		for j := 1; j <= maxV+1; j++ {
			pool = append(pool, fmt.Sprintf("h%d.%s.test", j, l), fmt.Sprintf("hosts%d.%s.test", j, l))
		}
		pool = append(pool, "allow."+l+".test", "typed."+l+".test", "rw."+l+".test", "rwc."+l+".test", "rwr."+l+".test", "sub.h1."+l+".test")
	}
	for j := 1; j <= maxV+1; j++ {
		pool = append(pool, fmt.Sprintf("s%d.shared.test", j))
		for _, id := range svcIDs {
			pool = append(pool, fmt.Sprintf("s%d.%s.test", j, label(id)))
		}
		pool = append(pool, fmt.Sprintf("ss%d.gen.test", j), fmt.Sprintf("ss%d.yt.test", j))
		for _, k := range hashKinds {
			pool = append(pool, hashHost(k, j), "www."+hashHost(k, j))
		}
		for p := 0; p < 5; p++ {
			pool = append(pool, fmt.Sprintf("c%d.p%d.test", j, p))
		}
	}
	for _, id := range svcIDs {
		pool = append(pool, "fixed."+label(id)+".test")
	}
	for _, k := range hashKinds {
		pool = append(pool, "fixed."+k+".test", "x.y.z.w."+hashHost(k, 1), k+".test")
	}
	for p := 0; p < 5; p++ {
		pool = append(pool, fmt.Sprintf("crw.p%d.test", p), fmt.Sprintf("cdev.p%d.test", p))
	}
	pool = append(pool, "ssip.gen.test", "ssip.yt.test", "nothing.example.test", "test")
	return pool
}

var pool = hostPool()

func (h *seqHist) randQuery() query {
	rng := h.rng
	if rng.IntN(100) < 60 {
		return h.hot[rng.IntN(len(h.hot))]
	}
	qu := query{Host: pool[rng.IntN(len(pool))], QType: qtypes[rng.IntN(len(qtypes))]}
	if rng.IntN(100) < 15 {
		qu.Resp = true
		x, j := rng.IntN(3), 1+rng.IntN(maxV+1)
		switch rng.IntN(3) {
		case 0:
			qu.QType, qu.Ans = dns.TypeA, fmt.Sprintf("a:10.7.%d.%d", x, j)
		case 1:
			qu.Ans = fmt.Sprintf("cname:h%d.%s.test", j, label(ruleListIDs[x]))
			if rng.IntN(2) == 0 {
				qu.Ans = "cname:" + mixCase(strings.TrimPrefix(qu.Ans, "cname:"))
			}
		default:
			qu.QType, qu.Ans = dns.TypeHTTPS, fmt.Sprintf("https:10.7.%d.%d", x, j)
		}
	}
	return qu
}

func sequentialPhase(r *vkit.Run) {
	n := r.N(60, 600)
	// Histories are independent (own content server, own storages, PRNG
	// stream by history index), so several run side by side; most of their
	// wall time is the fsync of the refreshed cache files.
	const workers = 4
	idxs := make(chan int)
	var wg sync.WaitGroup
	for w := 0; w < workers; w++ {
		wg.Add(1)
		go func() {
			defer wg.Done()
			s := newSrv()
			defer s.close()
			for i := range idxs {
				runSeqHistory(r, s, i)
			}
		}()
	}
	for i := 0; i < n; i++ {
		idxs <- i
	}
	close(idxs)
	wg.Wait()
}

func runSeqHistory(r *vkit.Run, s *srv, idx int) {
	h := &seqHist{
		r: r, s: s, idx: idx, rng: r.Rand("seq", idx), opt: prodOpt,
		presented: map[string]map[int]bool{}, seen: map[string]*seenInfo{}, prev: map[string]prevObs{}, hashPop: map[string]string{},
	}
	if idx%3 == 2 {
		h.opt = tinyOpt()
	}
	h.c = randContent(h.rng)
	s.set(h.c)
	h.reqs = newRequesters()
	for _, q := range h.reqs {
		if q.Profile != nil {
			q.Profile.Ver = 1 + h.rng.IntN(3)
		}
	}
	var err error
	if h.cached, err = newEnv(s, "cached", h.opt); err != nil {
		r.Inconclusive(fmt.Sprintf("seq history %d: cannot build cached twin: %v", idx, err))
		return
	}
	defer func() { h.cached.close() }()
	uo := h.opt
	uo.ResultCache = false
	if h.uncached, err = newEnv(s, "uncached", uo); err != nil {
		r.Inconclusive(fmt.Sprintf("seq history %d: cannot build uncached twin: %v", idx, err))
		return
	}
	defer func() { h.uncached.close() }()
	if h.fresh, err = newEnv(s, "fresh", uo); err != nil {
		r.Inconclusive(fmt.Sprintf("seq history %d: cannot build reference storage: %v", idx, err))
		return
	}
	defer func() { h.fresh.close() }()
	h.mutations = append(h.mutations, "initial content "+vkit.JSON(h.c))
	for i := 0; i < 12; i++ {
		qu := query{Host: pool[h.rng.IntN(len(pool))], QType: qtypes[h.rng.IntN(len(qtypes))]}
		if i < 6 {
			// hosts whose filtered answer is a message: hash lists and rewrites
			k := hashKinds[h.rng.IntN(3)]
			qu.Host = hashHost(k, 1+h.rng.IntN(maxV))
			if i%2 == 1 {
				qu.Host = "fixed." + k + ".test"
			}
		}
		h.hot = append(h.hot, qu)
	}
	// one host whose verdict depends on the question type
	tl := label(ruleListIDs[h.rng.IntN(2)])
	h.hot = append(h.hot, query{Host: "typed." + tl + ".test", QType: dns.TypeA}, query{Host: "typed." + tl + ".test", QType: dns.TypeAAAA})
	steps := 80
	sandwichAt := 10 + h.rng.IntN(60)
	faultAt := 10 + h.rng.IntN(60)
	for st := 0; st < steps && !h.aborted; st++ {
		if st == faultAt {
			h.failedHashRefresh(hashKinds[idx%3], []string{"middle", "end", "start"}[(idx/3)%3])
		}
		if st == sandwichAt {
			h.zeroRuleSandwich(zeroKinds[idx%len(zeroKinds)])
			continue
		}
		switch w := h.rng.IntN(100); {
		case w < 72:
			q := h.reqs[h.rng.IntN(len(h.reqs))]
			h.evalQuery("query", q, q.customVer(), h.randQuery())
		case w < 77:
			h.storageRefresh(h.rng.IntN(100) < 15)
		case w < 83:
			h.hashRefresh()
		case w < 91:
			h.customUpdate()
		default:
			h.outdatedSnapshotQuery()
		}
	}
	if idx < 3 {
		lo := 0
		if len(h.log) > 12 {
			lo = len(h.log) - 12
		}
		r.Sample(map[string]any{"phase": "sequential", "history_index": idx, "mutations": h.mutations, "last_steps": h.log[lo:]})
	}
	if e := append(h.cached.errs.take(), h.uncached.errs.take()...); len(e) > 0 {
		r.Bucket("seq_errors_collected_by_code_under_test", int64(len(e)))
		r.Extra("seq_first_collected_errors", e)
	}
}

func (h *seqHist) sharing(q *requester, qu query) (s string, nontrivial bool) {
	k := qu.String()
	si := h.seen[k]
	if si == nil {
		si = &seenInfo{by: map[string]bool{}, epoch: h.epoch}
		h.seen[k] = si
	}
	defer func() { si.by[q.Name] = true; si.epoch = h.epoch }()
	other := false
	for n := range si.by {
		if n != q.Name {
			other = true
		}
	}
	switch {
	case len(si.by) == 0:
		return "first", false
	case si.epoch < h.epoch:
		h.r.Bucket("seq_key_asked_before_last_refresh", 1)
		if other {
			h.r.Bucket("seq_key_asked_before_by_other_requester", 1)
		}
		return "cross-refresh", true
	case other:
		h.r.Bucket("seq_key_asked_before_by_other_requester", 1)
		return "other-requester", true
	default:
		return "same-requester", false
	}
}

// evalQuery asks all three storages and applies the transparency and the
// sequential freshness oracle.
func (h *seqHist) evalQuery(kind string, q *requester, ver int, qu query) {
	r := h.r
	id := uint16(h.rng.IntN(65536))
	if n := h.cached.mgr.items(); n > 0 {
		r.Bucket("seq_queries_with_populated_caches_in_cached_twin", 1)
	}
	oc := ask(h.cached, q, ver, qu, id)
	h.uncached.mgr.clearAll()
	if n := h.uncached.mgr.items(); n != 0 {
		r.Inconclusive(fmt.Sprintf("uncached twin still holds %d cache items after clearing every registered cache", n))
	}
	ou := ask(h.uncached, q, ver, qu, id)
	h.fresh.mgr.clearAll()
	of := ask(h.fresh, q, ver, qu, id)

	r.Bucket("seq_queries", 1)
	if kind == "probe" {
		r.Bucket("seq_probe_queries", 1)
	}
	r.Bucket("seq_verdict_"+ou.Kind+"_"+family(ou.List), 1)
	share, nontrivial := h.sharing(q, qu)
	dir := "req"
	if qu.Resp {
		dir = "resp"
	}
	r.Eval(strings.Join([]string{kind, q.Name, dns.Type(qu.QType).String(), dir, ou.Kind, family(ou.List), share}, "|"), nontrivial)
	h.logf("%s %s custom_v%d %s: cached=%s uncached=%s fresh=%s", kind, q.Name, ver, qu, short(oc), short(ou), short(of))

	pk := q.Name + "|" + qu.String()
	defer func() { h.prev[pk] = prevObs{h.epoch, oc, ou} }()

	// who populated the hash-prefix result-cache entry this query may hit
	popBy := ""
	if isHashList(ou.List) && (ou.Kind == "modreq" || ou.Kind == "modresp") {
		hk := fmt.Sprintf("%s|%s|%d", ou.List, strings.ToLower(qu.Host), qu.QType)
		if v, ok := h.hashPop[hk]; ok {
			popBy = v
		} else {
			h.hashPop[hk] = q.Name + " {" + q.Ident + "}"
		}
	}

	if q.Profile != nil {
		m := h.presented[q.Profile.ID]
		if m == nil {
			m = map[int]bool{}
			h.presented[q.Profile.ID] = m
		}
		defer func() { m[ver] = true }()
		// outdated snapshot: newer rules already seen by the storage may be used
		var newer []int
		if q.Profile.Enabled {
			for v := range m {
				if v > ver {
					newer = append(newer, v)
				}
			}
		}
		if len(newer) > 0 && !oc.eq(ou) {
			sort.Ints(newer)
			for _, v := range newer {
				h.fresh.mgr.clearAll()
				if alt := ask(h.fresh, q, v, qu, id); oc.eq(alt) {
					r.Bucket("seq_outdated_snapshot_answered_with_newer_custom_rules", 1)
					if !ou.eq(of) {
						h.violate("refresh:cache-free-twin-differs-from-storage-built-from-served-content:"+family(pick(of.List, ou.List)),
							"the cache-cleared twin and a storage built from scratch from the same served content disagree", q, ver, qu, oc, ou, of, nil)
					}
					return
				}
			}
		}
	}

	if !ou.eq(of) {
		h.violate("refresh:cache-free-twin-differs-from-storage-built-from-served-content:"+family(pick(of.List, ou.List)),
			"the cache-cleared twin and a storage built from scratch from the same served content disagree (refresh did not apply the served version, or filtering is not a function of content)",
			q, ver, qu, oc, ou, of, nil)
	}
	if oc.eq(ou) {
		return
	}
	// transparency is violated; name the class
	extra := map[string]any{}
	if popBy != "" {
		extra["hashprefix_cache_entry_first_written_for"] = popBy
		extra["this_requester"] = q.Name + " {" + q.Ident + "}"
	}
	switch {
	case oc.Kind == "panic" || oc.Kind == "error":
		h.violate("failure:cached-twin-"+oc.Kind+":"+family(pick(ou.List, oc.List)), "the cached storage fails where the cache-free twin answers", q, ver, qu, oc, ou, of, extra)
	case oc.verdictEq(ou) && isHashList(oc.List) && popBy != "":
		same := strings.HasSuffix(popBy, "{"+q.Ident+"}")
		switch {
		case oc.Kind == "modresp" && rcodeOnly(oc, ou):
			h.violate("hashprefix:result-cache-hit-resets-rcode-to-noerror",
				"a blocked response with a non-zero RCODE (NXDOMAIN / REFUSED blocking mode, HTTPS question) comes back from the hash-prefix result cache with RCODE NOERROR and is otherwise identical",
				q, ver, qu, oc, ou, of, extra)
		case same:
			h.violate("hashprefix:result-cache-hit-changes-response-for-identical-requester",
				"a hash-prefix result served from the result cache differs from the freshly built one although the entry was written for a requester with identical constructor settings and request shape",
				q, ver, qu, oc, ou, of, extra)
		case oc.Kind == "modreq":
			h.violate("hashprefix:result-cache-serves-first-requesters-request",
				"the rewritten REQUEST served from the hash-prefix result cache is the first requester's request message (its EDNS/DO/flags), not one derived from this request",
				q, ver, qu, oc, ou, of, extra)
		default:
			h.violate("hashprefix:result-cache-serves-first-requesters-message",
				"the filtered RESPONSE served from the hash-prefix result cache was built with the first requester's message constructor (TTL / blocking mode / EDE), not with this requester's",
				q, ver, qu, oc, ou, of, extra)
		}
	case oc.verdictEq(ou):
		h.violate("transparency:"+family(oc.List)+":message-differs", "same verdict but a different filtered message with caches enabled", q, ver, qu, oc, ou, of, extra)
	default:
		fam := family(pick(ou.List, oc.List))
		if p, ok := h.prev[pk]; ok && p.epoch < h.epoch && oc.eq(p.cached) && !ou.eq(p.uncached) {
			extra["answer_before_the_last_refresh_or_update"] = p
			h.violate("stale:"+fam+":pre-refresh-result-served", "after a refresh/update returned, the cached storage still gives the answer computed with the old version", q, ver, qu, oc, ou, of, extra)
		} else {
			h.violate("transparency:"+fam+":verdict-differs", "verdict (kind / list / rule) differs between the cached storage and its cache-free twin", q, ver, qu, oc, ou, of, extra)
		}
	}
}

// rcodeOnly reports whether the two filtered messages differ in the RCODE
// only, the cached one being NOERROR.
func rcodeOnly(cached, fresh obs) bool {
	unpack := func(o obs) *dns.Msg {
		b, err := hex.DecodeString(o.Wire)
		if err != nil {
			return nil
		}
		m := &dns.Msg{}
		if m.Unpack(b) != nil {
			return nil
		}
		return m
	}
	mc, mf := unpack(cached), unpack(fresh)
	if mc == nil || mf == nil || mc.Rcode != dns.RcodeSuccess || mf.Rcode == dns.RcodeSuccess {
		return false
	}
	mf.Rcode = dns.RcodeSuccess
	wc, _ := packNorm(mc)
	wf, _ := packNorm(mf)
	return wc == wf
}

func pick(a, b string) string {
	if a != "" {
		return a
	}
	return b
}

func short(o obs) string {
	s := o.Kind
	if o.List != "" {
		s += ":" + o.List + ":" + o.Rule
	}
	if o.Wire != "" {
		w := o.Wire
		if len(w) > 16 {
			w = fmt.Sprintf("%s..(%d)", w[len(w)-16:], len(w)/2)
		}
		s += ":" + w
	}
	if o.Err != "" {
		s += ":" + o.Err
	}
	return s
}

func (h *seqHist) violate(key, what string, q *requester, ver int, qu query, oc, ou, of obs, extra map[string]any) {
	w := h.witness(map[string]any{
		"requester": q.Name, "requester_settings": q.Ident, "custom_rules_version": ver, "query": qu, "query_str": qu.String(),
		"cached_storage": oc, "cache_cleared_twin": ou, "storage_built_from_current_content": of,
	})
	for k, v := range extra {
		w[k] = v
	}
	h.r.Violation(key, what, w)
}

func (h *seqHist) enabledFor(comp string) (out []*requester) {
	for _, q := range h.reqs {
		ok := false
		switch {
		case strings.HasPrefix(comp, "vl_"):
			for _, id := range q.RuleLists {
				ok = ok || string(id) == comp
			}
		case strings.HasPrefix(comp, "svc_"):
			for _, id := range q.Parental.BlockedServices {
				ok = ok || (q.Parental.Enabled && string(id) == comp)
			}
		case comp == "gen":
			ok = q.Parental.Enabled && q.Parental.SafeSearchGeneralEnabled
		case comp == "yt":
			ok = q.Parental.Enabled && q.Parental.SafeSearchYouTubeEnabled
		case comp == "adult":
			ok = q.Parental.Enabled && q.Parental.AdultBlockingEnabled
		case comp == "danger":
			ok = q.SafeBrows.Enabled && q.SafeBrows.DangerousDomainsEnabled
		case comp == "newreg":
			ok = q.SafeBrows.Enabled && q.SafeBrows.NewlyRegisteredDomainsEnabled
		}
		if ok {
			out = append(out, q)
		}
	}
	return out
}

// probe asks, right after a change returned, for hosts whose verdict differs
// between the old and the new version.
func (h *seqHist) probe(comp string, old, nw int, hostOf func(j int) []string, who []*requester) {
	if len(who) == 0 || h.aborted {
		return
	}
	lo, hi := max(old, 0), max(nw, 0)
	if lo == hi {
		return
	}
	if lo > hi {
		lo, hi = hi, lo
	}
	js := []int{lo + 1, hi}
	if lo+1 == hi {
		js = js[:1]
	}
	for _, j := range js {
		hosts := hostOf(j)
		// the first host is the version probe proper, the others rotate
		hosts = append(hosts[:1:1], hosts[1:][h.rng.IntN(len(hosts)-1):][:1]...)
		for n, host := range hosts {
			q := who[h.rng.IntN(len(who))]
			qt := uint16(dns.TypeA)
			if n > 0 {
				qt = []uint16{dns.TypeAAAA, dns.TypeHTTPS, dns.TypeA}[h.rng.IntN(3)]
			}
			h.evalQuery("probe", q, q.customVer(), query{Host: host, QType: qt})
		}
	}
}

func (h *seqHist) checkFetched(before map[string]int, paths []string, per int) bool {
	after := h.s.snapshotHits()
	for _, p := range paths {
		if after[p]-before[p] < per {
			h.r.Bucket("ambiguous_refresh_did_not_download", 1)
			h.logf("ABORT: refresh did not download %s (%d fetches, want %d): wall clock moved backwards?", p, after[p]-before[p], per)
			h.aborted = true
			return false
		}
	}
	return true
}

// rebuildFresh replaces the reference storage by one constructed from scratch
// from the currently served content: a new hash-prefix filter for the hash
// list that changed (hashKind), and in every case a new storage object (which
// downloads everything again if the storage content changed).
func (h *seqHist) rebuildFresh(hashKind string, storageChanged bool) bool {
	var err error
	if hashKind != "" {
		err = h.fresh.buildHash(hashKind)
	}
	if err == nil {
		err = h.fresh.buildStorage(storageChanged)
	}
	if err != nil {
		h.r.Inconclusive(fmt.Sprintf("seq history %d: cannot rebuild reference storage: %v", h.idx, err))
		h.aborted = true
		return false
	}
	return true
}

func (h *seqHist) storageRefresh(noChange bool) {
	rng := h.rng
	old := h.c.clone()
	if !noChange {
		changed := false
		for !changed {
			for _, id := range ruleListIDs {
				if rng.IntN(100) < 40 {
					lo := 1
					if id != "vl_a" && rng.IntN(4) == 0 {
						lo = 0
					}
					h.c.RL[id] = newVer(rng, h.c.RL[id], lo)
					changed = true
				}
			}
			for _, id := range svcIDs {
				if rng.IntN(100) < 30 {
					h.c.Svc[id] = newVer(rng, h.c.Svc[id], 0)
					changed = true
				}
			}
			if rng.IntN(100) < 30 {
				h.c.SSGen, changed = newVer(rng, h.c.SSGen, 0), true
			}
			if rng.IntN(100) < 20 {
				h.c.SSYT, changed = newVer(rng, h.c.SSYT, 0), true
			}
		}
	}
	if h.applyStorageContent() {
		h.probeStorageChanges(old)
	}
}

// applyStorageContent serves h.c and refreshes both twins and the reference.
func (h *seqHist) applyStorageContent() (ok bool) {
	h.s.set(h.c)
	before := h.s.snapshotHits()
	ctx := context.Background()
	for _, e := range []*env{h.cached, h.uncached} {
		if err := e.st.Refresh(ctx); err != nil {
			h.r.Bucket("refresh_errors", 1)
			h.r.Inconclusive(fmt.Sprintf("seq history %d: storage refresh of %s failed: %v", h.idx, e.name, err))
			h.aborted = true
			return false
		}
	}
	paths := []string{"/rl/index", "/svc/index", "/ss/gen", "/ss/yt"}
	for _, id := range ruleListIDs {
		if h.c.RL[id] != 0 {
			paths = append(paths, "/rl/"+id)
		}
	}
	if !h.checkFetched(before, paths, 2) || !h.rebuildFresh("", true) {
		return false
	}
	h.epoch++
	h.r.Bucket("seq_storage_refreshes", 1)
	m := fmt.Sprintf("step %d: served content := %s; Refresh() of both twins returned", len(h.log), vkit.JSON(h.c))
	h.mutations = append(h.mutations, m)
	h.logf("storage-refresh %s", vkit.JSON(h.c))
	return true
}

// probeStorageChanges asks for hosts whose verdict differs between old and h.c.
func (h *seqHist) probeStorageChanges(old content) {
	rng := h.rng
	for x, id := range ruleListIDs {
		if old.RL[id] != h.c.RL[id] {
			l := label(id)
			h.probe(id, old.RL[id], h.c.RL[id], func(j int) []string {
				return []string{fmt.Sprintf("h%d.%s.test", j, l), fmt.Sprintf("s%d.shared.test", j), fmt.Sprintf("hosts%d.%s.test", j, l)}
			}, h.enabledFor(id))
			who := h.enabledFor(id)
			if len(who) > 0 && !h.aborted {
				q := who[rng.IntN(len(who))]
				h.evalQuery("probe", q, q.customVer(), query{Host: "rw." + l + ".test", QType: dns.TypeA})
				h.evalQuery("probe", q, q.customVer(), query{Host: "rwc." + l + ".test", QType: dns.TypeA})
				qts := []uint16{dns.TypeAAAA, dns.TypeA}
				if rng.IntN(2) == 0 {
					qts = []uint16{dns.TypeA, dns.TypeAAAA}
				}
				for _, qt := range qts {
					h.evalQuery("probe", q, q.customVer(), query{Host: "typed." + l + ".test", QType: qt})
				}
				h.qtypePairs(q, l)
				h.answerCasePair(q, fmt.Sprintf("h%d.%s.test", 1+rng.IntN(max(h.c.RL[id], 1)), l))
				j := max(h.c.RL[id], old.RL[id], 1)
				h.evalQuery("probe", q, q.customVer(), query{Host: "answer.example.test", QType: dns.TypeA, Resp: true, Ans: fmt.Sprintf("a:10.7.%d.%d", x, j)})
			}
		}
	}
	for _, id := range svcIDs {
		if old.Svc[id] != h.c.Svc[id] {
			l := label(id)
			h.probe(id, old.Svc[id], h.c.Svc[id], func(j int) []string { return []string{fmt.Sprintf("s%d.%s.test", j, l), "fixed." + l + ".test"} }, h.enabledFor(id))
			if who := h.enabledFor(id); len(who) > 0 && h.c.Svc[id] > 0 && !h.aborted {
				h.qtypePair(who[h.rng.IntN(len(who))], "typed."+l+".test", dns.TypeAAAA)
				h.answerCasePair(who[h.rng.IntN(len(who))], fmt.Sprintf("s%d.%s.test", 1+h.rng.IntN(h.c.Svc[id]), l))
			}
		}
	}
	if old.SSGen != h.c.SSGen {
		h.probe("gen", old.SSGen, h.c.SSGen, func(j int) []string { return []string{fmt.Sprintf("ss%d.gen.test", j), "ssip.gen.test"} }, h.enabledFor("gen"))
	}
	if old.SSYT != h.c.SSYT {
		h.probe("yt", old.SSYT, h.c.SSYT, func(j int) []string { return []string{fmt.Sprintf("ss%d.yt.test", j), "ssip.yt.test"} }, h.enabledFor("yt"))
	}
}

func (h *seqHist) hashRefresh() {
	k := hashKinds[h.rng.IntN(3)]
	h.hashRefreshTo(k, newVer(h.rng, h.c.Hash[k], 0))
}

func (h *seqHist) hashRefreshTo(k string, nv int) {
	old := h.c.Hash[k]
	h.c.Hash[k] = nv
	h.s.set(h.c)
	before := h.s.snapshotHits()
	ctx := context.Background()
	for _, e := range []*env{h.cached, h.uncached} {
		if err := e.hp[k].Refresh(ctx); err != nil {
			h.r.Bucket("refresh_errors", 1)
			h.r.Inconclusive(fmt.Sprintf("seq history %d: hash-list refresh of %s/%s failed: %v", h.idx, e.name, k, err))
			h.aborted = true
			return
		}
	}
	if !h.checkFetched(before, []string{"/hp/" + k}, 2) || !h.rebuildFresh(k, false) {
		return
	}
	h.epoch++
	h.r.Bucket("seq_hash_refreshes", 1)
	l := string(hashFilterID(k))
	for hk := range h.hashPop {
		if strings.HasPrefix(hk, l+"|") {
			delete(h.hashPop, hk)
		}
	}
	h.mutations = append(h.mutations, fmt.Sprintf("step %d: served hash list %s := version %d (was %d); Refresh() of that filter in both twins returned", len(h.log), k, h.c.Hash[k], old))
	h.logf("hash-refresh %s v%d -> v%d", k, old, h.c.Hash[k])
	h.probe(k, old, h.c.Hash[k], func(j int) []string { return []string{hashHost(k, j), "www." + hashHost(k, j)} }, h.enabledFor(k))
	if k != "adult" && !h.aborted {
		// a blocked response with a non-zero RCODE (HTTPS question, NXDOMAIN or
		// REFUSED blocking mode), asked twice by the same requester
		var who []*requester
		for _, q := range h.enabledFor(k) {
			if strings.Contains(q.Ident, "mode=nxdomain") || strings.Contains(q.Ident, "mode=refused") {
				who = append(who, q)
			}
		}
		if len(who) > 0 {
			q := who[h.rng.IntN(len(who))]
			for i := 0; i < 2; i++ {
				h.evalQuery("probe", q, q.customVer(), query{Host: "fixed." + k + ".test", QType: dns.TypeHTTPS})
			}
		}
	}
}

func (h *seqHist) customUpdate() {
	var ps []*requester
	for _, q := range h.reqs {
		if q.Profile != nil {
			ps = append(ps, q)
		}
	}
	q := ps[h.rng.IntN(len(ps))]
	p := q.Profile
	old := p.Ver
	p.Ver += 1 + h.rng.IntN(2)
	h.epoch++
	h.r.Bucket("seq_custom_updates", 1)
	h.mutations = append(h.mutations, fmt.Sprintf("step %d: custom rules of %s := version %d (was %d), UpdateTime advanced", len(h.log), p.ID, p.Ver, old))
	h.logf("custom-update %s v%d -> v%d", p.ID, old, p.Ver)
	var who []*requester
	for _, x := range h.reqs {
		if x.Profile == p {
			who = append(who, x)
		}
	}
	// a custom rule with a $client modifier, asked by every device of the profile
	for _, x := range who {
		h.evalQuery("probe", x, x.customVer(), query{Host: fmt.Sprintf("cdev.p%d.test", p.Idx), QType: dns.TypeA})
	}
	h.probe("custom", old, p.Ver, func(j int) []string {
		return []string{fmt.Sprintf("c%d.p%d.test", j, p.Idx), fmt.Sprintf("crw.p%d.test", p.Idx), "h2.vlb.test"}
	}, who)
}

// outdatedSnapshotQuery is a request that still carries an older snapshot of
// its profile (older UpdateTime, older rules) than the storage has seen.
func (h *seqHist) outdatedSnapshotQuery() {
	var ps []*requester
	for _, q := range h.reqs {
		if q.Profile != nil && q.Profile.Ver >= 2 {
			ps = append(ps, q)
		}
	}
	if len(ps) == 0 {
		return
	}
	q := ps[h.rng.IntN(len(ps))]
	ver := q.Profile.Ver - 1 - h.rng.IntN(2)
	if ver < 0 {
		ver = 0
	}
	h.r.Bucket("seq_outdated_snapshot_queries", 1)
	host := fmt.Sprintf("c%d.p%d.test", ver+1+h.rng.IntN(2), q.Profile.Idx)
	switch h.rng.IntN(4) {
	case 0:
		host = fmt.Sprintf("crw.p%d.test", q.Profile.Idx)
	case 1:
		host = h.hot[h.rng.IntN(len(h.hot))].Host
	}
	h.evalQuery("outdated-snapshot", q, ver, query{Host: host, QType: dns.TypeA})
}

// zeroKinds are the refreshable list kinds that get a version which is a
// non-empty file compiling to zero rules.
var zeroKinds = []string{"safe-search-general", "rule-list", "safe-search-youtube", "blocked-service", "hash-list"}

type askedPair struct {
	q  *requester
	qu query
}

// zeroRuleSandwich drives one list through v_k -> zero rules -> v_k+1 -> v_k.
// Hosts that version v_k filters are asked (and so cached) before, and asked
// again by the same requesters after the refresh to the zero-rule version; the
// twin and the rebuilt-from-scratch oracles of evalQuery apply unchanged.
func (h *seqHist) zeroRuleSandwich(kind string) {
	rng := h.rng
	var (
		comp   string
		get    func() int
		set    func(v int)
		hostsV func(j int) []query
		extra  []query
	)
	a := func(host string, qts ...uint16) (qs []query) {
		for _, qt := range qts {
			qs = append(qs, query{Host: host, QType: qt})
		}
		return qs
	}
	isHash := false
	switch kind {
	case "rule-list":
		x := rng.IntN(2)
		id := ruleListIDs[x]
		l := label(id)
		comp = id
		get, set = func() int { return h.c.RL[id] }, func(v int) { h.c.RL[id] = v }
		hostsV = func(j int) []query {
			return append(a(fmt.Sprintf("h%d.%s.test", j, l), dns.TypeA, dns.TypeAAAA), a(fmt.Sprintf("hosts%d.%s.test", j, l), dns.TypeA)...)
		}
		extra = append(a("rw."+l+".test", dns.TypeA), a("typed."+l+".test", dns.TypeAAAA)...)
		extra = append(extra, query{Host: "answer.example.test", QType: dns.TypeA, Resp: true, Ans: fmt.Sprintf("a:10.7.%d.1", x)})
	case "safe-search-general", "safe-search-youtube":
		k := map[string]string{"safe-search-general": "gen", "safe-search-youtube": "yt"}[kind]
		comp = k
		if k == "gen" {
			get, set = func() int { return h.c.SSGen }, func(v int) { h.c.SSGen = v }
		} else {
			get, set = func() int { return h.c.SSYT }, func(v int) { h.c.SSYT = v }
		}
		hostsV = func(j int) []query { return a(fmt.Sprintf("ss%d.%s.test", j, k), dns.TypeA, dns.TypeHTTPS) }
		extra = a("ssip."+k+".test", dns.TypeA, dns.TypeAAAA)
	case "blocked-service":
		id := svcIDs[rng.IntN(2)]
		l := label(id)
		comp = id
		get, set = func() int { return h.c.Svc[id] }, func(v int) { h.c.Svc[id] = v }
		hostsV = func(j int) []query { return a(fmt.Sprintf("s%d.%s.test", j, l), dns.TypeA, dns.TypeAAAA) }
		extra = a("fixed."+l+".test", dns.TypeA)
	default:
		k := hashKinds[rng.IntN(3)]
		comp, isHash = k, true
		get = func() int { return h.c.Hash[k] }
		hostsV = func(j int) []query { return a(hashHost(k, j), dns.TypeA, dns.TypeHTTPS) }
		extra = append(a("fixed."+k+".test", dns.TypeA, dns.TypeAAAA), a("www."+hashHost(k, 1), dns.TypeA)...)
	}
	who := h.enabledFor(comp)
	if len(who) == 0 {
		return
	}
	refreshTo := func(v int) bool {
		if isHash {
			h.hashRefreshTo(comp, v)
			return !h.aborted
		}
		old := h.c.clone()
		set(v)
		if !h.applyStorageContent() {
			return false
		}
		h.probeStorageChanges(old)
		return !h.aborted
	}
	vk := get()
	if vk < 1 {
		vk = 1 + rng.IntN(maxV-1)
		if !refreshTo(vk) {
			return
		}
	}
	if vk >= maxV {
		vk = maxV - 1
		if !refreshTo(vk) {
			return
		}
	}
	// hosts filtered under v_k, asked now so that their results are cached
	var qs []query
	for j := 1; j <= min(vk, 3); j++ {
		qs = append(qs, hostsV(j)...)
	}
	qs = append(qs, extra...)
	var asked []askedPair
	for _, qu := range qs {
		for n := 0; n < 2; n++ {
			q := who[rng.IntN(len(who))]
			asked = append(asked, askedPair{q, qu})
			h.evalQuery("before-zero-rule-version", q, q.customVer(), qu)
		}
	}
	if h.aborted || !refreshTo(zeroRules) {
		return
	}
	h.r.Bucket("seq_refreshes_to_zero_rule_version_"+kind, 1)
	for _, p := range asked {
		if h.aborted {
			return
		}
		h.evalQuery("after-zero-rule-version", p.q, p.q.customVer(), p.qu)
		h.r.Bucket("seq_requery_of_cached_host_after_zero_rule_refresh_"+kind, 1)
	}
	if !refreshTo(vk + 1) {
		return
	}
	for _, p := range asked[:min(len(asked), 6)] {
		h.evalQuery("probe", p.q, p.q.customVer(), p.qu)
	}
	if !refreshTo(vk) {
		return
	}
	for _, p := range asked[:min(len(asked), 6)] {
		h.evalQuery("probe", p.q, p.q.customVer(), p.qu)
	}
}

// qtypePair asks for host with question type low and low+256, in a seeded
// order, one right after the other: two types that differ by 256 are different
// cache keys (a list rule with $dnstype matches only one of them).
func (h *seqHist) qtypePair(q *requester, host string, low uint16) {
	if h.aborted {
		return
	}
	qts := []uint16{low, low + 256}
	b := "seq_qtype_pair_mod_256_low_type_first"
	if h.rng.IntN(2) == 0 {
		qts = []uint16{low + 256, low}
		b = "seq_qtype_pair_mod_256_high_type_first"
	}
	for _, qt := range qts {
		h.evalQuery("probe", q, q.customVer(), query{Host: host, QType: qt})
	}
	h.r.Bucket(b, 1)
}

// qtypePairs: the type-specific rules of rule list l against A/CAA(257) and
// AAAA/TYPE284.
func (h *seqHist) qtypePairs(q *requester, l string) {
	h.qtypePair(q, "typed."+l+".test", dns.TypeAAAA) // rule for AAAA
	h.qtypePair(q, "typeda."+l+".test", dns.TypeA)   // rule for A
	h.qtypePair(q, "typedc."+l+".test", dns.TypeA)   // rule for CAA (257)
}

// mixCase spells a name the way an upstream may: same name, other letter case.
func mixCase(name string) string {
	b := []byte(name)
	for i := range b {
		if i%2 == 0 && b[i] >= 'a' && b[i] <= 'z' {
			b[i] -= 'a' - 'A'
		}
	}
	return string(b)
}

// answerCasePair filters two upstream responses whose CNAME target is the same
// name in two spellings (lower case and mixed case), in a seeded order, one
// right after the other: whatever the filter makes of either spelling, it must
// be the same with and without result caches.
func (h *seqHist) answerCasePair(q *requester, target string) {
	if h.aborted {
		return
	}
	spellings := []string{target, mixCase(target)}
	b := "seq_answer_name_case_pair_lower_case_first"
	if h.rng.IntN(2) == 0 {
		spellings = []string{mixCase(target), target}
		b = "seq_answer_name_case_pair_mixed_case_first"
	}
	for _, sp := range spellings {
		h.evalQuery("probe", q, q.customVer(), query{Host: "answer.example.test", QType: dns.TypeA, Resp: true, Ans: "cname:" + sp})
	}
	h.r.Bucket(b, 1)
}

// failedHashRefresh warms the result cache of one hash-prefix filter, then lets
// its refresh download a corrupted list (valid, CHANGED head, then a line that
// no line scanner accepts), and asks everything again.  Whatever the storage
// holds afterwards, cache on and cache off must agree; and if the refresh
// reported an error, the verdicts must be those of the previous version (the
// reference storage is not rebuilt).
func (h *seqHist) failedHashRefresh(k, form string) {
	rng := h.rng
	who := h.enabledFor(k)
	if len(who) == 0 || h.aborted {
		return
	}
	old := h.c.Hash[k]
	if old < 1 || old >= maxV {
		old = 1 + rng.IntN(maxV-1)
		h.hashRefreshTo(k, old)
		if h.aborted {
			return
		}
	}
	head := newVer(rng, old, 0)
	// hosts listed before, hosts listed only in the head of the corrupted
	// list, hosts listed in neither: positive and negative cached results
	var asked []askedPair
	for j := 1; j <= maxV; j++ {
		for _, qt := range []uint16{dns.TypeA, dns.TypeHTTPS} {
			if qt == dns.TypeHTTPS && j%2 == 0 {
				continue
			}
			asked = append(asked, askedPair{who[rng.IntN(len(who))], query{Host: hashHost(k, j), QType: qt}})
		}
	}
	asked = append(asked,
		askedPair{who[rng.IntN(len(who))], query{Host: "fixed." + k + ".test", QType: dns.TypeA}},
		askedPair{who[rng.IntN(len(who))], query{Host: "tail." + k + ".test", QType: dns.TypeA}},
		askedPair{who[rng.IntN(len(who))], query{Host: "www." + hashHost(k, max(old, head)), QType: dns.TypeAAAA}},
	)
	for _, p := range asked {
		h.evalQuery("before-failed-hash-refresh", p.q, p.q.customVer(), p.qu)
	}
	if h.aborted {
		return
	}
	h.c.Hash[k] = head
	if h.c.HashFault == nil {
		h.c.HashFault = map[string]string{}
	}
	h.c.HashFault[k] = form
	h.s.set(h.c)
	before := h.s.snapshotHits()
	var errs []string
	for _, e := range []*env{h.cached, h.uncached} {
		if err := e.hp[k].Refresh(context.Background()); err != nil {
			errs = append(errs, err.Error())
		}
	}
	delete(h.c.HashFault, k)
	if !h.checkFetched(before, []string{"/hp/" + k}, 2) {
		return
	}
	switch len(errs) {
	case 2:
		// the refresh was rejected: the previous version stays in force
		h.c.Hash[k] = old
		h.r.Bucket("seq_failed_hash_refreshes", 1)
	case 0:
		// the corrupted list was accepted: the reference is whatever a new
		// filter makes of the same body
		h.r.Bucket("seq_corrupted_hash_list_accepted", 1)
		h.c.HashFault[k] = form
		h.s.set(h.c)
		ok := h.rebuildFresh(k, false)
		delete(h.c.HashFault, k)
		if !ok {
			return
		}
	default:
		h.r.Inconclusive(fmt.Sprintf("seq history %d: the twins disagree on whether the corrupted hash list was accepted: %v", h.idx, errs))
		h.aborted = true
		return
	}
	h.s.set(h.c)
	h.epoch++
	m := fmt.Sprintf("step %d: served hash list %s := version %d followed by an over-long line (%s); Refresh() of that filter in both twins returned errors %q (list version before: %d)",
		len(h.log), k, head, form, errs, old)
	h.mutations = append(h.mutations, m)
	h.logf("failed-hash-refresh %s v%d -> corrupted v%d (%s): %d errors", k, old, head, form, len(errs))
	for _, p := range asked {
		if h.aborted {
			return
		}
		h.evalQuery("after-failed-hash-refresh", p.q, p.q.customVer(), p.qu)
		h.r.Bucket("seq_requery_of_cached_host_after_failed_hash_refresh", 1)
	}
}
