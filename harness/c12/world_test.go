package c12

// The world of the C12 check: versioned filter content served by one local
// HTTP server, environments (a real filterstorage.Default plus three real
// hashprefix.Filter instances around a remembering cache manager), and the
// requesters (profiles / anonymous groups with different message constructors
// and request shapes).

import (
	"context"
	"encoding/hex"
	"encoding/json"
	"fmt"
	"io"
	"log/slog"
	"net"
	"net/http"
	"net/http/httptest"
	"net/netip"
	"net/url"
	"os"
	"path/filepath"
	"sort"
	"strings"
	"sync"
	"sync/atomic"
	"time"

	"github.com/AdguardTeam/AdGuardDNS/internal/agdcache"
	"github.com/AdguardTeam/AdGuardDNS/internal/dnsmsg"
	"github.com/AdguardTeam/AdGuardDNS/internal/filter"
	"github.com/AdguardTeam/AdGuardDNS/internal/filter/filterstorage"
	"github.com/AdguardTeam/AdGuardDNS/internal/filter/hashprefix"
	"github.com/c2h5oh/datasize"
	"github.com/miekg/dns"
)

// zeroRules is the version number of "a non-empty file that compiles to zero
// rules" (comments and blank lines only): the list exists and refreshes fine,
// but filters nothing.
const zeroRules = -1

const zeroRulesText = "! this list has been retired\n\n# nothing is filtered any more\n\n! end\n"

// maxV is the largest version of any piece of content.  Version v of a list
// blocks the hosts number 1..v, so hosts 1..maxV+1 probe every version.
const maxV = 5

var (
	ruleListIDs = []string{"vl_a", "vl_b", "vl_c"}
	svcIDs      = []string{"svc_a", "svc_b"}
	hashKinds   = []string{"adult", "danger", "newreg"}
)

// label turns an identifier into a DNS label ("vl_a" -> "vla").
func label(id string) string { return strings.ReplaceAll(id, "_", "") }

func hashFilterID(kind string) filter.ID {
	switch kind {
	case "adult":
		return filter.IDAdultBlocking
	case "danger":
		return filter.IDSafeBrowsing
	default:
		return filter.IDNewRegDomains
	}
}

// hashReplacement: adult rewrites the request to a block-page host (the
// production shape), the two others answer with a block-page address.
func hashReplacement(kind string) string {
	switch kind {
	case "adult":
		return "adult-block.repl.test"
	case "danger":
		return "192.0.2.55"
	default:
		return "2001:db8::55"
	}
}

// content is the state of everything the HTTP server serves.
type content struct {
	RL     map[string]int `json:"rule_lists"` // 0 = not in the index
	Svc    map[string]int `json:"services"`   // 0 = not in the index
	SSGen  int            `json:"safe_search_general"`
	SSYT   int            `json:"safe_search_youtube"`
	Hash   map[string]int `json:"hash_lists"`
	Filler int            `json:"filler_rules,omitempty"`
	// Wide > 0 adds to both safe-search lists the hosts w<i>.<kind>.test,
	// 0 <= i < Wide: host i is rewritten in version v iff i+v is even, to
	// safe<v>.<kind>.test, so the verdict of EVERY host changes with v+1.
	Wide int `json:"wide_safe_search_hosts,omitempty"`
	// WideRL > 0 adds to rule list vl_a the hosts r<i>.vla.test, 0 <= i <
	// WideRL: host i is blocked in version v iff i+v is even.
	WideRL int `json:"wide_rule_list_hosts,omitempty"`
	// Spare adds the rule lists vs_shared, vs_allow and vs_extra (see
	// spare_test.go) to the index.
	Spare bool `json:"spare_lists,omitempty"`
	// HashFault, per hash list: the served body is corrupted.  The head is the
	// valid list of version Hash[kind]; then comes a line that is longer than
	// the 64 KiB a line scanner accepts ("middle": more valid hosts follow,
	// "end": the over-long line ends the body without a newline, "start": the
	// over-long line comes first).
	HashFault map[string]string `json:"hash_list_fault,omitempty"`
	// HashFiller unrelated hosts are put in FRONT of every hash list, so that
	// resetting the hash storage takes a while.
	HashFiller int `json:"hash_list_filler_hosts,omitempty"`
}

func (c content) clone() content {
	n := content{RL: map[string]int{}, Svc: map[string]int{}, Hash: map[string]int{}, SSGen: c.SSGen, SSYT: c.SSYT, Filler: c.Filler, Wide: c.Wide, WideRL: c.WideRL, Spare: c.Spare, HashFiller: c.HashFiller}
	for k, v := range c.RL {
		n.RL[k] = v
	}
	for k, v := range c.Svc {
		n.Svc[k] = v
	}
	for k, v := range c.Hash {
		n.Hash[k] = v
	}
	for k, v := range c.HashFault {
		if n.HashFault == nil {
			n.HashFault = map[string]string{}
		}
		n.HashFault[k] = v
	}
	return n
}

func fillerRules(b *strings.Builder, n int) {
	for i := 0; i < n; i++ {
		fmt.Fprintf(b, "||filler%d.filler.test^\n", i)
	}
}

// ruleListText is version v of rule list number x.  None of the rules carries
// a client-specific modifier.
func ruleListText(id string, x, v, filler, wide int) string {
	if v == zeroRules {
		return zeroRulesText
	}
	l := label(id)
	b := &strings.Builder{}
	fmt.Fprintf(b, "! %s version %d\n", id, v)
	for j := 1; j <= v; j++ {
		fmt.Fprintf(b, "||h%d.%s.test^\n", j, l)
		fmt.Fprintf(b, "||s%d.shared.test^\n", j)
		fmt.Fprintf(b, "|10.7.%d.%d^\n", x, j)
		fmt.Fprintf(b, "0.0.0.0 hosts%d.%s.test\n", j, l)
	}
	fmt.Fprintf(b, "@@||allow.%s.test^\n", l)
	fmt.Fprintf(b, "||allow.%s.test^\n", l)
	fmt.Fprintf(b, "||typed.%s.test^$dnstype=AAAA\n", l)
	fmt.Fprintf(b, "||typeda.%s.test^$dnstype=A\n", l)
	fmt.Fprintf(b, "||typedc.%s.test^$dnstype=CAA\n", l)
	fmt.Fprintf(b, "|rw.%s.test^$dnsrewrite=NOERROR;A;10.8.%d.%d\n", l, x, v)
	fmt.Fprintf(b, "|rwc.%s.test^$dnsrewrite=NOERROR;CNAME;target%d.%s.test\n", l, v, l)
	fmt.Fprintf(b, "|rwr.%s.test^$dnsrewrite=REFUSED\n", l)
	fillerRules(b, filler)
	if x == 0 {
		for i := 0; i < wide; i++ {
			if (i+v)%2 == 0 {
				fmt.Fprintf(b, "||r%d.%s.test^\n", i, l)
			}
		}
	}
	return b.String()
}

func ruleListIndexJSON(base string, c content) string {
	type fl struct {
		Key string `json:"filterKey"`
		URL string `json:"downloadUrl"`
	}
	fls := []fl{}
	for _, id := range ruleListIDs {
		if c.RL[id] != 0 {
			fls = append(fls, fl{id, base + "/rl/" + id})
		}
	}
	if c.Spare {
		for _, id := range spareListIDs {
			fls = append(fls, fl{id, base + "/rl/" + id})
		}
	}
	b, _ := json.Marshal(map[string]any{"filters": fls})
	return string(b)
}

func svcIndexJSON(c content) string {
	type svc struct {
		ID    string   `json:"id"`
		Name  string   `json:"name"`
		Rules []string `json:"rules"`
	}
	svcs := []svc{}
	for _, id := range svcIDs {
		v := c.Svc[id]
		if v == 0 {
			continue
		}
		s := svc{ID: id, Name: id, Rules: []string{}}
		if v == zeroRules {
			// a service that is still in the index but has no rules
			svcs = append(svcs, s)
			continue
		}
		for j := 1; j <= v; j++ {
			s.Rules = append(s.Rules, fmt.Sprintf("||s%d.%s.test^", j, label(id)))
		}
		s.Rules = append(s.Rules, fmt.Sprintf("||fixed.%s.test^", label(id)), fmt.Sprintf("||typed.%s.test^$dnstype=AAAA", label(id)))
		svcs = append(svcs, s)
	}
	b, _ := json.Marshal(map[string]any{"blocked_services": svcs})
	return string(b)
}

func safeSearchText(kind string, v, filler, wide int) string {
	if v == zeroRules {
		return zeroRulesText
	}
	b := &strings.Builder{}
	fmt.Fprintf(b, "! safe search %s version %d\n", kind, v)
	for j := 1; j <= v; j++ {
		fmt.Fprintf(b, "|ss%d.%s.test^$dnsrewrite=NOERROR;CNAME;safe%d.%s.test\n", j, kind, v, kind)
	}
	fmt.Fprintf(b, "|ssip.%s.test^$dnsrewrite=NOERROR;A;10.10.0.%d\n", kind, v)
	fmt.Fprintf(b, "|ssip.%s.test^$dnsrewrite=NOERROR;AAAA;2001:db8:10::%d\n", kind, v)
	fillerRules(b, filler)
	for i := 0; i < wide; i++ {
		if (i+v)%2 == 0 {
			fmt.Fprintf(b, "|w%d.%s.test^$dnsrewrite=NOERROR;CNAME;safe%d.%s.test\n", i, kind, v, kind)
		}
	}
	return b.String()
}

func hashHostPrefix(kind string) string { return kind[:1] }

func hashHost(kind string, j int) string {
	return fmt.Sprintf("%s%d.%s.test", hashHostPrefix(kind), j, kind)
}

func hashText(kind string, v, filler int) string {
	if v == zeroRules {
		return "# this hash list has been retired\n\n# no hosts\n"
	}
	b := &strings.Builder{}
	fmt.Fprintf(b, "# %s version %d\n", kind, v)
	for i := 0; i < filler; i++ {
		fmt.Fprintf(b, "filler%d.%s-filler.test\n", i, kind)
	}
	fmt.Fprintf(b, "fixed.%s.test\n", kind)
	for j := 1; j <= v; j++ {
		b.WriteString(hashHost(kind, j) + "\n")
	}
	return b.String()
}

// faultyHashText corrupts a valid hash list with an over-long line.
func faultyHashText(kind, valid, form string) string {
	long := strings.Repeat("x", 70000) + "." + kind + ".test"
	switch form {
	case "start":
		return long + "\n" + valid
	case "end":
		return valid + long
	default:
		return valid + long + "\ntail." + kind + ".test\n"
	}
}

// srv is the one content server all environments are fed from.
type srv struct {
	mu   sync.Mutex
	c    content
	hits map[string]int
	// gate, if set, runs before a path is answered (used to make refreshes
	// overlap reader activity, count based).
	gate func(path string)

	hs   *httptest.Server
	base string
}

func newSrv() *srv {
	s := &srv{hits: map[string]int{}}
	s.hs = httptest.NewServer(http.HandlerFunc(s.serve))
	s.base = s.hs.URL
	return s
}

func (s *srv) close() { s.hs.Close() }

func (s *srv) set(c content) {
	s.mu.Lock()
	s.c = c.clone()
	s.mu.Unlock()
}

func (s *srv) setGate(g func(path string)) {
	s.mu.Lock()
	s.gate = g
	s.mu.Unlock()
}

func (s *srv) snapshotHits() map[string]int {
	s.mu.Lock()
	defer s.mu.Unlock()
	m := make(map[string]int, len(s.hits))
	for k, v := range s.hits {
		m[k] = v
	}
	return m
}

func (s *srv) serve(w http.ResponseWriter, rq *http.Request) {
	p := rq.URL.Path
	s.mu.Lock()
	g := s.gate
	s.mu.Unlock()
	if g != nil {
		g(p)
	}
	s.mu.Lock()
	c := s.c.clone()
	s.hits[p]++
	s.mu.Unlock()
	var body string
	switch {
	case p == "/rl/index":
		body = ruleListIndexJSON(s.base, c)
	case strings.HasPrefix(p, "/rl/"):
		id := strings.TrimPrefix(p, "/rl/")
		if c.Spare && strings.HasPrefix(id, "vs_") {
			body = spareListText(id)
			break
		}
		x := -1
		for i, k := range ruleListIDs {
			if k == id {
				x = i
			}
		}
		if x < 0 || c.RL[id] == 0 {
			http.NotFound(w, rq)
			return
		}
		body = ruleListText(id, x, c.RL[id], c.Filler, c.WideRL)
	case p == "/svc/index":
		body = svcIndexJSON(c)
	case p == "/ss/gen":
		body = safeSearchText("gen", c.SSGen, c.Filler, c.Wide)
	case p == "/ss/yt":
		body = safeSearchText("yt", c.SSYT, 0, c.Wide)
	case strings.HasPrefix(p, "/hp/"):
		k := strings.TrimPrefix(p, "/hp/")
		if _, ok := c.Hash[k]; !ok {
			http.NotFound(w, rq)
			return
		}
		body = hashText(k, c.Hash[k], c.HashFiller)
		if f := c.HashFault[k]; f != "" {
			body = faultyHashText(k, body, f)
		}
	default:
		http.NotFound(w, rq)
		return
	}
	w.Header().Set("Server", "c12-content/1")
	w.WriteHeader(http.StatusOK)
	_, _ = io.WriteString(w, body)
}

func (s *srv) url(p string) *url.URL {
	u, err := url.Parse(s.base + p)
	if err != nil {
		panic(err)
	}
	return u
}

// manager is an agdcache.Manager that remembers every cache ever registered.
type manager struct {
	mu   sync.Mutex
	all  []agdcache.Clearer
	byID map[string]agdcache.Clearer
	adds int
}

func newManager() *manager { return &manager{byID: map[string]agdcache.Clearer{}} }

func (m *manager) Add(id string, c agdcache.Clearer) {
	m.mu.Lock()
	defer m.mu.Unlock()
	m.all = append(m.all, c)
	m.byID[id] = c
	m.adds++
}

func (m *manager) ClearByID(id string) {
	m.mu.Lock()
	c := m.byID[id]
	m.mu.Unlock()
	if c != nil {
		c.Clear()
	}
}

func (m *manager) clearAll() {
	m.mu.Lock()
	all := append([]agdcache.Clearer(nil), m.all...)
	m.mu.Unlock()
	for _, c := range all {
		c.Clear()
	}
}

// items is the total number of entries over all registered caches.
func (m *manager) items() (n int) {
	m.mu.Lock()
	all := append([]agdcache.Clearer(nil), m.all...)
	m.mu.Unlock()
	for _, c := range all {
		if l, ok := c.(interface{ Len() int }); ok {
			n += l.Len()
		}
	}
	return n
}

func (m *manager) ids() []string {
	m.mu.Lock()
	defer m.mu.Unlock()
	out := []string{}
	for k := range m.byID {
		out = append(out, k)
	}
	sort.Strings(out)
	return out
}

// errColl records what the code under test reports as errors.
type errColl struct {
	mu   sync.Mutex
	errs []string
}

func (e *errColl) Collect(_ context.Context, err error) {
	e.mu.Lock()
	if len(e.errs) < 20 {
		e.errs = append(e.errs, err.Error())
	}
	e.mu.Unlock()
}

func (e *errColl) take() []string {
	e.mu.Lock()
	defer e.mu.Unlock()
	out := e.errs
	e.errs = nil
	return out
}

// fixedClock is the one clock of every environment.
type fixedClock struct{}

var clockNow = time.Date(2024, 5, 1, 12, 0, 0, 0, time.UTC)

func (fixedClock) Now() time.Time { return clockNow }

func discard() *slog.Logger { return slog.New(slog.NewTextHandler(io.Discard, nil)) }

// envOpt are the only knobs in which environments differ.
type envOpt struct {
	// ResultCache is ResultCacheEnabled of rule lists and blocked services.
	ResultCache bool
	// Counts of the caches.
	RuleListCount, SvcCount, SafeSearchCount, CustomCount, HashCount int
}

var prodOpt = envOpt{ResultCache: true, RuleListCount: 10000, SvcCount: 10000, SafeSearchCount: 1024, CustomCount: 1024, HashCount: 1024}

func tinyOpt() envOpt {
	o := prodOpt
	o.RuleListCount, o.SvcCount, o.SafeSearchCount, o.CustomCount = 3, 3, 3, 2
	return o
}

// env is one real filter storage with its hash-prefix filters.
type env struct {
	name string
	mgr  *manager
	st   *filterstorage.Default
	hp   map[string]*hashprefix.Filter
	errs *errColl
	dir  string
	// stDir is the cache directory of the current storage.
	stDir string
	opt   envOpt
	s     *srv
}

const (
	// refreshTimeout only bounds a hung transfer; nothing is decided by it.
	refreshTimeout = 2 * time.Minute
	// staleness of one nanosecond makes every non-initial refresh download.
	staleness = time.Nanosecond
)

var envSeq atomic.Int64

func scratchRoot() string {
	if d := os.Getenv("VERIF_SCRATCH"); d != "" {
		return d
	}
	return os.TempDir()
}

// newEnv builds a storage from what the server serves right now (initial
// refresh with an empty cache directory, i.e. everything is downloaded).
func newEnv(s *srv, name string, o envOpt) (e *env, err error) {
	dir := filepath.Join(scratchRoot(), fmt.Sprintf("c12-env-%d-%s", envSeq.Add(1), name))
	if err = os.MkdirAll(dir, 0o755); err != nil {
		return nil, err
	}
	e = &env{name: name, mgr: newManager(), hp: map[string]*hashprefix.Filter{}, errs: &errColl{}, dir: dir, opt: o, s: s}
	for _, k := range hashKinds {
		if err = e.buildHash(k); err != nil {
			return nil, err
		}
	}
	if err = e.buildStorage(true); err != nil {
		return nil, err
	}
	return e, nil
}

// buildHash replaces the hash-prefix filter of kind k by a new one that
// downloads the list into a new cache file.
func (e *env) buildHash(k string) (err error) {
	strg, err := hashprefix.NewStorage("")
	if err != nil {
		return err
	}
	f, err := hashprefix.NewFilter(&hashprefix.FilterConfig{
		Logger:          discard(),
		Cloner:          dnsmsg.NewCloner(dnsmsg.EmptyClonerStat{}),
		CacheManager:    e.mgr,
		Hashes:          strg,
		URL:             e.s.url("/hp/" + k),
		ErrColl:         e.errs,
		Metrics:         filter.EmptyMetrics{},
		ID:              hashFilterID(k),
		CachePath:       filepath.Join(e.dir, fmt.Sprintf("hp_%s_%d", k, envSeq.Add(1))),
		ReplacementHost: hashReplacement(k),
		Staleness:       staleness,
		CacheTTL:        time.Hour,
		RefreshTimeout:  refreshTimeout,
		CacheCount:      e.opt.HashCount,
		MaxSize:         64 * datasize.MB,
	})
	if err != nil {
		return fmt.Errorf("hashprefix %s: %w", k, err)
	}
	if err = f.RefreshInitial(context.Background()); err != nil {
		return fmt.Errorf("hashprefix %s: %w", k, err)
	}
	e.hp[k] = f
	return nil
}

// buildStorage replaces the storage by a newly constructed one around the
// current hash-prefix filters.  With download it gets an empty cache
// directory, so that the initial refresh downloads everything; without, the
// initial refresh reads the files the previous storage of this environment
// downloaded (only valid while the served storage content has not changed).
func (e *env) buildStorage(download bool) (err error) {
	if download || e.stDir == "" {
		e.stDir = filepath.Join(e.dir, fmt.Sprintf("st_%d", envSeq.Add(1)))
		if err = os.MkdirAll(e.stDir, 0o755); err != nil {
			return err
		}
	}
	s, o := e.s, e.opt
	ss := func(p string, id filter.ID) *filterstorage.ConfigSafeSearch {
		return &filterstorage.ConfigSafeSearch{
			URL: s.url(p), ID: id, MaxSize: 64 * datasize.MB, ResultCacheTTL: time.Hour,
			RefreshTimeout: refreshTimeout, Staleness: staleness, ResultCacheCount: o.SafeSearchCount, Enabled: true,
		}
	}
	st, err := filterstorage.New(&filterstorage.Config{
		BaseLogger: discard(),
		Logger:     discard(),
		BlockedServices: &filterstorage.ConfigBlockedServices{
			IndexURL: s.url("/svc/index"), IndexMaxSize: 64 * datasize.MB, IndexRefreshTimeout: refreshTimeout,
			IndexStaleness: staleness, ResultCacheCount: o.SvcCount, ResultCacheEnabled: o.ResultCache, Enabled: true,
		},
		Custom: &filterstorage.ConfigCustom{CacheCount: o.CustomCount},
		HashPrefix: &filterstorage.ConfigHashPrefix{
			Adult: e.hp["adult"], Dangerous: e.hp["danger"], NewlyRegistered: e.hp["newreg"],
		},
		RuleLists: &filterstorage.ConfigRuleLists{
			IndexURL: s.url("/rl/index"), IndexMaxSize: 64 * datasize.MB, MaxSize: 64 * datasize.MB,
			IndexRefreshTimeout: refreshTimeout, IndexStaleness: staleness, RefreshTimeout: refreshTimeout,
			Staleness: staleness, ResultCacheCount: o.RuleListCount, ResultCacheEnabled: o.ResultCache,
		},
		SafeSearchGeneral: ss("/ss/gen", filter.IDGeneralSafeSearch),
		SafeSearchYouTube: ss("/ss/yt", filter.IDYoutubeSafeSearch),
		CacheManager:      e.mgr,
		Clock:             fixedClock{},
		ErrColl:           e.errs,
		Metrics:           filter.EmptyMetrics{},
		CacheDir:          e.stDir,
	})
	if err != nil {
		return fmt.Errorf("filterstorage.New: %w", err)
	}
	if err = st.RefreshInitial(context.Background()); err != nil {
		return err
	}
	e.st = st
	return nil
}

func (e *env) close() { _ = os.RemoveAll(e.dir) }

// profile is the custom-rule side of a requester; version v has the rules
// customRules(p, v) and update time customBase + v hours.
type profile struct {
	ID      string
	Idx     int
	Enabled bool
	Ver     int
}

var customBase = time.Date(2024, 4, 1, 0, 0, 0, 0, time.UTC)

func customRules(p *profile, v int) (rules []filter.RuleText) {
	l := fmt.Sprintf("p%d", p.Idx)
	for j := 1; j <= v; j++ {
		rules = append(rules, filter.RuleText(fmt.Sprintf("||c%d.%s.test^", j, l)))
	}
	rules = append(rules,
		filter.RuleText(fmt.Sprintf("|crw.%s.test^$dnsrewrite=NOERROR;A;10.9.%d.%d", l, p.Idx, v)),
		filter.RuleText(fmt.Sprintf("||cdev.%s.test^$client=dev-a", l)),
	)
	if p.Idx%2 == 0 {
		// the custom allow-list beats a rule list and a hash-prefix filter
		rules = append(rules, "@@||h1.vla.test^", "@@||a1.adult.test^", "@@||s1.shared.test^")
	}
	if v%2 == 1 {
		rules = append(rules, "||h2.vlb.test^")
	}
	return rules
}

func (p *profile) config(v int) *filter.ConfigCustom {
	return &filter.ConfigCustom{
		ID:         p.ID,
		UpdateTime: customBase.Add(time.Duration(v) * time.Hour),
		Rules:      customRules(p, v),
		Enabled:    p.Enabled,
	}
}

// requester is one source of queries.
type requester struct {
	Name    string
	Profile *profile // nil: anonymous filtering group
	Msgs    *dnsmsg.Constructor
	// Ident describes everything about the requester that may legitimately
	// shape a filtered message: constructor settings and request shape.
	Ident string

	RuleLists []filter.ID
	Parental  *filter.ConfigParental
	SafeBrows *filter.ConfigSafeBrowsing

	EDNS    bool
	DO      bool
	UDPSize uint16
	ReqEDE  bool // request carries an empty EDE option (asks for SDE)
	RD      bool
	CD      bool

	ClientName string
	RemoteIP   netip.Addr

	// grp is the long-lived configuration of an anonymous filtering group.
	grp *filter.ConfigGroup
}

type ctorSpec struct {
	mode string
	ttl  time.Duration
	ede  bool
	sde  bool
}

func (c ctorSpec) String() string {
	return fmt.Sprintf("mode=%s ttl=%s ede=%v sde=%v", c.mode, c.ttl, c.ede, c.sde)
}

func (c ctorSpec) build(cl *dnsmsg.Cloner) *dnsmsg.Constructor {
	var bm dnsmsg.BlockingMode
	switch c.mode {
	case "nullip":
		bm = &dnsmsg.BlockingModeNullIP{}
	case "nxdomain":
		bm = &dnsmsg.BlockingModeNXDOMAIN{}
	case "refused":
		bm = &dnsmsg.BlockingModeREFUSED{}
	case "customip4":
		bm = &dnsmsg.BlockingModeCustomIP{IPv4: []netip.Addr{netip.MustParseAddr("198.51.100.7")}}
	case "customip46":
		bm = &dnsmsg.BlockingModeCustomIP{
			IPv4: []netip.Addr{netip.MustParseAddr("198.51.100.8")},
			IPv6: []netip.Addr{netip.MustParseAddr("2001:db8:77::8")},
		}
	default:
		panic("mode " + c.mode)
	}
	m, err := dnsmsg.NewConstructor(&dnsmsg.ConstructorConfig{
		Cloner: cl,
		StructuredErrors: &dnsmsg.StructuredDNSErrorsConfig{
			Contact:       []*url.URL{{Scheme: "mailto", Opaque: "support@dns.example"}},
			Justification: "Filtering", Organization: "C12", Enabled: c.sde,
		},
		BlockingMode: bm, FilteredResponseTTL: c.ttl, EDEEnabled: c.ede,
	})
	if err != nil {
		panic(err)
	}
	return m
}

func ids(s ...string) (out []filter.ID) {
	for _, x := range s {
		out = append(out, filter.ID(x))
	}
	return out
}

func svcs(s ...string) (out []filter.BlockedServiceID) {
	for _, x := range s {
		out = append(out, filter.BlockedServiceID(x))
	}
	return out
}

// newRequesters returns the fixed requester population with fresh profile
// state.
func newRequesters() []*requester {
	cl := dnsmsg.NewCloner(dnsmsg.EmptyClonerStat{})
	p0 := &profile{ID: "prof0", Idx: 0, Enabled: true, Ver: 1}
	p1 := &profile{ID: "prof1", Idx: 1, Enabled: true, Ver: 2}
	p2 := &profile{ID: "prof2", Idx: 2, Enabled: true, Ver: 1}
	p3 := &profile{ID: "prof3", Idx: 3, Enabled: false, Ver: 1}
	p4 := &profile{ID: "prof4", Idx: 4, Enabled: true, Ver: 3}
	c0 := ctorSpec{"nullip", 10 * time.Second, true, true}
	c1 := ctorSpec{"nxdomain", 777 * time.Second, false, false}
	c2 := ctorSpec{"refused", 0, true, false}
	c3 := ctorSpec{"customip4", time.Hour, true, true}
	c4 := ctorSpec{"customip46", time.Minute, false, false}
	cg := ctorSpec{"nullip", 10 * time.Second, true, true}
	m0, mg := c0.build(cl), cg.build(cl)
	all := &filter.ConfigSafeBrowsing{Enabled: true, DangerousDomainsEnabled: true, NewlyRegisteredDomainsEnabled: true}
	rs := []*requester{
		{Name: "prof0/dev-a", Profile: p0, Msgs: m0, Ident: c0.String(), RuleLists: ids("vl_a", "vl_b"),
			Parental:  &filter.ConfigParental{Enabled: true, AdultBlockingEnabled: true, SafeSearchGeneralEnabled: true, SafeSearchYouTubeEnabled: true, BlockedServices: svcs("svc_a")},
			SafeBrows: all, EDNS: true, UDPSize: 1232, RD: true, ClientName: "dev-a", RemoteIP: netip.MustParseAddr("192.0.2.10")},
		{Name: "prof0/dev-b", Profile: p0, Msgs: m0, Ident: c0.String(), RuleLists: ids("vl_a", "vl_b"),
			Parental:  &filter.ConfigParental{Enabled: true, AdultBlockingEnabled: true, SafeSearchGeneralEnabled: true, SafeSearchYouTubeEnabled: true, BlockedServices: svcs("svc_a")},
			SafeBrows: all, RD: true, ClientName: "dev-b", RemoteIP: netip.MustParseAddr("192.0.2.11")},
		{Name: "prof1", Profile: p1, Msgs: c1.build(cl), Ident: c1.String(), RuleLists: ids("vl_b", "vl_a", "vl_c"),
			Parental:  &filter.ConfigParental{Enabled: true, AdultBlockingEnabled: true, BlockedServices: svcs("svc_a", "svc_b")},
			SafeBrows: &filter.ConfigSafeBrowsing{Enabled: true, DangerousDomainsEnabled: true},
			RD:        false, ClientName: "phone", RemoteIP: netip.MustParseAddr("198.51.100.20")},
		{Name: "prof2", Profile: p2, Msgs: c2.build(cl), Ident: c2.String(), RuleLists: ids("vl_c"),
			Parental:  &filter.ConfigParental{Enabled: true, AdultBlockingEnabled: true, SafeSearchGeneralEnabled: true},
			SafeBrows: all, EDNS: true, DO: true, UDPSize: 4096, RD: true, CD: true, ClientName: "laptop", RemoteIP: netip.MustParseAddr("2001:db8::20")},
		{Name: "prof3", Profile: p3, Msgs: c3.build(cl), Ident: c3.String(), RuleLists: ids("vl_a"),
			Parental:  &filter.ConfigParental{Enabled: true, AdultBlockingEnabled: true, SafeSearchYouTubeEnabled: true, BlockedServices: svcs("svc_b")},
			SafeBrows: all, EDNS: true, UDPSize: 1400, ReqEDE: true, RD: true, ClientName: "tv", RemoteIP: netip.MustParseAddr("203.0.113.3")},
		{Name: "group0", Msgs: mg, Ident: cg.String(), RuleLists: ids("vl_a", "vl_b", "vl_c"),
			Parental:  &filter.ConfigParental{Enabled: true, AdultBlockingEnabled: true, SafeSearchGeneralEnabled: true, SafeSearchYouTubeEnabled: true},
			SafeBrows: all, EDNS: true, UDPSize: 1232, RD: true, RemoteIP: netip.MustParseAddr("203.0.113.50")},
		{Name: "group1", Msgs: mg, Ident: cg.String(), RuleLists: ids("vl_b"),
			Parental:  &filter.ConfigParental{},
			SafeBrows: &filter.ConfigSafeBrowsing{Enabled: true, DangerousDomainsEnabled: true},
			RD:        true, RemoteIP: netip.MustParseAddr("203.0.113.51")},
		{Name: "prof4", Profile: p4, Msgs: c4.build(cl), Ident: c4.String(), RuleLists: nil,
			Parental:  &filter.ConfigParental{Enabled: true, AdultBlockingEnabled: true},
			SafeBrows: all, EDNS: true, DO: true, UDPSize: 512, RD: true, ClientName: "dev-a", RemoteIP: netip.MustParseAddr("192.0.2.77")},
	}
	for _, q := range rs {
		q.Ident += fmt.Sprintf(" | edns=%v do=%v udp=%d reqEDE=%v rd=%v cd=%v", q.EDNS, q.DO, q.UDPSize, q.ReqEDE, q.RD, q.CD)
		q.fix()
	}
	return rs
}

// config returns the filter configuration of the requester with custom-rule
// version customVer (ignored for groups).
func (q *requester) config(customVer int) filter.Config {
	rl := &filter.ConfigRuleList{IDs: q.RuleLists, Enabled: len(q.RuleLists) > 0}
	if q.Profile == nil {
		if q.grp != nil {
			return q.grp
		}
		return &filter.ConfigGroup{Parental: q.Parental, RuleList: rl, SafeBrowsing: q.SafeBrows}
	}
	return &filter.ConfigClient{Custom: q.Profile.config(customVer), Parental: q.Parental, RuleList: rl, SafeBrowsing: q.SafeBrows}
}

// fix must be called after the filtering settings of q have been set and
// before q is used: as in production, the configuration of a filtering group
// is ONE long-lived *filter.ConfigGroup, the same pointer for every request.
func (q *requester) fix() *requester {
	q.grp = nil
	if q.Profile == nil {
		q.grp = &filter.ConfigGroup{
			Parental:     q.Parental,
			RuleList:     &filter.ConfigRuleList{IDs: q.RuleLists, Enabled: len(q.RuleLists) > 0},
			SafeBrowsing: q.SafeBrows,
		}
	}
	return q
}

func (q *requester) customVer() int {
	if q.Profile == nil {
		return 0
	}
	return q.Profile.Ver
}

// newReq builds the DNS request of this requester for host/qtype.
func (q *requester) newReq(host string, qt uint16, id uint16) *dns.Msg {
	m := &dns.Msg{}
	m.SetQuestion(dns.Fqdn(host), qt)
	m.Id = id
	m.RecursionDesired = q.RD
	m.CheckingDisabled = q.CD
	if q.EDNS {
		m.SetEdns0(q.UDPSize, q.DO)
		if q.ReqEDE {
			opt := m.IsEdns0()
			opt.Option = append(opt.Option, &dns.EDNS0_EDE{})
		}
	}
	return m
}

// obs is what the harness records about one filter call.
type obs struct {
	Kind string `json:"kind"` // none allowed blocked modreq modresp error panic
	List string `json:"list,omitempty"`
	Rule string `json:"rule,omitempty"`
	Wire string `json:"wire_id0,omitempty"` // packed message with ID 0, hex
	Text string `json:"msg,omitempty"`
	Err  string `json:"err,omitempty"`
}

func (o obs) verdictEq(p obs) bool { return o.Kind == p.Kind && o.List == p.List && o.Rule == p.Rule }
func (o obs) eq(p obs) bool        { return o.verdictEq(p) && o.Wire == p.Wire && o.Err == p.Err }

func packNorm(m *dns.Msg) (wire, text string) {
	if m == nil {
		return "nil", "nil"
	}
	c := m.Copy()
	c.Id = 0
	c.Compress = false
	b, err := c.Pack()
	if err != nil {
		return "pack-error:" + err.Error(), c.String()
	}
	return hex.EncodeToString(b), strings.ReplaceAll(c.String(), "\t", " ")
}

func toObs(res filter.Result, err error) (o obs) {
	if err != nil {
		return obs{Kind: "error", Err: err.Error()}
	}
	switch res := res.(type) {
	case nil:
		return obs{Kind: "none"}
	case *filter.ResultAllowed:
		return obs{Kind: "allowed", List: string(res.List), Rule: string(res.Rule)}
	case *filter.ResultBlocked:
		return obs{Kind: "blocked", List: string(res.List), Rule: string(res.Rule)}
	case *filter.ResultModifiedRequest:
		o = obs{Kind: "modreq", List: string(res.List), Rule: string(res.Rule)}
		o.Wire, o.Text = packNorm(res.Msg)
		return o
	case *filter.ResultModifiedResponse:
		o = obs{Kind: "modresp", List: string(res.List), Rule: string(res.Rule)}
		o.Wire, o.Text = packNorm(res.Msg)
		return o
	default:
		return obs{Kind: "error", Err: fmt.Sprintf("unknown result type %T", res)}
	}
}

// query is one filter question.
type query struct {
	Host  string `json:"host"`
	QType uint16 `json:"qtype"`
	// Resp: filter a response instead of a request.  Ans is the shape of the
	// answer: "a:<ip>", "cname:<target>", "https:<ip>".
	Resp bool   `json:"resp,omitempty"`
	Ans  string `json:"ans,omitempty"`
}

func (qu query) String() string {
	s := fmt.Sprintf("%s/%s", qu.Host, dns.Type(qu.QType).String())
	if qu.Resp {
		s += "/resp[" + qu.Ans + "]"
	}
	return s
}

func buildResp(req *dns.Msg, ans string) *dns.Msg {
	resp := (&dns.Msg{}).SetReply(req)
	name := req.Question[0].Name
	kind, val, _ := strings.Cut(ans, ":")
	switch kind {
	case "a":
		resp.Answer = append(resp.Answer, &dns.A{Hdr: dns.RR_Header{Name: name, Rrtype: dns.TypeA, Class: dns.ClassINET, Ttl: 60},
			A: netip.MustParseAddr(val).AsSlice()})
	case "cname":
		resp.Answer = append(resp.Answer,
			&dns.CNAME{Hdr: dns.RR_Header{Name: name, Rrtype: dns.TypeCNAME, Class: dns.ClassINET, Ttl: 60}, Target: dns.Fqdn(val)},
			&dns.A{Hdr: dns.RR_Header{Name: dns.Fqdn(val), Rrtype: dns.TypeA, Class: dns.ClassINET, Ttl: 60}, A: []byte{192, 0, 2, 99}})
	case "https":
		resp.Answer = append(resp.Answer, &dns.HTTPS{SVCB: dns.SVCB{
			Hdr:      dns.RR_Header{Name: name, Rrtype: dns.TypeHTTPS, Class: dns.ClassINET, Ttl: 60},
			Priority: 1, Target: ".",
			Value: []dns.SVCBKeyValue{&dns.SVCBAlpn{Alpn: []string{"h2"}}, &dns.SVCBIPv4Hint{Hint: []net.IP{net.IP(netip.MustParseAddr(val).AsSlice())}}},
		}})
	}
	return resp
}

// ask runs one query of requester q (custom-rule version ver) against e and
// never lets a panic of the code under test escape.
func ask(e *env, q *requester, ver int, qu query, id uint16) (o obs) {
	defer func() {
		if p := recover(); p != nil {
			o = obs{Kind: "panic", Err: fmt.Sprint(p)}
		}
	}()
	ctx := context.Background()
	f := e.st.ForConfig(ctx, q.config(ver))
	req := q.newReq(qu.Host, qu.QType, id)
	if qu.Resp {
		return toObs(f.FilterResponse(ctx, &filter.Response{DNS: buildResp(req, qu.Ans), RemoteIP: q.RemoteIP, ClientName: q.ClientName}))
	}
	return toObs(f.FilterRequest(ctx, &filter.Request{
		DNS: req, Messages: q.Msgs, RemoteIP: q.RemoteIP, ClientName: q.ClientName,
		Host: strings.ToLower(qu.Host), QType: qu.QType, QClass: dns.ClassINET,
	}))
}
