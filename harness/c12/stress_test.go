package c12

// In-place refreshed rule-list objects (the two safe-search filters) under a
// miss-heavy load: many readers cycle over a large key space, so that at the
// instant a refresh purges the result cache several of them are between their
// cache miss and their cache write.  After every refresh RETURNED the readers
// are held at a barrier and every key they touched last is asked once; an
// answer of the old version is a stale cache entry.

import (
	"context"
	"fmt"
	"strings"
	"sync"
	"sync/atomic"
	"time"

	"github.com/AdguardTeam/AdGuardDNS/internal/filter"
	"github.com/AdguardTeam/AdGuardDNS/verif/vkit"
	"github.com/miekg/dns"
)

var stressQTypes = []uint16{dns.TypeA, dns.TypeAAAA, dns.TypeHTTPS}
var stressKinds = []string{"gen", "yt"}

type stressKey struct {
	I    int
	Kind string
	QT   uint16
}

func (k stressKey) host() string { return fmt.Sprintf("w%d.%s.test", k.I, k.Kind) }

func stressKeyOf(idx, wide int) stressKey {
	idx %= wide * 6
	return stressKey{I: idx / 6, Kind: stressKinds[idx%2], QT: stressQTypes[(idx/2)%3]}
}

// stressExpect is the content definition: host i is rewritten in version v iff
// i+v is even, to safe<v>.<kind>.test.
func stressExpect(k stressKey, v int, o obs) (ok bool, want string) {
	if (k.I+v)%2 != 0 {
		return o.Kind == "none", "not filtered"
	}
	target := fmt.Sprintf("safe%d.%s.test.", v, k.Kind)
	return o.Kind == "modreq" && strings.Contains(o.Text, ";"+target), "request rewritten to " + target
}

type ringEnt struct {
	Idx       int
	Call, Ret int64
}

func safeSearchStressPhase(r *vkit.Run, s *srv) {
	n := r.N(4, 30)
	for i := 0; i < n; i++ {
		if !oneSafeSearchStress(r, s, i) {
			return
		}
	}
}

func oneSafeSearchStress(r *vkit.Run, s *srv, idx int) (goOn bool) {
	rng := r.Rand("ss-stress", idx)
	const (
		nReaders  = 16
		ring      = 32
		wide      = 6000
		rounds    = 6
		warmOps   = 2500 // reader calls between two refreshes
		readerCap = 400000
	)
	s.setGate(nil)
	hookFn.Store(nil)
	c := baseContent()
	c.Wide = wide
	v := 1 + rng.IntN(4)
	c.SSGen, c.SSYT = v, v
	s.set(c)
	// production default size of the safe-search result caches: far smaller
	// than the key space (misses dominate), far larger than what is inserted
	// between a purge and the probes (nothing stale is evicted)
	opt := prodOpt
	e, err := newEnv(s, "ss-stress", opt)
	if err != nil {
		r.Inconclusive("safe-search stress: cannot build storage: " + err.Error())
		return false
	}
	defer e.close()
	reqs := newRequesters()
	mkReq := func() *requester {
		q := onlyComp(reqs[rng.IntN(len(reqs))], "safesearch")
		q.Parental = &filter.ConfigParental{Enabled: true, SafeSearchGeneralEnabled: true, SafeSearchYouTubeEnabled: true}
		return q.fix()
	}
	readers := make([]*requester, nReaders)
	for w := range readers {
		readers[w] = mkReq()
	}
	prober := mkReq()

	var (
		ops, overlapped   atomic.Int64
		pause, stop, busy atomic.Bool // busy: a Refresh call is in progress
		mu                sync.Mutex
		cond              = sync.NewCond(&mu)
		parked, finished  int
		rings             [nReaders][ring]ringEnt
		ringN             [nReaders]int
	)
	t0 := time.Now()
	now := func() int64 { return int64(time.Since(t0)) }
	ctx := context.Background()
	var wg sync.WaitGroup
	for w := 0; w < nReaders; w++ {
		wg.Add(1)
		go func(w int) {
			defer wg.Done()
			defer func() {
				mu.Lock()
				finished++
				mu.Unlock()
				cond.Broadcast()
			}()
			q := readers[w]
			next := w * (wide * 6 / nReaders)
			// half of the readers keep the filter of their configuration
			// (the safe-search objects in it are refreshed in place)
			var held filter.Interface
			if w%2 == 1 {
				held = e.st.ForConfig(ctx, q.config(0))
			}
			for n := 0; n < readerCap && !stop.Load(); n++ {
				if pause.Load() {
					mu.Lock()
					parked++
					cond.Broadcast()
					for pause.Load() {
						cond.Wait()
					}
					parked--
					mu.Unlock()
					continue
				}
				k := stressKeyOf(next, wide)
				b0 := busy.Load()
				call := now()
				f := held
				if f == nil {
					f = e.st.ForConfig(ctx, q.config(0))
				}
				_, _ = f.FilterRequest(ctx, &filter.Request{
					DNS: q.newReq(k.host(), k.QT, uint16(n)), Messages: q.Msgs, RemoteIP: q.RemoteIP,
					Host: k.host(), QType: k.QT, QClass: dns.ClassINET,
				})
				ret := now()
				if b0 || busy.Load() {
					overlapped.Add(1)
				}
				mu.Lock()
				rings[w][ringN[w]%ring] = ringEnt{next, call, ret}
				ringN[w]++
				mu.Unlock()
				ops.Add(1)
				next++
			}
		}(w)
	}
	finish := func() {
		stop.Store(true)
		pause.Store(false)
		cond.Broadcast()
		wg.Wait()
	}
	waitOps := func(target int64) bool {
		deadline := time.Now().Add(watchdog)
		for ops.Load() < target {
			mu.Lock()
			done := finished == nReaders
			mu.Unlock()
			if done {
				return true
			}
			if time.Now().After(deadline) {
				return false
			}
			time.Sleep(200 * time.Microsecond)
		}
		return true
	}
	stale := 0
	for round := 0; round < rounds; round++ {
		if !waitOps(ops.Load() + warmOps) {
			finish()
			r.Inconclusive("safe-search stress: watchdog: readers made no progress")
			return false
		}
		old := v
		v++
		c.SSGen, c.SSYT = v, v
		s.set(c)
		ov0 := overlapped.Load()
		busy.Store(true)
		wcall := now()
		err = e.st.Refresh(ctx)
		wret := now()
		pause.Store(true)
		busy.Store(false)
		if err != nil {
			finish()
			r.Bucket("refresh_errors", 1)
			r.Inconclusive("safe-search stress: refresh failed: " + err.Error())
			return true
		}
		// barrier: no reader is inside a call any more
		mu.Lock()
		deadline := time.Now().Add(watchdog)
		for parked+finished < nReaders && time.Now().Before(deadline) {
			mu.Unlock()
			time.Sleep(100 * time.Microsecond)
			mu.Lock()
		}
		ok := parked+finished == nReaders
		var last []ringEnt
		for w := 0; w < nReaders; w++ {
			for i := 0; i < ring && i < ringN[w]; i++ {
				last = append(last, rings[w][i])
			}
		}
		mu.Unlock()
		if !ok {
			finish()
			r.Inconclusive("safe-search stress: watchdog: readers did not reach the barrier")
			return false
		}
		r.Bucket("ss_stress_refreshes", 1)
		r.Bucket("ss_stress_reader_calls_overlapping_a_refresh", overlapped.Load()-ov0)
		inflight := 0
		for _, en := range last {
			if en.Call < wret && en.Ret > wcall {
				inflight++
			}
		}
		r.Bucket("ss_stress_probed_keys_touched_during_the_refresh", int64(inflight))
		// every key the readers touched last, asked once after the refresh returned
		seen := map[int]bool{}
		for _, en := range last {
			if seen[en.Idx%(wide*6)] {
				continue
			}
			seen[en.Idx%(wide*6)] = true
			k := stressKeyOf(en.Idx, wide)
			pcall := now()
			o := ask(e, prober, 0, query{Host: k.host(), QType: k.QT}, 99)
			r.Bucket("ss_stress_probes_after_refresh_returned", 1)
			if good, want := stressExpect(k, v, o); !good {
				stale++
				fam := "safesearch:stale-after-concurrent-refresh"
				if okOld, _ := stressExpect(k, old, o); !okOld {
					fam = "safesearch:unexplained-answer-after-concurrent-refresh"
				}
				r.Violation(fam, "a query that STARTED after the storage refresh RETURNED is answered with a safe-search result computed with the previous list version (re-inserted into the purged result cache by a query that was in flight during the refresh)",
					map[string]any{
						"phase": "safe-search-stress", "history_index": idx, "round": round, "version_before": old, "version_after": v,
						"rule": "host w<i> is rewritten in version v iff i+v is even, to safe<v>.<kind>.test",
						"host": k.host(), "qtype": dns.Type(k.QT).String(), "expected": want, "observed": o,
						"refresh_call_ns": wcall, "refresh_return_ns": wret, "probe_call_ns": pcall,
						"reader_call_that_touched_the_key": en, "readers": nReaders, "safe_search_cache_count": opt.SafeSearchCount,
					})
			}
		}
		pause.Store(false)
		cond.Broadcast()
	}
	finish()
	r.Bucket("ss_stress_reader_calls", ops.Load())
	r.Bucket("ss_stress_stale_answers", int64(stale))
	r.Eval(fmt.Sprintf("ss-stress|history=%d", idx%2), overlapped.Load() > 0)
	return true
}
