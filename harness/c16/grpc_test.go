package c16

import (
	"context"
	"errors"
	"fmt"
	"io"
	"net"
	"net/url"
	"sync"
	"time"

	"github.com/AdguardTeam/AdGuardDNS/internal/backendpb"
	"github.com/AdguardTeam/AdGuardDNS/internal/billstat"
	"github.com/AdguardTeam/AdGuardDNS/verif/vkit"
	"google.golang.org/grpc"
	"google.golang.org/grpc/codes"
	"google.golang.org/grpc/credentials/insecure"
	"google.golang.org/grpc/status"
	"google.golang.org/protobuf/types/known/emptypb"
)

// backend is an in-process gRPC business-logic backend whose treatment of each
// billing stream is scripted.  Only what an ACCEPTED stream carried counts as
// delivered.
type backend struct {
	backendpb.UnimplementedDNSServiceServer

	mu        sync.Mutex
	script    []string // per stream: "ok", "ok-no-response", "reject-open", "reject-after-all", "reject-after-1", "deadline-after-all"
	streamNum int
	delivered map[string]uint32
	lastMeta  map[string]meta
	streams   []map[string]any

	// "hold" streams signal on started and wait for hold before reading.
	started chan struct{}
	hold    chan struct{}
}

func (b *backend) SaveDevicesBillingStat(srv grpc.ClientStreamingServer[backendpb.DeviceBillingStat, emptypb.Empty]) error {
	b.mu.Lock()
	kind := "ok"
	if b.streamNum < len(b.script) {
		kind = b.script[b.streamNum]
	}
	b.streamNum++
	b.mu.Unlock()
	if kind == "hold" {
		b.started <- struct{}{}
		<-b.hold
		kind = "ok"
	}
	if kind == "reject-open" {
		return status.Error(codes.Unavailable, "scripted: rejected at open")
	}
	got := map[string]*backendpb.DeviceBillingStat{}
	n := 0
	for {
		d, err := srv.Recv()
		if errors.Is(err, io.EOF) {
			break
		} else if err != nil {
			return err
		}
		n++
		if prev, ok := got[d.DeviceId]; ok {
			d.Queries += prev.Queries
		}
		got[d.DeviceId] = d
		if kind == "reject-after-1" && n == 1 {
			return status.Error(codes.ResourceExhausted, "scripted: rejected after first record")
		}
		if kind == "ok-early-1" && n == 1 {
			// A backend that answers OK before it has read the whole stream.
			// Used only by the earlyOK observation, never by the judged cases.
			b.mu.Lock()
			b.delivered[d.DeviceId] += d.Queries
			b.streams = append(b.streams, map[string]any{"kind": kind, "records": 1})
			b.mu.Unlock()
			return srv.SendAndClose(&emptypb.Empty{})
		}
	}
	b.mu.Lock()
	defer b.mu.Unlock()
	rec := map[string]any{"kind": kind, "records": len(got)}
	b.streams = append(b.streams, rec)
	if kind == "reject-after-all" {
		return status.Error(codes.Unavailable, "scripted: rejected after all records")
	}
	if kind == "deadline-after-all" {
		return status.Error(codes.DeadlineExceeded, "scripted: deadline exceeded after all records")
	}
	for id, d := range got {
		b.delivered[id] += d.Queries
		b.lastMeta[id] = meta{Time: int64(d.LastActivityTime.AsTime().Sub(base)), Country: d.ClientCountry, ASN: d.Asn, Proto: int(d.Proto)}
	}
	if kind == "ok-no-response" {
		// The backend commits the batch and finishes the call with OK status
		// without sending the (empty) response message: the client sees io.EOF
		// from CloseAndRecv, which is a success.
		return nil
	}
	return srv.SendAndClose(&emptypb.Empty{})
}

var faultKinds = []string{"ok", "ok-no-response", "reject-open", "reject-after-all", "reject-after-1", "deadline-after-all"}

func accepted(kind string) bool { return kind == "ok" || kind == "ok-no-response" }

// realUploader drives billstat.RuntimeRecorder on top of the REAL
// backendpb.BillStat uploader against the scripted backend.
func realUploader(r *vkit.Run) {
	l, err := net.Listen("tcp", "127.0.0.1:0")
	if err != nil {
		r.Inconclusive("cannot listen: " + err.Error())
		return
	}
	be := &backend{}
	gs := grpc.NewServer(grpc.Creds(insecure.NewCredentials()))
	backendpb.RegisterDNSServiceServer(gs, be)
	go func() { _ = gs.Serve(l) }()
	defer gs.Stop()

	up, err := backendpb.NewBillStat(&backendpb.BillStatConfig{
		Logger:      newLogger(),
		ErrColl:     errColl{},
		GRPCMetrics: backendpb.EmptyGRPCMetrics{},
		Endpoint:    &url.URL{Scheme: "grpc", Host: l.Addr().String()},
	})
	if err != nil {
		r.Inconclusive("NewBillStat: " + err.Error())
		return
	}

	const ndev = 5
	// every sequence of fault kinds of length 1..3 (4+16+64) followed by the drain
	var seqs [][]string
	var gen func(prefix []string, n int)
	gen = func(prefix []string, n int) {
		if n == 0 {
			seqs = append(seqs, append([]string(nil), prefix...))
			return
		}
		for _, k := range faultKinds {
			gen(append(prefix, k), n-1)
		}
	}
	for n := 1; n <= r.N(3, 4); n++ {
		gen(nil, n)
	}
	for ci, seq := range seqs {
		rng := r.Rand("grpc", ci)
		be.mu.Lock()
		be.script = seq
		be.streamNum = 0
		be.delivered = map[string]uint32{}
		be.lastMeta = map[string]meta{}
		be.streams = nil
		be.mu.Unlock()
		rec := billstat.NewRuntimeRecorder(&billstat.RuntimeRecorderConfig{
			Logger: newLogger(), ErrColl: errColl{}, Uploader: up, Metrics: billstat.EmptyMetrics{},
		})
		recorded := make([]int, ndev)
		var trace []string
		ctx, cancel := context.WithTimeout(context.Background(), 20*time.Second)
		hadFault := false
		for _, kind := range seq {
			n := 2 + rng.IntN(6)
			for j := 0; j < n; j++ {
				d := rng.IntN(ndev)
				recorded[d]++
				record(rec, d, recorded[d])
				trace = append(trace, fmt.Sprintf("record dev%d #%d", d, recorded[d]))
			}
			err := rec.Refresh(ctx)
			trace = append(trace, fmt.Sprintf("refresh backend=%s err=%v", kind, err != nil))
			if accepted(kind) != (err == nil) {
				r.Violation("grpc:refresh-error-mismatch", "Refresh's result does not reflect the backend's acceptance/rejection of the stream",
					map[string]any{"case": ci, "script": seq, "trace": trace, "err": fmt.Sprint(err)})
			}
			if !accepted(kind) {
				hadFault = true
				r.Bucket("grpc_streams_rejected", 1)
			}
			if kind == "ok-no-response" {
				r.Bucket("grpc_streams_ok_without_response", 1)
			}
		}
		// drain
		if err := rec.Refresh(ctx); err != nil {
			r.Violation("grpc:drain-error", "drain refresh failed against an accepting backend", map[string]any{"case": ci, "script": seq, "err": err.Error()})
		}
		cancel()
		be.mu.Lock()
		for d := 0; d < ndev; d++ {
			id := string(devID(d))
			got := int(be.delivered[id])
			if got != recorded[d] {
				key := "grpc:conservation-lost"
				if got > recorded[d] {
					key = "grpc:conservation-double"
				}
				r.Violation(key, fmt.Sprintf("real uploader: device %d: accepted streams delivered %d queries, recorded %d", d, got, recorded[d]),
					map[string]any{"case": ci, "script": seq, "trace": trace, "streams": be.streams})
			} else if recorded[d] > 0 {
				if want := metaOf(d, recorded[d]); be.lastMeta[id] != want {
					r.Violation("grpc:metadata", "real uploader: the last accepted record does not carry the metadata of the device's most recent query",
						map[string]any{"case": ci, "script": seq, "dev": d, "want": want, "got": be.lastMeta[id], "trace": trace})
				}
			}
		}
		be.mu.Unlock()
		r.Bucket("grpc_cases", 1)
		r.Eval("grpc/"+fmt.Sprint(seq), hadFault)
		if ci%37 == 3 {
			r.Sample(map[string]any{"real_uploader_case": ci, "backend_script": seq, "trace": trace})
		}
	}
}

// earlyOK is an OBSERVATION, not a judged case: a backend that finishes a
// stream with status OK after reading only the first record.  An OK status is
// an acceptance, so this behaviour is outside the fault model of the property
// (failed and retried uploads): whether the client notices depends only on
// whether its remaining Sends were already buffered by the transport.  With a
// small batch the unchanged code gets OK from CloseAndRecv, drops the batch and
// the unread records are gone; with a batch larger than the transport window a
// Send fails with io.EOF, the whole batch is kept and the first record is
// delivered twice.  Both outcomes are counted; neither is a verdict.
func earlyOK(r *vkit.Run) {
	l, err := net.Listen("tcp", "127.0.0.1:0")
	if err != nil {
		return
	}
	be := &backend{}
	gs := grpc.NewServer(grpc.Creds(insecure.NewCredentials()))
	backendpb.RegisterDNSServiceServer(gs, be)
	go func() { _ = gs.Serve(l) }()
	defer gs.Stop()
	up, err := backendpb.NewBillStat(&backendpb.BillStatConfig{
		Logger: newLogger(), ErrColl: errColl{}, GRPCMetrics: backendpb.EmptyGRPCMetrics{},
		Endpoint: &url.URL{Scheme: "grpc", Host: l.Addr().String()},
	})
	if err != nil {
		return
	}
	for _, ndev := range []int{5, 20000} {
		be.mu.Lock()
		be.script, be.streamNum = []string{"ok-early-1"}, 0
		be.delivered, be.lastMeta, be.streams = map[string]uint32{}, map[string]meta{}, nil
		be.mu.Unlock()
		rec := billstat.NewRuntimeRecorder(&billstat.RuntimeRecorderConfig{
			Logger: newLogger(), ErrColl: errColl{}, Uploader: up, Metrics: billstat.EmptyMetrics{},
		})
		for d := 0; d < ndev; d++ {
			record(rec, d, 1)
		}
		ctx, cancel := context.WithTimeout(context.Background(), 60*time.Second)
		err1 := rec.Refresh(ctx)
		err2 := rec.Refresh(ctx) // healthy backend: whatever is held arrives now
		cancel()
		be.mu.Lock()
		lost, dup := 0, 0
		for d := 0; d < ndev; d++ {
			switch got := be.delivered[string(devID(d))]; {
			case got == 0:
				lost++
			case got > 1:
				dup++
			}
		}
		be.mu.Unlock()
		r.Bucket(fmt.Sprintf("observed_early_ok_backend:batch=%d:first_refresh_error=%v:devices_never_read", ndev, err1 != nil), int64(lost))
		r.Bucket(fmt.Sprintf("observed_early_ok_backend:batch=%d:first_refresh_error=%v:devices_read_twice", ndev, err1 != nil), int64(dup))
		r.Sample(map[string]any{"observation": "backend answers OK after the first record (outside the fault model, not judged)",
			"batch_devices": ndev, "first_refresh_error": fmt.Sprint(err1), "second_refresh_error": fmt.Sprint(err2),
			"devices_never_read_by_backend": lost, "devices_read_twice": dup})
	}
}
