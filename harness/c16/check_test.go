// Package c16 monitors property C16: billing counts are conserved across
// failed and retried uploads.
package c16

import (
	"context"
	"errors"
	"fmt"
	"io"
	"log/slog"
	"sync"
	"sync/atomic"
	"testing"
	"time"

	"github.com/AdguardTeam/AdGuardDNS/internal/agd"
	"github.com/AdguardTeam/AdGuardDNS/internal/billstat"
	"github.com/AdguardTeam/AdGuardDNS/internal/geoip"
	"github.com/AdguardTeam/AdGuardDNS/verif/vkit"
	"github.com/anishathalye/porcupine"
)

type errColl struct{}

func (errColl) Collect(context.Context, error) {}

var base = time.Date(2024, 1, 1, 0, 0, 0, 0, time.UTC)

var countries = []geoip.Country{geoip.CountryAD, geoip.CountryXK, geoip.CountryNone, "DE", "US", "CY"}
var protos = []agd.Protocol{agd.ProtoDNS, agd.ProtoDoH, agd.ProtoDoQ, agd.ProtoDoT, agd.ProtoDNSCrypt}

// meta is the metadata of the i-th Record call for a device (i from 1); it is a
// function of (device, i) so that an uploaded record identifies the call whose
// metadata it carries.
type meta struct {
	Time    int64  `json:"time_offset_ns"`
	Country string `json:"country"`
	ASN     uint32 `json:"asn"`
	Proto   int    `json:"proto"`
}

func metaOf(dev, i int) meta {
	return meta{
		Time:    int64(dev)*1_000_000 + int64(i),
		Country: string(countries[(dev+i)%len(countries)]),
		ASN:     uint32(dev*100000 + i),
		Proto:   int(protos[(dev*3+i)%len(protos)]),
	}
}

func record(rec *billstat.RuntimeRecorder, dev, i int) {
	m := metaOf(dev, i)
	rec.Record(context.Background(), devID(dev), geoip.Country(m.Country), geoip.ASN(m.ASN),
		base.Add(time.Duration(m.Time)), agd.Protocol(m.Proto))
}

func devID(d int) agd.DeviceID { return agd.DeviceID(fmt.Sprintf("dev%04d", d)) }

type snap struct {
	Queries int32 `json:"queries"`
	Meta    meta  `json:"meta"`
}

func snapshot(records billstat.Records) map[string]snap {
	out := map[string]snap{}
	for id, r := range records {
		if r == nil {
			out[string(id)] = snap{Queries: -1}
			continue
		}
		out[string(id)] = snap{Queries: r.Queries, Meta: meta{
			Time: int64(r.Time.Sub(base)), Country: string(r.Country), ASN: uint32(r.ASN), Proto: int(r.Proto),
		}}
	}
	return out
}

// scripted uploader
type uploader struct {
	onUpload func(records billstat.Records) error
}

func (u *uploader) Upload(_ context.Context, records billstat.Records) error { return u.onUpload(records) }

func newLogger() *slog.Logger { return slog.New(slog.NewTextHandler(io.Discard, nil)) }

func newRecorder(u billstat.Uploader) *billstat.RuntimeRecorder {
	return billstat.NewRuntimeRecorder(&billstat.RuntimeRecorderConfig{
		Logger:   newLogger(),
		ErrColl:  errColl{},
		Uploader: u,
		Metrics:  billstat.EmptyMetrics{},
	})
}

var errUpload = errors.New("scripted upload failure")

// failureErrs are the errors a failing scripted upload returns, in rotation: a
// plain error, wrapped deadline / cancellation errors (what the gRPC uploader
// produces for a timed-out call) and io.EOF-like errors.  Whatever the kind, a
// failed upload must lose nothing.
var failureErrs = []error{
	errUpload,
	fmt.Errorf("grpc: %w; original message: scripted", context.DeadlineExceeded),
	fmt.Errorf("uploading: %w", context.Canceled),
	fmt.Errorf("finishing stream: %w", io.ErrUnexpectedEOF),
}

var failureSeq atomic.Int64

func nextFailureErr() error { return failureErrs[int(failureSeq.Add(1))%len(failureErrs)] }

type step struct {
	Kind string `json:"kind"` // "record", "refresh"
	Dev  int    `json:"dev,omitempty"`
	OK   bool   `json:"ok,omitempty"`
	// InFlight are the devices recorded while the upload is in flight.
	InFlight []int `json:"in_flight,omitempty"`
	// AtExit: inject after the uploader took its entry snapshot but also mutate check at exit.
}

// runScripted executes one deterministic history and checks the oracle.
func runScripted(r *vkit.Run, caseName string, steps []step, ndev int) {
	recorded := make([]int, ndev)  // number of Record calls so far
	delivered := make([]int, ndev) // queries in successful uploads so far
	var cur *step
	var rec *billstat.RuntimeRecorder
	var atReset []int
	fail := func(key, what string, extra map[string]any) {
		w := map[string]any{"case": caseName, "steps": steps, "recorded": recorded, "delivered": delivered}
		for k, v := range extra {
			w[k] = v
		}
		r.Violation(key, what, w)
	}
	checkBatch := func(when string, got map[string]snap) {
		for d := 0; d < ndev; d++ {
			want := atReset[d] - delivered[d]
			g, ok := got[string(devID(d))]
			if want == 0 {
				if ok && g.Queries != 0 {
					fail("scripted:"+when+":unexpected-device", "upload batch holds queries for a device with nothing pending",
						map[string]any{"dev": d, "got": g})
				}
				continue
			}
			if !ok {
				if cur.OK {
					fail("scripted:"+when+":lost", "records held for a device are missing from the next upload",
						map[string]any{"dev": d, "want_queries": want})
				}
				continue
			}
			if int(g.Queries) != want && cur.OK {
				key := "scripted:" + when + ":count-low"
				if int(g.Queries) > want {
					key = "scripted:" + when + ":count-high"
				}
				fail(key, "successful upload's query count differs from recorded-minus-delivered",
					map[string]any{"dev": d, "want_queries": want, "got": g})
			}
			if wantM := metaOf(d, atReset[d]); g.Meta != wantM && cur.OK {
				fail("scripted:"+when+":metadata", "uploaded time/country/ASN/protocol are not those of the device's most recent query",
					map[string]any{"dev": d, "want_meta": wantM, "got": g})
			}
		}
		for id := range got {
			known := false
			for d := 0; d < ndev; d++ {
				if string(devID(d)) == id {
					known = true
				}
			}
			if !known {
				fail("scripted:"+when+":phantom", "upload batch holds an unknown device", map[string]any{"id": id})
			}
		}
	}
	u := &uploader{}
	u.onUpload = func(records billstat.Records) error {
		r.Bucket("uploads", 1)
		entry := snapshot(records)
		checkBatch("entry", entry)
		for _, d := range cur.InFlight {
			recorded[d]++
			record(rec, d, recorded[d])
			r.Bucket("records_while_upload_in_flight", 1)
		}
		exit := snapshot(records)
		checkBatch("exit", exit)
		if cur.OK {
			for d := 0; d < ndev; d++ {
				if g, ok := entry[string(devID(d))]; ok && g.Queries > 0 {
					delivered[d] += int(g.Queries)
				}
			}
			r.Bucket("uploads_ok", 1)
			return nil
		}
		r.Bucket("uploads_failed", 1)
		e := nextFailureErr()
		r.Bucket("uploads_failed_with:"+failureKind(e), 1)
		return e
	}
	rec = newRecorder(u)
	for i := range steps {
		s := &steps[i]
		switch s.Kind {
		case "record":
			recorded[s.Dev]++
			record(rec, s.Dev, recorded[s.Dev])
		case "refresh":
			cur = s
			atReset = append([]int(nil), recorded...)
			err := rec.Refresh(context.Background())
			if (err == nil) != s.OK {
				fail("scripted:refresh-error-mismatch", "Refresh's error does not reflect the uploader's result", map[string]any{"step": i, "err": fmt.Sprint(err)})
			}
			if s.OK {
				for d := 0; d < ndev; d++ {
					if delivered[d] != atReset[d] {
						// already reported by checkBatch with a precise key
						r.Bucket("post_upload_mismatch", 1)
					}
				}
			}
		}
	}
	// drain: always-successful refresh; everything recorded must now be delivered
	cur = &step{Kind: "refresh", OK: true}
	atReset = append([]int(nil), recorded...)
	if err := rec.Refresh(context.Background()); err != nil {
		fail("scripted:drain-error", "drain refresh failed", nil)
	}
	for d := 0; d < ndev; d++ {
		if delivered[d] != recorded[d] {
			key := "scripted:conservation-lost"
			if delivered[d] > recorded[d] {
				key = "scripted:conservation-double"
			}
			fail(key, fmt.Sprintf("device %d: delivered %d != recorded %d after final drain", d, delivered[d], recorded[d]), nil)
		}
	}
	// a second drain must be empty
	cur = &step{Kind: "refresh", OK: true}
	atReset = append([]int(nil), recorded...)
	_ = rec.Refresh(context.Background())
}

func TestCheck(t *testing.T) {
	r := vkit.Start(t, "C16", "fault_enumeration")
	defer r.Finish()
	r.Rule("scripted: every upload success/failure pattern of length 1..L (L=6 quick, 8 thorough) x 3 interleaving shapes " +
		"(records only between uploads / records injected while an upload is in flight for devices inside and outside the batch / both), " +
		"each with a seeded record sequence over 4 devices; distinct = (pattern, shape); non-trivial = pattern has a failure that is later followed by a success " +
		"or shape injects in-flight records. stress: writers x refresher under the race detector; porcupine: small concurrent histories against a counter model")
	r.Assume("scripted part: the Uploader reads the batch only during Upload (as backendpb does); the real backendpb uploader is exercised separately over loopback gRPC")
	r.Assume("scripted and stress parts use one refresher at a time (agdservice.RefreshWorker runs Refresh sequentially); overlapping refreshes (periodic worker vs debug refresh API) are driven by the overlap part")

	scripted(r)
	realUploader(r)
	earlyOK(r)
	overlapping(r)
	manyDevices(r)
	grpcOverlap(r)
	grpcConcurrentUploads(r)
	recordedTime(r)
	recordedTimeDoQ(r)
	stress(r)
	linearizable(r)

	r.Require("uploads_failed", 10)
	r.Require("records_while_upload_in_flight", 10)
	r.Require("stress_records", 1000)
	r.Require("porcupine_ok", 1)
	r.Require("grpc_streams_rejected", 20)
	r.Require("overlapping_refreshes", 40)
	r.Require("uploads_failed_with:deadline-exceeded", 20)
	r.Require("uploads_failed_with:canceled", 20)
	r.Require("grpc_streams_ok_without_response", 10)
	r.Require("many_devices_cases", 32)
	r.Require("grpc_overlapping_refreshes", 20)
	r.Require("grpc_concurrent_upload_rounds", 3)
	r.Require("recorded_time_queries_after_an_idle_gap_on_a_persistent_connection", 9)
	r.Require("recorded_time_doq_overlapping_stream_pairs", 4)
}

func scripted(r *vkit.Run) {
	const ndev = 4
	maxLen := r.N(6, 8)
	caseIdx := 0
	for L := 1; L <= maxLen; L++ {
		for pat := 0; pat < 1<<L; pat++ {
			for shape := 0; shape < 3; shape++ {
				rng := r.Rand("scripted", caseIdx)
				caseIdx++
				var steps []step
				hasFailThenOK := false
				seenFail := false
				for k := 0; k < L; k++ {
					if shape != 1 || k == 0 {
						n := rng.IntN(6)
						if k == 0 {
							n++
						}
						for j := 0; j < n; j++ {
							steps = append(steps, step{Kind: "record", Dev: rng.IntN(ndev)})
						}
					}
					ok := pat>>k&1 == 1
					if !ok {
						seenFail = true
					} else if seenFail {
						hasFailThenOK = true
					}
					s := step{Kind: "refresh", OK: ok}
					if shape >= 1 {
						n := 1 + rng.IntN(4)
						for j := 0; j < n; j++ {
							s.InFlight = append(s.InFlight, rng.IntN(ndev))
						}
					}
					steps = append(steps, s)
				}
				name := fmt.Sprintf("L%d/pat%0*b/shape%d", L, L, pat, shape)
				runScripted(r, name, steps, ndev)
				r.Eval(name, hasFailThenOK || shape >= 1)
				if caseIdx%97 == 5 {
					r.Sample(map[string]any{"case": name, "steps": steps})
				}
			}
		}
	}
	r.Extra("scripted_cases", caseIdx)
	r.Exhaustive(false)
}

// stress: one writer goroutine per single-writer device, several writers on
// shared devices, one refresher with a seeded failure pattern.
func stress(r *vkit.Run) {
	rounds := r.N(6, 40)
	for round := 0; round < rounds; round++ {
		rng := r.Rand("stress", round)
		const single = 6
		const shared = 2
		perWriter := 400 + rng.IntN(400)
		var mu sync.Mutex
		delivered := make([]int, single+shared)
		type up struct {
			OK    bool            `json:"ok"`
			Batch map[string]snap `json:"batch"`
		}
		var uploads []up
		nUploads := 0
		failPat := rng.Uint64()
		u := &uploader{}
		u.onUpload = func(records billstat.Records) error {
			s := snapshot(records)
			if rng.IntN(3) == 0 {
				time.Sleep(time.Duration(rng.IntN(300)) * time.Microsecond)
			}
			s2 := snapshot(records)
			ok := failPat>>(uint(nUploads)%64)&1 == 1
			nUploads++
			mu.Lock()
			defer mu.Unlock()
			uploads = append(uploads, up{ok, s})
			for id, a := range s {
				if b := s2[id]; a != b {
					r.Violation("stress:batch-mutated-in-flight", "an upload batch changed while the upload was in flight",
						map[string]any{"round": round, "id": id, "entry": a, "exit": b})
				}
			}
			if !ok {
				r.Bucket("uploads_failed", 1)
				return nextFailureErr()
			}
			return nil
		}
		rec := newRecorder(u)
		var wg sync.WaitGroup
		var done atomic.Bool
		recorded := make([]int64, single+shared)
		for d := 0; d < single; d++ {
			wg.Add(1)
			go func(d int) {
				defer wg.Done()
				for i := 1; i <= perWriter; i++ {
					record(rec, d, i)
					atomic.AddInt64(&recorded[d], 1)
				}
			}(d)
		}
		for d := single; d < single+shared; d++ {
			for w := 0; w < 3; w++ {
				wg.Add(1)
				go func(d, w int) {
					defer wg.Done()
					for i := 1; i <= perWriter/2; i++ {
						record(rec, d, w*1000+i)
						atomic.AddInt64(&recorded[d], 1)
					}
				}(d, w)
			}
		}
		refDone := make(chan struct{})
		go func() {
			defer close(refDone)
			for !done.Load() {
				_ = rec.Refresh(context.Background())
			}
		}()
		wg.Wait()
		done.Store(true)
		<-refDone
		failPat = ^uint64(0)
		for i := 0; i < 2; i++ {
			if err := rec.Refresh(context.Background()); err != nil {
				r.Violation("stress:drain-error", "drain failed", nil)
			}
		}
		// offline check of the recorded upload log
		for ui, up := range uploads {
			if !up.OK {
				continue
			}
			for d := 0; d < single+shared; d++ {
				g, ok := up.Batch[string(devID(d))]
				if !ok {
					continue
				}
				delivered[d] += int(g.Queries)
				if d < single {
					// unique-id trick: metadata of call #c, c = cumulative delivered
					if want := metaOf(d, delivered[d]); g.Meta != want {
						r.Violation("stress:metadata-or-count", "single-writer device: uploaded metadata is not that of call number (cumulative delivered count)",
							map[string]any{"round": round, "upload": ui, "dev": d, "cumulative": delivered[d], "got": g, "want_meta": want})
					}
				}
			}
		}
		for d := range delivered {
			rc := int(atomic.LoadInt64(&recorded[d]))
			r.Bucket("stress_records", int64(rc))
			if delivered[d] != rc {
				key := "stress:conservation-lost"
				if delivered[d] > rc {
					key = "stress:conservation-double"
				}
				r.Violation(key, fmt.Sprintf("device %d delivered %d recorded %d", d, delivered[d], rc),
					map[string]any{"round": round, "uploads": len(uploads)})
			}
		}
		r.Bucket("stress_uploads", int64(len(uploads)))
		r.Eval(fmt.Sprintf("stress/%d", round), false)
	}
}

func failureKind(e error) string {
	switch {
	case errors.Is(e, context.DeadlineExceeded):
		return "deadline-exceeded"
	case errors.Is(e, context.Canceled):
		return "canceled"
	case errors.Is(e, io.ErrUnexpectedEOF):
		return "unexpected-eof"
	default:
		return "generic"
	}
}

// porcupine: small concurrent histories, partitioned by device.
type pin struct {
	Dev     int
	Refresh bool
}
type pout struct {
	OK bool
	Q  int32
}

func linearizable(r *vkit.Run) {
	n := r.N(150, 1500)
	model := porcupine.Model{
		Init: func() any { return 0 },
		Step: func(st, in, out any) (bool, any) {
			held := st.(int)
			i := in.(pin)
			if !i.Refresh {
				return true, held + 1
			}
			o := out.(pout)
			if !o.OK {
				return true, held
			}
			return int(o.Q) == held, 0
		},
		DescribeOperation: func(in, out any) string { return fmt.Sprintf("%+v -> %+v", in, out) },
	}
	for h := 0; h < n; h++ {
		rng := r.Rand("porcupine", h)
		const ndev = 2
		var mu sync.Mutex
		var ops []porcupine.Operation
		t0 := time.Now()
		now := func() int64 { return int64(time.Since(t0)) }
		failPat := rng.Uint64()
		var nUp int
		var lastBatch map[string]snap
		var lastOK bool
		u := &uploader{}
		u.onUpload = func(records billstat.Records) error {
			lastBatch = snapshot(records)
			lastOK = failPat>>(uint(nUp)%64)&1 == 1
			nUp++
			if rng.IntN(2) == 0 {
				time.Sleep(time.Duration(rng.IntN(50)) * time.Microsecond)
			}
			if !lastOK {
				return errUpload
			}
			return nil
		}
		rec := newRecorder(u)
		var wg sync.WaitGroup
		for w := 0; w < 3; w++ {
			wg.Add(1)
			seed := rng.Uint64()
			go func(w int) {
				defer wg.Done()
				x := seed
				for i := 0; i < 5; i++ {
					x = x*6364136223846793005 + 1442695040888963407
					d := int(x>>33) % ndev
					c := now()
					record(rec, d, w*100+i+1)
					ret := now()
					mu.Lock()
					ops = append(ops, porcupine.Operation{ClientId: w, Input: pin{Dev: d}, Call: c, Output: pout{}, Return: ret})
					mu.Unlock()
				}
			}(w)
		}
		wg.Add(1)
		go func() {
			defer wg.Done()
			for k := 0; k < 4; k++ {
				c := now()
				_ = rec.Refresh(context.Background())
				ret := now()
				mu.Lock()
				for d := 0; d < ndev; d++ {
					ops = append(ops, porcupine.Operation{ClientId: 3, Input: pin{Dev: d, Refresh: true},
						Call: c, Output: pout{OK: lastOK, Q: lastBatch[string(devID(d))].Queries}, Return: ret})
				}
				mu.Unlock()
			}
		}()
		wg.Wait()
		failPat = ^uint64(0)
		c := now()
		_ = rec.Refresh(context.Background())
		ret := now()
		for d := 0; d < ndev; d++ {
			ops = append(ops, porcupine.Operation{ClientId: 3, Input: pin{Dev: d, Refresh: true},
				Call: c, Output: pout{OK: true, Q: lastBatch[string(devID(d))].Queries}, Return: ret})
		}
		for d := 0; d < ndev; d++ {
			var part []porcupine.Operation
			for _, o := range ops {
				if o.Input.(pin).Dev == d {
					part = append(part, o)
				}
			}
			res, _ := porcupine.CheckOperationsVerbose(model, part, 20*time.Second)
			switch res {
			case porcupine.Ok:
				r.Bucket("porcupine_ok", 1)
			case porcupine.Illegal:
				var hist []string
				for _, o := range part {
					hist = append(hist, fmt.Sprintf("c%d [%d,%d] %+v -> %+v", o.ClientId, o.Call, o.Return, o.Input, o.Output))
				}
				r.Violation("porcupine:not-linearizable", "concurrent record/upload history is not explained by any sequential counter history",
					map[string]any{"history_index": h, "dev": d, "ops": hist})
			default:
				r.Bucket("porcupine_unknown", 1)
			}
		}
		r.Eval(fmt.Sprintf("porcupine/%d", h), false)
	}
}
