package c16

import (
	"context"
	"fmt"
	"net"
	"net/url"
	"sync"
	"time"

	"github.com/AdguardTeam/AdGuardDNS/internal/backendpb"
	"github.com/AdguardTeam/AdGuardDNS/internal/billstat"
	"github.com/AdguardTeam/AdGuardDNS/verif/vkit"
	"google.golang.org/grpc"
	"google.golang.org/grpc/credentials/insecure"
)

// manyDevices drives refreshes with hundreds of devices buffered, so that an
// implementation that uploads a drained buffer in several Upload calls (or
// several streams) is exercised with every accept/reject pattern over the
// first calls.  The oracle is the one of the scripted part, stated at the
// Uploader boundary and therefore indifferent to how many calls a refresh
// makes: what accepted calls carried plus what is still held equals what was
// recorded, for every device.
func manyDevices(r *vkit.Run) {
	const patLen = 4
	caseIdx := 0
	for _, ndev := range []int{600, 1300} {
		for pat := 0; pat < 1<<patLen; pat++ {
			rng := r.Rand("many", caseIdx)
			caseIdx++
			recorded := make([]int, ndev)
			delivered := make([]int, ndev)
			var rec *billstat.RuntimeRecorder
			calls, rejected := 0, 0
			u := &uploader{}
			u.onUpload = func(records billstat.Records) error {
				call := calls
				calls++
				if call < patLen && pat&(1<<call) == 0 {
					rejected++
					r.Bucket("uploads_failed", 1)
					return nextFailureErr()
				}
				for id, g := range snapshot(records) {
					var d int
					if _, err := fmt.Sscanf(id, "dev%d", &d); err == nil && d < ndev {
						delivered[d] += int(g.Queries)
					}
				}
				return nil
			}
			rec = newRecorder(u)
			doRecord := func(n int) {
				for i := 0; i < n; i++ {
					d := rng.IntN(ndev)
					recorded[d]++
					record(rec, d, recorded[d])
				}
			}
			for d := 0; d < ndev; d++ { // every device has something buffered
				recorded[d]++
				record(rec, d, recorded[d])
			}
			doRecord(200)
			refreshes := 0
			for calls < patLen && refreshes < 2*patLen {
				_ = rec.Refresh(context.Background())
				refreshes++
				doRecord(20)
			}
			for i := 0; i < 3; i++ { // drain against an accepting uploader
				_ = rec.Refresh(context.Background())
			}
			lost, dup := 0, 0
			for d := 0; d < ndev; d++ {
				switch {
				case delivered[d] < recorded[d]:
					lost++
				case delivered[d] > recorded[d]:
					dup++
				}
			}
			w := map[string]any{"case": caseIdx, "devices": ndev, "accept_pattern_bits": pat, "upload_calls": calls, "refreshes": refreshes,
				"devices_lost": lost, "devices_double": dup}
			if lost > 0 {
				r.Violation("many-devices:conservation-lost", fmt.Sprintf("%d of %d devices: accepted uploads delivered fewer queries than were recorded", lost, ndev), w)
			}
			if dup > 0 {
				r.Violation("many-devices:conservation-double", fmt.Sprintf("%d of %d devices: accepted uploads delivered more queries than were recorded", dup, ndev), w)
			}
			r.Bucket("many_devices_cases", 1)
			r.Bucket("many_devices_upload_calls", int64(calls))
			r.Eval(fmt.Sprintf("many/%d/%04b", ndev, pat), rejected > 0)
			if caseIdx%9 == 1 {
				r.Sample(w)
			}
		}
	}
}

// grpcOverlap runs two OVERLAPPING refreshes through the real backendpb
// uploader: the backend holds the first stream (a slow backend) while a second
// complete Refresh, with queries recorded in between, runs against it; both
// streams are then read completely and accepted.
func grpcOverlap(r *vkit.Run) {
	l, err := net.Listen("tcp", "127.0.0.1:0")
	if err != nil {
		r.Inconclusive("cannot listen: " + err.Error())
		return
	}
	be := &backend{started: make(chan struct{}, 4), hold: make(chan struct{})}
	gs := grpc.NewServer(grpc.Creds(insecure.NewCredentials()))
	backendpb.RegisterDNSServiceServer(gs, be)
	go func() { _ = gs.Serve(l) }()
	defer gs.Stop()
	const ndev = 5
	for ci := 0; ci < r.N(24, 200); ci++ {
		rng := r.Rand("grpc-overlap", ci)
		// a fresh uploader per case: state inside the uploader must not carry over
		up, err := backendpb.NewBillStat(&backendpb.BillStatConfig{
			Logger: newLogger(), ErrColl: errColl{}, GRPCMetrics: backendpb.EmptyGRPCMetrics{},
			Endpoint: &url.URL{Scheme: "grpc", Host: l.Addr().String()},
		})
		if err != nil {
			r.Inconclusive("NewBillStat: " + err.Error())
			return
		}
		be.mu.Lock()
		be.script, be.streamNum = []string{"hold"}, 0
		be.delivered, be.lastMeta, be.streams = map[string]uint32{}, map[string]meta{}, nil
		be.mu.Unlock()
		rec := billstat.NewRuntimeRecorder(&billstat.RuntimeRecorderConfig{
			Logger: newLogger(), ErrColl: errColl{}, Uploader: up, Metrics: billstat.EmptyMetrics{},
		})
		recorded := make([]int, ndev)
		var trace []string
		doRecord := func(n int) {
			for j := 0; j < n; j++ {
				d := rng.IntN(ndev)
				recorded[d]++
				record(rec, d, recorded[d])
				trace = append(trace, fmt.Sprintf("record dev%d #%d", d, recorded[d]))
			}
		}
		ctx, cancel := context.WithTimeout(context.Background(), 30*time.Second)
		doRecord(2 + rng.IntN(5))
		var wg sync.WaitGroup
		var err1 error
		wg.Add(1)
		go func() { defer wg.Done(); err1 = rec.Refresh(ctx) }()
		select {
		case <-be.started:
		case <-ctx.Done():
			cancel()
			r.Inconclusive("grpc-overlap: the first stream never reached the backend")
			return
		}
		trace = append(trace, "refresh#1 in flight (backend holds the stream)")
		doRecord(1 + rng.IntN(5))
		err2 := rec.Refresh(ctx) // overlaps refresh#1
		trace = append(trace, fmt.Sprintf("refresh#2 done err=%v", err2))
		doRecord(rng.IntN(3))
		be.hold <- struct{}{}
		wg.Wait()
		trace = append(trace, fmt.Sprintf("refresh#1 done err=%v", err1))
		err3 := rec.Refresh(ctx)
		err4 := rec.Refresh(ctx)
		cancel()
		if err1 != nil || err2 != nil || err3 != nil || err4 != nil {
			r.Violation("grpc-overlap:refresh-error", "a refresh failed against a backend that accepts every stream",
				map[string]any{"case": ci, "trace": trace, "errs": fmt.Sprint(err1, err2, err3, err4)})
		}
		be.mu.Lock()
		for d := 0; d < ndev; d++ {
			if got := int(be.delivered[string(devID(d))]); got != recorded[d] {
				key := "grpc-overlap:conservation-lost"
				if got > recorded[d] {
					key = "grpc-overlap:conservation-double"
				}
				r.Violation(key, fmt.Sprintf("overlapping refreshes through the real uploader: device %d: accepted streams delivered %d queries, recorded %d", d, got, recorded[d]),
					map[string]any{"case": ci, "trace": trace, "streams": be.streams})
			}
		}
		be.mu.Unlock()
		r.Bucket("grpc_overlapping_refreshes", 1)
		r.Eval(fmt.Sprintf("grpc-overlap/%d", ci%8), true)
		if ci%11 == 2 {
			r.Sample(map[string]any{"grpc_overlap_case": ci, "trace": trace})
		}
	}
}
