package c16

import (
	"context"
	"encoding/binary"
	"fmt"
	"io"
	"net"
	"net/netip"
	"net/url"
	"sync"
	"time"

	"github.com/AdguardTeam/AdGuardDNS/internal/access"
	"github.com/AdguardTeam/AdGuardDNS/internal/agd"
	"github.com/AdguardTeam/AdGuardDNS/internal/agdpasswd"
	"github.com/AdguardTeam/AdGuardDNS/internal/backendpb"
	"github.com/AdguardTeam/AdGuardDNS/internal/billstat"
	"github.com/AdguardTeam/AdGuardDNS/internal/dnsmsg"
	"github.com/AdguardTeam/AdGuardDNS/internal/dnsserver"
	"github.com/AdguardTeam/AdGuardDNS/internal/dnssvc"
	"github.com/AdguardTeam/AdGuardDNS/internal/filter"
	"github.com/AdguardTeam/AdGuardDNS/verif/stack"
	"github.com/AdguardTeam/AdGuardDNS/verif/tbench"
	"github.com/AdguardTeam/AdGuardDNS/verif/vkit"
	"github.com/miekg/dns"
	"google.golang.org/grpc"
	"google.golang.org/grpc/credentials/insecure"
)

// grpcConcurrentUploads runs two uploads through ONE real backendpb.BillStat at
// the same moment (the periodic refresh racing the debug refresh API or the
// shutdown refresh), each with thousands of devices, against a backend that
// reads every stream to the end and accepts it.  Every device's accepted
// record must be its own: count and metadata.
func grpcConcurrentUploads(r *vkit.Run) {
	l, err := net.Listen("tcp", "127.0.0.1:0")
	if err != nil {
		r.Inconclusive("cannot listen: " + err.Error())
		return
	}
	be := &backend{}
	gs := grpc.NewServer(grpc.Creds(insecure.NewCredentials()))
	backendpb.RegisterDNSServiceServer(gs, be)
	go func() { _ = gs.Serve(l) }()
	defer gs.Stop()
	up, err := backendpb.NewBillStat(&backendpb.BillStatConfig{
		Logger: newLogger(), ErrColl: errColl{}, GRPCMetrics: backendpb.EmptyGRPCMetrics{},
		Endpoint: &url.URL{Scheme: "grpc", Host: l.Addr().String()},
	})
	if err != nil {
		r.Inconclusive("NewBillStat: " + err.Error())
		return
	}
	const half = 2500
	for round := 0; round < r.N(3, 12); round++ {
		be.mu.Lock()
		be.script, be.streamNum = nil, 0
		be.delivered, be.lastMeta, be.streams = map[string]uint32{}, map[string]meta{}, nil
		be.mu.Unlock()
		recs := [2]*billstat.RuntimeRecorder{}
		recorded := make([]int, 2*half)
		for k := range recs {
			recs[k] = billstat.NewRuntimeRecorder(&billstat.RuntimeRecorderConfig{
				Logger: newLogger(), ErrColl: errColl{}, Uploader: up, Metrics: billstat.EmptyMetrics{},
			})
			for d := k * half; d < (k+1)*half; d++ {
				n := 1 + (d+round)%5
				for i := 1; i <= n; i++ {
					recorded[d]++
					record(recs[k], d, recorded[d])
				}
			}
		}
		ctx, cancel := context.WithTimeout(context.Background(), 60*time.Second)
		var wg sync.WaitGroup
		start := make(chan struct{})
		errs := [2]error{}
		for k := range recs {
			wg.Add(1)
			go func() { defer wg.Done(); <-start; errs[k] = recs[k].Refresh(ctx) }()
		}
		close(start)
		wg.Wait()
		for k := range recs { // a failed upload keeps its batch: drain sequentially
			for i := 0; i < 2; i++ {
				_ = recs[k].Refresh(ctx)
			}
		}
		cancel()
		be.mu.Lock()
		wrongCount, wrongMeta := 0, 0
		var first map[string]any
		for d := 0; d < 2*half; d++ {
			id := string(devID(d))
			got := int(be.delivered[id])
			if got != recorded[d] {
				wrongCount++
				if first == nil {
					first = map[string]any{"device": d, "recorded": recorded[d], "delivered": got}
				}
			} else if want := metaOf(d, recorded[d]); be.lastMeta[id] != want {
				wrongMeta++
				if first == nil {
					first = map[string]any{"device": d, "want_meta": want, "got_meta": be.lastMeta[id]}
				}
			}
		}
		nstreams := len(be.streams)
		be.mu.Unlock()
		w := map[string]any{"round": round, "devices_per_upload": half, "streams_accepted": nstreams, "first_refresh_errors": fmt.Sprint(errs[0], errs[1]),
			"devices_with_wrong_count": wrongCount, "devices_with_foreign_metadata": wrongMeta, "first_wrong_device": first}
		if wrongCount > 0 {
			r.Violation("grpc-concurrent:conservation", fmt.Sprintf("two concurrent uploads through one uploader: %d devices delivered with a count other than recorded", wrongCount), w)
		}
		if wrongMeta > 0 {
			r.Violation("grpc-concurrent:metadata", fmt.Sprintf("two concurrent uploads through one uploader: %d devices delivered with another record's metadata", wrongMeta), w)
		}
		r.Bucket("grpc_concurrent_upload_rounds", 1)
		r.Bucket("grpc_concurrent_upload_devices", 2*half)
		r.Eval(fmt.Sprintf("grpc-concurrent/%d", round), true)
		if round == 0 {
			r.Sample(w)
		}
	}
}

// recordedTime drives the real handler chain of dnssvc behind a real plain-DNS
// TCP listener and looks at the TIME with which each query is billed: several
// queries of one device on one persistent connection with idle gaps between
// them.  The billed time of a query cannot precede the moment the client
// started to send it (same process clock) and cannot follow the moment its
// answer arrived.
func recordedTime(r *vkit.Run) {
	srvAddr := netip.MustParseAddrPort("127.0.0.1:0")
	srv := stack.NewServer("c16_dns", agd.ProtoDNS, srvAddr, true)
	grp := &agd.ServerGroup{DDR: stack.NewDDR(false), Name: "g16", FilteringGroup: "fg16", ProfilesEnabled: true, Servers: []*agd.Server{srv}}
	fg := &agd.FilteringGroup{ID: "fg16", FilterConfig: &filter.ConfigGroup{Parental: &filter.ConfigParental{},
		RuleList: &filter.ConfigRuleList{}, SafeBrowsing: &filter.ConfigSafeBrowsing{}}}
	db := stack.NewMapDB()
	db.Add(&agd.Profile{
		FilterConfig: &filter.ConfigClient{Custom: &filter.ConfigCustom{ID: "p16"}, Parental: &filter.ConfigParental{},
			RuleList: &filter.ConfigRuleList{}, SafeBrowsing: &filter.ConfigSafeBrowsing{}},
		Access: access.EmptyProfile{}, BlockingMode: &dnsmsg.BlockingModeNullIP{}, Ratelimiter: agd.GlobalRatelimiter{},
		ID: "p16", FilteredResponseTTL: 10 * time.Second, FilteringEnabled: true,
	}, &agd.Device{ID: "dev16tcp", LinkedIP: netip.MustParseAddr("127.0.0.1"), FilteringEnabled: true, Auth: &agd.AuthSettings{Enabled: false, PasswordHash: agdpasswd.AllowAuthenticator{}}})
	st, err := stack.New(&stack.Options{ProfileDB: db, ServerGroups: []*agd.ServerGroup{grp},
		FilteringGroups: map[agd.FilteringGroupID]*agd.FilteringGroup{"fg16": fg}})
	if err != nil {
		r.Inconclusive("recorded-time: cannot build the stack: " + err.Error())
		return
	}
	h := st.Handlers[dnssvc.HandlerKey{Server: srv, ServerGroup: grp}]
	if h == nil {
		r.Inconclusive("recorded-time: no handler for the server")
		return
	}
	ds := dnsserver.NewServerDNS(dnsserver.ConfigDNS{
		ConfigBase:  dnsserver.ConfigBase{Name: "c16_dns", Addr: "127.0.0.1:0", Network: dnsserver.NetworkTCP, Handler: h},
		ReadTimeout: 5 * time.Second, WriteTimeout: 5 * time.Second, TCPIdleTimeout: 10 * time.Second,
	})
	if err = ds.Start(context.Background()); err != nil {
		r.Inconclusive("recorded-time: cannot start the TCP server: " + err.Error())
		return
	}
	defer func() {
		ctx, cancel := context.WithTimeout(context.Background(), 5*time.Second)
		defer cancel()
		_ = ds.Shutdown(ctx)
	}()
	addr := ds.LocalTCPAddr().String()

	type stamp struct{ Sent, Answered time.Time }
	var stamps []stamp
	gaps := []time.Duration{0, 250 * time.Millisecond, 400 * time.Millisecond, 150 * time.Millisecond}
	conns := r.N(3, 12)
	for c := 0; c < conns; c++ {
		conn, derr := net.Dial("tcp", addr)
		if derr != nil {
			r.Inconclusive("recorded-time: dial: " + derr.Error())
			return
		}
		for i, gap := range gaps {
			time.Sleep(gap)
			q := stack.NewQuery(uint16(1000+c*16+i), fmt.Sprintf("t%d-%d.c16time.example.", c, i), dns.TypeA, dns.ClassINET)
			b, _ := q.Pack()
			buf := make([]byte, 2+len(b))
			binary.BigEndian.PutUint16(buf, uint16(len(b)))
			copy(buf[2:], b)
			var s stamp
			s.Sent = time.Now()
			_ = conn.SetDeadline(time.Now().Add(10 * time.Second))
			if _, werr := conn.Write(buf); werr != nil {
				r.Inconclusive("recorded-time: write: " + werr.Error())
				return
			}
			var lb [2]byte
			if _, rerr := io.ReadFull(conn, lb[:]); rerr != nil {
				r.Inconclusive("recorded-time: read: " + rerr.Error())
				return
			}
			body := make([]byte, binary.BigEndian.Uint16(lb[:]))
			if _, rerr := io.ReadFull(conn, body); rerr != nil {
				r.Inconclusive("recorded-time: read: " + rerr.Error())
				return
			}
			s.Answered = time.Now()
			stamps = append(stamps, s)
		}
		_ = conn.Close()
	}
	bills := st.OrphanBill()
	if len(bills) != len(stamps) {
		r.Inconclusive(fmt.Sprintf("recorded-time: %d queries answered but %d billing records made (the device was not recognised by its linked IP?)", len(stamps), len(bills)))
		return
	}
	const slack = 2 * time.Millisecond // clock reads on two goroutines
	for i, b := range bills {
		s := stamps[i]
		w := map[string]any{"query_index_on_connection": i % len(gaps), "idle_gap_before_query_ms": gaps[i%len(gaps)].Milliseconds(),
			"billed_time_minus_send_time_ms": float64(b.Start.Sub(s.Sent).Microseconds()) / 1000,
			"billed_time_minus_answer_time_ms": float64(b.Start.Sub(s.Answered).Microseconds()) / 1000, "device": string(b.Device)}
		switch {
		case b.Start.Before(s.Sent.Add(-slack)):
			r.Violation("recorded-time:before-the-query-was-sent", "a query on a persistent TCP connection is billed with a time that precedes the moment the client started to send it (the time of the device's most recent query is reported too early)", w)
		case b.Start.After(s.Answered.Add(slack)):
			r.Violation("recorded-time:after-the-answer", "a query is billed with a time later than the arrival of its answer", w)
		}
		if i%len(gaps) != 0 {
			r.Bucket("recorded_time_queries_after_an_idle_gap_on_a_persistent_connection", 1)
		}
		r.Eval(fmt.Sprintf("recorded-time/%d", i%len(gaps)), i%len(gaps) != 0)
	}
	r.Sample(map[string]any{"recorded_time_connections": conns, "queries": len(stamps)})
}

// recordedTimeDoQ looks at the billed time of OVERLAPPING queries on one DoQ
// connection: a slow query (its upstream exchange is held) and, while it is in
// flight, a second query on another stream of the same connection.  The billed
// time of a query is stamped before the pipeline handles it, so it cannot be
// later than the moment its own upstream exchange began.
func recordedTimeDoQ(r *vkit.Run) {
	const devDomain = "d.c16.test"
	srv := stack.NewServer("c16_doq", agd.ProtoDoQ, netip.MustParseAddrPort("127.0.0.1:0"), false)
	grp := &agd.ServerGroup{DDR: stack.NewDDR(false), DeviceDomains: []string{devDomain}, Name: "g16q", FilteringGroup: "fg16q",
		ProfilesEnabled: true, Servers: []*agd.Server{srv}}
	fg := &agd.FilteringGroup{ID: "fg16q", FilterConfig: &filter.ConfigGroup{Parental: &filter.ConfigParental{},
		RuleList: &filter.ConfigRuleList{}, SafeBrowsing: &filter.ConfigSafeBrowsing{}}}
	db := stack.NewMapDB()
	db.Add(&agd.Profile{
		FilterConfig: &filter.ConfigClient{Custom: &filter.ConfigCustom{ID: "p16q"}, Parental: &filter.ConfigParental{},
			RuleList: &filter.ConfigRuleList{}, SafeBrowsing: &filter.ConfigSafeBrowsing{}},
		Access: access.EmptyProfile{}, BlockingMode: &dnsmsg.BlockingModeNullIP{}, Ratelimiter: agd.GlobalRatelimiter{},
		ID: "p16q", FilteredResponseTTL: 10 * time.Second, FilteringEnabled: true,
	}, &agd.Device{ID: "dev16doq", FilteringEnabled: true, Auth: &agd.AuthSettings{Enabled: false, PasswordHash: agdpasswd.AllowAuthenticator{}}})

	var mu sync.Mutex
	entered := map[string]time.Time{}
	enteredCh := make(chan string, 64)
	release := make(chan struct{})
	upstream := func(ctx context.Context, req *dns.Msg, ri *agd.RequestInfo) (*dns.Msg, error) {
		name := req.Question[0].Name
		mu.Lock()
		entered[name] = time.Now()
		mu.Unlock()
		if len(name) > 4 && name[:4] == "slow" {
			enteredCh <- name
			select {
			case <-release:
			case <-ctx.Done():
			}
		}
		return stack.DefaultUpstream(ctx, req, ri)
	}
	st, err := stack.New(&stack.Options{ProfileDB: db, Upstream: upstream, ServerGroups: []*agd.ServerGroup{grp},
		FilteringGroups: map[agd.FilteringGroupID]*agd.FilteringGroup{"fg16q": fg}})
	if err != nil {
		r.Inconclusive("recorded-time-doq: cannot build the stack: " + err.Error())
		return
	}
	h := st.Handlers[dnssvc.HandlerKey{Server: srv, ServerGroup: grp}]
	b, err := tbench.Start(tbench.Config{Handler: h, Only: []tbench.Server{tbench.SrvDoQ}, ServerName: "dev16doq." + devDomain})
	if err != nil {
		r.Inconclusive("recorded-time-doq: cannot start the DoQ server: " + err.Error())
		return
	}
	defer func() { _ = b.Close() }()
	pack := func(id uint16, name string) []byte {
		q := stack.NewQuery(0, name, dns.TypeA, dns.ClassINET) // DoQ: ID 0
		_ = id
		raw, _ := q.Pack()
		return raw
	}
	rounds := r.N(4, 20)
	for i := 0; i < rounds; i++ {
		c, derr := b.DialDoQ()
		if derr != nil {
			r.Inconclusive("recorded-time-doq: dial: " + derr.Error())
			return
		}
		before := len(st.OrphanBill())
		slow := fmt.Sprintf("slow%d.c16doq.example.", i)
		fast := fmt.Sprintf("fast%d.c16doq.example.", i)
		var wg sync.WaitGroup
		var slowSent, slowAnswered time.Time
		var slowRes tbench.Result
		wg.Add(1)
		go func() {
			defer wg.Done()
			slowSent = time.Now()
			slowRes = c.Exchange(pack(0, slow), 10*time.Second)
			slowAnswered = time.Now()
		}()
		select {
		case <-enteredCh:
		case <-time.After(10 * time.Second):
			r.Inconclusive("recorded-time-doq: the slow query never reached the upstream")
			_ = c.Close()
			return
		}
		time.Sleep(60 * time.Millisecond) // the second stream starts clearly later than the first query's upstream exchange
		fastSent := time.Now()
		fastRes := c.Exchange(pack(0, fast), 10*time.Second)
		fastAnswered := time.Now()
		release <- struct{}{}
		wg.Wait()
		_ = c.Close()
		bills := st.OrphanBill()[before:]
		if len(fastRes.Responses) != 1 || len(slowRes.Responses) != 1 || len(bills) != 2 {
			r.Inconclusive(fmt.Sprintf("recorded-time-doq: round %d: %d/%d responses, %d billing records (device not recognised by its TLS server name?)",
				i, len(slowRes.Responses), len(fastRes.Responses), len(bills)))
			return
		}
		mu.Lock()
		slowEntered, fastEntered := entered[slow], entered[fast]
		mu.Unlock()
		const slack = 2 * time.Millisecond
		// the fast query is billed first (it finishes while the slow one is held)
		check := func(which string, got, sent, upper time.Time, upperWhat string) {
			w := map[string]any{"round": i, "query": which, "billed_minus_sent_ms": float64(got.Sub(sent).Microseconds()) / 1000,
				"billed_minus_" + upperWhat + "_ms": float64(got.Sub(upper).Microseconds()) / 1000}
			switch {
			case got.Before(sent.Add(-slack)):
				r.Violation("recorded-time:doq:before-the-query-was-sent", "a DoQ query is billed with a time that precedes the moment the client started to send it", w)
			case got.After(upper.Add(slack)):
				r.Violation("recorded-time:doq:later-than-its-own-upstream-exchange", "a DoQ query that overlaps another stream of its connection is billed with a time later than the start of its own upstream exchange (the time of another stream)", w)
			}
		}
		check("fast", bills[0].Start, fastSent, fastEntered, "own_upstream_entry")
		check("slow", bills[1].Start, slowSent, slowEntered, "own_upstream_entry")
		_ = fastAnswered
		_ = slowAnswered
		r.Bucket("recorded_time_doq_overlapping_stream_pairs", 1)
		r.Eval(fmt.Sprintf("recorded-time-doq/%d", i%4), true)
	}
}
