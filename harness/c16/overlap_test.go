package c16

import (
	"context"
	"fmt"
	"sync"
	"sync/atomic"

	"github.com/AdguardTeam/AdGuardDNS/internal/billstat"
	"github.com/AdguardTeam/AdGuardDNS/verif/vkit"
)

// overlapping drives Refresh calls that OVERLAP: while the upload of one
// refresh is in flight, a second complete Refresh (for example the debug
// refresh API racing the periodic worker) runs on the same recorder.  Every
// batch belongs to exactly one upload; conservation and the "most recent
// query" metadata must hold whatever the outcomes of the two uploads are.
func overlapping(r *vkit.Run) {
	const ndev = 4
	type sc struct {
		OuterOK, InnerOK bool
		Before, During1, During2, After []int // devices recorded at each point
	}
	caseIdx := 0
	for outer := 0; outer < 2; outer++ {
		for inner := 0; inner < 2; inner++ {
			for rep := 0; rep < r.N(24, 200); rep++ {
				rng := r.Rand("overlap", caseIdx)
				caseIdx++
				pick := func(minN int) []int {
					n := minN + rng.IntN(4)
					out := make([]int, n)
					for i := range out {
						out[i] = rng.IntN(ndev)
					}
					return out
				}
				s := sc{OuterOK: outer == 1, InnerOK: inner == 1, Before: pick(2), During1: pick(1), During2: pick(0), After: pick(0)}
				recorded := make([]int, ndev)
				delivered := make([]int, ndev)
				lastDeliveredMeta := map[int]meta{}
				var mu sync.Mutex
				var nUp atomic.Int32
				var rec *billstat.RuntimeRecorder
				doRecord := func(devs []int) {
					for _, d := range devs {
						mu.Lock()
						recorded[d]++
						i := recorded[d]
						mu.Unlock()
						record(rec, d, i)
					}
				}
				u := &uploader{}
				u.onUpload = func(records billstat.Records) error {
					n := nUp.Add(1)
					entry := snapshot(records)
					ok := true
					switch n {
					case 1: // outer upload: a whole second refresh runs while it is in flight
						doRecord(s.During1)
						done := make(chan struct{})
						go func() {
							defer close(done)
							_ = rec.Refresh(context.Background())
						}()
						<-done
						doRecord(s.During2)
						ok = s.OuterOK
					case 2:
						ok = s.InnerOK
					}
					exit := snapshot(records)
					for id, a := range entry {
						if b, present := exit[id]; !present || a != b {
							r.Violation("overlap:batch-changed-while-upload-in-flight",
								"the batch handed to an upload changed while that upload was in flight (another refresh ran meanwhile)",
								map[string]any{"case": caseIdx, "scenario": s, "upload": n, "id": id, "entry": a, "exit": exit[id]})
						}
					}
					for id := range exit {
						if _, present := entry[id]; !present {
							r.Violation("overlap:batch-changed-while-upload-in-flight",
								"a device appeared in a batch while its upload was in flight",
								map[string]any{"case": caseIdx, "scenario": s, "upload": n, "id": id})
						}
					}
					if !ok {
						r.Bucket("uploads_failed", 1)
						return nextFailureErr()
					}
					mu.Lock()
					for d := 0; d < ndev; d++ {
						if g, present := entry[string(devID(d))]; present {
							delivered[d] += int(g.Queries)
							lastDeliveredMeta[d] = g.Meta
						}
					}
					mu.Unlock()
					return nil
				}
				rec = newRecorder(u)
				doRecord(s.Before)
				_ = rec.Refresh(context.Background())
				doRecord(s.After)
				for i := 0; i < 2; i++ { // drain
					_ = rec.Refresh(context.Background())
				}
				if nUp.Load() >= 2 {
					r.Bucket("overlapping_refreshes", 1)
				}
				for d := 0; d < ndev; d++ {
					if delivered[d] != recorded[d] {
						key := "overlap:conservation-lost"
						if delivered[d] > recorded[d] {
							key = "overlap:conservation-double"
						}
						r.Violation(key, fmt.Sprintf("overlapping refreshes: device %d delivered %d, recorded %d", d, delivered[d], recorded[d]),
							map[string]any{"case": caseIdx, "scenario": s})
					} else if recorded[d] > 0 {
						// the LAST successful upload containing d must carry d's most recent metadata
						// only if d's last record was delivered by it: with overlapping refreshes the
						// older batch may be delivered later, so only require that the newest metadata
						// was delivered by SOME successful upload: checked through conservation above.
						_ = lastDeliveredMeta
					}
				}
				r.Eval(fmt.Sprintf("overlap/%v/%v/%d", s.OuterOK, s.InnerOK, rep%8), true)
				if caseIdx%41 == 7 {
					r.Sample(map[string]any{"overlapping_refresh_scenario": s})
				}
			}
		}
	}
}
