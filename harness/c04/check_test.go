// Package c04 monitors property C04: cached answers equal fresh answers and
// never outlive their TTL (simple cache and ECS-aware cache middlewares).
package c04

import (
	"fmt"
	"math/rand/v2"
	"sort"
	"strings"
	"sync"
	"testing"
	"time"
	"unicode"

	"github.com/AdguardTeam/AdGuardDNS/verif/vkit"
	"github.com/miekg/dns"
)

var (
	cfgSimple    = cfg{Cache: "simple-cache"}
	cfgSimpleMin = cfg{Cache: "simple-cache", Override: true, MinTTL: 7}
	cfgECS       = cfg{Cache: "ecs-cache"}
	cfgECSMin    = cfg{Cache: "ecs-cache", Override: true, MinTTL: 7}
	seqCfgs      = []cfg{cfgSimple, cfgSimpleMin, cfgECS, cfgECSMin}

	// age sweep: min TTL 2 s so that the override matters for 1 s answers
	ageCfgs = []cfg{cfgSimple, {Cache: "simple-cache", Override: true, MinTTL: 2}, cfgECS, {Cache: "ecs-cache", Override: true, MinTTL: 2},
		// override disabled but a positive minimum configured (validation demands min > 0 and cmd passes it on)
		{Cache: "simple-cache", Override: false, MinTTL: 60}, {Cache: "ecs-cache", Override: false, MinTTL: 60}}
)

type client struct {
	Remote4, Remote6, Country string
	ASN                       uint32
	Sub4, Sub6                string // a subnet the client could send in ECS
}

var clients = []client{
	{"198.51.100.7", "2001:db8:ffff::7", "AD", 0, "198.51.100.0/24", "2001:db8:ffff::/56"},
	{"203.0.113.9", "2001:db8:eeee::9", "DE", 0, "203.0.113.0/24", "2001:db8:eeee::/56"},
	{"192.0.2.33", "2001:db8:dddd::33", "US", 0, "192.0.2.0/24", "2001:db8:dddd::/56"},
	{"198.18.5.5", "2001:db8:cccc::5", "AD", 100, "198.18.5.0/24", "2001:db8:cccc::/56"},
	{"198.18.9.9", "2001:db8:bbbb::9", "DE", 200, "198.18.9.0/24", "2001:db8:bbbb::/56"},
}

var qtypes = []uint16{dns.TypeA, dns.TypeAAAA, dns.TypeTXT, dns.TypeMX, dns.TypeNS, dns.TypePTR, dns.TypeSRV, dns.TypeHTTPS, 65280}

func pick[T any](rng *rand.Rand, xs []T) T { return xs[rng.IntN(len(xs))] }

func flipCase(rng *rand.Rand, s string) string {
	rs := []rune(s)
	idx := []int{}
	for i, c := range rs {
		if unicode.IsLetter(c) {
			idx = append(idx, i)
		}
	}
	flip := func(i int) {
		if unicode.IsUpper(rs[i]) {
			rs[i] = unicode.ToLower(rs[i])
		} else {
			rs[i] = unicode.ToUpper(rs[i])
		}
	}
	flip(idx[rng.IntN(len(idx))])
	for _, i := range idx {
		if rng.IntN(3) == 0 {
			flip(i)
		}
	}
	if string(rs) == s {
		flip(idx[0])
	}
	return string(rs)
}

func setClient(q *query, c client, v6 bool) {
	q.Remote, q.Country, q.ASN = c.Remote4, c.Country, c.ASN
	if v6 {
		q.Remote = c.Remote6
	}
}

func setECS(q *query, c client, v6 bool, withLoc bool) {
	q.ECS = c.Sub4
	if v6 {
		q.ECS = c.Sub6
	}
	q.ECSCountry, q.ECSASN = "", 0
	if withLoc {
		q.ECSCountry, q.ECSASN = c.Country, c.ASN
	}
}

func isV6(addr string) bool { return strings.Contains(addr, ":") }

// genBase generates a base request for the sequence phases.
func genBase(rng *rand.Rand, c cfg, uniq string) (q query, kind string) {
	kinds := []string{"ans", "ans", "ans", "ans", "cname", "nodata", "cnodata", "nx", "nxns", "sf", "sfrec", "sfede", "ansede"}
	kind = pick(rng, kinds)
	params := fmt.Sprintf("t%d", pick(rng, []int{3, 5, 60, 300, 3600, 86400}))
	if rng.IntN(5) < 2 {
		params += fmt.Sprintf("n%dx%d", pick(rng, []int{4, 30, 600}), pick(rng, []int{6, 90, 7200}))
	}
	if rng.IntN(4) == 0 {
		params += fmt.Sprintf("m%d", pick(rng, []int{2, 10, 100000}))
	}
	params += fmt.Sprintf("c%d", 1+rng.IntN(3))
	if rng.IntN(5) < 2 {
		params += "s"
		if rng.IntN(2) == 0 {
			params += "g"
		}
	}
	if c.ecs() {
		switch x := rng.IntN(20); {
		case x < 5:
			params += "e16"
		case x < 8:
			params += "e24"
		case x < 9:
			params += "e8"
		case x < 10:
			params += "e0"
		case x < 11:
			params += "z"
		}
	}
	q.Name = fmt.Sprintf("%s.%s.%s.%s", kind, params, uniq, zone)
	if rng.IntN(3) == 0 {
		q.Name = flipCase(rng, q.Name)
	}
	q.Qtype = pick(rng, qtypes)
	if kind == "ans" && rng.IntN(10) == 0 {
		q.Qtype = dns.TypeCNAME
	}
	q.Qclass = dns.ClassINET
	if rng.IntN(10) == 0 {
		q.Qclass = dns.ClassCHAOS
	}
	q.EDNS = rng.IntN(10) < 7
	q.DO = q.EDNS && rng.IntN(2) == 0
	q.AD = rng.IntN(10) < 3
	q.CD = rng.IntN(10) < 2
	q.RD = rng.IntN(10) < 8
	if c.ecs() {
		cl := pick(rng, clients)
		v6 := rng.IntN(5) == 0
		setClient(&q, cl, v6)
		switch x := rng.IntN(10); {
		case x < 3:
			setECS(&q, cl, v6, true)
		case x < 4:
			setECS(&q, cl, v6, false)
		}
	}
	return q, kind
}

type variant struct {
	Dim string
	Q   query
}

// variants returns requests that differ from b in exactly one dimension.
func variants(rng *rand.Rand, c cfg, b query) (vs []variant) {
	add := func(dim string, f func(q *query)) {
		v := b
		f(&v)
		vs = append(vs, variant{dim, v})
	}
	add("name", func(q *query) {
		labels := strings.SplitN(q.Name, ".", 4)
		labels[2] += "x"
		q.Name = strings.Join(labels, ".")
	})
	add("name-case", func(q *query) { q.Name = flipCase(rng, q.Name) })
	add("qtype", func(q *query) {
		for {
			if t := pick(rng, qtypes); t != b.Qtype {
				q.Qtype = t
				return
			}
		}
	})
	add("qclass", func(q *query) {
		for {
			if cl := pick(rng, []uint16{dns.ClassINET, dns.ClassCHAOS, dns.ClassHESIOD}); cl != b.Qclass {
				q.Qclass = cl
				return
			}
		}
	})
	add("do", func(q *query) {
		if !q.EDNS {
			q.EDNS, q.DO = true, true
		} else {
			q.DO = !q.DO
		}
	})
	if !b.clientDO() {
		add("edns-presence", func(q *query) { q.EDNS, q.DO = !q.EDNS, false })
	}
	add("ad", func(q *query) { q.AD = !q.AD })
	add("cd", func(q *query) { q.CD = !q.CD })
	add("rd", func(q *query) { q.RD = !q.RD })
	if !c.ecs() {
		return vs
	}
	var cur client
	for _, cl := range clients {
		if cl.Remote4 == b.Remote || cl.Remote6 == b.Remote {
			cur = cl
		}
	}
	otherCountry := func() client {
		for {
			if cl := pick(rng, clients); cl.Country != cur.Country && cl.ASN == 0 {
				return cl
			}
		}
	}
	v6 := isV6(b.Remote)
	add("client-location", func(q *query) {
		o := otherCountry()
		q.Country, q.ASN = o.Country, 0
	})
	add("client-asn", func(q *query) {
		if q.ASN == 0 {
			q.ASN = 200
		} else {
			q.ASN = 0
		}
	})
	if b.ECS == "" {
		add("client-family", func(q *query) { setClient(q, cur, !v6) })
		add("ecs-presence", func(q *query) { setECS(q, cur, v6, true) })
		add("ecs-location", func(q *query) { setECS(q, otherCountry(), v6, true) })
	} else {
		add("ecs-presence", func(q *query) { q.ECS, q.ECSCountry, q.ECSASN = "", "", 0 })
		add("ecs-subnet", func(q *query) {
			e6 := isV6(strings.Split(b.ECS, "/")[0])
			if e6 {
				q.ECS = "2001:db8:abcd::/48"
			} else {
				q.ECS = "100.64.7.0/24"
			}
		})
		if b.ECSCountry != "" {
			add("ecs-location", func(q *query) {
				for {
					if o := pick(rng, clients); o.Country != b.ECSCountry && o.ASN == 0 {
						q.ECSCountry, q.ECSASN = o.Country, 0
						return
					}
				}
			})
		}
	}
	add("ecs-declined", func(q *query) {
		q.ECS, q.ECSCountry, q.ECSASN = "0.0.0.0/0", "", 0
		if v6 && b.ECS == "" || b.ECS != "" && isV6(b.ECS) {
			q.ECS = "::/0"
		}
	})
	return vs
}

// ---------------------------------------------------------------------------
// histories on one warm instance, every step twinned with a fresh instance

type histResult struct {
	warm, fresh []*probe
	hits        int
}

// runHistory sends qs to one warm instance and each q to its own fresh
// instance, then applies oracles (a)-(d) to every step.  forbid, if not "",
// names a response class that must never be served from cache (oracle (e)).
func (m *monitor) runHistory(jc judgeCtx, qs []query, dims []string, forbid string) (res histResult) {
	r := m.r
	c := jc.Cfg
	warm := newInstance(c, 64)
	for _, q := range qs {
		id := nextID()
		res.warm = append(res.warm, warm.do(q, id))
		res.fresh = append(res.fresh, newInstance(c, 8).do(q, id))
	}
	for i, w := range res.warm {
		f := res.fresh[i]
		j := jc
		if dims != nil {
			j.Dim = dims[i]
		}
		r.Bucket("responses_"+c.Cache, 1)
		if w.Panic != "" {
			r.Violation(c.Cache+":panic", "the cache middleware panicked on a legal request",
				map[string]any{"ctx": j, "step": i, "probe": view(w), "history": views(res.warm)})
			continue
		}
		if f.Panic != "" || f.UpCalls != 1 {
			// the fresh twin is the reference; if it misbehaves, the case decides nothing
			r.Bucket("fresh_twin_unusable", 1)
			if f.Panic != "" {
				r.Violation(c.Cache+":panic", "the cache middleware panicked on a legal request (fresh instance)",
					map[string]any{"ctx": j, "step": i, "probe": view(f)})
			}
			continue
		}
		if w.Err != f.Err {
			r.Violation(c.Cache+":error-differs-from-fresh", "the warm instance's handler error differs from the fresh instance's",
				map[string]any{"ctx": j, "step": i, "warm": view(w), "fresh": view(f), "history": views(res.warm)})
			continue
		}
		if w.UpCalls > 1 {
			r.Bucket("upstream_called_twice_for_one_request", 1)
		}
		if !w.fromCache() {
			r.Bucket("misses_"+c.Cache, 1)
			if d := diff(w.C, f.C); d != "" {
				r.Violation(c.Cache+":miss-differs-from-fresh:"+d,
					"a response the warm instance fetched from the (pure) upstream differs from the fresh instance's response to the same request",
					map[string]any{"ctx": j, "step": i, "warm": view(w), "fresh": view(f), "history": views(res.warm)})
			}
			continue
		}
		res.hits++
		r.Bucket("hits_"+c.Cache, 1)
		if forbid != "" {
			r.Violation(c.Cache+":uncacheable-served-from-cache:"+forbid,
				"a response of a class that must not be cached ("+forbid+") was served from cache (the upstream was not asked again)",
				map[string]any{"ctx": j, "step": i, "served_from_cache": view(w), "fresh": view(f), "history": views(res.warm)})
			continue
		}
		m.judgeEqual(j, w, f, res.warm)
		hv := m.judgeHit(j, w, f, warm.up.fillsFor(fullKey(w.Q, f.Dep)), res.warm)
		m.age(c, hv, true)
	}
	// a response, once written, must not change (aliasing with the stored entry)
	for i, w := range res.warm {
		if w.Resp == nil {
			continue
		}
		again := canonOf(w.Resp, c.ecs())
		if d := diff(w.C, again); d != "" || !sameTTLs(w.C, again) {
			r.Violation(c.Cache+":response-mutated-after-write",
				"a response that had already been written changed while later requests were served",
				map[string]any{"ctx": jc, "step": i, "as_written": w.C, "now": again, "history": views(res.warm)})
		}
	}
	return res
}

func sameTTLs(a, b canon) bool {
	for _, p := range [][2][]rrc{{a.Answer, b.Answer}, {a.Ns, b.Ns}, {a.Extra, b.Extra}} {
		if len(p[0]) != len(p[1]) {
			return false
		}
		for i := range p[0] {
			if p[0][i].TTL != p[1][i].TTL {
				return false
			}
		}
	}
	return true
}

var (
	ageMu   sync.Mutex
	ageHist = map[string]map[string]int{} // cache -> "hit|miss 0100ms" -> n
)

func (m *monitor) age(c cfg, hv hitVerdict, hit bool) {
	if hv.AMin == 0 && hv.AMax == 0 {
		return
	}
	mid := (hv.AMin + hv.AMax) / 2
	b := fmt.Sprintf("%04dms", (mid.Milliseconds()/100)*100)
	k := "hit " + b
	if !hit {
		k = "miss " + b
	}
	ageMu.Lock()
	if ageHist[c.Cache] == nil {
		ageHist[c.Cache] = map[string]int{}
	}
	ageHist[c.Cache][k]++
	ageMu.Unlock()
}

// ---------------------------------------------------------------------------
// phase A: key separation and hit == fresh

func (m *monitor) phaseSeparation() {
	r := m.r
	nBases := r.N(20, 320)
	for _, c := range seqCfgs {
		for bi := 0; bi < nBases; bi++ {
			rng := r.Rand("sep/"+c.String(), bi)
			base, kind := genBase(rng, c, fmt.Sprintf("s%d", bi))
			vs := variants(rng, c, base)
			for _, v := range vs {
				for order := 0; order < 2; order++ {
					first, second := base, v.Q
					if order == 1 {
						first, second = v.Q, base
					}
					jc := judgeCtx{Phase: "separation", Case: bi, Label: kind + "/" + v.Dim + fmt.Sprintf("/order%d", order), Cfg: c}
					d := []string{v.Dim, v.Dim, v.Dim, v.Dim}
					res := m.runHistory(jc, []query{first, second, first, second}, d, "")
					r.Bucket("pairs", 1)
					mustMiss := false
					if len(res.fresh) == 4 && res.fresh[0].UpCalls == 1 && res.fresh[1].UpCalls == 1 {
						k0, k1 := fullKey(first, res.fresh[0].Dep), fullKey(second, res.fresh[1].Dep)
						if k0 != k1 {
							r.Bucket("pairs_with_different_keys", 1)
							if !res.warm[1].fromCache() {
								mustMiss = true
								r.Bucket("separation_observed:"+v.Dim, 1)
							}
						} else {
							r.Bucket("pairs_with_same_key", 1)
							if res.warm[1].fromCache() {
								r.Bucket("shared_hit_observed:"+v.Dim, 1)
							}
						}
					}
					r.Eval(fmt.Sprintf("separation/%s/%s/%s/%d", c, kind, v.Dim, order), res.hits > 0 || mustMiss)
					if bi == 1 && order == 0 && (v.Dim == "do" || v.Dim == "client-location") {
						r.Sample(map[string]any{"phase": "separation", "config": c, "dimension": v.Dim, "history": views(res.warm)})
					}
				}
			}
		}
	}
	// random histories over a base and all its variants
	nHist := r.N(50, 1500)
	for _, c := range seqCfgs {
		for hi := 0; hi < nHist; hi++ {
			rng := r.Rand("hist/"+c.String(), hi)
			base, kind := genBase(rng, c, fmt.Sprintf("h%d", hi))
			vs := variants(rng, c, base)
			alphabet := []variant{{"base", base}}
			alphabet = append(alphabet, vs...)
			n := 8 + rng.IntN(8)
			var qs []query
			var dims []string
			for i := 0; i < n; i++ {
				v := pick(rng, alphabet)
				qs = append(qs, v.Q)
				dims = append(dims, "history")
			}
			jc := judgeCtx{Phase: "history", Case: hi, Label: kind, Cfg: c}
			res := m.runHistory(jc, qs, dims, "")
			r.Bucket("histories", 1)
			r.Eval(fmt.Sprintf("history/%s/%s/%d", c, kind, hi), res.hits > 0)
		}
	}
}

// ---------------------------------------------------------------------------
// phase B: cacheability

type cacheClass struct {
	Class    string
	Kind     string
	Params   string
	Forbid   bool // must never be served from cache
	NoOvr    bool // asserted only without the min-TTL override
	Positive bool // expected to be cached: a control that the detector sees hits
}

func cacheClasses() (cs []cacheClass) {
	cs = []cacheClass{
		{Class: "truncated-noerror", Kind: "tc", Params: "t300", Forbid: true},
		{Class: "truncated-nxdomain", Kind: "tcnx", Params: "t300", Forbid: true},
		{Class: "truncated-servfail", Kind: "tcsf", Params: "t300", Forbid: true},
		{Class: "question-count-0", Kind: "q0", Params: "t300", Forbid: true},
		{Class: "question-count-2", Kind: "q2", Params: "t300", Forbid: true},
		{Class: "noerror-no-records", Kind: "empty", Params: "t300", Forbid: true},
		{Class: "noerror-cname-without-soa", Kind: "cnameonly", Params: "t300", Forbid: true},
		{Class: "noerror-referral-without-soa", Kind: "referral", Params: "t300x300", Forbid: true},
		{Class: "noerror-other-type-without-soa", Kind: "wrongtype", Params: "t300", Forbid: true},
		{Class: "ttl-0-answer", Kind: "ans", Params: "t0", Forbid: true, NoOvr: true},
		{Class: "ttl-0-answer-rrset", Kind: "ans", Params: "t0c3", Forbid: true, NoOvr: true},
		{Class: "info-ttl-0-additional-only", Kind: "ans", Params: "t300n300x0"},
		{Class: "info-ttl-0-authority-only", Kind: "ans", Params: "t300n0x300"},
		{Class: "ttl-0-nxdomain-soa", Kind: "nx", Params: "t0", Forbid: true, NoOvr: true},
		{Class: "ttl-0-nodata-soa", Kind: "nodata", Params: "t0", Forbid: true, NoOvr: true},
		{Class: "ttl-0-servfail-soa", Kind: "sfrec", Params: "t0", Forbid: true, NoOvr: true},
		{Class: "info-other-type-with-soa", Kind: "wrongtypesoa", Params: "t300"},
		{Class: "control-answer", Kind: "ans", Params: "t300", Positive: true},
		{Class: "control-answer-signed-rrset", Kind: "ans", Params: "t300c3s", Positive: true},
		{Class: "control-answer-all-sections", Kind: "ans", Params: "t300n600x900c2", Positive: true},
		{Class: "control-cname-chain", Kind: "cname", Params: "t300", Positive: true},
		{Class: "control-nodata", Kind: "nodata", Params: "t300", Positive: true},
		{Class: "control-nodata-cname", Kind: "cnodata", Params: "t300", Positive: true},
		{Class: "control-nxdomain", Kind: "nx", Params: "t300", Positive: true},
		{Class: "control-nxdomain-signed", Kind: "nx", Params: "t300s", Positive: true},
		{Class: "control-servfail-empty", Kind: "sf", Params: "t300", Positive: true},
		{Class: "control-servfail-soa-3600", Kind: "sfrec", Params: "t3600", Positive: true},
		{Class: "control-servfail-answer-3600", Kind: "sfans", Params: "t3600", Positive: true},
		{Class: "control-servfail-ede-3600", Kind: "sfede", Params: "t3600", Positive: true},
	}
	for _, rc := range []int{1, 4, 5, 6, 7, 8, 9, 10, 11} {
		cs = append(cs, cacheClass{Class: fmt.Sprintf("rcode-%d-with-soa", rc), Kind: "rc", Params: fmt.Sprintf("t300r%d", rc), Forbid: true})
	}
	for _, rc := range []int{4, 5} {
		cs = append(cs, cacheClass{Class: fmt.Sprintf("rcode-%d-with-answer", rc), Kind: "rcans", Params: fmt.Sprintf("t300r%d", rc), Forbid: true})
	}
	return cs
}

func (m *monitor) phaseCacheability() {
	r := m.r
	reps := r.N(1, 8)
	idx := 0
	for _, c := range seqCfgs {
		for _, cc := range cacheClasses() {
			for _, qt := range []uint16{dns.TypeA, dns.TypeAAAA, dns.TypeTXT} {
				for rep := 0; rep < reps; rep++ {
					idx++
					rng := r.Rand("cacheability", idx)
					q := query{Name: fmt.Sprintf("%s.%s.k%d.%s", cc.Kind, cc.Params, idx, zone), Qtype: qt, Qclass: dns.ClassINET, RD: true}
					q.EDNS = rng.IntN(2) == 0
					q.DO = q.EDNS && rng.IntN(2) == 0
					q.AD = rng.IntN(4) == 0
					if c.ecs() {
						cl := pick(rng, clients)
						setClient(&q, cl, rng.IntN(4) == 0)
						if rng.IntN(3) == 0 {
							setECS(&q, cl, isV6(q.Remote), true)
						}
					}
					forbid := ""
					if cc.Forbid && !(cc.NoOvr && c.Override) {
						forbid = cc.Class
					}
					jc := judgeCtx{Phase: "cacheability", Case: idx, Label: cc.Class, Cfg: c}
					res := m.runHistory(jc, []query{q, q, q}, nil, forbid)
					switch {
					case forbid != "":
						r.Bucket("uncacheable_classes_rechecked", 1)
						if res.hits == 0 {
							r.Bucket("uncacheable_refetched_every_time", 1)
						}
					case cc.Positive:
						if res.hits > 0 {
							r.Bucket("cacheable_controls_hit", 1)
						} else {
							r.Bucket("cacheable_controls_missed", 1)
						}
					default:
						r.Bucket(fmt.Sprintf("info:%s:hits=%d", cc.Class, res.hits), 1)
					}
					r.Eval(fmt.Sprintf("cacheability/%s/%s/%d", c, cc.Class, qt), forbid != "" || res.hits > 0)
					if idx == 3 || cc.Class == "control-servfail-soa-3600" && qt == dns.TypeA && rep == 0 && c == cfgECS {
						r.Sample(map[string]any{"phase": "cacheability", "config": c, "class": cc.Class, "history": views(res.warm)})
					}
				}
			}
		}
	}
}

// ---------------------------------------------------------------------------
// phase C: age sweep by real sleeping, all cases in parallel on shared instances

type ageCase struct {
	Idx    int
	Cfg    cfg
	Kind   string
	Q      query
	Life   float64   // lifetime in seconds by the property (override applied)
	Ages   []float64 // target ages in seconds
	fill   *probe
	probes []*probe
	twin   *probe
}

func genAgeCase(r *vkit.Run, c cfg, i int) *ageCase {
	rng := r.Rand("age/"+c.String(), i)
	ac := &ageCase{Idx: i, Cfg: c}
	low := uint32(1 + rng.IntN(3))
	if c.Override && rng.IntN(2) == 0 {
		low = 1
	}
	kinds := []string{"ans", "ans", "ans", "nodata", "nx", "cname", "cnodata"}
	ac.Kind = pick(rng, kinds)
	params := fmt.Sprintf("t%d", low)
	if rng.IntN(3) == 0 {
		// other sections live at least as long as the shortest record
		ttl := [3]uint32{low + uint32(rng.IntN(3)), low + uint32(rng.IntN(3)), low + uint32(rng.IntN(3))}
		switch ac.Kind {
		case "nodata", "nx":
			ttl[1] = low // only the authority section is populated
		case "cname":
			ttl[0] = low // only the answer section is populated
		case "cnodata":
			ttl[rng.IntN(2)] = low
		default:
			ttl[rng.IntN(3)] = low
		}
		params = fmt.Sprintf("t%dn%dx%d", ttl[0], ttl[1], ttl[2])
	}
	if ac.Kind != "ans" && rng.IntN(2) == 0 {
		params += fmt.Sprintf("m%d", low+uint32(rng.IntN(3)))
	}
	params += fmt.Sprintf("c%d", 1+rng.IntN(2))
	if rng.IntN(4) == 0 {
		params += "s"
	}
	if c.ecs() && rng.IntN(3) == 0 {
		params += pick(rng, []string{"e16", "e24", "z"})
	}
	q := query{Name: fmt.Sprintf("%s.%s.a%d.%s", ac.Kind, params, i, zone), Qtype: pick(rng, []uint16{dns.TypeA, dns.TypeAAAA, dns.TypeTXT, dns.TypeHTTPS}), Qclass: dns.ClassINET, RD: true}
	q.EDNS = rng.IntN(2) == 0
	q.DO = q.EDNS && rng.IntN(2) == 0
	if c.ecs() {
		cl := pick(rng, clients)
		setClient(&q, cl, rng.IntN(5) == 0)
		if rng.IntN(4) == 0 {
			setECS(&q, cl, isV6(q.Remote), true)
		}
	}
	ac.Q = q
	// lifetime = smallest TTL in the upstream's answer (override: at least MinTTL)
	up, _, _, _ := answer(q.msg(1))
	_, lowest := origTTLs(up)
	_ = lowest
	ac.Life = propLifetime(up, c)
	one := func() float64 {
		L := ac.Life
		switch u := rng.Float64(); {
		case u < 0.30: // last half second
			return L - 0.5 + 0.03 + rng.Float64()*0.42
		case u < 0.50: // the half second before
			return L - 1 + rng.Float64()*0.5
		case u < 0.75: // earlier
			return 0.05 + rng.Float64()*max(0.1, L-1)
		default: // beyond expiry
			return L + 0.03 + rng.Float64()
		}
	}
	n := 1
	if rng.IntN(2) == 0 {
		n = 3
	}
	for k := 0; k < n; k++ {
		ac.Ages = append(ac.Ages, max(0.02, one()))
	}
	sort.Float64s(ac.Ages)
	return ac
}

func (m *monitor) phaseAges() {
	r := m.r
	perCfg := r.N(120, 700)
	perSF := r.N(40, 150)
	waves := r.N(1, 6)
	for wave := 0; wave < waves; wave++ {
		var cases []*ageCase
		shared := map[cfg]*instance{}
		for _, c := range ageCfgs {
			shared[c] = newInstance(c, 8192)
			for i := 0; i < perCfg; i++ {
				cases = append(cases, genAgeCase(r, c, wave*perCfg+i))
			}
			for i := 0; i < perSF; i++ {
				cases = append(cases, genServfailAgeCase(r, c, wave*perSF+i))
			}
		}
		runAgeCases(cases, shared)
		for _, ac := range cases {
			m.judgeAgeCase(ac, shared[ac.Cfg])
			if ac.Idx >= 100000 {
				m.countServfailCoverage(ac, false)
			}
		}
	}
}

func (m *monitor) judgeAgeCase(ac *ageCase, in *instance) {
	r := m.r
	c := ac.Cfg
	jc := judgeCtx{Phase: "age-sweep", Case: ac.Idx, Label: fmt.Sprintf("%s/life%.0fs", ac.Kind, ac.Life), Cfg: c, Dim: "age-sweep"}
	all := append([]*probe{ac.fill}, ac.probes...)
	for _, p := range all {
		if p.Panic != "" {
			r.Violation(c.Cache+":panic", "the cache middleware panicked on a legal request",
				map[string]any{"ctx": jc, "probe": view(p)})
			return
		}
	}
	if ac.twin.UpCalls != 1 || ac.fill.UpCalls != 1 {
		r.Bucket("age_case_unusable", 1)
		return
	}
	fills := in.up.fillsFor(fullKey(ac.Q, ac.twin.Dep))
	for pi, p := range ac.probes {
		// the most recent fill that returned before this probe was sent
		var last *probe
		for _, f := range fills {
			if f != p && f.Ret <= p.Sent && (last == nil || f.Ret > last.Ret) {
				last = f
			}
		}
		hv := hitVerdict{}
		if last != nil {
			hv.AMin, hv.AMax = p.Sent-last.Ret, p.Ret-last.UpEnd
		}
		lifeLeft := ac.Life - hv.AMax.Seconds()
		if !c.Override && c.MinTTL > 0 && last != nil && hv.AMin.Seconds() > ac.Life {
			r.Bucket("age_probes_past_lifetime_override_off_with_min_"+c.Cache, 1)
		}
		cls := fmt.Sprintf("age/%s/%s/life%.0f/%04dms", c, ac.Kind, ac.Life, (hv.AMin.Milliseconds()/100)*100)
		tw := *ac.twin
		tw.C.ID = p.C.ID // the twin was asked once with another message ID
		if !p.fromCache() {
			r.Bucket("age_misses_"+c.Cache, 1)
			if lifeLeft > 0.05 {
				r.Bucket("age_miss_before_expiry_"+c.Cache, 1) // allowed (a cache may forget), just counted
			}
			m.age(c, hv, false)
			if d := diff(p.C, tw.C); d != "" {
				r.Violation(c.Cache+":miss-differs-from-fresh:"+d,
					"a response the warm instance fetched from the (pure) upstream differs from the fresh instance's response to the same request",
					map[string]any{"ctx": jc, "warm": view(p), "fresh": view(&tw)})
			}
			r.Eval(cls+"/miss", false)
			continue
		}
		r.Bucket("age_hits_"+c.Cache, 1)
		if lifeLeft < 0.5 && lifeLeft > 0 {
			r.Bucket("age_hits_in_last_half_second_"+c.Cache, 1)
		}
		if hv.AMin.Seconds() > 0.55 && lifeLeft > 0.55 {
			r.Bucket("age_hits_mid_life_"+c.Cache, 1)
		}
		m.judgeEqual(jc, p, &tw, all)
		got := m.judgeHit(jc, p, ac.twin, fills, all)
		m.age(c, got, true)
		r.Eval(cls+"/hit", true)
		if ac.Idx < 2 && pi == 0 {
			r.Sample(map[string]any{"phase": "age-sweep", "config": c, "target_ages_s": ac.Ages, "lifetime_s": ac.Life,
				"age_min_ms": ms(got.AMin), "age_max_ms": ms(got.AMax), "fill": view(ac.fill), "probe": view(p)})
		}
	}
}

// ---------------------------------------------------------------------------
// phase D: concurrent clients on one shared instance (race detector on)

func (m *monitor) phaseConcurrent() {
	r := m.r
	workers := r.N(16, 48)
	ops := r.N(260, 1000)
	rounds := r.N(1, 5)
	var wgAll sync.WaitGroup
	for ci, c := range []cfg{cfgSimple, ageCfgs[1], cfgECS, ageCfgs[3]} {
		wgAll.Add(1)
		go func(ci int, c cfg) {
			defer wgAll.Done()
			for round := 0; round < rounds; round++ {
				m.concurrentRound(c, ci, round, workers, ops)
			}
		}(ci, c)
	}
	wgAll.Wait()
}

func (m *monitor) concurrentRound(c cfg, ci, round, workers, ops int) {
	r := m.r
	rng := r.Rand("conc/"+c.String(), round)
	// alphabet: a few short-lived names with all their single-dimension variants
	var alphabet []query
	names := []string{"ans.t1c2", "ans.t2n3x4", "ans.t1s", "nx.t1", "nodata.t2m1", "cname.t2", "ans.t60c3s", "sfrec.t3600"}
	if c.ecs() {
		names = append(names, "ans.t1e16", "ans.t2e24s", "ans.t60e16", "ans.t2z")
	}
	for ni, n := range names {
		b, _ := genBase(rng, c, "x")
		b.Name = fmt.Sprintf("%s.w%d.%s", n, ni, zone)
		b.Qtype = pick(rng, []uint16{dns.TypeA, dns.TypeAAAA, dns.TypeTXT, dns.TypeHTTPS})
		b.Qclass = dns.ClassINET
		alphabet = append(alphabet, b)
		for _, v := range variants(rng, c, b) {
			if v.Dim == "name" || v.Dim == "qclass" {
				continue
			}
			alphabet = append(alphabet, v.Q)
		}
	}
	twins := make([]*probe, len(alphabet))
	for i, q := range alphabet {
		twins[i] = newInstance(c, 8).do(q, 1)
	}
	in := newInstance(c, 8192)
	type rec struct {
		ai int
		p  *probe
	}
	results := make([][]rec, workers)
	var wg sync.WaitGroup
	for w := 0; w < workers; w++ {
		wg.Add(1)
		go func(w int) {
			defer wg.Done()
			wr := r.Rand(fmt.Sprintf("conc/%s/%d/worker", c, round), w)
			for i := 0; i < ops; i++ {
				ai := wr.IntN(len(alphabet))
				p := in.do(alphabet[ai], nextID())
				p.Resp = nil // only the canonical form is needed; bounds memory
				results[w] = append(results[w], rec{ai, p})
				if wr.IntN(4) != 0 {
					time.Sleep(time.Duration(wr.IntN(16000)) * time.Microsecond)
				}
			}
		}(w)
	}
	wg.Wait()
	jc := judgeCtx{Phase: "concurrent", Case: ci*1000 + round, Label: "shared-instance", Cfg: c, Dim: "concurrent"}
	hitElems := map[int]bool{}
	for w := range results {
		for _, x := range results[w] {
			p, tw := x.p, twins[x.ai]
			r.Bucket("responses_"+c.Cache, 1)
			if p.Panic != "" {
				r.Violation(c.Cache+":panic", "the cache middleware panicked on a legal request", map[string]any{"ctx": jc, "probe": view(p)})
				continue
			}
			if tw.UpCalls != 1 {
				r.Bucket("fresh_twin_unusable", 1)
				continue
			}
			t2 := *tw
			t2.C.ID = p.C.ID
			if !p.fromCache() {
				r.Bucket("concurrent_misses_"+c.Cache, 1)
				if d := diff(p.C, t2.C); d != "" {
					r.Violation(c.Cache+":miss-differs-from-fresh:"+d,
						"a response the warm instance fetched from the (pure) upstream differs from the fresh instance's response to the same request",
						map[string]any{"ctx": jc, "warm": view(p), "fresh": view(&t2)})
				}
				r.Eval(fmt.Sprintf("concurrent/%s/%d", c, x.ai), false)
				continue
			}
			r.Bucket("concurrent_hits_"+c.Cache, 1)
			hitElems[x.ai] = true
			m.judgeEqual(jc, p, &t2, nil)
			m.judgeHit(jc, p, tw, in.up.fillsFor(fullKey(p.Q, tw.Dep)), nil)
			r.Eval(fmt.Sprintf("concurrent/%s/%d", c, x.ai), true)
		}
	}
	r.Bucket("concurrent_alphabet_elements_hit", int64(len(hitElems)))
}

// ---------------------------------------------------------------------------
// phase E: observations that are reported but decide nothing

func (m *monitor) phaseInfo() {
	r := m.r
	info := map[string]any{}
	// AA flag of the upstream on a hit
	for _, c := range []cfg{cfgSimple, cfgECS} {
		q := query{Name: "ans.t300a.i1." + zone, Qtype: dns.TypeA, Qclass: dns.ClassINET, RD: true}
		if c.ecs() {
			setClient(&q, clients[0], false)
		}
		in := newInstance(c, 8)
		f := in.do(q, 1)
		h := in.do(q, 2)
		info["aa_flag_"+c.Cache] = map[string]any{"fresh_flags": f.C.Flags, "hit_flags": h.C.Flags, "hit_from_cache": h.fromCache()}
	}
	// a scope-0 answer obtained for a client without location is kept in the
	// "no ECS support" cache and then shadows subnet-specific answers
	{
		c := cfgECS
		loc := query{Name: "ans.t300e16.i2." + zone, Qtype: dns.TypeA, Qclass: dns.ClassINET, RD: true}
		setClient(&loc, clients[0], false)
		unk := loc
		unk.Country, unk.ASN = "", 0
		in := newInstance(c, 8)
		in.do(unk, 1)
		h := in.do(loc, 2)
		f := newInstance(c, 8).do(loc, 2)
		info["ecs_unknown_location_answer_shadows_located_client"] = map[string]any{
			"served_from_cache": h.fromCache(), "differs_from_fresh_in": diff(h.C, f.C),
			"cached": h.C.Answer, "fresh": f.C.Answer,
		}
	}
	r.Extra("informational_observations", info)
}

// ---------------------------------------------------------------------------

func TestCheck(t *testing.T) {
	r := vkit.Start(t, "C04", "exploration")
	defer r.Finish()
	m := &monitor{r: r}

	r.Rule("Each cache middleware (cache.NewMiddleware, ecscache.NewMiddleware; each with and without the min-TTL override) wraps a scripted upstream whose answer is a pure function of (question, DO, forwarded subnet) and which marks, per request, whether it was called. " +
		"Every request to a warm instance is twinned with the same request to a fresh instance. Cases: (separation) seeded base requests x every single-dimension variant " +
		"(name, name-case, qtype, qclass, DO, EDNS presence, AD, CD, RD; ECS cache also client country, ASN, family, ECS presence/subnet/location/declined) x both orders, history [first, second, first, second]; " +
		"(history) random walks of 8-15 requests over a base and all its variants; (cacheability) every response class x qtype x config asked three times; " +
		"(age-sweep) entries with original TTL 1-3 s probed after real sleeps up to TTL+1 s, hundreds of cases sleeping in parallel on one shared instance per config; " +
		"(sibling-subnets) ECS cache, subnet-dependent answers (scope = source length): two client locations whose GeoIP subnets are siblings under one prefix length (IPv4 /12 /19 /20 /21 /23, IPv6 /44 /52 /57 /61; controls /8 /16 /24, /48 /56 /64), location from the client address or from its ECS option, history [A, B, A, B]; " +
		"(fake-ecs-names) ECS cache: subdomains and mixed-case spellings of names on the ecscache.FakeECSFQDNs list with a scoped, subnet-dependent upstream answer, asked from two locations [A, B, A, B]; the listed names themselves (scoped echo, location-independent answer) as controls; age sweeps also run with the override DISABLED and a 60 s minimum configured; " +
		"(wired) histories of 10-17 names asked three times on an instance whose dnsmsg.Cloner is shared with message constructors that build blocked / rewritten answers between the cache accesses and into which every written response is disposed (production wiring); " +
		"(frontend) the middleware behind the real plain-DNS server with the cloner as Disposer: a UDP query whose answer the server truncates, then the same question over TCP / with a large EDNS size (and TCP, truncated UDP, TCP), compared with a cold server's answer; " +
		"(servfail ages) SERVFAIL with SOA / answer / EDE and record TTL 1-3 s inside the age sweep of all four configs (override minimum 2 s), probed before the lifetime, between lifetime and minimum, and past both; SERVFAIL without records and with record TTL 20/45/90/3600 s (override minimum 60 s and no override) probed around min(record TTL, 30 s) and past 30 s, sleeping in the background of the other phases; " +
		"(concurrent) 16-48 goroutines over a ~100-request alphabet of 1-2 s TTL names on one shared instance per config under the race detector. " +
		"distinct = (phase, config, response kind, dimension/order | class/qtype | lifetime and 100 ms age bucket | alphabet element); " +
		"non-trivial = at least one response of the case was served from cache (upstream not called) or a required cache miss between different keys was observed.")
	r.Assume("the upstream's answer depends only on (case-folded question, forwarded subnet when it declares a non-zero scope); the DO bit only adds DNSSEC records; it never sets AA")
	r.Assume("the OPT pseudo-record's header is hop-to-hop (the server rewrites it) and is not compared; the simple cache's OPT is not compared at all, the ECS cache's OPT options (ECS echo, EDE) are")
	r.Assume("owner names are compared case-insensitively, the question section exactly; clients without a known location are not mixed with located clients on subnet-dependent names (that is C05's subject)")
	r.Assume("a SERVFAIL may be served from cache for at most min(smallest record TTL, 30 s) (documented ServFailMaxCacheTTL); the minimum-TTL override neither extends that nor raises its TTLs (both middlewares exempt SERVFAIL)")
	r.Assume("timestamps: age_min = t(hit sent) - t(fill returned), age_max = t(hit returned) - t(upstream answered the fill), same monotonic clock as the code under test; a TTL is a violation only if it exceeds floor(orig - age_min + 0.5); min-TTL override: orig := max(orig, min TTL)")

	finishServfailLong := m.startServfailLong()
	phaseWall := map[string]float64{}
	for _, ph := range []struct {
		name string
		f    func()
	}{{"info", m.phaseInfo}, {"separation+history", m.phaseSeparation}, {"cacheability", m.phaseCacheability},
		{"sibling-subnets", m.phaseSiblings}, {"fake-ecs-names", m.phaseFakeECS}, {"wired", m.phaseWired}, {"frontend", m.phaseFrontend}, {"age-sweep", m.phaseAges}, {"concurrent", m.phaseConcurrent}} {
		st := now()
		ph.f()
		phaseWall[ph.name] = (now() - st).Seconds()
	}
	finishServfailLong()
	r.Extra("phase_wall_s", phaseWall)

	ageMu.Lock()
	r.Extra("age_histogram_100ms", ageHist)
	ageMu.Unlock()

	for _, cn := range []string{"simple-cache", "ecs-cache"} {
		r.Require("hits_"+cn, 300)
		r.Require("misses_"+cn, 300)
		r.Require("age_hits_"+cn, 40)
		r.Require("age_misses_"+cn, 15)
		r.Require("age_hits_in_last_half_second_"+cn, 8)
		r.Require("age_hits_mid_life_"+cn, 8)
		r.Require("concurrent_hits_"+cn, 500)
		r.Require("concurrent_misses_"+cn, 15)
	}
	for _, d := range []string{"name", "qtype", "qclass", "do", "client-location", "ecs-location"} {
		r.Require("separation_observed:"+d, 3)
	}
	for _, d := range []string{"name-case", "ad", "cd", "rd", "edns-presence", "ecs-subnet"} {
		r.Require("shared_hit_observed:"+d, 3)
	}
	for _, cn := range []string{"simple-cache", "ecs-cache"} {
		r.Require("wired_hits_"+cn, 150)
		r.Require("frontend_truncated_then_hit_"+cn, 10)
		r.Require("frontend_final_step_from_cache_"+cn, 20)
	}
	for _, cn := range []string{"simple-cache", "ecs-cache"} {
		r.Require("servfail_hits_within_lifetime_"+cn, 30)
		r.Require("servfail_probes_past_lifetime_"+cn, 60)
		r.Require("servfail_override_probes_between_lifetime_and_min_"+cn, 20)
		r.Require("servfail_probes_past_30s_"+cn, 12)
	}
	for _, cn := range []string{"simple-cache", "ecs-cache"} {
		r.Require("age_probes_past_lifetime_override_off_with_min_"+cn, 15)
	}
	r.Require("fake_ecs_subdomain_separation_observed", 12)
	r.Require("fake_ecs_listed_name_shared_hit", 4)
	r.Require("sibling_separation_observed:unaligned", 30)
	r.Require("sibling_separation_observed:octet-aligned", 20)
	r.Require("sibling_own_entries_hit:unaligned", 30)
	r.Require("wired_constructed_answers", 800)
	r.Require("cacheable_controls_hit", 100)
	r.Require("uncacheable_refetched_every_time", 200)
	r.Require("ttl_within_bound", 500)
}
