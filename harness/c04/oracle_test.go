package c04

// Cache instances under test, canonical forms of responses and the oracles.

import (
	"context"
	"fmt"
	"math"
	"net"
	"runtime/debug"
	"strings"
	"sync/atomic"
	"time"

	"github.com/AdguardTeam/AdGuardDNS/internal/agd"
	"github.com/AdguardTeam/AdGuardDNS/internal/agdcache"
	"github.com/AdguardTeam/AdGuardDNS/internal/agdtest"
	"github.com/AdguardTeam/AdGuardDNS/internal/dnsmsg"
	"github.com/AdguardTeam/AdGuardDNS/internal/dnsserver"
	"github.com/AdguardTeam/AdGuardDNS/internal/dnsserver/cache"
	"github.com/AdguardTeam/AdGuardDNS/internal/ecscache"
	"github.com/AdguardTeam/AdGuardDNS/verif/vkit"
	"github.com/AdguardTeam/golibs/logutil/slogutil"
	"github.com/miekg/dns"
)

// ---------------------------------------------------------------------------
// instances

type cfg struct {
	Cache    string `json:"cache"` // "simple-cache" | "ecs-cache"
	Override bool   `json:"override_ttl"`
	MinTTL   uint32 `json:"min_ttl_s"`
}

func (c cfg) ecs() bool { return c.Cache == "ecs-cache" }

func (c cfg) String() string {
	if c.Override {
		return fmt.Sprintf("%s+min%d", c.Cache, c.MinTTL)
	}
	if c.MinTTL > 0 {
		return fmt.Sprintf("%s+override-off-min%d", c.Cache, c.MinTTL)
	}
	return c.Cache
}

type instance struct {
	cfg cfg
	up  *upstream
	h   dnsserver.Handler

	// cloner, if dispose is set, receives every written response after its
	// canonical form has been taken, like the servers' Disposer.
	cloner  *dnsmsg.Cloner
	dispose bool
}

func newInstance(c cfg, count int) *instance { return newInstanceWith(c, count, agdtest.NewCloner()) }

// newInstanceWith builds a cache middleware that uses the given cloner (the
// simple cache has no use for one).
func newInstanceWith(c cfg, count int, cloner *dnsmsg.Cloner) *instance {
	up := newUpstream()
	var mw dnsserver.Middleware
	if c.ecs() {
		mw = ecscache.NewMiddleware(&ecscache.MiddlewareConfig{
			Cloner:       cloner,
			Logger:       slogutil.NewDiscardLogger(),
			CacheManager: agdcache.EmptyManager{},
			GeoIP:        geoFake{},
			MinTTL:       time.Duration(c.MinTTL) * time.Second,
			NoECSCount:   count,
			ECSCount:     count,
			OverrideTTL:  c.Override,
		})
	} else {
		mw = cache.NewMiddleware(&cache.MiddlewareConfig{
			Count:       count,
			MinTTL:      time.Duration(c.MinTTL) * time.Second,
			OverrideTTL: c.Override,
		})
	}
	return &instance{cfg: c, up: up, h: mw.Wrap(up), cloner: cloner}
}

type recWriter struct {
	addr net.Addr
	resp *dns.Msg
	n    int
}

func (w *recWriter) LocalAddr() net.Addr  { return w.addr }
func (w *recWriter) RemoteAddr() net.Addr { return w.addr }
func (w *recWriter) WriteMsg(_ context.Context, _, resp *dns.Msg) error {
	w.resp = resp
	w.n++
	return nil
}

var idCounter atomic.Uint32

func nextID() uint16 { return uint16(idCounter.Add(7919)) }

// do sends q (with message ID id) to the instance and records everything.
func (in *instance) do(q query, id uint16) *probe {
	p := &probe{Q: q, ID: id}
	req := q.msg(id)
	ctx := context.WithValue(context.Background(), probeKey{}, p)
	remote := q.Remote
	if remote == "" {
		remote = "192.0.2.1"
	}
	if in.cfg.ecs() {
		ctx = agd.ContextWithRequestInfo(ctx, q.ri())
	}
	rw := &recWriter{addr: &net.UDPAddr{IP: net.ParseIP(remote), Port: 53}}
	func() {
		defer func() {
			if v := recover(); v != nil {
				p.Ret = now()
				p.Panic = fmt.Sprintf("%v\n%s", v, debug.Stack())
			}
		}()
		p.Sent = now()
		err := in.h.ServeDNS(ctx, rw, req)
		p.Ret = now()
		if err != nil {
			p.Err = err.Error()
		}
	}()
	p.Resp = rw.resp
	p.C = canonOf(p.Resp, in.cfg.ecs())
	if in.dispose {
		in.cloner.Dispose(p.Resp)
		p.Resp = nil
	}
	return p
}

// ---------------------------------------------------------------------------
// canonical form

type rrc struct {
	S   string `json:"rr"` // TTL masked, owner lower-cased
	TTL uint32 `json:"ttl"`
}

type canon struct {
	Nil      bool     `json:"nil,omitempty"`
	ID       uint16   `json:"id"`
	Rcode    int      `json:"rcode"`
	Flags    string   `json:"flags"`
	Question []string `json:"question"`
	Answer   []rrc    `json:"answer"`
	Ns       []rrc    `json:"ns"`
	Extra    []rrc    `json:"extra"`
	Opt      []string `json:"opt_options"`
}

func rrString(rr dns.RR) string {
	if rr == nil {
		return "<nil>"
	}
	c := dns.Copy(rr)
	h := c.Header()
	h.Ttl = 0
	h.Name = strings.ToLower(h.Name)
	return c.String()
}

func section(rrs []dns.RR) (out []rrc) {
	for _, rr := range rrs {
		if rr != nil && rr.Header().Rrtype == dns.TypeOPT {
			continue
		}
		ttl := uint32(0)
		if rr != nil {
			ttl = rr.Header().Ttl
		}
		out = append(out, rrc{S: rrString(rr), TTL: ttl})
	}
	return out
}

// canonOf renders m.  The OPT header is hop-to-hop and rewritten by the server
// on the way out, so it is masked; with withOpt its options are kept (the ECS
// cache promises to echo the client's ECS and to keep EDE).
func canonOf(m *dns.Msg, withOpt bool) (c canon) {
	if m == nil {
		return canon{Nil: true}
	}
	c.ID = m.Id
	c.Rcode = m.Rcode
	fl := []string{}
	for _, f := range []struct {
		n string
		b bool
	}{{"qr", m.Response}, {"aa", m.Authoritative}, {"tc", m.Truncated}, {"rd", m.RecursionDesired},
		{"ra", m.RecursionAvailable}, {"z", m.Zero}, {"ad", m.AuthenticatedData}, {"cd", m.CheckingDisabled}} {
		if f.b {
			fl = append(fl, f.n)
		}
	}
	c.Flags = fmt.Sprintf("op%d %s", m.Opcode, strings.Join(fl, " "))
	for _, q := range m.Question {
		c.Question = append(c.Question, fmt.Sprintf("%s %d %d", q.Name, q.Qclass, q.Qtype))
	}
	c.Answer, c.Ns, c.Extra = section(m.Answer), section(m.Ns), section(m.Extra)
	if withOpt {
		if o := m.IsEdns0(); o != nil {
			for _, e := range o.Option {
				switch e := e.(type) {
				case *dns.EDNS0_SUBNET:
					c.Opt = append(c.Opt, fmt.Sprintf("ecs fam=%d src=%d scope=%d addr=%s", e.Family, e.SourceNetmask, e.SourceScope, e.Address))
				case *dns.EDNS0_EDE:
					c.Opt = append(c.Opt, fmt.Sprintf("ede %d %q", e.InfoCode, e.ExtraText))
				default:
					c.Opt = append(c.Opt, fmt.Sprintf("opt%d %s", e.Option(), e.String()))
				}
			}
		}
	}
	return c
}

func sameRRs(a, b []rrc) bool {
	if len(a) != len(b) {
		return false
	}
	for i := range a {
		if a[i].S != b[i].S {
			return false
		}
	}
	return true
}

func sameStrs(a, b []string) bool {
	if len(a) != len(b) {
		return false
	}
	for i := range a {
		if a[i] != b[i] {
			return false
		}
	}
	return true
}

// diff returns the first field in which two canonical forms differ (TTLs are
// not compared), "" if none.
func diff(a, b canon) string {
	switch {
	case a.Nil != b.Nil:
		return "response-missing"
	case a.Nil:
		return ""
	case a.ID != b.ID:
		return "id"
	case a.Rcode != b.Rcode:
		return "rcode"
	case a.Flags != b.Flags:
		return "flags"
	case !sameStrs(a.Question, b.Question):
		return "question"
	case !sameRRs(a.Answer, b.Answer):
		return "answer"
	case !sameRRs(a.Ns, b.Ns):
		return "authority"
	case !sameRRs(a.Extra, b.Extra):
		return "additional"
	case !sameStrs(a.Opt, b.Opt):
		return "opt-options"
	}
	return ""
}

// ---------------------------------------------------------------------------
// witnesses

type probeView struct {
	Query     query   `json:"query"`
	ID        uint16  `json:"msg_id"`
	SentMs    float64 `json:"sent_ms"`
	RetMs     float64 `json:"returned_ms"`
	FromCache bool    `json:"served_from_cache"`
	UpStartMs float64 `json:"upstream_called_ms,omitempty"`
	Fwd       string  `json:"forwarded_subnet,omitempty"`
	Dep       string  `json:"answer_depends_on_subnet,omitempty"`
	Resp      canon   `json:"response"`
	Err       string  `json:"error,omitempty"`
	Panic     string  `json:"panic,omitempty"`
}

func view(p *probe) *probeView {
	if p == nil {
		return nil
	}
	v := &probeView{Query: p.Q, ID: p.ID, SentMs: ms(p.Sent), RetMs: ms(p.Ret), FromCache: p.fromCache(),
		Fwd: p.Fwd, Dep: p.Dep, Resp: p.C, Err: p.Err, Panic: p.Panic}
	if !p.fromCache() {
		v.UpStartMs = ms(p.UpStart)
	}
	return v
}

// ---------------------------------------------------------------------------
// oracles

type monitor struct {
	r *vkit.Run
}

type judgeCtx struct {
	Phase string `json:"phase"`
	Case  int    `json:"case_index"`
	Label string `json:"label"` // kind / dimension
	Cfg   cfg    `json:"config"`
	Dim   string `json:"-"`
}

const servfailMax = 30 // documented: SERVFAIL is cached for at most 30 s

// origTTLs maps the canonical form of each record of the upstream's own answer
// to its original TTL (the largest if a record occurs twice).
func origTTLs(up *dns.Msg) (m map[string]uint32, lowest float64) {
	m = map[string]uint32{}
	lowest = math.Inf(1)
	if up == nil {
		return m, lowest
	}
	for _, sec := range [][]dns.RR{up.Answer, up.Ns, up.Extra} {
		for _, rr := range sec {
			if rr == nil || rr.Header().Rrtype == dns.TypeOPT {
				continue
			}
			s := rrString(rr)
			t := rr.Header().Ttl
			if old, ok := m[s]; !ok || t > old {
				m[s] = t
			}
			lowest = math.Min(lowest, float64(t))
		}
	}
	return m, lowest
}

// propLifetime is the lifetime the property grants an entry: the smallest
// record TTL of the upstream's answer, raised to the configured minimum when
// the override is on; a SERVFAIL is short-lived: min(smallest record TTL, 30 s)
// and no override (documented for both caches).  +Inf if nothing bounds it.
func propLifetime(up *dns.Msg, c cfg) float64 {
	_, lowest := origTTLs(up)
	if up != nil && up.Rcode == dns.RcodeServerFailure {
		return math.Min(lowest, servfailMax)
	}
	if math.IsInf(lowest, 1) {
		return lowest
	}
	if c.Override {
		lowest = math.Max(lowest, float64(c.MinTTL))
	}
	return lowest
}

// storedLowest models which single TTL the implementations keep per entry; it
// is used ONLY to name the class of a TTL violation, never to decide one.
func storedLowest(up *dns.Msg, c cfg) uint32 {
	low := uint32(math.MaxUint32)
	for si, sec := range [][]dns.RR{up.Answer, up.Ns, up.Extra} {
		for _, rr := range sec {
			if rr == nil || rr.Header().Rrtype == dns.TypeOPT {
				continue
			}
			t := rr.Header().Ttl
			if si == 0 && c.Override && up.Rcode != dns.RcodeServerFailure {
				t = max(t, c.MinTTL)
			}
			if soa, ok := rr.(*dns.SOA); ok && soa.Minttl > 0 {
				t = min(t, soa.Minttl)
			}
			low = min(low, t)
		}
	}
	if up.Rcode == dns.RcodeServerFailure {
		low = min(low, servfailMax)
	}
	return low
}

// judgeEqual is oracle (a): a response served from cache equals what a fresh
// instance answers to the same request, TTLs aside.
func (m *monitor) judgeEqual(jc judgeCtx, h, twin *probe, history []*probe) bool {
	if d := diff(h.C, twin.C); d != "" {
		m.r.Violation(jc.Cfg.Cache+":hit-differs-from-fresh:"+d,
			"a response served from cache differs from the fresh instance's response to the same request in "+d,
			map[string]any{"ctx": jc, "served_from_cache": view(h), "fresh": view(twin), "history": views(history)})
		return false
	}
	return true
}

func views(ps []*probe) (out []*probeView) {
	for _, p := range ps {
		out = append(out, view(p))
	}
	return out
}

type hitVerdict struct {
	AMin, AMax time.Duration
	Decided    bool
}

// judgeHit applies oracles (b), (c) and (d) to a response that was served from
// cache.  twin is the fresh instance's probe for the same request; fills are
// all upstream calls the warm instance made under the same key.
func (m *monitor) judgeHit(jc judgeCtx, h, twin *probe, fills []*probe, history []*probe) (v hitVerdict) {
	r := m.r
	c := jc.Cfg
	// (b) some fill under the same (folded name, qtype, qclass, DO[, subnet]) must precede the hit
	var cands []*probe
	for _, f := range fills {
		if f != h && f.UpStart < h.Ret {
			cands = append(cands, f)
		}
	}
	if len(cands) == 0 {
		dim := jc.Dim
		if dim == "" {
			dim = "history"
		}
		r.Violation(c.Cache+":key-separation:"+dim,
			"a response was served from cache although nothing was ever cached under its own (case-folded name, qtype, qclass, DO, client subnet) key",
			map[string]any{"ctx": jc, "key": fullKey(h.Q, twin.Dep), "served_from_cache": view(h), "fresh": view(twin), "history": views(history)})
		return v
	}
	aMin := time.Duration(math.MaxInt64)
	aMax := time.Duration(0)
	var best *probe
	for _, f := range cands {
		a := h.Sent - f.Ret
		if a < 0 {
			a = 0
		}
		if a < aMin {
			aMin, best = a, f
			aMax = h.Ret - f.UpEnd
		}
	}
	v.AMin, v.AMax = aMin, aMax

	orig, _ := origTTLs(twin.UpOrig)
	eff := func(o uint32) float64 {
		if c.Override && twin.C.Rcode != dns.RcodeServerFailure {
			return float64(max(o, c.MinTTL))
		}
		return float64(o)
	}
	wit := func(extra map[string]any) map[string]any {
		w := map[string]any{"ctx": jc, "filled_by": view(best), "served_from_cache": view(h),
			"age_min_ms": ms(aMin), "age_max_ms": ms(aMax), "upstream_original_ttls": orig, "candidate_fills": len(cands)}
		for k, x := range extra {
			w[k] = x
		}
		return w
	}

	// (d) nothing is served after expiry
	servfail := twin.C.Rcode == dns.RcodeServerFailure
	if life := propLifetime(twin.UpOrig, c); !math.IsInf(life, 1) && aMin.Seconds() > life+0.001 {
		key := c.Cache + ":served-after-expiry"
		what := "an entry was served from cache although even its smallest possible age exceeds its original TTL"
		if servfail {
			key = c.Cache + ":servfail-served-after-its-lifetime"
			what = "a SERVFAIL answer was served from cache although even its smallest possible age exceeds min(its records' TTL, 30 s); the minimum-TTL override does not apply to SERVFAIL"
		}
		r.Violation(key, what, wit(map[string]any{"entry_lifetime_s": life}))
		v.Decided = true
		return v
	}

	// (c) served TTL <= round(orig - age), floor zero, for at least one age in the interval
	type exc struct {
		RR     string `json:"rr"`
		Served uint32 `json:"served_ttl"`
		Orig   uint32 `json:"original_ttl"`
		Bound  int64  `json:"max_allowed_ttl"`
	}
	var over []exc
	ambiguous := false
	allSame := true
	var first *uint32
	servfailOver := false
	for _, sec := range [][]rrc{h.C.Answer, h.C.Ns, h.C.Extra} {
		for _, rr := range sec {
			t := rr.TTL
			if first == nil {
				first = &t
			} else if *first != t {
				allSame = false
			}
			if twin.C.Rcode == dns.RcodeServerFailure && rr.TTL > servfailMax {
				servfailOver = true
			}
			o, ok := orig[rr.S]
			if !ok {
				continue
			}
			bound := int64(math.Floor(eff(o) - aMin.Seconds() + 0.5 + 1e-6))
			if bound < 0 {
				bound = 0
			}
			if int64(rr.TTL) > bound {
				over = append(over, exc{rr.S, rr.TTL, o, bound})
				continue
			}
			strict := int64(math.Floor(eff(o) - aMax.Seconds() + 0.5))
			if strict < 0 {
				strict = 0
			}
			if int64(rr.TTL) > strict {
				ambiguous = true
			}
		}
	}
	if servfailOver {
		r.Violation(c.Cache+":servfail-ttl-above-30",
			"a SERVFAIL answer was served from cache with a TTL above the documented 30 s",
			wit(nil))
	}
	switch {
	case len(over) > 0:
		v.Decided = true
		key := c.Cache + ":ttl-exceeds-remaining"
		what := "a TTL served from cache exceeds round(original TTL - time in cache) for every age compatible with the recorded timestamps"
		low := storedLowest(twin.UpOrig, c)
		if !c.ecs() && !(servfail && c.Override) && allSame && first != nil && *first == low && math.Floor(float64(low)-aMax.Seconds()+0.5) <= 0 {
			key = "simple-cache:original-ttl-served-when-remainder-rounds-to-zero"
			what = "simple cache: in the last half second of an entry's life (remaining time rounds to 0) the full original TTL is served instead of 0"
		}
		r.Violation(key, what, wit(map[string]any{"exceeding": over}))
	case ambiguous:
		r.Bucket("ttl_ambiguous", 1)
	default:
		v.Decided = true
		r.Bucket("ttl_within_bound", 1)
	}
	return v
}
