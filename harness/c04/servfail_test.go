package c04

// SERVFAIL answers in the age sweeps.  A SERVFAIL is short-lived: it may be
// served from cache for at most min(smallest record TTL, 30 s), and the
// minimum-TTL override does not extend that (both caches exempt SERVFAIL from
// the override).  Short cases (record TTL 1-3 s, override minimum 2 s) run
// inside the ordinary age sweep; long cases (no records / record TTL 20, 45,
// 90, 3600 s, override minimum 60 s) sleep past 30 s in the background while
// the other phases run.  Verdicts come from judgeHit's interval arithmetic.

import (
	"fmt"
	"sort"
	"sync"
	"time"

	"github.com/AdguardTeam/AdGuardDNS/verif/vkit"
	"github.com/miekg/dns"
)

func servfailQuery(rng interface {
	IntN(int) int
}, c cfg, kind, params, uniq string) query {
	q := query{Name: fmt.Sprintf("%s.%s.%s.%s", kind, params, uniq, zone), Qclass: dns.ClassINET, RD: true}
	q.Qtype = []uint16{dns.TypeA, dns.TypeAAAA, dns.TypeTXT}[rng.IntN(3)]
	q.EDNS = rng.IntN(2) == 0
	q.DO = q.EDNS && rng.IntN(2) == 0
	if c.ecs() {
		cl := clients[rng.IntN(len(clients))]
		setClient(&q, cl, false)
		if rng.IntN(4) == 0 {
			setECS(&q, cl, false, true)
		}
	}
	return q
}

// genServfailAgeCase: record TTL 1-3 s; probes before the lifetime, between the
// lifetime and the override minimum (or shortly after the lifetime), and
// beyond both.
func genServfailAgeCase(r *vkit.Run, c cfg, i int) *ageCase {
	rng := r.Rand("age-servfail/"+c.String(), i)
	ac := &ageCase{Idx: 100000 + i, Cfg: c}
	ac.Kind = pick(rng, []string{"sfrec", "sfrec", "sfans", "sfede"})
	low := 1 + rng.IntN(3)
	if c.Override && rng.IntN(3) != 0 {
		low = 1 // below the minimum of 2 s
	}
	ac.Q = servfailQuery(rng, c, ac.Kind, fmt.Sprintf("t%d", low), fmt.Sprintf("v%d", i))
	up, _, _, _ := answer(ac.Q.msg(1))
	ac.Life = propLifetime(up, c)
	L := ac.Life
	hi := L
	if c.Override {
		hi = max(hi, float64(c.MinTTL))
	}
	ac.Ages = []float64{
		0.05 + rng.Float64()*(L-0.15), // alive
		L + 0.06 + rng.Float64()*0.85, // past its own lifetime (inside the override minimum if that is larger)
		hi + 0.1 + rng.Float64()*0.7,  // past everything
	}
	sort.Float64s(ac.Ages)
	return ac
}

type servfailLongClass struct {
	Kind, Params string
}

var servfailLongClasses = []servfailLongClass{
	{"sf", "t300"},     // no records: 30 s
	{"sfrec", "t3600"}, // record TTL above 30 s and above the minimum
	{"sfrec", "t90"},   // above the minimum of 60 s
	{"sfans", "t45"},   // above 30 s, below the minimum
	{"sfrec", "t20"},   // below 30 s
	{"sfede", "t3600"},
}

var servfailLongCfgs = []cfg{
	{Cache: "simple-cache", Override: true, MinTTL: 60}, {Cache: "ecs-cache", Override: true, MinTTL: 60},
	cfgSimple, cfgECS,
}

func genServfailLongCase(r *vkit.Run, c cfg, cl servfailLongClass, i int) *ageCase {
	rng := r.Rand(fmt.Sprintf("servfail-long/%s/%s.%s", c, cl.Kind, cl.Params), i)
	ac := &ageCase{Idx: 200000 + i, Cfg: c, Kind: cl.Kind}
	ac.Q = servfailQuery(rng, c, cl.Kind, cl.Params, fmt.Sprintf("l%d", i))
	up, _, _, _ := answer(ac.Q.msg(1))
	ac.Life = propLifetime(up, c)
	L := ac.Life
	ac.Ages = []float64{L - 3 + rng.Float64(), L + 0.8 + rng.Float64()*0.8}
	if L < 29 {
		ac.Ages = append(ac.Ages, 30.8+rng.Float64()*0.8)
	}
	return ac
}

// runAgeCases fills every case and probes it at its ages, all cases in
// parallel on the shared instance of their configuration.
func runAgeCases(cases []*ageCase, shared map[cfg]*instance) {
	for _, ac := range cases {
		ac.twin = newInstance(ac.Cfg, 8).do(ac.Q, 4242)
	}
	var wg sync.WaitGroup
	for _, ac := range cases {
		wg.Add(1)
		go func(ac *ageCase) {
			defer wg.Done()
			in := shared[ac.Cfg]
			ac.fill = in.do(ac.Q, nextID())
			for _, a := range ac.Ages {
				target := ac.fill.Ret + time.Duration(a*float64(time.Second))
				if d := target - now(); d > 0 {
					time.Sleep(d)
				}
				ac.probes = append(ac.probes, in.do(ac.Q, nextID()))
			}
		}(ac)
	}
	wg.Wait()
}

// countServfailCoverage records which SERVFAIL ages were really probed.
func (m *monitor) countServfailCoverage(ac *ageCase, long bool) {
	r := m.r
	c := ac.Cfg
	if ac.fill == nil || ac.fill.UpCalls != 1 {
		return
	}
	last := ac.fill
	for _, p := range ac.probes {
		aMin, aMax := (p.Sent - last.Ret).Seconds(), (p.Ret - last.UpEnd).Seconds()
		switch {
		case aMax < ac.Life && p.fromCache():
			r.Bucket("servfail_hits_within_lifetime_"+c.Cache, 1)
		case aMin > ac.Life:
			r.Bucket("servfail_probes_past_lifetime_"+c.Cache, 1)
			if c.Override && aMax < float64(c.MinTTL) {
				r.Bucket("servfail_override_probes_between_lifetime_and_min_"+c.Cache, 1)
			}
			if long && aMin > servfailMax {
				r.Bucket("servfail_probes_past_30s_"+c.Cache, 1)
			}
		}
		if !p.fromCache() {
			last = p // refilled
		}
	}
}

// startServfailLong starts the 30-second cases in the background and returns
// the function that waits for them and judges them.
func (m *monitor) startServfailLong() (finish func()) {
	r := m.r
	per := r.N(3, 12)
	var cases []*ageCase
	shared := map[cfg]*instance{}
	for _, c := range servfailLongCfgs {
		shared[c] = newInstance(c, 4096)
		for _, cl := range servfailLongClasses {
			for i := 0; i < per; i++ {
				cases = append(cases, genServfailLongCase(r, c, cl, i))
			}
		}
	}
	start := now()
	done := make(chan struct{})
	go func() {
		defer close(done)
		runAgeCases(cases, shared)
	}()
	return func() {
		<-done
		for _, ac := range cases {
			m.judgeAgeCase(ac, shared[ac.Cfg])
			m.countServfailCoverage(ac, true)
		}
		r.Extra("servfail_30s_background_wall_s", (now() - start).Seconds())
	}
}
