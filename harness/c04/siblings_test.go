package c04

// Phase: client locations whose GeoIP subnets are siblings under one prefix
// length.  The ECS cache keys subnet-dependent answers by the location's
// subnet; two locations whose subnets differ only in the last, partial octet
// of a prefix that is not a multiple of 8 bits long (10.77.16.0/20 vs
// 10.77.32.0/20) must still be kept apart.  Lengths that are multiples of 8
// are the controls.  The upstream's answer is a function of the forwarded
// subnet (scope = source length).

import (
	"fmt"
	"net/netip"

	"github.com/miekg/dns"
)

type sibGroup struct {
	V6      bool     `json:"ipv6"`
	Bits    int      `json:"prefix_len"`
	Codes   []string `json:"locations"`
	Subnets []string `json:"subnets"`
}

var sibGroups []sibGroup

func init() {
	mk := func(v6 bool, bits int, gi int) {
		g := sibGroup{V6: v6, Bits: bits}
		rem := bits % 8
		k := bits / 8 // index of the partial octet; for aligned lengths the last whole octet is k-1
		for si, v := range []byte{1, 2, 0x80 >> 0} {
			var b []byte
			if v6 {
				b = []byte{0x20, 0x01, 0x0d, 0xb8, 0x77, 0, 0, 0, 0, 0, 0, 0, 0, 0, 0, 0}
			} else {
				b = []byte{10, 77, 0, 0}
			}
			if rem == 0 {
				b[k-1] = v // differ in the last whole octet
				if si == 2 {
					b[k-1] = 0x81
				}
			} else {
				sh := uint(8 - rem)
				switch si {
				case 0:
					b[k] = 1 << sh
				case 1:
					b[k] = 2 << sh & 0xff
					if rem == 1 { // only one network bit in the partial octet
						b[k] = 0
					}
				default:
					b[k] = 0x80 | 1<<sh // highest bit of the partial octet set
				}
			}
			addr, _ := netip.AddrFromSlice(b)
			p := netip.PrefixFrom(addr, bits).Masked()
			code := fmt.Sprintf("S%d%c", gi, 'A'+si)
			dup := false
			for _, s := range g.Subnets {
				dup = dup || s == p.String()
			}
			if dup {
				continue
			}
			g.Codes = append(g.Codes, code)
			g.Subnets = append(g.Subnets, p.String())
			if v6 {
				geoCountry6[code] = p.String()
			} else {
				geoCountry4[code] = p.String()
			}
		}
		sibGroups = append(sibGroups, g)
	}
	gi := 0
	for _, bits := range []int{12, 19, 20, 21, 23, 8, 16, 24} {
		mk(false, bits, gi)
		gi++
	}
	for _, bits := range []int{44, 52, 57, 61, 48, 56, 64} {
		mk(true, bits, gi)
		gi++
	}
}

func (m *monitor) phaseSiblings() {
	r := m.r
	perGroup := r.N(3, 20)
	r.Extra("sibling_subnet_groups", sibGroups)
	for _, c := range []cfg{cfgECS, cfgECSMin} {
		for gi, g := range sibGroups {
			for i := 0; i < perGroup; i++ {
				rng := r.Rand(fmt.Sprintf("siblings/%s/%d", c, gi), i)
				kind := pick(rng, []string{"ans", "ans", "ans", "cname", "nx", "nodata"})
				params := fmt.Sprintf("t%dc%de128", pick(rng, []int{60, 300, 3600}), 1+rng.IntN(2))
				q := query{Name: fmt.Sprintf("%s.%s.g%dx%d.%s", kind, params, gi, i, zone), Qclass: dns.ClassINET, RD: true}
				q.Qtype = pick(rng, []uint16{dns.TypeA, dns.TypeAAAA, dns.TypeTXT, dns.TypeHTTPS})
				q.EDNS = rng.IntN(2) == 0
				q.DO = q.EDNS && rng.IntN(2) == 0
				q.Remote = "198.51.100.77"
				if g.V6 {
					q.Remote = "2001:db8:ffff::77"
				}
				ia := rng.IntN(len(g.Codes))
				ib := (ia + 1 + rng.IntN(len(g.Codes)-1)) % len(g.Codes)
				a, b := q, q
				a.Country, b.Country = g.Codes[ia], g.Codes[ib]
				if rng.IntN(3) == 0 {
					// the location comes from the client's ECS option instead of its address
					for _, x := range []*query{&a, &b} {
						x.ECSCountry, x.Country = x.Country, "US"
						x.ECS = "100.64.9.0/24"
						if g.V6 {
							x.ECS = "2001:db8:9::/56"
						}
					}
				}
				aligned := g.Bits%8 == 0
				cls := "unaligned"
				if aligned {
					cls = "octet-aligned"
				}
				jc := judgeCtx{Phase: "sibling-subnets", Case: gi*1000 + i,
					Label: fmt.Sprintf("%s/%s-vs-%s/%s", kind, g.Subnets[ia], g.Subnets[ib], cls), Cfg: c}
				d := "sibling-subnet-" + cls
				res := m.runHistory(jc, []query{a, b, a, b}, []string{d, d, d, d}, "")
				if len(res.fresh) == 4 && res.fresh[0].UpCalls == 1 && res.fresh[1].UpCalls == 1 &&
					res.fresh[0].Dep != res.fresh[1].Dep && res.fresh[0].Dep == g.Subnets[ia] && res.fresh[1].Dep == g.Subnets[ib] {
					r.Bucket("sibling_pairs_with_distinct_forwarded_subnets:"+cls, 1)
					if !res.warm[1].fromCache() {
						r.Bucket("sibling_separation_observed:"+cls, 1)
					}
					if res.warm[2].fromCache() && res.warm[3].fromCache() {
						r.Bucket("sibling_own_entries_hit:"+cls, 1)
					}
				}
				r.Eval(fmt.Sprintf("siblings/%s/v6=%t/%d/%s", c, g.V6, g.Bits, kind), res.hits > 0)
				if i == 0 && gi == 2 && c == cfgECS {
					r.Sample(map[string]any{"phase": "sibling-subnets", "config": c, "group": g, "history": views(res.warm)})
				}
			}
		}
	}
}
