package c04

// Two phases that put the cache middlewares into their production
// surroundings, because a cache entry can also be damaged from OUTSIDE the
// middleware: whoever receives the written message edits it in place (the
// server truncates it for UDP, the filtering middleware prepends records) and
// finally disposes of it into the pools of the shared dnsmsg.Cloner, from
// which the dnsmsg.Constructor builds blocked / rewritten answers.
//
//   - wired:    histories on a warm instance whose cloner is shared by the
//     cache middleware, by message constructors that build answers between the
//     cache accesses, and by the disposal of every written response;
//   - frontend: the middleware behind the real plain-DNS server (UDP + TCP,
//     Disposer = the shared cloner): a UDP query whose answer the server has to
//     truncate, then the same question over TCP / with a large EDNS size.
//
// The oracles are the existing ones: a response served from cache equals what
// a fresh (cold) instance answers to the same request, TTLs aside.

import (
	"context"
	"fmt"
	"net/netip"
	"strings"
	"time"

	"github.com/AdguardTeam/AdGuardDNS/internal/agd"
	"github.com/AdguardTeam/AdGuardDNS/internal/agdnet"
	"github.com/AdguardTeam/AdGuardDNS/internal/agdtest"
	"github.com/AdguardTeam/AdGuardDNS/internal/dnsmsg"
	"github.com/AdguardTeam/AdGuardDNS/internal/dnsserver"
	"github.com/AdguardTeam/AdGuardDNS/internal/geoip"
	"github.com/AdguardTeam/AdGuardDNS/verif/tbench"
	"github.com/miekg/dns"
)

// ---------------------------------------------------------------------------
// phase F: production wiring of the cloner

type builders struct {
	null, custom *dnsmsg.Constructor
	alive        []*dns.Msg
	cloner       *dnsmsg.Cloner
	n            int
}

func newBuilders(cloner *dnsmsg.Cloner) (b *builders, err error) {
	b = &builders{cloner: cloner}
	mk := func(mode dnsmsg.BlockingMode) (*dnsmsg.Constructor, error) {
		return dnsmsg.NewConstructor(&dnsmsg.ConstructorConfig{
			Cloner:              cloner,
			BlockingMode:        mode,
			StructuredErrors:    agdtest.NewSDEConfig(false),
			FilteredResponseTTL: agdtest.FilteredResponseTTL,
			EDEEnabled:          false,
		})
	}
	if b.null, err = mk(&dnsmsg.BlockingModeNullIP{}); err != nil {
		return nil, err
	}
	b.custom, err = mk(&dnsmsg.BlockingModeCustomIP{
		IPv4: []netip.Addr{netip.MustParseAddr("203.0.113.250"), netip.MustParseAddr("203.0.113.251")},
		IPv6: []netip.Addr{netip.MustParseAddr("2001:db8:b10c::1")},
	})
	return b, err
}

// build constructs k filtered answers for unrelated names the way the filtering
// middleware does, keeps about half of them "in flight" and disposes of the
// others (and of those left in flight by the previous call).
func (b *builders) build(rng interface{ IntN(int) int }, k int) {
	prev := b.alive
	b.alive = nil
	for i := 0; i < k; i++ {
		b.n++
		qt := dns.TypeA
		if rng.IntN(2) == 0 {
			qt = dns.TypeAAAA
		}
		req := &dns.Msg{}
		req.SetQuestion(fmt.Sprintf("ads%d.blocked.test.", b.n), qt)
		var resp *dns.Msg
		switch rng.IntN(4) {
		case 0:
			resp, _ = b.null.NewBlockedResp(req)
		case 1:
			resp, _ = b.custom.NewBlockedResp(req)
		case 2:
			if qt == dns.TypeA {
				resp, _ = b.null.NewRespIP(req, netip.MustParseAddr("192.0.2.200"), netip.MustParseAddr("192.0.2.201"))
			} else {
				resp, _ = b.null.NewRespIP(req, netip.MustParseAddr("2001:db8:5afe::1"))
			}
		default:
			req.Question[0].Qtype = dns.TypeTXT
			resp, _ = b.null.NewRespTXT(req, "rewritten", fmt.Sprint(b.n))
		}
		if resp == nil {
			continue
		}
		if rng.IntN(2) == 0 {
			b.alive = append(b.alive, resp)
		} else {
			b.cloner.Dispose(resp)
		}
	}
	for _, m := range prev {
		b.cloner.Dispose(m)
	}
}

func (m *monitor) phaseWired() {
	r := m.r
	nHist := r.N(8, 80)
	for _, c := range seqCfgs {
		for hi := 0; hi < nHist; hi++ {
			rng := r.Rand("wired/"+c.String(), hi)
			cloner := agdtest.NewCloner()
			bs, err := newBuilders(cloner)
			if err != nil {
				r.Inconclusive("cannot build message constructors: " + err.Error())
				return
			}
			warm := newInstanceWith(c, 256, cloner)
			warm.dispose = true
			warm.up.wire = true

			n := 10 + rng.IntN(8)
			var qs []query
			var twins []*probe
			for i := 0; i < n; i++ {
				kind := pick(rng, []string{"ans", "ans", "ans", "ans", "cname", "nodata", "nx"})
				params := fmt.Sprintf("t300c%d", 1+rng.IntN(3))
				if rng.IntN(4) == 0 {
					params += "n600x900"
				}
				if c.ecs() && rng.IntN(5) == 0 {
					params += "e16"
				}
				q := query{Name: fmt.Sprintf("%s.%s.p%dx%d.%s", kind, params, hi, i, zone), Qclass: dns.ClassINET, RD: true}
				q.Qtype = pick(rng, []uint16{dns.TypeA, dns.TypeA, dns.TypeA, dns.TypeAAAA, dns.TypeAAAA, dns.TypeAAAA,
					dns.TypeTXT, dns.TypeMX, dns.TypeHTTPS, dns.TypeSRV, dns.TypePTR})
				q.EDNS = rng.IntN(2) == 0
				if c.ecs() {
					cl := pick(rng, clients)
					setClient(&q, cl, false)
					if rng.IntN(4) == 0 {
						setECS(&q, cl, false, true)
					}
				}
				qs = append(qs, q)
				fresh := newInstance(c, 8)
				fresh.up.wire = true
				twins = append(twins, fresh.do(q, 1))
			}

			jc := judgeCtx{Phase: "wired", Case: hi, Label: "shared-cloner+constructor+dispose", Cfg: c, Dim: "wired"}
			var hist []*probe
			hits := 0
			ask := func(i int) {
				p := warm.do(qs[i], nextID())
				hist = append(hist, p)
				tw := *twins[i]
				tw.C.ID = p.C.ID
				r.Bucket("responses_"+c.Cache, 1)
				switch {
				case p.Panic != "":
					r.Violation(c.Cache+":panic", "the cache middleware panicked on a legal request", map[string]any{"ctx": jc, "probe": view(p)})
				case tw.UpCalls != 1:
					r.Bucket("fresh_twin_unusable", 1)
				case !p.fromCache():
					r.Bucket("wired_misses_"+c.Cache, 1)
					if d := diff(p.C, tw.C); d != "" {
						r.Violation(c.Cache+":miss-differs-from-fresh:"+d,
							"a response the warm instance fetched from the (pure) upstream differs from the fresh instance's response to the same request",
							map[string]any{"ctx": jc, "warm": view(p), "fresh": view(&tw), "history": views(hist)})
					}
				default:
					hits++
					r.Bucket("wired_hits_"+c.Cache, 1)
					m.judgeEqual(jc, p, &tw, hist)
					m.judgeHit(jc, p, twins[i], warm.up.fillsFor(fullKey(p.Q, tw.Dep)), hist)
				}
			}
			for i := range qs { // fill
				ask(i)
				if rng.IntN(3) == 0 {
					bs.build(rng, 1+rng.IntN(3))
				}
			}
			for round := 0; round < 2; round++ {
				bs.build(rng, 2*n+rng.IntN(n))
				for _, i := range rng.Perm(n) {
					ask(i)
					if rng.IntN(3) == 0 {
						bs.build(rng, 1+rng.IntN(4))
					}
				}
			}
			r.Bucket("wired_histories", 1)
			r.Bucket("wired_constructed_answers", int64(bs.n))
			r.Eval(fmt.Sprintf("wired/%s/%d", c, hi), hits > 0)
			if hi == 0 && c == cfgECS {
				r.Sample(map[string]any{"phase": "wired", "config": c, "constructed_answers": bs.n, "history_tail": views(hist[len(hist)-3:])})
			}
		}
	}
}

// ---------------------------------------------------------------------------
// phase G: behind the real plain-DNS server

type frontend struct {
	cfg   cfg
	up    *upstream
	bench *tbench.Bench
}

func startFrontend(c cfg) (f *frontend, err error) {
	cloner := agdtest.NewCloner()
	in := newInstanceWith(c, 4096, cloner)
	in.up.wire = true
	h := in.h
	if c.ecs() {
		inner := h
		h = dnsserver.HandlerFunc(func(ctx context.Context, rw dnsserver.ResponseWriter, req *dns.Msg) error {
			q := req.Question[0]
			ri := &agd.RequestInfo{
				Host:     agdnet.NormalizeDomain(q.Name),
				QType:    q.Qtype,
				QClass:   q.Qclass,
				RemoteIP: netip.MustParseAddr("127.0.0.1"),
				Location: &geoip.Location{Country: "AD"},
			}
			return inner.ServeDNS(agd.ContextWithRequestInfo(ctx, ri), rw, req)
		})
	}
	b, err := tbench.Start(tbench.Config{
		Handler:  h,
		Disposer: cloner,
		Only:     []tbench.Server{tbench.SrvDNS},
		DNS:      tbench.StreamOptions{MaxUDPRespSize: 4096},
	})
	if err != nil {
		return nil, err
	}
	return &frontend{cfg: c, up: in.up, bench: b}, nil
}

type feStep struct {
	Net  string `json:"net"`  // "udp" | "tcp"
	EDNS uint16 `json:"edns"` // 0 = no OPT
}

func (f *frontend) exchange(name string, qt uint16, id uint16, st feStep) (resp *dns.Msg, note string) {
	req := &dns.Msg{}
	req.Id = id
	req.RecursionDesired = true
	req.Question = []dns.Question{{Name: name, Qtype: qt, Qclass: dns.ClassINET}}
	if st.EDNS > 0 {
		req.SetEdns0(st.EDNS, false)
	}
	wire, err := req.Pack()
	if err != nil {
		return nil, "pack: " + err.Error()
	}
	var res tbench.Result
	for attempt := 0; attempt < 3; attempt++ {
		if st.Net == "udp" {
			c, derr := f.bench.DialUDP()
			if derr != nil {
				return nil, "dial: " + derr.Error()
			}
			res = c.Exchange(wire, 3*time.Second, 0)
			_ = c.Close()
		} else {
			c, derr := f.bench.DialTCP()
			if derr != nil {
				return nil, "dial: " + derr.Error()
			}
			res = c.Exchange(wire, 5*time.Second)
			_ = c.Close()
		}
		if res.Outcome == tbench.Answered {
			break
		}
	}
	b := res.One()
	if b == nil {
		return nil, "no answer: " + res.String()
	}
	resp = &dns.Msg{}
	if err = resp.Unpack(b); err != nil {
		return nil, "unpack: " + err.Error()
	}
	return resp, ""
}

type feShape struct {
	Name    string
	Records map[uint16]int // qtype -> number of answer records
	Steps   []feStep
	// TruncFirst: the first step's answer does not fit and must come back truncated.
	TruncFirst bool
}

func (m *monitor) phaseFrontend() {
	r := m.r
	perShape := r.N(8, 60)
	big := map[uint16]int{dns.TypeA: 40, dns.TypeAAAA: 24, dns.TypeTXT: 30}
	huge := map[uint16]int{dns.TypeA: 110, dns.TypeAAAA: 60, dns.TypeTXT: 70}
	small := map[uint16]int{dns.TypeA: 2, dns.TypeAAAA: 2, dns.TypeTXT: 1}
	shapes := []feShape{
		{"udp-truncated-then-tcp", big, []feStep{{"udp", 0}, {"tcp", 0}}, true},
		{"udp-truncated-then-udp-edns4096", big, []feStep{{"udp", 0}, {"udp", 4096}}, true},
		{"udp-edns1232-truncated-then-tcp", huge, []feStep{{"udp", 1232}, {"tcp", 1232}}, true},
		{"tcp-then-udp-truncated-then-tcp", big, []feStep{{"tcp", 0}, {"udp", 0}, {"tcp", 0}}, false},
		{"udp-small-twice", small, []feStep{{"udp", 0}, {"udp", 0}}, false},
	}
	for _, c := range []cfg{cfgSimple, cfgSimpleMin, cfgECS} {
		warm, err := startFrontend(c)
		if err != nil {
			r.Bucket("frontend_start_failed", 1)
			continue
		}
		ref, err := startFrontend(c)
		if err != nil {
			_ = warm.bench.Close()
			r.Bucket("frontend_start_failed", 1)
			continue
		}
		for si, sh := range shapes {
			for i := 0; i < perShape; i++ {
				rng := r.Rand(fmt.Sprintf("frontend/%s/%s", c, sh.Name), i)
				qt := pick(rng, []uint16{dns.TypeA, dns.TypeA, dns.TypeAAAA, dns.TypeTXT})
				params := fmt.Sprintf("t%dc%d", pick(rng, []int{60, 300, 3600}), sh.Records[qt])
				if rng.IntN(4) == 0 {
					params += "n600x900"
				}
				name := fmt.Sprintf("ans.%s.f%dx%d.%s", params, si, i, zone)
				if rng.IntN(3) == 0 {
					name = flipCase(rng, name)
				}
				jc := judgeCtx{Phase: "frontend", Case: si*1000 + i, Label: sh.Name, Cfg: c, Dim: "frontend"}
				type stepObs struct {
					Step     feStep `json:"step"`
					Note     string `json:"note,omitempty"`
					Upstream int    `json:"upstream_calls_so_far"`
					Resp     canon  `json:"response"`
				}
				var obs []stepObs
				usable := true
				var last *dns.Msg
				callsBeforeLast := 0
				id := nextID()
				for k, st := range sh.Steps {
					callsBeforeLast = warm.up.callsFor(name)
					resp, note := warm.exchange(name, qt, id, st)
					obs = append(obs, stepObs{st, note, warm.up.callsFor(name), canonOf(resp, false)})
					if resp == nil {
						usable = false
						break
					}
					if k == 0 && sh.TruncFirst && !resp.Truncated {
						usable = false // the answer fitted: the case exercises nothing
						break
					}
					last = resp
				}
				if !usable {
					r.Bucket("frontend_case_unusable", 1)
					continue
				}
				final := sh.Steps[len(sh.Steps)-1]
				want, note := ref.exchange(name, qt, id, final)
				if want == nil || ref.up.callsFor(name) != 1 {
					r.Bucket("frontend_case_unusable", 1)
					_ = note
					continue
				}
				fromCache := warm.up.callsFor(name) == callsBeforeLast
				got, fresh := canonOf(last, false), canonOf(want, false)
				r.Bucket("frontend_cases_"+c.Cache, 1)
				if fromCache {
					r.Bucket("frontend_final_step_from_cache_"+c.Cache, 1)
					if sh.TruncFirst {
						r.Bucket("frontend_truncated_then_hit_"+c.Cache, 1)
					}
				}
				wit := map[string]any{"ctx": jc, "name": name, "qtype": qt, "steps_on_warm_server": obs,
					"final_step_served_from_cache": fromCache, "fresh_server_response": fresh}
				if d := diff(got, fresh); d != "" {
					key := c.Cache + ":frontend-miss-differs-from-fresh:" + d
					what := "behind the real DNS server: a response fetched from the upstream differs from a cold server's response to the same request in " + d
					if fromCache {
						key = c.Cache + ":frontend-hit-differs-from-fresh:" + d
						what = "behind the real DNS server: a response served from cache differs from a cold server's response to the same request in " + d +
							" (the message written for an earlier client was edited by the server after it had been cached)"
					}
					r.Violation(key, what, wit)
				} else if fromCache {
					for si2, sec := range [][2][]rrc{{got.Answer, fresh.Answer}, {got.Ns, fresh.Ns}, {got.Extra, fresh.Extra}} {
						for j := range sec[0] {
							if sec[0][j].TTL > sec[1][j].TTL {
								r.Violation(c.Cache+":frontend-hit-ttl-above-fresh",
									"behind the real DNS server: a TTL served from cache exceeds the TTL of the fresh answer",
									map[string]any{"ctx": jc, "section": si2, "index": j, "witness": wit})
							}
						}
					}
				}
				r.Eval(fmt.Sprintf("frontend/%s/%s/%d", c, sh.Name, qt), fromCache)
				if i == 0 && si == 0 && c == cfgSimple {
					brief := func(cn canon) string {
						return fmt.Sprintf("rcode=%d flags=%q answers=%d", cn.Rcode, cn.Flags, len(cn.Answer))
					}
					var ss []string
					for _, o := range obs {
						ss = append(ss, fmt.Sprintf("%s/edns%d: %s", o.Step.Net, o.Step.EDNS, brief(o.Resp)))
					}
					r.Sample(map[string]any{"phase": "frontend", "config": c, "shape": sh.Name, "name": name,
						"warm_server": strings.Join(ss, " ; "), "cold_server": brief(fresh), "final_step_served_from_cache": fromCache})
				}
			}
		}
		_ = warm.bench.Close()
		_ = ref.bench.Close()
	}
}
