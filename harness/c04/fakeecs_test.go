package c04

// Phase: names related to the ecscache.FakeECSFQDNs list.  Only the listed
// names themselves are exempt from the location partition ("indicate ECS
// support but don't have one"); a subdomain of a listed name, with an upstream
// whose scoped answer really depends on the forwarded subnet, must be kept
// apart per location like any other name.

import (
	"fmt"
	"strings"

	"github.com/AdguardTeam/AdGuardDNS/internal/ecscache"
	"github.com/miekg/dns"
)

func (m *monitor) phaseFakeECS() {
	r := m.r
	per := r.N(4, 30)
	for _, p := range fakeECSParents {
		if !ecscache.FakeECSFQDNs.Has(p) {
			r.Inconclusive("name " + p + " is no longer on the FakeECSFQDNs list; update fakeECSParents")
			return
		}
	}
	for _, c := range []cfg{cfgECS, cfgECSMin} {
		for pi, parent := range fakeECSParents {
			for i := 0; i < per+2; i++ {
				rng := r.Rand(fmt.Sprintf("fake-ecs/%s/%d", c, pi), i)
				q := query{Qclass: dns.ClassINET, RD: true, Remote: "198.51.100.77"}
				q.Qtype = pick(rng, []uint16{dns.TypeA, dns.TypeAAAA, dns.TypeTXT})
				q.EDNS = rng.IntN(2) == 0
				q.DO = q.EDNS && rng.IntN(2) == 0
				dim := "fake-ecs-subdomain"
				switch {
				case i == per: // control: the listed name
					q.Name, dim = parent, "fake-ecs-listed-name"
				case i == per+1: // control: the listed name, other spelling
					q.Name, dim = strings.ToUpper(parent), "fake-ecs-listed-name-mixed-case"
				default:
					kind := pick(rng, []string{"ans", "ans", "cname", "nx", "nodata"})
					q.Name = fmt.Sprintf("%s.t%dc%de128.u%d.%s", kind, pick(rng, []int{60, 300, 3600}), 1+rng.IntN(2), i, parent)
					if i%2 == 1 {
						q.Name = flipCase(rng, q.Name)
						dim = "fake-ecs-subdomain-mixed-case"
					}
				}
				a, b := q, q
				ca := clients[rng.IntN(3)]
				cb := clients[(rng.IntN(2)+1+indexOfClient(ca))%3]
				a.Country, b.Country = ca.Country, cb.Country
				jc := judgeCtx{Phase: "fake-ecs-names", Case: pi*1000 + i, Label: dim + "/" + q.Name, Cfg: c}
				res := m.runHistory(jc, []query{a, b, a, b}, []string{dim, dim, dim, dim}, "")
				if len(res.fresh) == 4 && res.fresh[0].UpCalls == 1 && res.fresh[1].UpCalls == 1 {
					switch {
					case strings.HasPrefix(dim, "fake-ecs-subdomain") && res.fresh[0].Dep != res.fresh[1].Dep && !res.warm[1].fromCache():
						r.Bucket("fake_ecs_subdomain_separation_observed", 1)
					case dim == "fake-ecs-listed-name" && res.warm[1].fromCache():
						r.Bucket("fake_ecs_listed_name_shared_hit", 1)
					}
				}
				r.Eval(fmt.Sprintf("fake-ecs/%s/%s/%s", c, parent, dim), res.hits > 0)
			}
		}
	}
}

func indexOfClient(c client) int {
	for i, x := range clients {
		if x == c {
			return i
		}
	}
	return 0
}
