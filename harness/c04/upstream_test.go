package c04

// Scripted upstream, client queries and the fake GeoIP used by the C04 monitor.
//
// The upstream's answer is a pure function of (question, DO bit, forwarded
// subnet): the response class and all TTLs are parsed from the labels of the
// (lower-cased) question name, all RDATA are derived from a hash of
// (lower-cased name, qtype, qclass, subnet-if-dependent), and the DO bit only
// decides whether DNSSEC records accompany the answer.

import (
	"context"
	"crypto/sha256"
	"encoding/hex"
	"fmt"
	"net"
	"net/netip"
	"strconv"
	"strings"
	"sync"
	"time"

	"github.com/AdguardTeam/AdGuardDNS/internal/agd"
	"github.com/AdguardTeam/AdGuardDNS/internal/agdnet"
	"github.com/AdguardTeam/AdGuardDNS/internal/dnsmsg"
	"github.com/AdguardTeam/AdGuardDNS/internal/dnsserver"
	"github.com/AdguardTeam/AdGuardDNS/internal/geoip"
	"github.com/AdguardTeam/golibs/netutil"
	"github.com/miekg/dns"
)

const zone = "c04.test."

// fakeECSParents are names from ecscache.FakeECSFQDNs (checked at run time);
// the scripted upstream also answers for them and for their subdomains.
var fakeECSParents = []string{"163.com.", "126.com.", "0cf.io."}

var t0 = time.Now()

// now is the monotonic time since process start.
func now() time.Duration { return time.Since(t0) }

func ms(d time.Duration) float64 { return float64(d.Microseconds()) / 1000 }

// ---------------------------------------------------------------------------
// client queries

// query is one client request together with what the layers in front of the
// cache would have derived from it (location of the client, parsed ECS).
type query struct {
	Name   string `json:"name"`
	Qtype  uint16 `json:"qtype"`
	Qclass uint16 `json:"qclass"`
	EDNS   bool   `json:"edns,omitempty"`
	DO     bool   `json:"do,omitempty"`
	AD     bool   `json:"ad,omitempty"`
	CD     bool   `json:"cd,omitempty"`
	RD     bool   `json:"rd,omitempty"`

	// ECS-cache only.
	Remote     string `json:"remote,omitempty"`
	Country    string `json:"country,omitempty"`
	ASN        uint32 `json:"asn,omitempty"`
	ECS        string `json:"ecs,omitempty"` // client-supplied subnet, "" = none
	ECSCountry string `json:"ecs_country,omitempty"`
	ECSASN     uint32 `json:"ecs_asn,omitempty"`
}

func (q query) clientDO() bool { return q.EDNS && q.DO }

// clientKey is the part of the key the property talks about that is visible in
// the client's request: case-folded name, qtype, qclass, DO.
func (q query) clientKey() string {
	return fmt.Sprintf("%s|t%d|c%d|do=%t", strings.ToLower(q.Name), q.Qtype, q.Qclass, q.clientDO())
}

func (q query) msg(id uint16) *dns.Msg {
	m := &dns.Msg{}
	m.Id = id
	m.RecursionDesired = q.RD
	m.AuthenticatedData = q.AD
	m.CheckingDisabled = q.CD
	m.Question = []dns.Question{{Name: q.Name, Qtype: q.Qtype, Qclass: q.Qclass}}
	if q.EDNS || q.ECS != "" {
		o := &dns.OPT{Hdr: dns.RR_Header{Name: ".", Rrtype: dns.TypeOPT}}
		o.SetUDPSize(1232)
		if q.DO {
			o.SetDo()
		}
		if q.ECS != "" {
			p := netip.MustParsePrefix(q.ECS)
			fam := uint16(1)
			ip := net.IP(p.Addr().AsSlice())
			if p.Addr().Is6() {
				fam = 2
			}
			o.Option = append(o.Option, &dns.EDNS0_SUBNET{
				Code: dns.EDNS0SUBNET, Family: fam, SourceNetmask: uint8(p.Bits()), Address: ip,
			})
		}
		m.Extra = append(m.Extra, o)
	}
	return m
}

// ri builds the request information the way ratelimitmw does.
func (q query) ri() *agd.RequestInfo {
	ri := &agd.RequestInfo{
		Host:     agdnet.NormalizeDomain(q.Name),
		QType:    q.Qtype,
		QClass:   q.Qclass,
		RemoteIP: netip.MustParseAddr(q.Remote),
	}
	if q.Country != "" || q.ASN != 0 {
		ri.Location = &geoip.Location{Country: geoip.Country(q.Country), ASN: geoip.ASN(q.ASN)}
	}
	if q.ECS != "" {
		e := &dnsmsg.ECS{Subnet: netip.MustParsePrefix(q.ECS)}
		if q.ECSCountry != "" || q.ECSASN != 0 {
			e.Location = &geoip.Location{Country: geoip.Country(q.ECSCountry), ASN: geoip.ASN(q.ECSASN)}
		}
		ri.ECS = e
	}
	return ri
}

// ---------------------------------------------------------------------------
// fake GeoIP: a pure function (location, family) -> coarse subnet

type geoFake struct{}

var geoCountry4 = map[string]string{"AD": "10.1.0.0/16", "DE": "10.2.0.0/16", "US": "10.3.0.0/16"}
var geoCountry6 = map[string]string{"AD": "2001:db8:1::/48", "DE": "2001:db8:2::/48", "US": "2001:db8:3::/48"}
var geoASN4 = map[uint32]string{100: "10.100.0.0/16", 200: "10.200.0.0/16"}
var geoASN6 = map[uint32]string{100: "2001:db8:100::/48", 200: "2001:db8:200::/48"}

func (geoFake) Data(_ string, _ netip.Addr) (*geoip.Location, error) { return nil, nil }

func (geoFake) SubnetByLocation(l *geoip.Location, fam netutil.AddrFamily) (netip.Prefix, error) {
	c4, a4 := geoCountry4, geoASN4
	if fam == netutil.AddrFamilyIPv6 {
		c4, a4 = geoCountry6, geoASN6
	}
	if s, ok := a4[uint32(l.ASN)]; ok {
		return netip.MustParsePrefix(s), nil
	}
	if s, ok := c4[string(l.Country)]; ok {
		return netip.MustParsePrefix(s), nil
	}
	return netutil.ZeroPrefix(fam), nil
}

// ---------------------------------------------------------------------------
// probes

type probeKey struct{}

// probe is everything recorded about one request sent to a cache instance.
// The upstream part is written by the scripted upstream, which the middleware
// calls synchronously on the requesting goroutine.
type probe struct {
	Q  query
	ID uint16

	Sent, Ret time.Duration

	UpCalls  int
	UpStart  time.Duration
	UpEnd    time.Duration
	Fwd      string   // ECS subnet seen by the upstream, "-" if none
	Dep      string   // subnet the upstream's answer depends on, "-" if none
	FwdDO    bool     // DO bit seen by the upstream
	UpOrig   *dns.Msg // the upstream's own answer (never handed to the code under test)
	Resp     *dns.Msg
	C        canon
	Err      string
	Panic    string
	FromIdx  int // index in the case's history
	Instance string
}

func (p *probe) fromCache() bool { return p.UpCalls == 0 }

// key is the key under which the property allows sharing: the client-visible
// part plus the subnet the upstream's answer depends on.
func fullKey(q query, dep string) string { return q.clientKey() + "|sub=" + dep }

// ---------------------------------------------------------------------------
// scripted upstream

type upstream struct {
	mu     sync.Mutex
	calls  int
	fills  map[string][]*probe // by fullKey
	byName map[string]int      // calls by lower-cased question name (also without a probe)

	// wire makes the upstream hand out a message parsed from the wire, like a
	// real forwarder does.
	wire bool
}

func newUpstream() *upstream {
	return &upstream{fills: map[string][]*probe{}, byName: map[string]int{}}
}

func (u *upstream) callsFor(name string) int {
	u.mu.Lock()
	defer u.mu.Unlock()
	return u.byName[strings.ToLower(name)]
}

// viaWire packs and unpacks m; if that is impossible m is returned as is.
func viaWire(m *dns.Msg) *dns.Msg {
	b, err := m.Pack()
	if err != nil {
		return m
	}
	out := &dns.Msg{}
	if err = out.Unpack(b); err != nil {
		return m
	}
	return out
}

var _ dnsserver.Handler = (*upstream)(nil)

func (u *upstream) ServeDNS(ctx context.Context, rw dnsserver.ResponseWriter, req *dns.Msg) error {
	start := now()
	resp, fwd, dep, do := answer(req)
	if u.wire {
		resp = viaWire(resp)
	}
	p, _ := ctx.Value(probeKey{}).(*probe)
	u.mu.Lock()
	u.byName[strings.ToLower(req.Question[0].Name)]++
	u.mu.Unlock()
	if p != nil {
		p.UpCalls++
		p.UpStart = start
		p.Fwd, p.Dep, p.FwdDO = fwd, dep, do
		p.UpOrig, _, _, _ = answer(req)
		k := fullKey(p.Q, dep)
		u.mu.Lock()
		u.calls++
		u.fills[k] = append(u.fills[k], p)
		u.mu.Unlock()
	}
	err := rw.WriteMsg(ctx, req, resp)
	if p != nil {
		p.UpEnd = now()
	}
	return err
}

func (u *upstream) fillsFor(k string) []*probe {
	u.mu.Lock()
	defer u.mu.Unlock()
	return append([]*probe(nil), u.fills[k]...)
}

// spec is the response script encoded in a question name
// "<kind>.<params>.<uniq>.c04.test.".  params is a sequence of letter+number:
// t answer TTL, n authority TTL, x additional TTL, m SOA minimum, c number of
// answer records, e ECS scope (answer depends on the forwarded subnet when
// > 0), z echo ECS with scope 0, s signed zone (AD set, DNSSEC records when
// DO), g DNSSEC records even without DO, r rcode, a AA flag.
type spec struct {
	kind             string
	t, n, x, m       uint32
	c                int
	e                int
	z, s, g, a       bool
	f                int // scope echoed although the answer does not depend on the subnet (a "fake ECS" server)
	r                int
	hasN, hasX, hasM bool
}

func parseSpec(lname string) (sp spec, ok bool) {
	suffix := ""
	for _, z := range append([]string{zone}, fakeECSParents...) {
		if lname == z && z != zone {
			// a listed fake-ECS name itself: scoped echo, location-independent answer
			return spec{kind: "ans", t: 300, n: 300, x: 300, m: 300, c: 1, e: -1, f: 24}, true
		}
		if strings.HasSuffix(lname, "."+z) {
			suffix = z
			break
		}
	}
	if suffix == "" {
		return sp, false
	}
	labels := strings.Split(strings.TrimSuffix(lname, "."+suffix), ".")
	if len(labels) < 2 {
		return sp, false
	}
	sp = spec{kind: labels[0], t: 5, c: 1, e: -1}
	ps := labels[1]
	for i := 0; i < len(ps); {
		l := ps[i]
		i++
		j := i
		for j < len(ps) && ps[j] >= '0' && ps[j] <= '9' {
			j++
		}
		v := uint64(1)
		if j > i {
			v, _ = strconv.ParseUint(ps[i:j], 10, 32)
		}
		i = j
		switch l {
		case 't':
			sp.t = uint32(v)
		case 'n':
			sp.n, sp.hasN = uint32(v), true
		case 'x':
			sp.x, sp.hasX = uint32(v), true
		case 'm':
			sp.m, sp.hasM = uint32(v), true
		case 'c':
			sp.c = int(v)
		case 'e':
			sp.e = int(v)
		case 'z':
			sp.z = true
		case 'f':
			sp.f = int(v)
		case 's':
			sp.s = true
		case 'g':
			sp.g = true
		case 'a':
			sp.a = true
		case 'r':
			sp.r = int(v)
		default:
			return sp, false
		}
	}
	if !sp.hasN {
		sp.n = sp.t
	}
	if !sp.hasX {
		sp.x = sp.t
	}
	if !sp.hasM {
		sp.m = sp.n
	}
	return sp, true
}

func hsum(parts ...any) []byte {
	h := sha256.Sum256([]byte(fmt.Sprint(parts...)))
	return h[:]
}

func hostFrom(prefix string, h []byte) string {
	return prefix + "-" + hex.EncodeToString(h[:4]) + "." + zone
}

// mkRR builds one record of type t whose RDATA is derived from h.
func mkRR(owner string, t, class uint16, ttl uint32, h []byte) dns.RR {
	hdr := dns.RR_Header{Name: owner, Rrtype: t, Class: class, Ttl: ttl}
	switch t {
	case dns.TypeA:
		return &dns.A{Hdr: hdr, A: net.IP(append([]byte(nil), h[:4]...))}
	case dns.TypeAAAA:
		return &dns.AAAA{Hdr: hdr, AAAA: net.IP(append([]byte(nil), h[:16]...))}
	case dns.TypeTXT:
		return &dns.TXT{Hdr: hdr, Txt: []string{hex.EncodeToString(h[:8]), "c04"}}
	case dns.TypeMX:
		return &dns.MX{Hdr: hdr, Preference: uint16(h[0]), Mx: hostFrom("mx", h)}
	case dns.TypeNS:
		return &dns.NS{Hdr: hdr, Ns: hostFrom("ns", h)}
	case dns.TypePTR:
		return &dns.PTR{Hdr: hdr, Ptr: hostFrom("ptr", h)}
	case dns.TypeCNAME:
		return &dns.CNAME{Hdr: hdr, Target: hostFrom("cn", h)}
	case dns.TypeSRV:
		return &dns.SRV{Hdr: hdr, Priority: uint16(h[0]), Weight: uint16(h[1]), Port: 443, Target: hostFrom("srv", h)}
	case dns.TypeHTTPS:
		return &dns.HTTPS{SVCB: dns.SVCB{Hdr: hdr, Priority: 1, Target: ".", Value: []dns.SVCBKeyValue{
			&dns.SVCBAlpn{Alpn: []string{"h2", "h3"}},
			&dns.SVCBIPv4Hint{Hint: []net.IP{net.IP(append([]byte(nil), h[:4]...)), net.IP(append([]byte(nil), h[4:8]...))}},
		}}}
	default:
		return &dns.RFC3597{Hdr: hdr, Rdata: hex.EncodeToString(h[:6])}
	}
}

func mkRRSIG(owner string, covered, class uint16, ttl uint32, h []byte) dns.RR {
	return &dns.RRSIG{
		Hdr:         dns.RR_Header{Name: owner, Rrtype: dns.TypeRRSIG, Class: class, Ttl: ttl},
		TypeCovered: covered, Algorithm: 13, Labels: uint8(dns.CountLabel(owner)), OrigTtl: ttl,
		Expiration: 1900000000, Inception: 1700000000, KeyTag: uint16(h[0])<<8 | uint16(h[1]),
		SignerName: zone, Signature: "c2lnbmF0dXJl" + hex.EncodeToString(h[:3]),
	}
}

func mkSOA(class uint16, ttl, minttl uint32, h []byte) dns.RR {
	return &dns.SOA{
		Hdr: dns.RR_Header{Name: zone, Rrtype: dns.TypeSOA, Class: class, Ttl: ttl},
		Ns:  "ns." + zone, Mbox: "hostmaster." + zone,
		Serial: uint32(h[0])<<16 | uint32(h[1])<<8 | uint32(h[2]), Refresh: 7200, Retry: 3600, Expire: 86400, Minttl: minttl,
	}
}

// answer is the upstream function.
func answer(req *dns.Msg) (resp *dns.Msg, fwd, dep string, do bool) {
	q := req.Question[0]
	lname := strings.ToLower(q.Name)
	opt := req.IsEdns0()
	do = opt != nil && opt.Do()

	var sub netip.Prefix
	hasSub := false
	if s, _, err := dnsmsg.ECSFromMsg(req); err == nil && s != (netip.Prefix{}) {
		sub, hasSub = s, true
	}
	fwd, dep = "-", "-"
	if hasSub {
		fwd = sub.String()
	}

	resp = &dns.Msg{}
	resp.SetReply(req)
	resp.RecursionAvailable = true

	sp, ok := parseSpec(lname)
	if !ok {
		resp.Rcode = dns.RcodeRefused
		return resp, fwd, dep, do
	}

	scope := 0
	if sp.e > 0 && hasSub && sub.Bits() > 0 {
		scope = min(sp.e, sub.Bits())
		dep = netip.PrefixFrom(sub.Addr(), scope).Masked().String()
	}
	if sp.f > 0 && sp.e <= 0 && hasSub && sub.Bits() > 0 {
		scope = min(sp.f, sub.Bits())
	}

	cl := q.Qclass
	qt := q.Qtype
	hk := func(i any) []byte { return hsum(lname, "|", qt, "|", cl, "|", dep, "|", i) }
	sig := sp.s && (do || sp.g)
	resp.AuthenticatedData = sp.s
	resp.Authoritative = sp.a

	addAns := func(owner string, t uint16, n int, tag string) {
		for i := 0; i < n; i++ {
			resp.Answer = append(resp.Answer, mkRR(owner, t, cl, sp.t, hk(fmt.Sprint(tag, i))))
		}
		if sig {
			resp.Answer = append(resp.Answer, mkRRSIG(owner, t, cl, sp.t, hk(tag+"sig")))
		}
	}
	addSOA := func() {
		resp.Ns = append(resp.Ns, mkSOA(cl, sp.n, sp.m, hk("soa")))
		if sig {
			resp.Ns = append(resp.Ns, mkRRSIG(zone, dns.TypeSOA, cl, sp.n, hk("soasig")))
			resp.Ns = append(resp.Ns, &dns.NSEC{
				Hdr:        dns.RR_Header{Name: lname, Rrtype: dns.TypeNSEC, Class: cl, Ttl: sp.n},
				NextDomain: hostFrom("nsec", hk("nsec")), TypeBitMap: []uint16{dns.TypeA, dns.TypeRRSIG, dns.TypeNSEC},
			})
		}
	}
	addNS := func() {
		resp.Ns = append(resp.Ns, mkRR(zone, dns.TypeNS, cl, sp.n, hk("ns")))
	}
	addGlue := func() {
		resp.Extra = append(resp.Extra, mkRR(hostFrom("ns", hk("ns")), dns.TypeA, cl, sp.x, hk("glue")))
	}
	cnameTarget := hostFrom("cn", hk("cname0"))
	other := uint16(dns.TypeMX)
	if qt == dns.TypeMX {
		other = dns.TypeA
	}
	ede := false

	switch sp.kind {
	case "ans":
		addAns(q.Name, qt, sp.c, "a")
		if sp.hasN {
			addNS()
		}
		if sp.hasX {
			addGlue()
		}
	case "cname":
		addAns(q.Name, dns.TypeCNAME, 1, "cname")
		if qt != dns.TypeCNAME {
			addAns(cnameTarget, qt, sp.c, "t")
		}
	case "nodata":
		addSOA()
	case "cnodata":
		addAns(q.Name, dns.TypeCNAME, 1, "cname")
		addSOA()
	case "nx":
		resp.Rcode = dns.RcodeNameError
		addSOA()
	case "nxns":
		resp.Rcode = dns.RcodeNameError
		addNS()
	case "sf":
		resp.Rcode = dns.RcodeServerFailure
	case "sfrec":
		resp.Rcode = dns.RcodeServerFailure
		addSOA()
	case "sfans":
		resp.Rcode = dns.RcodeServerFailure
		addAns(q.Name, qt, 1, "a")
	case "sfede":
		resp.Rcode = dns.RcodeServerFailure
		addSOA()
		ede = true
	case "ansede":
		addAns(q.Name, qt, sp.c, "a")
		ede = true
	case "tc":
		addAns(q.Name, qt, sp.c, "a")
		resp.Truncated = true
	case "tcnx":
		resp.Rcode = dns.RcodeNameError
		addSOA()
		resp.Truncated = true
	case "tcsf":
		resp.Rcode = dns.RcodeServerFailure
		addSOA()
		resp.Truncated = true
	case "q0":
		addAns(q.Name, qt, sp.c, "a")
		resp.Question = nil
	case "q2":
		addAns(q.Name, qt, sp.c, "a")
		resp.Question = append(resp.Question, dns.Question{Name: "second." + zone, Qtype: qt, Qclass: cl})
	case "rc":
		resp.Rcode = sp.r
		addSOA()
	case "rcans":
		resp.Rcode = sp.r
		addAns(q.Name, qt, 1, "a")
	case "empty":
	case "cnameonly":
		addAns(q.Name, dns.TypeCNAME, 1, "cname")
	case "referral":
		addNS()
		addGlue()
	case "wrongtype":
		addAns(q.Name, other, 1, "w")
	case "wrongtypesoa":
		addAns(q.Name, other, 1, "w")
		addSOA()
	default:
		resp.Rcode = dns.RcodeRefused
	}

	if opt != nil {
		o := &dns.OPT{Hdr: dns.RR_Header{Name: ".", Rrtype: dns.TypeOPT}}
		o.SetUDPSize(1232)
		if do {
			o.SetDo()
		}
		if hasSub && (sp.e >= 0 || sp.z || sp.f > 0) {
			fam := uint16(1)
			if sub.Addr().Is6() {
				fam = 2
			}
			o.Option = append(o.Option, &dns.EDNS0_SUBNET{
				Code: dns.EDNS0SUBNET, Family: fam, SourceNetmask: uint8(sub.Bits()), SourceScope: uint8(scope),
				Address: net.IP(sub.Addr().AsSlice()),
			})
		}
		if ede {
			o.Option = append(o.Option, &dns.EDNS0_EDE{InfoCode: dns.ExtendedErrorCodeNetworkError, ExtraText: "c04 scripted"})
		}
		resp.Extra = append(resp.Extra, o)
	}
	return resp, fwd, dep, do
}
