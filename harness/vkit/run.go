// Package vkit is the shared kit of the runtime-monitoring harness: seeds,
// evidence accounting, three-valued verdicts, known findings and replay files.
package vkit

import (
	"crypto/sha256"
	"encoding/hex"
	"encoding/json"
	"fmt"
	"math/rand/v2"
	"os"
	"path/filepath"
	"sort"
	"strconv"
	"strings"
	"sync"
	"testing"
	"time"
)

// Run is the per-check monitor state.  All methods are safe for concurrent
// use.
type Run struct {
	ID    string
	Tier  string
	Seed  int64
	Level string
	Root  string

	t     testing.TB
	start time.Time

	mu           sync.Mutex
	evaluations  int64
	distinct     map[string]struct{}
	buckets      map[string]int64
	samples      []any
	maxSamples   int
	rule         string
	assumptions  []string
	extra        map[string]any
	violations   []violation
	knownSeen    map[string]string
	inconclusive []string
	minDistinct  int
	gates        []gate
	known        []KnownFinding
	exhaustive   *bool
}

type gate struct {
	bucket string
	min    int64
}

type violation struct {
	Key     string `json:"key"`
	What    string `json:"what"`
	Replay  string `json:"replay"`
	Witness any    `json:"witness"`
}

// KnownFinding is one entry of /verif/known_findings.json.
type KnownFinding struct {
	Property string `json:"property"`
	Key      string `json:"key"`
	What     string `json:"what"`
}

type knownFile struct {
	Findings []KnownFinding `json:"findings"`
	Fixed    []string       `json:"fixed"`
}

// Start creates the monitor state for property id.
func Start(t testing.TB, id, level string) *Run {
	root := os.Getenv("VERIF_ROOT")
	if root == "" {
		root = "/verif"
	}
	tier := os.Getenv("VERIF_TIER")
	if tier != "thorough" {
		tier = "quick"
	}
	seed := int64(1)
	if s := os.Getenv("VERIF_SEED"); s != "" {
		if v, err := strconv.ParseInt(strings.TrimSpace(s), 10, 64); err == nil {
			seed = v
		}
	}
	r := &Run{
		ID: id, Tier: tier, Seed: seed, Level: level, Root: root, t: t,
		start:       time.Now(),
		distinct:    map[string]struct{}{},
		buckets:     map[string]int64{},
		extra:       map[string]any{},
		knownSeen:   map[string]string{},
		maxSamples:  6,
		minDistinct: 2,
	}
	kf := knownFile{}
	if b, err := os.ReadFile(filepath.Join(root, "known_findings.json")); err == nil {
		if err = json.Unmarshal(b, &kf); err != nil {
			r.Inconclusive("known_findings.json unreadable: " + err.Error())
		}
	}
	for _, k := range kf.Findings {
		if k.Property == id {
			r.known = append(r.known, k)
		}
	}
	return r
}

// Thorough reports whether the thorough tier was requested.
func (r *Run) Thorough() bool { return r.Tier == "thorough" }

// N picks a size by tier.
func (r *Run) N(quick, thorough int) int {
	if r.Thorough() {
		return thorough
	}
	return quick
}

// Rand returns a PRNG that depends only on (seed, property, stream, idx), so a
// single case can be regenerated alone.
func (r *Run) Rand(stream string, idx int) *rand.Rand {
	h := sha256.Sum256([]byte(fmt.Sprintf("%s/%s/%d", r.ID, stream, idx)))
	s2 := uint64(0)
	for i := 0; i < 8; i++ {
		s2 = s2<<8 | uint64(h[i])
	}
	return rand.New(rand.NewPCG(uint64(r.Seed), s2))
}

// Rule states how cases are generated and what makes one distinct/non-trivial.
func (r *Run) Rule(s string) { r.mu.Lock(); r.rule = s; r.mu.Unlock() }

// Assume records an assumption of the check.
func (r *Run) Assume(s string) {
	r.mu.Lock()
	r.assumptions = append(r.assumptions, s)
	r.mu.Unlock()
}

// Eval counts one evaluated case.  class is the normalised class of the case;
// it enters the distinct set only if nontrivial.
func (r *Run) Eval(class string, nontrivial bool) {
	r.mu.Lock()
	r.evaluations++
	if nontrivial {
		r.distinct[class] = struct{}{}
	}
	r.mu.Unlock()
}

// Bucket adds n to a named observation counter.
func (r *Run) Bucket(name string, n int64) {
	r.mu.Lock()
	r.buckets[name] += n
	r.mu.Unlock()
}

// BucketGet returns the counter value.
func (r *Run) BucketGet(name string) int64 {
	r.mu.Lock()
	defer r.mu.Unlock()
	return r.buckets[name]
}

// Sample keeps v as a written-out example (first few only).
func (r *Run) Sample(v any) {
	r.mu.Lock()
	if len(r.samples) < r.maxSamples {
		r.samples = append(r.samples, v)
	}
	r.mu.Unlock()
}

// Extra sets an additional coverage key.
func (r *Run) Extra(k string, v any) { r.mu.Lock(); r.extra[k] = v; r.mu.Unlock() }

// Exhaustive marks that a finite sub-space was enumerated completely.
func (r *Run) Exhaustive(b bool) { r.mu.Lock(); r.exhaustive = &b; r.mu.Unlock() }

// Require makes the run inconclusive unless bucket reaches min (a coverage
// gate: the monitor must actually have observed the thing).
func (r *Run) Require(bucket string, min int64) {
	r.mu.Lock()
	r.gates = append(r.gates, gate{bucket, min})
	r.mu.Unlock()
}

// Inconclusive records a reason why no verdict can be given.
func (r *Run) Inconclusive(reason string) {
	r.mu.Lock()
	r.inconclusive = append(r.inconclusive, reason)
	r.mu.Unlock()
}

// Violation records a refuting observation.  key identifies the specific
// failing input class / call site / history class; it is what
// known_findings.json lists.  Only the first witness per key is written.
func (r *Run) Violation(key, what string, witness any) {
	r.mu.Lock()
	defer r.mu.Unlock()
	for _, k := range r.known {
		if k.Key == key {
			if _, ok := r.knownSeen[key]; !ok {
				r.knownSeen[key] = k.What
			}
			r.buckets["known_finding_observations"]++
			return
		}
	}
	for _, v := range r.violations {
		if v.Key == key {
			r.buckets["violation_observations"]++
			return
		}
	}
	r.buckets["violation_observations"]++
	h := sha256.Sum256([]byte(key))
	name := fmt.Sprintf("%s-%s-seed%d-%s.json", r.ID, r.Tier, r.Seed, hex.EncodeToString(h[:4]))
	p := filepath.Join(r.Root, "replays", name)
	_ = os.MkdirAll(filepath.Dir(p), 0o755)
	doc := map[string]any{
		"property": r.ID, "key": key, "what": what, "seed": r.Seed, "tier": r.Tier,
		"witness": witness,
	}
	b, err := json.MarshalIndent(doc, "", " ")
	if err != nil {
		b = []byte(fmt.Sprintf(`{"property":%q,"key":%q,"what":%q,"witness_unmarshalable":%q}`, r.ID, key, what, fmt.Sprint(witness)))
	}
	_ = os.WriteFile(p, b, 0o644)
	r.violations = append(r.violations, violation{Key: key, What: what, Replay: p, Witness: witness})
}

// Violations returns the number of distinct unlisted violations so far.
func (r *Run) Violations() int { r.mu.Lock(); defer r.mu.Unlock(); return len(r.violations) }

// Finish evaluates the gates, writes the evidence file and prints the verdict
// lines.  It must be called exactly once, at the end.
func (r *Run) Finish() {
	r.mu.Lock()
	defer r.mu.Unlock()
	for _, g := range r.gates {
		if r.buckets[g.bucket] < g.min {
			r.inconclusive = append(r.inconclusive,
				fmt.Sprintf("coverage gate: %s=%d < %d", g.bucket, r.buckets[g.bucket], g.min))
		}
	}
	if len(r.distinct) < r.minDistinct {
		r.inconclusive = append(r.inconclusive,
			fmt.Sprintf("coverage gate: distinct_nontrivial=%d < %d", len(r.distinct), r.minDistinct))
	}
	if len(r.samples) == 0 {
		r.inconclusive = append(r.inconclusive, "no samples recorded")
	}
	cov := map[string]any{
		"evaluations":         r.evaluations,
		"distinct_nontrivial": len(r.distinct),
		"rule":                r.rule,
		"samples":             r.samples,
		"buckets":             r.buckets,
	}
	if r.exhaustive != nil {
		cov["exhaustive"] = *r.exhaustive
	}
	for k, v := range r.extra {
		cov[k] = v
	}
	kn := []string{}
	for k := range r.knownSeen {
		kn = append(kn, k)
	}
	sort.Strings(kn)
	cov["known_findings_observed"] = kn
	vk := []string{}
	for _, v := range r.violations {
		vk = append(vk, v.Key)
	}
	cov["violation_keys"] = vk
	cov["inconclusive"] = r.inconclusive
	ev := map[string]any{
		"property_id": r.ID,
		"tier":        r.Tier,
		"seed":        r.Seed,
		"level":       r.Level,
		"coverage":    cov,
		"assumptions": r.assumptions,
		"wall_s":      time.Since(r.start).Seconds(),
		"violations":  len(r.violations),
	}
	b, err := json.MarshalIndent(ev, "", " ")
	if err != nil {
		fmt.Printf("INCONCLUSIVE property=%s evidence not serialisable: %v\n", r.ID, err)
		r.t.Fail()
		return
	}
	p := filepath.Join(r.Root, "evidence", r.ID+".json")
	_ = os.MkdirAll(filepath.Dir(p), 0o755)
	if err = os.WriteFile(p, b, 0o644); err != nil {
		fmt.Printf("INCONCLUSIVE property=%s cannot write evidence: %v\n", r.ID, err)
		r.t.Fail()
	}
	for _, k := range kn {
		fmt.Printf("KNOWN-FINDING: property=%s %s: %s\n", r.ID, k, r.knownSeen[k])
	}
	for _, k := range r.known {
		if _, ok := r.knownSeen[k.Key]; !ok {
			fmt.Printf("NOTE property=%s listed finding %s was not observed in this run\n", r.ID, k.Key)
		}
	}
	for _, v := range r.violations {
		fmt.Printf("VIOLATION property=%s replay=%s\n", r.ID, v.Replay)
		fmt.Printf("  key=%s what=%s\n", v.Key, v.What)
	}
	for _, s := range r.inconclusive {
		fmt.Printf("INCONCLUSIVE property=%s %s\n", r.ID, s)
	}
	fmt.Printf("SUMMARY property=%s tier=%s seed=%d evaluations=%d distinct_nontrivial=%d violations=%d known=%d inconclusive=%d wall_s=%.1f\n",
		r.ID, r.Tier, r.Seed, r.evaluations, len(r.distinct), len(r.violations), len(kn), len(r.inconclusive), time.Since(r.start).Seconds())
	if len(r.violations) > 0 || len(r.inconclusive) > 0 {
		r.t.Fail()
	}
}

// ReplayPath returns the replay file requested on the command line, if any.
func ReplayPath() string { return os.Getenv("VERIF_REPLAY") }

// JSON renders v compactly for samples and witnesses.
func JSON(v any) string {
	b, err := json.Marshal(v)
	if err != nil {
		return fmt.Sprint(v)
	}
	return string(b)
}
