package c09

// Layer 4: the real binary.  The conversion of the YAML `ratelimit` section to
// ratelimit.BackoffConfig is unexported (internal/cmd), so "the configured
// backoff_period / backoff_duration" can only be observed on the built program:
// it is started with backoff_period != backoff_duration, plain-DNS UDP queries
// are sent from loopback subnets, and the answers (or their absence, confirmed
// by the server's own dropped_total counter) are judged with interval
// arithmetic.

import (
	"bufio"
	"context"
	"crypto/ecdsa"
	"crypto/elliptic"
	"crypto/rand"
	"crypto/x509"
	"crypto/x509/pkix"
	"encoding/pem"
	"fmt"
	"io"
	"math/big"
	"net"
	"net/http"
	"net/netip"
	"os"
	"os/exec"
	"path/filepath"
	"strconv"
	"strings"
	"sync"
	"syscall"
	"time"

	"github.com/AdguardTeam/AdGuardDNS/verif/vkit"
	"github.com/miekg/dns"
)

func repoDir() string {
	if d := os.Getenv("VERIF_REPO"); d != "" {
		return d
	}
	return "/repo"
}

// cleanGoEnv is the environment for `go build` inside the repository: the
// harness' own GOFLAGS=-mod=mod / GOWORK=off must not leak into it.
func cleanGoEnv() []string {
	var env []string
	for _, kv := range os.Environ() {
		k := kv[:strings.IndexByte(kv, '=')]
		switch k {
		case "GOFLAGS", "GOWORK", "GOPROXY", "GOSUMDB", "GOTOOLCHAIN", "GORACE", "GOOS", "GOARCH", "CGO_ENABLED":
			continue
		}
		if strings.HasPrefix(k, "VERIF_") {
			continue
		}
		env = append(env, kv)
	}
	return append(env, "GOPROXY=off", "GOSUMDB=off", "GOTOOLCHAIN=local")
}

func scratchDir() string {
	if d := os.Getenv("VERIF_SCRATCH"); d != "" {
		return d
	}
	return theT.TempDir()
}

// buildBinary builds the program of the tree under test.  -trimpath makes the
// build cache shared between /repo and scratch worktrees.
func buildBinary(dir string) (bin string, out []byte, err error) {
	bin = filepath.Join(dir, "adguard-dns")
	cmd := exec.Command("go", "build", "-trimpath", "-o", bin, ".")
	cmd.Dir = repoDir()
	cmd.Env = cleanGoEnv()
	out, err = cmd.CombinedOutput()
	return bin, out, err
}

type binFixtures struct {
	dir               string
	cert, key         string
	index             string
	httpAddr          string
	upstream          string
	probe6            string
	closers           []func()
	upstreamResponses int
}

func (fx *binFixtures) close() {
	for _, c := range fx.closers {
		c()
	}
}

func newBinFixtures(dir string) (fx *binFixtures, err error) {
	fx = &binFixtures{dir: dir}
	if err = os.MkdirAll(dir, 0o755); err != nil {
		return nil, err
	}
	priv, err := ecdsa.GenerateKey(elliptic.P256(), rand.Reader)
	if err != nil {
		return nil, err
	}
	tmpl := &x509.Certificate{
		SerialNumber: big.NewInt(9),
		Subject:      pkix.Name{CommonName: "dns.example.com"},
		NotBefore:    time.Now().Add(-time.Hour),
		NotAfter:     time.Now().Add(240 * time.Hour),
		KeyUsage:     x509.KeyUsageDigitalSignature,
		ExtKeyUsage:  []x509.ExtKeyUsage{x509.ExtKeyUsageServerAuth},
		DNSNames:     []string{"dns.example.com", "*.dns.example.com", "localhost"},
		IPAddresses:  []net.IP{net.ParseIP("127.0.0.1")},
	}
	der, err := x509.CreateCertificate(rand.Reader, tmpl, tmpl, &priv.PublicKey, priv)
	if err != nil {
		return nil, err
	}
	keyDER, err := x509.MarshalECPrivateKey(priv)
	if err != nil {
		return nil, err
	}
	fx.cert, fx.key = filepath.Join(dir, "cert.crt"), filepath.Join(dir, "cert.key")
	if err = os.WriteFile(fx.cert, pem.EncodeToMemory(&pem.Block{Type: "CERTIFICATE", Bytes: der}), 0o644); err != nil {
		return nil, err
	}
	if err = os.WriteFile(fx.key, pem.EncodeToMemory(&pem.Block{Type: "EC PRIVATE KEY", Bytes: keyDER}), 0o644); err != nil {
		return nil, err
	}
	for _, n := range []string{"page.html"} {
		if err = os.WriteFile(filepath.Join(dir, n), []byte("<html></html>\n"), 0o644); err != nil {
			return nil, err
		}
	}
	hl, err := net.Listen("tcp4", "127.0.0.1:0")
	if err != nil {
		return nil, err
	}
	fx.httpAddr = hl.Addr().String()
	mux := http.NewServeMux()
	mux.HandleFunc("/allow", func(w http.ResponseWriter, _ *http.Request) {
		w.Header().Set("Content-Type", "application/json")
		_, _ = w.Write([]byte("[]"))
	})
	mux.HandleFunc("/services.json", func(w http.ResponseWriter, _ *http.Request) {
		w.Header().Set("Content-Type", "application/json")
		_, _ = w.Write([]byte(`{"blocked_services":[]}`))
	})
	mux.HandleFunc("/", func(w http.ResponseWriter, _ *http.Request) {
		w.Header().Set("Content-Type", "text/plain")
		_, _ = w.Write([]byte("! empty\n"))
	})
	hs := &http.Server{Handler: mux}
	go func() { _ = hs.Serve(hl) }()
	fx.closers = append(fx.closers, func() { _ = hs.Close() })
	fx.index = filepath.Join(dir, "filters.json")
	idx := `{"filters":[{"filterKey":"c09_list","downloadUrl":"http://` + fx.httpAddr + `/filters/c09_list.txt"}]}`
	if err = os.WriteFile(fx.index, []byte(idx), 0o644); err != nil {
		return nil, err
	}
	p6, err := net.Listen("tcp6", "[::1]:0")
	if err != nil {
		return nil, fmt.Errorf("ipv6 loopback is required: %w", err)
	}
	fx.probe6 = p6.Addr().String()
	go acceptAndClose(p6)
	fx.closers = append(fx.closers, func() { _ = p6.Close() })

	var pc net.PacketConn
	var tl net.Listener
	for try := 0; try < 50; try++ {
		pc, err = net.ListenPacket("udp4", "127.0.0.1:0")
		if err != nil {
			return nil, err
		}
		tl, err = net.Listen("tcp4", pc.LocalAddr().String())
		if err == nil {
			break
		}
		_ = pc.Close()
	}
	if err != nil {
		return nil, err
	}
	h := dns.HandlerFunc(func(w dns.ResponseWriter, req *dns.Msg) {
		resp := new(dns.Msg)
		resp.SetReply(req)
		if len(req.Question) == 1 && req.Question[0].Qtype == dns.TypeA {
			if big := bigAnswer(req); big != nil {
				resp = big
			} else {
				resp.Answer = append(resp.Answer, &dns.A{
					Hdr: dns.RR_Header{Name: req.Question[0].Name, Rrtype: dns.TypeA, Class: dns.ClassINET, Ttl: 60},
					A:   net.IP{192, 0, 2, 9},
				})
			}
		}
		_ = w.WriteMsg(resp)
	})
	us := &dns.Server{PacketConn: pc, Handler: h}
	ts := &dns.Server{Listener: tl, Handler: h}
	go func() { _ = us.ActivateAndServe() }()
	go func() { _ = ts.ActivateAndServe() }()
	fx.upstream = pc.LocalAddr().String()
	fx.closers = append(fx.closers, func() { _ = us.Shutdown(); _ = ts.Shutdown() })
	return fx, nil
}

// bigAnswer is the stub upstream's answer for names "q<id>-big<k>-...": many
// A records under the (long) question name, k*binEst + binEst/3 bytes long
// without name compression -- and far below binEst with it.  nil for all
// other names.
const binEst = 1024

func bigAnswer(req *dns.Msg) *dns.Msg {
	name := req.Question[0].Name
	i := strings.Index(name, "-big")
	if i < 0 {
		return nil
	}
	k := 0
	for _, ch := range name[i+4:] {
		if ch < '0' || ch > '9' {
			break
		}
		k = k*10 + int(ch-'0')
	}
	if k == 0 {
		return nil
	}
	resp := new(dns.Msg)
	resp.SetReply(req)
	resp.Compress = false
	target := k*binEst + binEst/3
	for n := 0; resp.Len() < target; n++ {
		resp.Answer = append(resp.Answer, &dns.A{
			Hdr: dns.RR_Header{Name: name, Rrtype: dns.TypeA, Class: dns.ClassINET, Ttl: 60},
			A:   net.IP{192, 0, byte(2 + n/250), byte(1 + n%250)},
		})
	}
	return resp
}

func acceptAndClose(l net.Listener) {
	for {
		c, err := l.Accept()
		if err != nil {
			return
		}
		_ = c.Close()
	}
}

type binRL struct {
	Count    int
	Interval time.Duration
	Period   time.Duration
	Duration time.Duration
	BOCount  int
	// DualStack binds the plain-DNS server to [::]:port: IPv4 clients then
	// arrive in the IPv4-mapped form.
	DualStack bool
}

func binConfig(fx *binFixtures, rl binRL, dnsPort, dotPort int) string {
	page := filepath.Join(fx.dir, "page.html")
	return fmt.Sprintf(`ratelimit:
    refuseany: true
    response_size_estimate: 1KB
    ipv4:
        count: %d
        interval: %s
        subnet_key_len: 24
    ipv6:
        count: %d
        interval: %s
        subnet_key_len: 48
    backoff_period: %s
    backoff_count: %d
    backoff_duration: %s
    allowlist:
        list:
          - '192.0.2.1'
        refresh_interval: 1h
        type: 'consul'
    connection_limit:
        enabled: true
        stop: 1000
        resume: 800
    quic:
        enabled: true
        max_streams_per_peer: 100
    tcp:
        enabled: true
        max_pipeline_count: 100
access:
    blocked_question_domains: []
    blocked_client_subnets:
      - '1.2.3.0/24'
cache:
    type: 'simple'
    size: 1000
    ecs_size: 1000
    ttl_override:
        enabled: false
        min: 60s
upstream:
    servers:
      - address: 'tcp://%s'
        timeout: 2s
    fallback:
        servers:
          - address: '%s'
            timeout: 1s
    healthcheck:
        enabled: false
        interval: 2s
        timeout: 1s
        backoff_duration: 30s
        domain_template: '${RANDOM}.c09.example'
dns:
    read_timeout: 2s
    tcp_idle_timeout: 30s
    write_timeout: 2s
    handle_timeout: 1s
    max_udp_response_size: 1024B
dnsdb:
    enabled: false
    max_size: 1000
backend:
    timeout: 10s
    refresh_interval: 1h
    full_refresh_interval: 24h
    full_refresh_retry_interval: 1h
    bill_stat_interval: 1h
query_log:
    file:
        enabled: false
geoip:
    host_cache_size: 1000
    ip_cache_size: 1000
    refresh_interval: 1h
check:
    kv:
        type: 'cache'
        ttl: 30s
    domains:
      - dnscheck.c09.example
    node_location: 'ams'
    node_name: 'c09.dns.example.com'
    ipv4:
      - 1.2.3.4
    ipv6:
      - 1234::cdee
web:
    timeout: 1m
safe_browsing:
    block_host: 'standard-block.dns.adguard.com'
    cache_size: 1024
    cache_ttl: 1h
    refresh_interval: 1h
    refresh_timeout: 1m
adult_blocking:
    block_host: 'family-block.dns.adguard.com'
    cache_size: 1024
    cache_ttl: 1h
    refresh_interval: 1h
    refresh_timeout: 1m
filters:
    response_ttl: 5m
    custom_filter_cache_size: 1024
    safe_search_cache_size: 1024
    refresh_interval: 1h
    refresh_timeout: 5m
    index_refresh_timeout: 1m
    rule_list_refresh_timeout: 1m
    max_size: 256MB
    rule_list_cache:
        enabled: true
        size: 1000
    ede_enabled: true
    sde_enabled: true
filtering_groups:
  - id: 'default'
    parental:
        enabled: false
    rule_lists:
        enabled: false
    safe_browsing:
        enabled: false
        block_dangerous_domains: false
        block_newly_registered_domains: false
    block_chrome_prefetch: false
    block_firefox_canary: false
    block_private_relay: false
server_groups:
  - name: 'c09'
    filtering_group: 'default'
    ddr:
        enabled: false
    tls:
        certificates:
          - certificate: '%s'
            key: '%s'
        session_keys: []
        device_id_wildcards:
          - '*.dns.example.com'
    servers:
      - name: 'c09_dns'
        protocol: 'dns'
        linked_ip_enabled: false
        bind_addresses:
          - '%s:%d'
      - name: 'c09_dot'
        protocol: 'tls'
        linked_ip_enabled: false
        bind_addresses:
          - '127.0.0.1:%d'
    profiles_enabled: false
connectivity_check:
    probe_ipv4: '%s'
    probe_ipv6: '%s'
additional_metrics_info:
    test_key: 'c09'
network:
    so_sndbuf: 0
    so_rcvbuf: 0
`, rl.Count, rl.Interval, rl.Count, rl.Interval, rl.Period, rl.BOCount, rl.Duration,
		fx.upstream, fx.upstream, fx.cert, fx.key, map[bool]string{false: "127.0.0.1", true: "[::]"}[rl.DualStack], dnsPort, dotPort, fx.upstream, fx.probe6) + "# " + page + "\n"
}

func binEnv(fx *binFixtures, dir string, debugPort int) []string {
	h := "http://" + fx.httpAddr
	geo := filepath.Join(repoDir(), "internal", "geoip", "testdata")
	return []string{
		"PATH=/usr/bin:/bin",
		"CONFIG_PATH=" + filepath.Join(dir, "config.yaml"),
		"FILTER_INDEX_URL=file://" + fx.index,
		"FILTER_CACHE_PATH=" + filepath.Join(dir, "filters"),
		"GEOIP_ASN_PATH=" + filepath.Join(geo, "GeoIP2-ISP-Test.mmdb"),
		"GEOIP_COUNTRY_PATH=" + filepath.Join(geo, "GeoIP2-City-Test.mmdb"),
		"QUERYLOG_PATH=" + filepath.Join(dir, "querylog.jsonl"),
		"PROFILES_CACHE_PATH=" + filepath.Join(dir, "profilecache.pb"),
		"LISTEN_ADDR=127.0.0.1",
		"LISTEN_PORT=" + strconv.Itoa(debugPort),
		"DNSCHECK_CACHE_KV_SIZE=100",
		"CONSUL_ALLOWLIST_URL=" + h + "/allow",
		"ADULT_BLOCKING_URL=" + h + "/adult.txt",
		"NEW_REG_DOMAINS_URL=" + h + "/newreg.txt",
		"SAFE_BROWSING_URL=" + h + "/sb.txt",
		"BLOCKED_SERVICE_INDEX_URL=" + h + "/services.json",
		"GENERAL_SAFE_SEARCH_URL=" + h + "/general_ss.txt",
		"YOUTUBE_SAFE_SEARCH_URL=" + h + "/youtube_ss.txt",
		"ADULT_BLOCKING_ENABLED=0", "NEW_REG_DOMAINS_ENABLED=0", "SAFE_BROWSING_ENABLED=0",
		"BLOCKED_SERVICE_ENABLED=0", "GENERAL_SAFE_SEARCH_ENABLED=0", "YOUTUBE_SAFE_SEARCH_ENABLED=0",
		"SENTRY_DSN=stderr",
		"VERBOSE=0",
		"LOG_TIMESTAMP=1",
	}
}

// freePorts returns n ports that were free for TCP and UDP on 127.0.0.1 a
// moment ago.
func freePorts(n int) (ports []int, err error) {
	for tries := 0; len(ports) < n && tries < 200; tries++ {
		l, lerr := net.Listen("tcp4", "127.0.0.1:0")
		if lerr != nil {
			return nil, lerr
		}
		p := l.Addr().(*net.TCPAddr).Port
		u, uerr := net.ListenPacket("udp4", "127.0.0.1:"+strconv.Itoa(p))
		_ = l.Close()
		if uerr != nil {
			continue
		}
		_ = u.Close()
		// also free on the IPv6 wildcard (a dual-stack bind needs both)
		l6, l6err := net.Listen("tcp", "[::]:"+strconv.Itoa(p))
		if l6err != nil {
			continue
		}
		_ = l6.Close()
		u6, u6err := net.ListenPacket("udp", "[::]:"+strconv.Itoa(p))
		if u6err != nil {
			continue
		}
		_ = u6.Close()
		ports = append(ports, p)
	}
	if len(ports) < n {
		return nil, fmt.Errorf("no free ports")
	}
	return ports, nil
}

type binChild struct {
	cmd       *exec.Cmd
	dnsAddr   *net.UDPAddr
	debugPort int
	logPath   string
	done      chan struct{}
}

func startBinary(bin string, fx *binFixtures, dir string, rl binRL) (c *binChild, err error) {
	if err = os.MkdirAll(filepath.Join(dir, "filters"), 0o755); err != nil {
		return nil, err
	}
	ports, err := freePorts(3)
	if err != nil {
		return nil, err
	}
	if err = os.WriteFile(filepath.Join(dir, "config.yaml"), []byte(binConfig(fx, rl, ports[0], ports[1])), 0o644); err != nil {
		return nil, err
	}
	c = &binChild{dnsAddr: &net.UDPAddr{IP: net.IP{127, 0, 0, 1}, Port: ports[0]}, debugPort: ports[2],
		logPath: filepath.Join(dir, "child.log"), done: make(chan struct{})}
	lf, err := os.Create(c.logPath)
	if err != nil {
		return nil, err
	}
	c.cmd = exec.Command(bin)
	c.cmd.Dir = dir
	c.cmd.Env = binEnv(fx, dir, ports[2])
	c.cmd.Stdout, c.cmd.Stderr = lf, lf
	if err = c.cmd.Start(); err != nil {
		_ = lf.Close()
		return nil, err
	}
	go func() { _ = c.cmd.Wait(); _ = lf.Close(); close(c.done) }()
	// ready when a query from an unrelated subnet is answered
	deadline := time.Now().Add(60 * time.Second)
	for time.Now().Before(deadline) {
		select {
		case <-c.done:
			return c, fmt.Errorf("the program exited during start-up: %s", c.logTail())
		default:
		}
		cl, cerr := newBinClient(c.dnsAddr, net.IP{127, 0, 250, 1})
		if cerr == nil {
			id := cl.send("ready.c09.example.")
			time.Sleep(150 * time.Millisecond)
			ok := cl.answered(id)
			cl.close()
			if ok {
				return c, nil
			}
		}
	}
	return c, fmt.Errorf("the program did not answer within 60 s: %s", c.logTail())
}

func (c *binChild) logTail() string {
	b, _ := os.ReadFile(c.logPath)
	if len(b) > 1500 {
		b = b[len(b)-1500:]
	}
	return string(b)
}

func (c *binChild) stop() {
	if c == nil || c.cmd == nil || c.cmd.Process == nil {
		return
	}
	_ = c.cmd.Process.Signal(syscall.SIGTERM)
	select {
	case <-c.done:
	case <-time.After(10 * time.Second):
		_ = c.cmd.Process.Kill()
		<-c.done
	}
}

// dropped reads the server's own counter of rate-limited queries.
func (c *binChild) dropped() (n float64, err error) {
	hc := &http.Client{Timeout: 5 * time.Second}
	resp, err := hc.Get("http://127.0.0.1:" + strconv.Itoa(c.debugPort) + "/metrics")
	if err != nil {
		return 0, err
	}
	defer resp.Body.Close()
	sc := bufio.NewScanner(resp.Body)
	sc.Buffer(make([]byte, 1<<20), 1<<20)
	found := false
	for sc.Scan() {
		line := sc.Text()
		if !strings.HasPrefix(line, "dns_ratelimit_dropped_total") {
			continue
		}
		f := strings.Fields(line)
		v, perr := strconv.ParseFloat(f[len(f)-1], 64)
		if perr != nil {
			return 0, perr
		}
		n += v
		found = true
	}
	_ = found
	return n, sc.Err()
}

// binClient is one UDP client bound to a loopback source address.
type binClient struct {
	conn *net.UDPConn
	mu   sync.Mutex
	got  map[uint16]int64 // id -> wall ns of the answer
	next uint16
	sent map[uint16]span
}

func newBinClient(srv *net.UDPAddr, src net.IP) (*binClient, error) {
	conn, err := net.DialUDP("udp4", &net.UDPAddr{IP: src}, srv)
	if err != nil {
		return nil, err
	}
	c := &binClient{conn: conn, got: map[uint16]int64{}, sent: map[uint16]span{}, next: 100}
	go func() {
		buf := make([]byte, 4096)
		for {
			n, rerr := conn.Read(buf)
			if rerr != nil {
				return
			}
			m := new(dns.Msg)
			if m.Unpack(buf[:n]) != nil {
				continue
			}
			c.mu.Lock()
			c.got[m.Id] = time.Now().UnixNano()
			c.mu.Unlock()
		}
	}()
	return c, nil
}

func (c *binClient) close() { _ = c.conn.Close() }

// send sends one A query for a fresh name (no cache hit) and returns its id.
func (c *binClient) send(name string) uint16 {
	id, _ := c.sendMsg(name)
	return id
}

// sendMsg is send that also returns the query (no EDNS: a large answer is
// truncated for the client).
func (c *binClient) sendMsg(name string) (uint16, *dns.Msg) {
	c.mu.Lock()
	c.next++
	id := c.next
	c.mu.Unlock()
	q := new(dns.Msg)
	q.SetQuestion(fmt.Sprintf("q%d-%s", id, name), dns.TypeA)
	q.Id = id
	b, _ := q.Pack()
	t0 := time.Now().UnixNano()
	_, _ = c.conn.Write(b)
	t1 := time.Now().UnixNano()
	c.mu.Lock()
	c.sent[id] = span{t0, t1}
	c.mu.Unlock()
	return id, q
}

func (c *binClient) answered(id uint16) bool {
	c.mu.Lock()
	defer c.mu.Unlock()
	_, ok := c.got[id]
	return ok
}

// binLimiter lets the layer-2 monitor drive the real program: "IsRateLimited"
// sends one plain-DNS UDP query from the given loopback address and returns
// when the outcome is known -- the answer has arrived, or the program's own
// dropped_total counter has gone up by one.  The monitor's stamps before and
// after the call therefore enclose the moment the program counted the query.
type binLimiter struct {
	c       *binChild
	clients map[netip.Addr]*binClient
	dropped float64
	lost    func(why string)
	// bigK > 0: the next queries ask for a name whose answer is bigK estimates
	// long; useTCP: they are sent over TCP (one connection per query).
	bigK    int
	useTCP  bool
	lastReq *dns.Msg
}

// binName is the question name of a query: long first label, so that the
// records of a large answer shrink to a fraction under name compression.
func (l *binLimiter) binName() string {
	if l.bigK > 0 {
		return fmt.Sprintf("big%d-%s.c09.example.", l.bigK, strings.Repeat("x", 44))
	}
	return "c09.example."
}

// tcpQuery sends q over a fresh TCP connection from src and reports the
// answer on the returned channel (closed without a value when none came).
func tcpQuery(srv *net.UDPAddr, src net.IP, q *dns.Msg) (<-chan struct{}, func(), error) {
	d := net.Dialer{LocalAddr: &net.TCPAddr{IP: src}, Timeout: 3 * time.Second}
	conn, err := d.Dial("tcp4", srv.String())
	if err != nil {
		return nil, nil, err
	}
	b, _ := q.Pack()
	buf := append([]byte{byte(len(b) >> 8), byte(len(b))}, b...)
	if _, err = conn.Write(buf); err != nil {
		_ = conn.Close()
		return nil, nil, err
	}
	ch := make(chan struct{}, 1)
	go func() {
		defer close(ch)
		_ = conn.SetReadDeadline(time.Now().Add(5 * time.Second))
		hdr := make([]byte, 2)
		if _, rerr := io.ReadFull(conn, hdr); rerr != nil {
			return
		}
		body := make([]byte, int(hdr[0])<<8|int(hdr[1]))
		if _, rerr := io.ReadFull(conn, body); rerr != nil {
			return
		}
		m := new(dns.Msg)
		if m.Unpack(body) == nil && m.Id == q.Id {
			ch <- struct{}{}
		}
	}()
	return ch, func() { _ = conn.Close() }, nil
}

func (l *binLimiter) IsRateLimited(_ context.Context, _ *dns.Msg, ip netip.Addr) (drop, allow bool, err error) {
	cl := l.clients[ip]
	if cl == nil {
		cl, err = newBinClient(l.c.dnsAddr, ip.AsSlice())
		if err != nil {
			l.lost("cannot bind " + ip.String() + ": " + err.Error())
			return false, false, nil
		}
		l.clients[ip] = cl
	}
	var id uint16
	answered := func() bool { return cl.answered(id) }
	if l.useTCP {
		q := new(dns.Msg)
		cl.mu.Lock()
		cl.next++
		id = cl.next
		cl.mu.Unlock()
		q.SetQuestion(fmt.Sprintf("q%d-%s", id, l.binName()), dns.TypeA)
		q.Id = id
		l.lastReq = q
		ch, closeConn, terr := tcpQuery(l.c.dnsAddr, ip.AsSlice(), q)
		if terr != nil {
			l.lost("tcp: " + terr.Error())
			return false, false, nil
		}
		defer closeConn()
		got := false
		answered = func() bool {
			if got {
				return true
			}
			select {
			case _, ok := <-ch:
				got = ok
			default:
			}
			return got
		}
	} else {
		id, l.lastReq = cl.sendMsg(l.binName())
	}
	deadline := time.Now().Add(3 * time.Second)
	for i := 0; ; i++ {
		if answered() {
			return false, false, nil
		}
		if i < 8 {
			time.Sleep(time.Duration(i+1) * time.Millisecond)
			continue
		}
		d, derr := l.c.dropped()
		if answered() {
			return false, false, nil
		}
		switch {
		case derr != nil:
			l.lost("metrics: " + derr.Error())
			return false, false, nil
		case d == l.dropped+1:
			l.dropped = d
			return true, false, nil
		case d != l.dropped:
			l.lost(fmt.Sprintf("dropped_total went from %v to %v during one query", l.dropped, d))
			l.dropped = d
			return true, false, nil
		case time.Now().After(deadline):
			l.lost("neither an answer nor a counted drop within 3 s")
			return false, false, nil
		}
		time.Sleep(10 * time.Millisecond)
	}
}

func (l *binLimiter) CountResponses(context.Context, *dns.Msg, netip.Addr) {}

func (l *binLimiter) close() {
	for _, c := range l.clients {
		c.close()
	}
}

// layer4Binary runs both configurations of the real program concurrently and
// returns a function that waits for them.
func layer4Binary(r *vkit.Run) (wait func()) {
	var wg sync.WaitGroup
	wg.Add(1)
	go func() {
		defer wg.Done()
		dir := filepath.Join(scratchDir(), "c09-binary")
		bin, out, err := buildBinary(dir0(dir))
		if err != nil {
			r.Inconclusive("layer 4: the program does not build: " + err.Error() + ": " + string(out))
			return
		}
		fx, err := newBinFixtures(filepath.Join(dir, "fx"))
		if err != nil {
			r.Inconclusive("layer 4: fixtures: " + err.Error())
			return
		}
		defer fx.close()
		var wg2 sync.WaitGroup
		for i, rl := range []binRL{
			// backoff_period < backoff_duration (as in config.dist.yaml: 10m / 30m)
			{Count: 2, Interval: 500 * time.Millisecond, Period: time.Second, Duration: 3 * time.Second, BOCount: 2},
			// backoff_period > backoff_duration
			// (bound to [::]: the IPv4 clients arrive as ::ffff:127.9.x.y)
			{Count: 2, Interval: 500 * time.Millisecond, Period: 3 * time.Second, Duration: time.Second, BOCount: 2, DualStack: true},
		} {
			wg2.Add(1)
			go func() {
				defer wg2.Done()
				guard(r, "binary", i, func() { binaryCase(r, bin, fx, filepath.Join(dir, fmt.Sprintf("child%d", i)), i, rl) })
			}()
		}
		wg2.Add(1)
		go func() {
			defer wg2.Done()
			guard(r, "binary-weight", 2, func() { binaryWeightCase(r, bin, fx, filepath.Join(dir, "child2")) })
		}()
		wg2.Wait()
	}()
	return wg.Wait
}

func dir0(d string) string { _ = os.MkdirAll(d, 0o755); return d }

func binaryCase(r *vkit.Run, bin string, fx *binFixtures, dir string, idx int, rl binRL) {
	child, err := startBinary(bin, fx, dir, rl)
	if child != nil {
		defer child.stop()
	}
	if err != nil {
		r.Inconclusive("layer 4: " + err.Error())
		return
	}
	base, err := child.dropped()
	if err != nil {
		r.Inconclusive("layer 4: cannot read the program's metrics: " + err.Error())
		return
	}
	c := bcfg{N4: uint(rl.Count), N6: uint(rl.Count), I4: rl.Interval, I6: rl.Interval, K4: 24, K6: 48,
		Period: rl.Period, Duration: rl.Duration, Count: uint(rl.BOCount), Est: 1024, RefuseANY: true}
	m := newMon(r, "binary", idx, c)
	m.keyPrefix = "binary:"
	if rl.DualStack {
		m.keyPrefix = "binary:dualstack:"
	}
	lim := &binLimiter{c: child, clients: map[netip.Addr]*binClient{}, dropped: base}
	lim.lost = func(why string) {
		m.step = true
		r.Bucket("l4_binary_observation_lost", 1)
		m.trace = append(m.trace, traceRec{Op: "observation lost: " + why})
	}
	defer lim.close()
	m.l = lim
	subnets := []netip.Addr{
		netip.AddrFrom4([4]byte{127, 9, byte(10 + idx), 5}),
		netip.AddrFrom4([4]byte{127, 9, byte(20 + idx), 77}),
		netip.AddrFrom4([4]byte{127, 9, byte(30 + idx), 200}),
	}
	n, cnt := rl.Count, rl.BOCount
	// Every subnet uses its limit and goes over it backoff_count times.
	for _, ip := range subnets {
		for j := 0; j < n+cnt; j++ {
			m.query(ip, dns.TypeA)
		}
	}
	probe := func(bucketDrop, bucketPass string) {
		for _, ip := range subnets {
			m.query(ip, dns.TypeA)
			if m.last.mustDrop && m.last.drop {
				r.Bucket(bucketDrop, 1)
			}
			if m.last.mustPass && !m.last.drop {
				r.Bucket(bucketPass, 1)
			}
		}
	}
	if rl.Period < rl.Duration {
		// The windows are empty and more than backoff_period has passed, but
		// less than backoff_duration: still in back-off.
		m.sleep(rl.Period + 700*time.Millisecond)
		probe("l4_binary_in_backoff_after_period", "l4_binary_other_pass")
		// backoff_duration after the last (possible) over-limit event: served.
		m.sleep(rl.Duration + 300*time.Millisecond)
		probe("l4_binary_other_drop", "l4_binary_served_after_duration")
	} else {
		// backoff_duration has passed (backoff_period has not): served again.
		m.sleep(rl.Duration + 400*time.Millisecond)
		probe("l4_binary_other_drop", "l4_binary_served_after_duration")
	}
	r.Sample(map[string]any{"layer": 4, "family": "binary", "ratelimit_yaml": c.witness(), "ops": m.trace})
	m.finish(fmt.Sprintf("L4binary/period%s/duration%s", rl.Period, rl.Duration))
}

// binaryWeightCase: large responses count as several events also on the real
// write path.  The stub upstream answers with many A records (3 estimates
// long as the handlers see it); the plain-DNS writers truncate it for a UDP
// client without EDNS and compress it for a TCP client, both far below one
// estimate.  The subnet must still be charged 1+3 events.
func binaryWeightCase(r *vkit.Run, bin string, fx *binFixtures, dir string) {
	rl := binRL{Count: 6, Interval: 4 * time.Second, Period: 10 * time.Second, Duration: 10 * time.Second, BOCount: 1000}
	child, err := startBinary(bin, fx, dir, rl)
	if child != nil {
		defer child.stop()
	}
	if err != nil {
		r.Inconclusive("layer 4: " + err.Error())
		return
	}
	base, err := child.dropped()
	if err != nil {
		r.Inconclusive("layer 4: cannot read the program's metrics: " + err.Error())
		return
	}
	c := bcfg{N4: uint(rl.Count), N6: uint(rl.Count), I4: rl.Interval, I6: rl.Interval, K4: 24, K6: 48,
		Period: rl.Period, Duration: rl.Duration, Count: uint(rl.BOCount), Est: binEst, RefuseANY: true}
	m := newMon(r, "binary/response-weight", 2, c)
	m.keyPrefix = "binary:response-weight:"
	lim := &binLimiter{c: child, clients: map[netip.Addr]*binClient{}, dropped: base}
	lim.lost = func(why string) {
		m.step = true
		r.Bucket("l4_binary_observation_lost", 1)
		m.trace = append(m.trace, traceRec{Op: "observation lost: " + why})
	}
	defer lim.close()
	m.l = lim
	const k = 3
	for si, tcp := range []bool{false, true, false, true} {
		ip := netip.AddrFrom4([4]byte{127, 9, byte(60 + si), byte(9 + si)})
		lim.useTCP, lim.bigK = tcp, k
		dropped := m.query(ip, dns.TypeA)
		lim.bigK = 0
		how := "udp without EDNS (answer truncated for the client)"
		if tcp {
			how = "tcp (answer compressed for the client)"
		}
		if dropped || lim.lastReq == nil {
			continue
		}
		size := bigAnswer(lim.lastReq).Len()
		m.trace = append(m.trace, traceRec{Op: "large answer over " + how, Size: size})
		m.noteResponse(ip, size-64, size+64)
		for j := 0; j < rl.Count-1; j++ {
			m.query(ip, dns.TypeA)
			if m.last.mustDrop && m.last.drop {
				if tcp {
					r.Bucket("l4_binary_weight_drop_tcp", 1)
				} else {
					r.Bucket("l4_binary_weight_drop_udp", 1)
				}
			}
		}
	}
	r.Sample(map[string]any{"layer": 4, "family": "binary/response-weight", "ratelimit_yaml": c.witness(), "ops": m.trace})
	m.finish("L4binary/response-weight")
}
