// Package c09 monitors property C09: rate limiting is an exact per-subnet
// sliding window with back-off and allow-list.
//
// Layer 1: ratelimit.RequestCounter.Add in virtual time (exhaustive over small
// grids around the interval boundary + seeded long sequences + concurrent Add).
// Layer 2: ratelimit.Backoff on the wall clock, judged with interval arithmetic
// against a log-based model written from the property statement.
// Layer 3: agd.DefaultRatelimiter directly, and the whole ratelimit middleware
// through dnssvc.NewHandlers (protocol gate, profile limiter instead of the
// global one, drop = terminal handler not run and nothing written).
package c09

import (
	"context"
	"fmt"
	"io"
	"log/slog"
	"net"
	"net/netip"
	"runtime"
	"sort"
	"strings"
	"sync"
	"sync/atomic"
	"testing"
	"time"

	"github.com/AdguardTeam/AdGuardDNS/internal/access"
	"github.com/AdguardTeam/AdGuardDNS/internal/agd"
	"github.com/AdguardTeam/AdGuardDNS/internal/agdcache"
	"github.com/AdguardTeam/AdGuardDNS/internal/agdpasswd"
	"github.com/AdguardTeam/AdGuardDNS/internal/agdtest"
	"github.com/AdguardTeam/AdGuardDNS/internal/dnsmsg"
	"github.com/AdguardTeam/AdGuardDNS/internal/dnsserver"
	"github.com/AdguardTeam/AdGuardDNS/internal/dnsserver/ratelimit"
	"github.com/AdguardTeam/AdGuardDNS/internal/dnssvc"
	"github.com/AdguardTeam/AdGuardDNS/internal/filter"
	"github.com/AdguardTeam/AdGuardDNS/internal/filter/hashprefix"
	"github.com/AdguardTeam/AdGuardDNS/internal/geoip"
	"github.com/AdguardTeam/AdGuardDNS/internal/querylog"
	"github.com/AdguardTeam/AdGuardDNS/verif/vkit"
	"github.com/anishathalye/porcupine"
	"github.com/c2h5oh/datasize"
	"github.com/miekg/dns"
	"github.com/prometheus/client_golang/prometheus"
)

const (
	hour = time.Hour
	// stepTol is how far wall and monotonic clock may drift apart during a case
	// before the case is discarded; eps is the guard band of every comparison
	// of wall-clock stamps (two stamps of a kept case are consistent within
	// 2*stepTol < eps).
	stepTol   = 2 * time.Millisecond
	eps       = int64(5 * time.Millisecond)
	noBackoff = uint(1) << 40 // a Count that is never reached
)

var ctxBG = context.Background()

var theT testing.TB

func TestCheck(t *testing.T) {
	theT = t
	r := vkit.Start(t, "C09", "exploration")
	defer r.Finish()
	r.Rule("L1: every non-decreasing timestamp sequence of length L (8 quick / 10 thorough; all shorter ones are its prefixes) over 7-instant grids " +
		"around the interval boundary x limit 0..4 x 2 intervals (limit 0: every event is above), each Add compared with a log model (above iff >= n earlier events within the interval; " +
		"an event exactly one interval old may count either way, but consistently); seeded long sequences (ring wrap); concurrent Add. " +
		"L2: seeded op sequences against real Backoff instances (logical: interval/period/duration 1h so verdicts do not depend on timing; key masks for every prefix length; " +
		"timed: window slide-out, counter-entry expiry, back-off entry/exit) judged by interval arithmetic over wall-clock stamps taken before/after each call. " +
		"L3: agd.DefaultRatelimiter and the full middleware via dnssvc.NewHandlers. " +
		"L5: the rate-limit allow-list through the real backendpb.RateLimiter.Refresh and profile rate-limit settings through the real backendpb.ProfileStorage from an in-process gRPC backend " +
		"(prefix lengths /0 /1 /8 /24 /32 and ::/0 /1 /48 /128, alone and combined), judged against what the backend sent. " +
		"L4: the built program started with backoff_period != backoff_duration in its YAML (both orders), plain-DNS UDP queries from three loopback /24s each, same model and interval arithmetic. " +
		"distinct = (layer, family, normalised configuration/sequence); non-trivial = the case contains at least one decided must-drop and one decided must-pass observation " +
		"(L1: one above step and one not-above step after an earlier above or with an earlier event outside the window)")
	r.Assume("every arrival that reaches the window (also one that is itself dropped by the window) is a countable event, as in the design's log model")
	r.Assume("an event exactly `interval` old may be inside or outside the window (either reading of 'within the interval'), but one reading must be used consistently")
	r.Assume("queries of allow-listed clients, refused ANY queries and queries dropped while in back-off may or may not count towards the subnet's window (unspecified)")
	r.Assume("a subnet can be in back-off only if `count` of its over-limit events (counting everything that may have been one) can lie within one window of max(period, duration)")
	r.Assume("back-off is certain only while less than `duration` has passed since the first over-limit event and all `count` events fell within `period`; " +
		"it is certainly over once `duration` has passed since the last event that may have been over the limit")
	r.Assume("layer 4: 'configured' means the YAML the program was started with; a query without an answer counts as dropped only when the program's dropped_total counter went up by one")
	r.Assume("every unit of a large response is an event of the subnet's window; a unit that is certainly beyond the limit (and not swallowed by a back-off) is an over-limit event for the back-off count")
	r.Assume("the events of a response happen when the response is counted (after the handler), not when its request was received; contexts carry dnsserver.RequestInfo.StartTime as on a real server")
	r.Assume("a response of wire length S counts floor(S/estimate)..ceil(S/estimate) extra events when S >= estimate and none when S < estimate")
	r.Assume("timestamps are after 1970 (RequestCounter treats UnixNano()<=0 as an empty slot)")

	waitBinary := layer4Binary(r) // runs beside the other layers

	layer1Exhaustive(r)
	layer1Random(r)
	layer1Concurrent(r)

	layer2Logical(r)
	layer2AllowlistUpdates(r)
	layer2KeyMask(r)
	layer2Window(r)
	layer2Expiry(r)
	layer2Backoff(r)
	layer2SpreadHits(r)
	layer2LargeResp(r)
	layer2SlowHandler(r)
	layer2Concurrent(r)

	layer3Profile(r)
	layer3Stack(r)
	layer3StackSlow(r)
	layer3StackNormalise(r)
	layer5Delivery(r)
	waitBinary()

	r.Require("l1_adds", 100000)
	r.Require("l1_steps_above", 10000)
	r.Require("l1_steps_boundary", 1000)
	r.Require("l1_concurrent_adds", 1000)
	r.Require("porcupine_ok", 10)
	r.Require("l2_queries", 5000)
	r.Require("l2_decided_must_drop", 1000)
	r.Require("l2_decided_must_pass", 1000)
	r.Require("l2_keymask_same_subnet_drop", 100)
	r.Require("l2_keymask_other_subnet_pass", 100)
	r.Require("l2_allowlisted_queries", 100)
	r.Require("l2_persistent_allowlisted_pass_with_empty_dynamic", 40)
	r.Require("l5_backend_persistent_pass_after_empty_refresh", 10)
	r.Require("l2_any_refused", 50)
	r.Require("l2_countresp_events", 100)
	r.Require("l2_window_slid_out_pass", 10)
	r.Require("l2_expiry_probes_decided", 4)
	r.Require("l2_backoff_certain_drop", 10)
	r.Require("l2_backoff_ended_pass", 5)
	r.Require("l2_below_count_pass", 5)
	r.Require("l2_spread_hits_pass", 8)
	r.Require("l2_large_resp_backoff_drop", 8)
	r.Require("l2_large_resp_below_count_pass", 6)
	r.Require("l2_large_resp_window_drop", 6)
	r.Require("l2_slow_handler_window_drop", 8)
	r.Require("l3_stack_slow_handler_dropped", 4)
	r.Require("l3_stack_v4mapped_requests", 200)
	r.Require("l3_stack_normalise_weight_drop", 8)
	r.Require("l5_backend_allowlisted_by_zero_prefix", 6)
	r.Require("l5_backend_allowlisted_pass_over_limit", 30)
	r.Require("l5_backend_not_allowlisted_drop", 20)
	r.Require("l5_backend_profile_inside_zero_prefix", 4)
	r.Require("l5_backend_profile_inside_decided", 20)
	r.Require("l5_backend_profile_outside_global", 8)
	r.Require("l5_backend_stack_profile_drop", 8)
	r.Require("l4_binary_in_backoff_after_period", 2)
	r.Require("l4_binary_served_after_duration", 4)
	r.Require("l4_binary_weight_drop_udp", 2)
	r.Require("l4_binary_weight_drop_tcp", 2)
	r.Require("l3_profile_decided", 20)
	r.Require("l1_steps_limit_zero", 10000)
	r.Require("l3_profile_rps0_drop", 6)
	r.Require("l3_stack_profile_rps0_dropped", 6)
	r.Require("l3_stack_profile_instead_of_global", 5)
	r.Require("l3_stack_dropped_silently", 20)
	r.Require("l3_stack_encrypted_unlimited", 20)
	r.Require("l3_stack_profile_drop_due_to_large_response", 2)
}

// ---------------------------------------------------------------------------
// Layer 1: RequestCounter in virtual time
// ---------------------------------------------------------------------------

var base = time.Date(2024, 3, 1, 12, 0, 0, 0, time.UTC)

// winCounts returns how many logged events are certainly inside the window of
// an event at t (age < ivl) and how many are possibly inside (age <= ivl).
func winCounts(log []int64, t, ivl int64) (lo, hi int) {
	for _, e := range log {
		age := t - e
		if age < ivl {
			lo++
		}
		if age <= ivl {
			hi++
		}
	}
	return lo, hi
}

type l1State struct {
	mu        sync.Mutex
	inclusive int64 // boundary steps explained only by the inclusive reading
	exclusive int64 // boundary steps explained only by the exclusive reading
	firstIncl any
	firstExcl any
}

// l1Run runs one timestamp sequence (offsets from base) through a fresh real
// counter and compares every step with the model.  It returns whether the
// sequence was non-trivial.
func l1Run(r *vkit.Run, st *l1State, fam string, n int, ivl time.Duration, offs []int64) (nontrivial bool) {
	c := ratelimit.NewRequestCounter(uint(n), ivl)
	log := make([]int64, 0, len(offs))
	sawAbove, sawBelowAfter := false, false
	obs := make([]bool, 0, len(offs))
	for j, off := range offs {
		above := c.Add(base.Add(time.Duration(off)))
		obs = append(obs, above)
		lo, hi := winCounts(log, off, int64(ivl))
		witness := func() any {
			return map[string]any{"family": fam, "limit": n, "interval_ns": int64(ivl), "offsets_ns": offs[:j+1],
				"observed_above": obs, "step": j, "events_within_interval_strict": lo, "events_within_interval_inclusive": hi}
		}
		switch {
		case lo >= n:
			r.Bucket("l1_steps_above", 1)
			if n == 0 {
				r.Bucket("l1_steps_limit_zero", 1)
			}
			sawAbove = true
			if !above {
				key := "counter:not-above-with-n-events-in-window"
				if n == 0 {
					key = "counter:limit-zero-not-above"
				} else if lo > n {
					key = "counter:not-above-with-more-than-n-events-in-window"
				}
				r.Violation(key, "Add reported 'not above' although the configured number of earlier events lies strictly within the interval", witness())
			}
		case hi < n:
			r.Bucket("l1_steps_below", 1)
			if j >= n && (sawAbove || hi < j) {
				sawBelowAfter = true
			}
			if above {
				key := "counter:above-with-fewer-than-n-events-in-window"
				if hi == n-1 {
					key = "counter:above-with-n-minus-1-events-in-window"
				}
				r.Violation(key, "Add reported 'above' although fewer than the configured number of earlier events lie within the interval (even counting one exactly on the boundary)", witness())
			}
		default:
			// hi >= n > lo: decided only by events exactly one interval old.
			r.Bucket("l1_steps_boundary", 1)
			st.mu.Lock()
			if above {
				st.inclusive++
				if st.firstIncl == nil {
					st.firstIncl = witness()
				}
			} else {
				st.exclusive++
				if st.firstExcl == nil {
					st.firstExcl = witness()
				}
			}
			st.mu.Unlock()
		}
		log = append(log, off)
	}
	r.Bucket("l1_adds", int64(len(offs)))
	return sawAbove && sawBelowAfter
}

func l1Finish(r *vkit.Run, st *l1State, where string) {
	st.mu.Lock()
	defer st.mu.Unlock()
	r.Bucket("l1_boundary_inclusive_obs", st.inclusive)
	r.Bucket("l1_boundary_exclusive_obs", st.exclusive)
	if st.inclusive > 0 && st.exclusive > 0 {
		r.Violation("counter:boundary-inconsistent", "events exactly one interval old are sometimes counted and sometimes not ("+where+")",
			map[string]any{"counted": st.firstIncl, "not_counted": st.firstExcl, "n_counted": st.inclusive, "n_not_counted": st.exclusive})
	}
}

func layer1Exhaustive(r *vkit.Run) {
	L := r.N(8, 10)
	st := &l1State{}
	total := 0
	for _, ivl := range []time.Duration{time.Second, 1000 * time.Nanosecond} {
		I := int64(ivl)
		grids := [][]int64{
			{0, 1, I - 1, I, I + 1, 2*I - 1, 2 * I},
			{0, I / 2, I, 3 * I / 2, 2 * I, 5 * I / 2, 3 * I},
			{0, I - 1, I, I + 1, 2 * I, 2*I + 1, 2*I + 2},
		}
		for gi, g := range grids {
			for n := 0; n <= 4; n++ {
				idx := make([]int, L)
				offs := make([]int64, L)
				var rec func(pos, from int)
				rec = func(pos, from int) {
					if pos == L {
						for k, v := range idx {
							offs[k] = g[v]
						}
						nt := l1Run(r, st, "exhaustive", n, ivl, offs)
						total++
						cls := fmt.Sprintf("L1x/n%d/I%d/g%d/%v", n, I, gi, idx)
						r.Eval(cls, nt)
						if total%20011 == 7 {
							r.Sample(map[string]any{"layer": 1, "limit": n, "interval_ns": I, "grid": g, "sequence_grid_indexes": append([]int(nil), idx...)})
						}
						return
					}
					for v := from; v < len(g); v++ {
						idx[pos] = v
						rec(pos+1, v)
					}
				}
				rec(0, 0)
			}
		}
	}
	r.Extra("l1_exhaustive_sequences", total)
	r.Extra("l1_exhaustive_length", L)
	r.Exhaustive(true)
	r.Extra("exhaustive_scope", "layer 1 only: all non-decreasing sequences of the stated length over the stated grids, limits 0..4")
	l1Finish(r, st, "exhaustive grids")
	st.mu.Lock()
	switch {
	case st.inclusive > 0 && st.exclusive == 0:
		r.Extra("l1_boundary_reading_observed", "inclusive (an event exactly one interval old still counts)")
	case st.exclusive > 0 && st.inclusive == 0:
		r.Extra("l1_boundary_reading_observed", "exclusive (an event exactly one interval old no longer counts)")
	}
	st.mu.Unlock()
}

func layer1Random(r *vkit.Run) {
	cases := r.N(3000, 100000)
	st := &l1State{}
	for i := 0; i < cases; i++ {
		rng := r.Rand("l1random", i)
		n := rng.IntN(13) // 0..12
		ivl := []time.Duration{time.Millisecond, time.Second, 3 * time.Second}[rng.IntN(3)]
		I := int64(ivl)
		L := 20 + rng.IntN(100)
		offs := make([]int64, L)
		var t int64
		for j := range offs {
			switch rng.IntN(10) {
			case 0, 1, 2:
				// burst: equal timestamp
			case 3:
				t++
			case 4:
				t += I / int64(max(n, 1))
			case 5:
				t += I - 1
			case 6:
				t += I
			case 7:
				t += I + 1
			case 8:
				t += rng.Int64N(2*I) + 1
			default:
				t += rng.Int64N(I/int64(max(n, 1))+1) + 1
			}
			offs[j] = t
		}
		nt := l1Run(r, st, "random", n, ivl, offs)
		r.Eval(fmt.Sprintf("L1r/%d", i), nt)
		if i == 11 {
			r.Sample(map[string]any{"layer": 1, "family": "random", "limit": n, "interval_ns": I, "offsets_ns": offs})
		}
	}
	l1Finish(r, st, "random sequences")
}

type addIn struct{ N int }
type addOut struct{ Above bool }

func layer1Concurrent(r *vkit.Run) {
	// (a) many goroutines, all timestamps inside a band much narrower than the
	// interval: regardless of the order exactly n calls are not above.
	rounds := r.N(40, 400)
	for i := 0; i < rounds; i++ {
		rng := r.Rand("l1conc", i)
		n := rng.IntN(21) // 0..20
		ivl := time.Second
		c := ratelimit.NewRequestCounter(uint(n), ivl)
		const G, K = 6, 40
		var notAbove atomic.Int64
		var wg sync.WaitGroup
		start := make(chan struct{})
		for g := 0; g < G; g++ {
			offs := make([]time.Duration, K)
			for k := range offs {
				offs[k] = time.Duration(rng.Int64N(int64(ivl / 4)))
			}
			wg.Add(1)
			go func() {
				defer wg.Done()
				<-start
				for _, o := range offs {
					if !c.Add(base.Add(o)) {
						notAbove.Add(1)
					}
				}
			}()
		}
		close(start)
		wg.Wait()
		r.Bucket("l1_concurrent_adds", G*K)
		want := int64(n)
		if got := notAbove.Load(); got != want {
			key := "counter:concurrent-too-many-not-above"
			if got < want {
				key = "counter:concurrent-too-few-not-above"
			}
			r.Violation(key, "concurrent Adds with all timestamps inside a quarter interval: the number of calls reported 'not above' differs from the limit",
				map[string]any{"round": i, "limit": n, "calls": G * K, "not_above": got})
		}
		// the window has slid out completely: not above (limit 0: always above)
		if got := c.Add(base.Add(ivl/4 + ivl + time.Millisecond)); got != (n == 0) {
			key := "counter:above-with-fewer-than-n-events-in-window"
			if n == 0 {
				key = "counter:limit-zero-not-above"
			}
			r.Violation(key, "after a concurrent burst, the verdict of an Add more than one interval later is wrong",
				map[string]any{"round": i, "limit": n, "above": got})
		}
		r.Eval(fmt.Sprintf("L1c/%d", i), false)
	}
	// (b) small concurrent histories checked for linearizability against a
	// counter model (all timestamps equal).
	hist := r.N(200, 2000)
	model := porcupine.Model{
		Init: func() any { return 0 },
		Step: func(st, in, out any) (bool, any) {
			cnt := st.(int)
			return out.(addOut).Above == (cnt >= in.(addIn).N), cnt + 1
		},
		DescribeOperation: func(in, out any) string {
			return fmt.Sprintf("Add(limit %d) -> above=%v", in.(addIn).N, out.(addOut).Above)
		},
	}
	for h := 0; h < hist; h++ {
		rng := r.Rand("l1porc", h)
		n := rng.IntN(5) // 0..4
		c := ratelimit.NewRequestCounter(uint(n), time.Second)
		var mu sync.Mutex
		var ops []porcupine.Operation
		t0 := time.Now()
		var wg sync.WaitGroup
		for w := 0; w < 3; w++ {
			wg.Add(1)
			go func(w int) {
				defer wg.Done()
				for k := 0; k < 3; k++ {
					call := int64(time.Since(t0))
					above := c.Add(base)
					ret := int64(time.Since(t0))
					mu.Lock()
					ops = append(ops, porcupine.Operation{ClientId: w, Input: addIn{n}, Call: call, Output: addOut{above}, Return: ret})
					mu.Unlock()
				}
			}(w)
		}
		wg.Wait()
		r.Bucket("l1_concurrent_adds", 9)
		res, _ := porcupine.CheckOperationsVerbose(model, ops, 20*time.Second)
		switch res {
		case porcupine.Ok:
			r.Bucket("porcupine_ok", 1)
		case porcupine.Illegal:
			var hs []string
			for _, o := range ops {
				hs = append(hs, fmt.Sprintf("c%d [%d,%d] %+v -> %+v", o.ClientId, o.Call, o.Return, o.Input, o.Output))
			}
			r.Violation("counter:not-linearizable", "concurrent Add history is not explained by any sequential counter history", map[string]any{"history": h, "ops": hs})
		default:
			r.Bucket("porcupine_unknown", 1)
		}
	}
}

// ---------------------------------------------------------------------------
// Layer 2: Backoff on the wall clock; model with interval arithmetic
// ---------------------------------------------------------------------------

type bcfg struct {
	N4, N6     uint
	I4, I6     time.Duration
	K4, K6     int
	Period     time.Duration
	Duration   time.Duration
	Count      uint
	Est        uint64
	RefuseANY  bool
	Persistent []netip.Prefix
	Dynamic    []netip.Prefix
}

func (c bcfg) witness() map[string]any {
	cnt := any(c.Count)
	if c.Count == noBackoff {
		cnt = "never"
	}
	return map[string]any{"ipv4_count": c.N4, "ipv6_count": c.N6, "ipv4_interval": c.I4.String(), "ipv6_interval": c.I6.String(),
		"ipv4_key_len": c.K4, "ipv6_key_len": c.K6, "backoff_period": c.Period.String(), "backoff_duration": c.Duration.String(),
		"backoff_count": cnt, "response_size_estimate": c.Est, "refuse_any": c.RefuseANY,
		"allowlist_persistent": fmt.Sprint(c.Persistent), "allowlist_dynamic": fmt.Sprint(c.Dynamic)}
}

type span struct{ B, A int64 } // wall-clock ns before / after the call

type mEvent struct {
	span
	opt bool // may or may not have been counted
	// resp: in keyModel.events, a unit of a large response that was certainly
	// beyond the limit when it was counted; in keyModel.hits, an over-limit
	// event that is a unit of a large response.
	resp bool
	// lagged: the event was counted with a request context whose StartTime is
	// certainly older than the moment of the call (a response produced by a
	// slow handler).
	lagged bool
}

type keyModel struct {
	events []mEvent
	hits   []mEvent // over-limit events; opt = may or may not be one
	first  *span    // first event that may have created the subnet's counter
	// spreadOnly: at the last evaluation there were >= count recent over-limit
	// events, but no `count` of them can lie within one window of length
	// max(period, duration), so the subnet cannot be in back-off.
	spreadOnly bool
}

type traceRec struct {
	Op      string `json:"op"`
	IP      string `json:"ip,omitempty"`
	QType   string `json:"qtype,omitempty"`
	Size    int    `json:"resp_size,omitempty"`
	BeforeU int64  `json:"before_us"`
	AfterU  int64  `json:"after_us"`
	Drop    *bool  `json:"dropped,omitempty"`
	Allow   *bool  `json:"allowlisted,omitempty"`
	Lo      int    `json:"certainly_in_window"`
	Hi      int    `json:"possibly_in_window"`
	Expect  string `json:"expect,omitempty"`
}

type pendViol struct {
	key, what string
	extra     map[string]any
	at        int
}

var instances atomic.Int64

// newBackoff builds a real limiter; every so often a GC lets the finalizers of
// dropped go-cache instances stop their janitor goroutines.
func newBackoff(c bcfg) (*ratelimit.Backoff, *ratelimit.DynamicAllowlist) {
	if instances.Add(1)%64 == 0 {
		runtime.GC()
	}
	al := ratelimit.NewDynamicAllowlist(append([]netip.Prefix(nil), c.Persistent...), append([]netip.Prefix(nil), c.Dynamic...))
	l := ratelimit.NewBackoff(&ratelimit.BackoffConfig{
		Allowlist: al, Period: c.Period, Duration: c.Duration, Count: c.Count,
		ResponseSizeEstimate: datasize.ByteSize(c.Est),
		IPv4Count:            c.N4, IPv4Interval: c.I4, IPv4SubnetKeyLen: c.K4,
		IPv6Count: c.N6, IPv6Interval: c.I6, IPv6SubnetKeyLen: c.K6,
		RefuseANY: c.RefuseANY,
	})
	return l, al
}

// bmon drives one real Backoff and judges every observation.
type bmon struct {
	r      *vkit.Run
	fam    string
	idx    int
	cfg    bcfg
	l      ratelimit.Interface
	al     *ratelimit.DynamicAllowlist
	dyn    []netip.Prefix
	keys   map[string]*keyModel
	t0     time.Time
	step   bool
	pend   []pendViol
	trace  []traceRec
	nDrop  int // decided must-drop observations
	nPass  int // decided must-pass observations
	nAmbig int
	last   struct{ mustDrop, mustPass, drop bool }
	// lastCtx / lastStart: context and receive time of the last query;
	// respWithReqCtx makes countResp use them (as the middleware does: the
	// response of a request is counted with that request's context).
	lastCtx        context.Context
	lastStart      int64
	lastSpan       span
	respWithReqCtx bool
	// keyPrefix is put in front of every violation key of this monitor.
	keyPrefix string
}

func newMon(r *vkit.Run, fam string, idx int, c bcfg) *bmon {
	l, al := newBackoff(c)
	return &bmon{r: r, fam: fam, idx: idx, cfg: c, l: l, al: al, dyn: c.Dynamic, keys: map[string]*keyModel{}, t0: time.Now()}
}

// now returns the wall clock in ns (the clock the code under test reads) and
// notes when it does not advance together with the monotonic clock.
func (m *bmon) now() int64 { return m.stamp(time.Now()) }

// reqCtx is the context a real server hands to its handlers: it carries
// dnsserver.RequestInfo with the time at which the request was received.
func reqCtx(start time.Time) context.Context {
	return dnsserver.ContextWithRequestInfo(ctxBG, &dnsserver.RequestInfo{StartTime: start})
}

func (m *bmon) stamp(t time.Time) int64 {
	wall := t.UnixNano()
	drift := (wall - m.t0.UnixNano()) - int64(t.Sub(m.t0))
	if drift > int64(stepTol) || drift < -int64(stepTol) {
		m.step = true
	}
	return wall
}

func (m *bmon) us(w int64) int64 { return (w - m.t0.UnixNano()) / 1000 }

func maskKey(ip netip.Addr, k int) string {
	b := ip.AsSlice()
	for i := range b {
		keep := k - 8*i
		switch {
		case keep >= 8:
		case keep <= 0:
			b[i] = 0
		default:
			b[i] &= ^byte(0xff >> uint(keep))
		}
	}
	return fmt.Sprintf("%x/%d", b, k)
}

func (m *bmon) params(ip netip.Addr) (n int, ivl int64, key string) {
	if ip.Is4() {
		return int(m.cfg.N4), int64(m.cfg.I4), maskKey(ip, m.cfg.K4)
	}
	return int(m.cfg.N6), int64(m.cfg.I6), maskKey(ip, m.cfg.K6)
}

func (m *bmon) key(k string) *keyModel {
	ks := m.keys[k]
	if ks == nil {
		ks = &keyModel{}
		m.keys[k] = ks
	}
	return ks
}

func (m *bmon) allowed(ip netip.Addr) bool {
	for _, p := range m.cfg.Persistent {
		if p.Contains(ip) {
			return true
		}
	}
	for _, p := range m.dyn {
		if p.Contains(ip) {
			return true
		}
	}
	return false
}

// loWithoutRespOver is the certain window count without the units of large
// responses that were beyond the limit when they were counted.
func (ks *keyModel) loWithoutRespOver(a, ivl int64) (lo int) {
	for _, e := range ks.events {
		if !e.opt && !e.resp && a-e.B < ivl-eps {
			lo++
		}
	}
	return lo
}

// loWithoutLagged is the certain window count without the events that were
// counted with a request context older than the call.
func (ks *keyModel) loWithoutLagged(a, ivl int64) (lo int) {
	for _, e := range ks.events {
		if !e.opt && !e.lagged && a-e.B < ivl-eps {
			lo++
		}
	}
	return lo
}

// sureHitsWithoutResp is the number of certain over-limit events that are not
// units of large responses.
func (ks *keyModel) sureHitsWithoutResp() (k uint) {
	for _, h := range ks.hits {
		if !h.opt && !h.resp {
			k++
		}
	}
	return k
}

func (ks *keyModel) window(b, a, ivl int64) (lo, hi int) {
	for _, e := range ks.events {
		if !e.opt && a-e.B < ivl-eps {
			lo++
		}
		if !(b-e.A > ivl+eps) {
			hi++
		}
	}
	return lo, hi
}

// backoff reports whether the subnet is certainly / possibly in back-off at a
// call spanning [b, a], and the number of recent over-limit events.
func (ks *keyModel) backoff(b, a int64, c bcfg) (certain, possible bool, recent int) {
	keepFor := int64(c.Duration) + int64(c.Period)
	if keepFor < 0 {
		keepFor = int64(1) << 62
	}
	kept := ks.hits[:0]
	for _, h := range ks.hits {
		if b-h.A <= keepFor+eps {
			kept = append(kept, h)
		}
	}
	ks.hits = kept
	recent = len(kept)
	if c.Count == noBackoff || recent == 0 {
		return false, false, recent
	}
	ks.spreadOnly = false
	if uint(recent) >= c.Count {
		// Back-off needs `count` over-limit events within the back-off period.
		// Counting generously (everything that may have been such an event, at
		// the closest instants the recorded intervals allow): is there any run
		// of `count` of them that fits into one window of max(period, duration)?
		w := max(int64(c.Period), int64(c.Duration))
		k := int(c.Count)
		for i := 0; i+k-1 < recent; i++ {
			if kept[i+k-1].B-kept[i].A <= w+eps {
				possible = true
				break
			}
		}
		ks.spreadOnly = !possible
		// Back-off is entered at an over-limit event and lasts `duration`
		// (BackoffConfig.Duration: "how much a client that has hit the backoff
		// count stays in the backoff state"): once `duration` has passed since
		// the last event that may have been over the limit, the subnet cannot be
		// in back-off.
		if possible && b-kept[recent-1].A > int64(c.Duration)+eps {
			possible = false
		}
	}
	sure := uint(0)
	for _, h := range kept {
		if h.opt {
			continue
		}
		sure++
		if sure == c.Count {
			certain = a-kept[0].B < int64(c.Duration)-eps && h.A-kept[0].B < int64(c.Period)-eps
			break
		}
	}
	return certain, possible, recent
}

func (m *bmon) viol(key, what string, extra map[string]any) {
	m.pend = append(m.pend, pendViol{key, what, extra, len(m.trace)})
}

var qtypeName = map[uint16]string{dns.TypeA: "A", dns.TypeAAAA: "AAAA", dns.TypeTXT: "TXT", dns.TypeANY: "ANY", dns.TypeHTTPS: "HTTPS"}

func mkReq(qt uint16) *dns.Msg {
	q := new(dns.Msg)
	q.SetQuestion("c09.example.", qt)
	return q
}

// query sends one query to the limiter and judges the verdict.
func (m *bmon) query(ip netip.Addr, qt uint16) (dropped bool) {
	req := mkReq(qt)
	tStart := time.Now()
	ctx := reqCtx(tStart)
	b := m.stamp(tStart)
	m.lastCtx, m.lastStart = ctx, b
	drop, allow, err := m.l.IsRateLimited(ctx, req, ip)
	a := m.now()
	m.lastSpan = span{b, a}
	m.r.Bucket("l2_queries", 1)
	rec := traceRec{Op: "query", IP: ip.String(), QType: qtypeName[qt], BeforeU: m.us(b), AfterU: m.us(a), Drop: &drop, Allow: &allow}
	defer func() { m.trace = append(m.trace, rec) }()
	m.last.mustDrop, m.last.mustPass, m.last.drop = false, false, drop
	if err != nil {
		m.viol("backoff:error-on-valid-address", "IsRateLimited returned an error for a valid address", map[string]any{"err": err.Error()})
		return drop
	}
	n, ivl, k := m.params(ip)
	isAllowed := m.allowed(ip)
	if qt == dns.TypeANY && m.cfg.RefuseANY {
		rec.Expect = "drop (ANY refused)"
		m.r.Bucket("l2_any_refused", 1)
		m.last.mustDrop = true
		if !drop {
			key := "any:not-refused"
			if isAllowed {
				key = "any:not-refused-for-allowlisted"
			}
			m.viol(key, "an ANY query was let through although refusal of ANY is configured", nil)
		} else {
			m.nDrop++
		}
		ks := m.key(k)
		ks.events = append(ks.events, mEvent{span{b, a}, true, false, false})
		return drop
	}
	if isAllowed {
		rec.Expect = "pass (allow-listed)"
		m.r.Bucket("l2_allowlisted_queries", 1)
		m.last.mustPass = true
		if drop {
			m.viol("allowlist:dropped", "a query of an allow-listed client was dropped by the limiter", nil)
		} else {
			m.nPass++
		}
		if !allow {
			m.viol("allowlist:flag-missing", "an allow-listed client was not reported as allow-listed", nil)
		}
		ks := m.key(k)
		ks.events = append(ks.events, mEvent{span{b, a}, true, false, false})
		return drop
	}
	if allow {
		m.viol("allowlist:flag-spurious", "a client outside the allow-list was reported as allow-listed", nil)
	}
	ks := m.key(k)
	lo, hi := ks.window(b, a, ivl)
	certainBO, possibleBO, recent := ks.backoff(b, a, m.cfg)
	rec.Lo, rec.Hi = lo, hi
	mustDrop := certainBO || lo >= n
	mustPass := !possibleBO && hi < n
	m.last.mustDrop, m.last.mustPass = mustDrop, mustPass
	switch {
	case mustDrop:
		rec.Expect = "drop"
		if certainBO && lo < n {
			rec.Expect = "drop (back-off)"
		}
		if drop {
			m.nDrop++
			m.r.Bucket("l2_decided_must_drop", 1)
			if certainBO && hi < n {
				m.r.Bucket("l2_backoff_certain_drop", 1)
				if ks.sureHitsWithoutResp() < m.cfg.Count {
					m.r.Bucket("l2_large_resp_backoff_drop", 1)
				}
			}
			if !certainBO && ks.loWithoutRespOver(a, ivl) < n {
				m.r.Bucket("l2_large_resp_window_drop", 1)
			}
			if !certainBO && ks.loWithoutLagged(a, ivl) < n {
				m.r.Bucket("l2_slow_handler_window_drop", 1)
			}
			break
		}
		extra := map[string]any{"limit": n, "certainly_in_window": lo, "possibly_in_window": hi, "certainly_in_backoff": certainBO, "recent_over_limit_events": recent}
		switch {
		case lo < n && ks.sureHitsWithoutResp() < m.cfg.Count:
			m.viol("backoff:large-response-over-limit-units-not-counted-as-hits",
				"a subnet was let through although the units of a large response beyond the limit (a response of k estimates counts as k events) make up `count` over-limit events within the period", extra)
		case lo < n:
			m.viol("backoff:not-in-backoff-after-count-hits", "a subnet that exceeded the limit `count` times within the period was let through during the back-off duration", extra)
		case ks.first != nil && a-ks.first.B >= int64(m.cfg.Period)-eps:
			extra["since_first_counted_event_of_subnet_max"] = time.Duration(a - ks.first.B).String()
			m.viol("backoff:window-forgotten-on-counter-expiry",
				"a query passed although its subnet already had `limit` events within the interval; the subnet's first counted event is at least backoff_period old (per-subnet counter entry expired and the window was forgotten)", extra)
		case ks.loWithoutLagged(a, ivl) < n:
			extra["certainly_in_window_without_events_counted_with_an_older_request_context"] = ks.loWithoutLagged(a, ivl)
			m.viol("backoff:response-events-stamped-with-request-start-time",
				"a query passed although its subnet has `limit` or more events within the interval; the events of a response that a slow handler produced within the interval only count when they are placed at the request's receive time (RequestInfo.StartTime of the context) instead of the time they were counted", extra)
		case ks.loWithoutRespOver(a, ivl) < n:
			extra["certainly_in_window_without_over_limit_response_units"] = ks.loWithoutRespOver(a, ivl)
			m.viol("backoff:large-response-units-not-counted-after-limit",
				"a query passed although its subnet has `limit` or more events within the interval once every unit of a large response is counted (also the units beyond the limit)", extra)
		case lo > n:
			m.viol("backoff:pass-with-more-than-n-events-in-window", "a query passed although its subnet had more than `limit` events within the interval", extra)
		default:
			m.viol("backoff:pass-with-n-events-in-window", "a query passed although its subnet already had `limit` events within the interval", extra)
		}
	case mustPass:
		rec.Expect = "pass"
		if !drop {
			m.nPass++
			m.r.Bucket("l2_decided_must_pass", 1)
			if ks.spreadOnly {
				m.r.Bucket("l2_spread_hits_pass", 1)
			}
			break
		}
		extra := map[string]any{"limit": n, "certainly_in_window": lo, "possibly_in_window": hi, "recent_over_limit_events": recent}
		switch {
		case ks.spreadOnly:
			extra["window_max_period_duration"] = max(m.cfg.Period, m.cfg.Duration).String()
			m.viol("backoff:backoff-from-hits-spread-over-several-periods",
				"a subnet was dropped with a window that is not full although no `count` of its over-limit events can lie within one window of max(period, duration): over-limit events spread over several back-off periods were accumulated", extra)
		case recent > 0:
			m.viol("backoff:backoff-before-count-hits", "a subnet with fewer than `count` over-limit events (or whose back-off is over) and a window that is not full was dropped", extra)
		case hi == n-1:
			m.viol("backoff:drop-with-n-minus-1-events-in-window", "a query was dropped although its subnet had only limit-1 events within the interval", extra)
		default:
			m.viol("backoff:drop-with-window-not-full", "a query was dropped although its subnet had fewer than `limit` events within the interval", extra)
		}
	default:
		rec.Expect = "either (timing/optional events)"
		m.nAmbig++
		m.r.Bucket("l2_ambiguous", 1)
	}
	ev := mEvent{span{b, a}, drop && possibleBO, false, false}
	ks.events = append(ks.events, ev)
	if ks.first == nil && !(drop && possibleBO) {
		ks.first = &span{b, a}
	}
	if drop {
		ks.hits = append(ks.hits, mEvent{span{b, a}, possibleBO, false, false})
	}
	return drop
}

// mkResp builds a response whose wire length is as close to size as possible.
func mkResp(qt uint16, size int) (resp *dns.Msg, wire int) {
	req := mkReq(qt)
	resp = new(dns.Msg)
	resp.SetReply(req)
	resp.Compress = false
	l0 := resp.Len()
	const name = "c09.example."
	nameLen := len(name) + 1
	for rem := size - l0; rem >= nameLen+10+1; rem = size - resp.Len() {
		pay := rem - nameLen - 10
		var txt []string
		for pay > 0 {
			c := pay - 1
			if c > 255 {
				c = 255
			}
			txt = append(txt, strings.Repeat("x", c))
			pay -= c + 1
			if len(txt) > 200 {
				break
			}
		}
		resp.Answer = append(resp.Answer, &dns.TXT{Hdr: dns.RR_Header{Name: name, Rrtype: dns.TypeTXT, Class: dns.ClassINET, Ttl: 10}, Txt: txt})
	}
	b, err := resp.Pack()
	if err != nil {
		return resp, resp.Len()
	}
	return resp, len(b)
}

// countResp reports a response of roughly the given size to the limiter.
func (m *bmon) countResp(ip netip.Addr, size int) {
	resp, wire := mkResp(dns.TypeA, size)
	sizes := []int{wire, resp.Len()}
	sort.Ints(sizes)
	est := int(m.cfg.Est)
	kmin, kmax := sizes[0]/est, (sizes[1]+est-1)/est
	if sizes[1] < est {
		kmin, kmax = 0, 0
	}
	tStart := time.Now()
	ctx, start := reqCtx(tStart), int64(0)
	b := m.stamp(tStart)
	if m.respWithReqCtx && m.lastCtx != nil {
		ctx, start = m.lastCtx, m.lastStart
	}
	lagged := start != 0 && b-start > eps
	m.l.CountResponses(ctx, resp, ip)
	a := m.now()
	op := "count_response"
	if lagged {
		op = fmt.Sprintf("count_response[request received %s earlier]", time.Duration(b-start).Round(time.Millisecond))
	}
	m.modelResp(ip, wire, kmin, kmax, b, a, lagged, op)
}

// noteResponse tells the model that the last query of ip was answered with a
// response whose length (as the limiter sees it) lies in [sizeLo, sizeHi]; the
// system under observation counts that response itself (middleware, program).
func (m *bmon) noteResponse(ip netip.Addr, sizeLo, sizeHi int) {
	est := int(m.cfg.Est)
	kmin, kmax := sizeLo/est, (sizeHi+est-1)/est
	if sizeHi < est {
		kmin, kmax = 0, 0
	}
	m.modelResp(ip, sizeLo, kmin, kmax, m.lastSpan.B, m.lastSpan.A, false, "response_of_last_query")
}

// modelResp adds the events of one response to the model.
func (m *bmon) modelResp(ip netip.Addr, wire, kmin, kmax int, b, a int64, lagged bool, op string) {
	n, ivl, k := m.params(ip)
	rec := traceRec{Op: fmt.Sprintf("%s(%d..%d events)", op, kmin, kmax), IP: ip.String(), Size: wire, BeforeU: m.us(b), AfterU: m.us(a)}
	ks := m.key(k)
	allOpt := m.allowed(ip)
	for j := 0; j < kmax; j++ {
		lo, hi := ks.window(b, a, ivl)
		_, possibleBO, _ := ks.backoff(b, a, m.cfg)
		// A unit that certainly exists (j < kmin), is certainly beyond the limit
		// (lo >= n) and cannot be swallowed by a back-off (not possibleBO) is an
		// over-limit event of the subnet; otherwise it only may be one.
		opt := allOpt || possibleBO || j >= kmin
		if hi >= n {
			ks.hits = append(ks.hits, mEvent{span{b, a}, opt || lo < n, true, false})
		}
		ks.events = append(ks.events, mEvent{span{b, a}, opt, lo >= n, lagged})
		m.r.Bucket("l2_countresp_events", 1)
	}
	if kmax > 0 && ks.first == nil && !allOpt {
		ks.first = &span{b, a}
	}
	rec.Lo, rec.Hi = ks.window(b, a, ivl)
	m.trace = append(m.trace, rec)
}

func (m *bmon) sleep(d time.Duration) {
	b := m.now()
	time.Sleep(d)
	a := m.now()
	m.trace = append(m.trace, traceRec{Op: "sleep " + d.String(), BeforeU: m.us(b), AfterU: m.us(a)})
}

func (m *bmon) updateDynamic(p []netip.Prefix) {
	m.al.Update(append([]netip.Prefix(nil), p...))
	m.dyn = p
	m.trace = append(m.trace, traceRec{Op: "allowlist_update " + fmt.Sprint(p)})
}

// finish flushes the buffered violations (unless the wall clock stepped during
// the case) and counts the case.
func (m *bmon) finish(class string) {
	if m.step {
		m.r.Bucket("cases_discarded_clock_step", 1)
		m.r.Eval(class, false)
		return
	}
	for _, p := range m.pend {
		from := p.at - 40
		if from < 0 {
			from = 0
		}
		to := p.at + 1
		if to > len(m.trace) {
			to = len(m.trace)
		}
		w := map[string]any{"family": m.fam, "case_index": m.idx, "config": m.cfg.witness(), "failing_op_index": p.at,
			"trace_from_op": from, "trace": m.trace[from:to]}
		for k, v := range p.extra {
			w[k] = v
		}
		m.r.Violation(m.keyPrefix+p.key, p.what, w)
	}
	m.r.Eval(class, m.nDrop > 0 && m.nPass > 0)
}

func guard(r *vkit.Run, where string, idx int, f func()) {
	defer func() {
		if p := recover(); p != nil {
			buf := make([]byte, 4096)
			buf = buf[:runtime.Stack(buf, false)]
			r.Violation("panic:"+where, "the code under test panicked on a legal input", map[string]any{"case_index": idx, "panic": fmt.Sprint(p), "stack": string(buf)})
		}
	}()
	f()
}

func parallel(n, par int, f func(i int)) {
	var wg sync.WaitGroup
	ch := make(chan int)
	for w := 0; w < par; w++ {
		wg.Add(1)
		go func() {
			defer wg.Done()
			for i := range ch {
				f(i)
			}
		}()
	}
	for i := 0; i < n; i++ {
		ch <- i
	}
	close(ch)
	wg.Wait()
}

// ---- address helpers

type rnd interface {
	IntN(int) int
	Uint32() uint32
	Uint64() uint64
}

func rand4(g rnd) netip.Addr {
	for {
		v := g.Uint32()
		b := [4]byte{byte(v >> 24), byte(v >> 16), byte(v >> 8), byte(v)}
		if b[0] == 0 || b[0] >= 224 || b[0] == 127 {
			continue
		}
		return netip.AddrFrom4(b)
	}
}

func rand6(g rnd) netip.Addr {
	var b [16]byte
	hi, lo := g.Uint64(), g.Uint64()
	for i := 0; i < 8; i++ {
		b[i] = byte(hi >> (56 - 8*uint(i)))
		b[8+i] = byte(lo >> (56 - 8*uint(i)))
	}
	b[0] = 0x20 | b[0]&0x0f // 2000::/4 .. keeps it away from ::ffff:0:0/96
	return netip.AddrFrom16(b)
}

func flipBit(ip netip.Addr, bit int) netip.Addr {
	b := ip.AsSlice()
	b[bit/8] ^= 0x80 >> uint(bit%8)
	out, _ := netip.AddrFromSlice(b)
	return out
}

// sameSubnet returns an address that shares the first k bits with ip and
// differs in at least one later bit; ok is false when k is the full length.
func sameSubnet(g rnd, ip netip.Addr, k int) (out netip.Addr, ok bool) {
	bits := ip.BitLen()
	if k >= bits {
		return ip, false
	}
	out = flipBit(ip, k+g.IntN(bits-k))
	for i := 0; i < 3; i++ {
		if bit := k + g.IntN(bits-k); flipBit(out, bit) != ip {
			out = flipBit(out, bit)
		}
	}
	return out, true
}

// otherSubnet returns an address whose first k bits differ from ip's.
func otherSubnet(g rnd, ip netip.Addr, k int, last bool) netip.Addr {
	bit := k - 1
	if !last {
		bit = g.IntN(k)
	}
	return flipBit(ip, bit)
}

// ---- family: logical (timing-independent)

func layer2Logical(r *vkit.Run) {
	cases := r.N(400, 12000)
	for i := 0; i < cases; i++ {
		guard(r, "backoff-logical", i, func() { logicalCase(r, i) })
	}
}

func logicalCase(r *vkit.Run, i int) {
	g := r.Rand("l2logical", i)
	c := bcfg{
		N4: uint(1 + g.IntN(6)), N6: uint(1 + g.IntN(6)),
		I4: hour, I6: hour, Period: hour, Duration: hour,
		K4: []int{8, 16, 20, 24, 31, 32}[g.IntN(6)], K6: []int{32, 48, 56, 64, 96, 128}[g.IntN(6)],
		Count: noBackoff, Est: []uint64{64, 100, 512}[g.IntN(3)], RefuseANY: g.IntN(2) == 0,
	}
	if g.IntN(2) == 0 {
		c.Count = uint(1 + g.IntN(4))
	}
	a4, a6 := rand4(g), rand6(g)
	pool := []netip.Addr{a4, a4, a4, a6, a6}
	var inSubnetAllowed []netip.Addr
	if n4, ok := sameSubnet(g, a4, c.K4); ok {
		pool = append(pool, n4)
		if w, ok2 := sameSubnet(g, a4, c.K4); ok2 && w != n4 {
			inSubnetAllowed = append(inSubnetAllowed, w)
		}
	}
	if n6, ok := sameSubnet(g, a6, c.K6); ok {
		pool = append(pool, n6)
		if w, ok2 := sameSubnet(g, a6, c.K6); ok2 && w != n6 {
			inSubnetAllowed = append(inSubnetAllowed, w)
		}
	}
	pool = append(pool, otherSubnet(g, a4, c.K4, true), otherSubnet(g, a6, c.K6, true), otherSubnet(g, a4, c.K4, false), rand4(g), rand6(g))
	w4, w6 := rand4(g), rand6(g)
	p4, _ := w4.Prefix(8 + g.IntN(25))
	p6, _ := w6.Prefix(16 + g.IntN(113))
	c.Persistent = []netip.Prefix{p4}
	c.Dynamic = []netip.Prefix{p6}
	for _, w := range inSubnetAllowed {
		c.Persistent = append(c.Persistent, netip.PrefixFrom(w, w.BitLen()))
	}
	pool = append(pool, w4, w6)
	pool = append(pool, inSubnetAllowed...)
	toggled := rand4(g)
	pool = append(pool, toggled)
	togglePfx, _ := toggled.Prefix(24)

	m := newMon(r, "logical", i, c)
	nops := 40 + g.IntN(80)
	for j := 0; j < nops; j++ {
		ip := pool[g.IntN(len(pool))]
		switch x := g.IntN(100); {
		case x < 10:
			est := int(c.Est)
			size := []int{est - 1, est, est + 1, 2*est - 1, 2 * est, 3*est + 5, 30}[g.IntN(7)]
			m.countResp(ip, size)
		case x < 13:
			switch len(m.dyn) {
			case 1:
				m.updateDynamic([]netip.Prefix{c.Dynamic[0], togglePfx})
			case 2:
				m.updateDynamic(nil) // an empty dynamic list; the persistent one stays
			default:
				m.updateDynamic(c.Dynamic[:1])
			}
		default:
			qt := []uint16{dns.TypeA, dns.TypeA, dns.TypeA, dns.TypeA, dns.TypeA, dns.TypeA, dns.TypeA, dns.TypeAAAA, dns.TypeTXT, dns.TypeANY}[g.IntN(10)]
			m.query(ip, qt)
		}
	}
	if i%97 == 3 {
		r.Sample(map[string]any{"layer": 2, "family": "logical", "case_index": i, "config": c.witness(), "first_ops": m.trace[:12]})
	}
	cnt := "inf"
	if c.Count != noBackoff {
		cnt = fmt.Sprint(c.Count)
	}
	m.finish(fmt.Sprintf("L2logical/n%d,%d/k%d,%d/c%s/e%d/any%v/%d", c.N4, c.N6, c.K4, c.K6, cnt, c.Est, c.RefuseANY, i))
}

// ---- family: dynamic allow-list updates, including the empty list

func layer2AllowlistUpdates(r *vkit.Run) {
	cases := r.N(24, 160)
	for i := 0; i < cases; i++ {
		guard(r, "backoff-allowlist-updates", i, func() { allowlistUpdatesCase(r, i) })
	}
}

// allowlistUpdatesCase: a non-empty persistent list and the dynamic list going
// non-empty -> empty -> non-empty (-> empty ...); after every update a client of
// the persistent list, a client of the dynamic list and an ordinary client are
// probed with more queries than the limit.
func allowlistUpdatesCase(r *vkit.Run, i int) {
	g := r.Rand("l2alupd", i)
	n := uint(1 + g.IntN(3))
	c := bcfg{N4: n, N6: n, I4: hour, I6: hour, Period: hour, Duration: hour, K4: 24, K6: 48, Count: noBackoff, Est: 512, RefuseANY: g.IntN(2) == 0}
	if g.IntN(2) == 0 {
		c.Count = uint(1 + g.IntN(3))
	}
	v6 := i%3 == 2
	mk := func() (netip.Addr, netip.Prefix) {
		a, bits := rand4(g), 16+g.IntN(17)
		if v6 {
			a, bits = rand6(g), 32+g.IntN(97)
		}
		p, _ := a.Prefix(bits)
		return a, p
	}
	pers, persP := mk()
	dyn, dynP := mk()
	c.Persistent = []netip.Prefix{persP}
	startsEmpty := i%4 == 3
	if !startsEmpty {
		c.Dynamic = []netip.Prefix{dynP}
	}
	m := newMon(r, "allowlist-updates", i, c)
	probe := func(afterEmpty bool) {
		ord, _ := mk()
		for _, ip := range []netip.Addr{pers, dyn, ord} {
			for j := 0; j < int(n)+2; j++ {
				m.query(ip, dns.TypeA)
				if afterEmpty && ip == pers && j >= int(n) && m.last.mustPass && !m.last.drop {
					r.Bucket("l2_persistent_allowlisted_pass_with_empty_dynamic", 1)
				}
			}
		}
	}
	probe(startsEmpty)
	seq := [][]netip.Prefix{nil, {dynP}, nil, {dynP, persP}}
	if startsEmpty {
		seq = [][]netip.Prefix{{dynP}, nil, {dynP}}
	}
	for _, upd := range seq {
		m.updateDynamic(upd)
		probe(len(upd) == 0)
	}
	if i == 0 {
		r.Sample(map[string]any{"layer": 2, "family": "allowlist-updates", "config": c.witness(), "first_ops": m.trace[:min(len(m.trace), 24)]})
	}
	m.finish(fmt.Sprintf("L2alupd/n%d/v6=%v/startsEmpty=%v", n, v6, startsEmpty))
}

// ---- family: key masks for every prefix length

func layer2KeyMask(r *vkit.Run) {
	idx := 0
	reps := r.N(1, 6)
	for rep := 0; rep < reps; rep++ {
		for fam := 0; fam < 2; fam++ {
			maxK := 32
			if fam == 1 {
				maxK = 128
			}
			for k := 1; k <= maxK; k++ {
				i := idx
				idx++
				guard(r, "backoff-keymask", i, func() { keyMaskCase(r, i, fam == 1, k) })
			}
		}
	}
}

func keyMaskCase(r *vkit.Run, i int, v6 bool, k int) {
	g := r.Rand("l2keymask", i)
	n := uint(1 + g.IntN(3))
	c := bcfg{N4: n, N6: n + 1, I4: hour, I6: hour, Period: hour, Duration: hour, K4: 24, K6: 56, Count: noBackoff, Est: 512}
	var a netip.Addr
	if v6 {
		c.K6 = k
		c.N6, c.N4 = n, n+1
		a = rand6(g)
	} else {
		c.K4 = k
		a = rand4(g)
	}
	m := newMon(r, "keymask", i, c)
	bits := a.BitLen()
	// other subnets first: each of them gets one query (passes; limit >= 1)
	outLast := flipBit(a, k-1)
	outAny := flipBit(a, g.IntN(k))
	m.query(outLast, dns.TypeA)
	// fill the subnet of a from a and from neighbours inside the subnet
	members := []netip.Addr{a}
	if k < bits {
		members = append(members, flipBit(a, k), flipBit(a, bits-1))
		if s, ok := sameSubnet(g, a, k); ok {
			members = append(members, s)
		}
	}
	for j := 0; j < int(n); j++ {
		m.query(members[j%len(members)], dns.TypeA)
	}
	// now every member of the subnet must be dropped ...
	for _, mem := range members {
		m.query(mem, dns.TypeA)
		if m.last.mustDrop && m.last.drop && mem != a {
			r.Bucket("l2_keymask_same_subnet_drop", 1)
		}
	}
	// ... and addresses that differ inside the prefix must be unaffected.
	for _, o := range []netip.Addr{outAny, outLast} {
		if o == outLast && n == 1 {
			continue // already used its single allowed event
		}
		m.query(o, dns.TypeA)
		if m.last.mustPass && !m.last.drop {
			r.Bucket("l2_keymask_other_subnet_pass", 1)
		}
	}
	if i == 40 || i == 100 {
		r.Sample(map[string]any{"layer": 2, "family": "keymask", "ipv6": v6, "key_len": k, "ops": m.trace})
	}
	m.finish(fmt.Sprintf("L2keymask/v6=%v/k%d", v6, k))
}

// ---- family: window slides out (timed)

func layer2Window(r *vkit.Run) {
	cases := r.N(96, 1600)
	parallel(cases, 8, func(i int) { guard(r, "backoff-window", i, func() { windowCase(r, i) }) })
}

func windowCase(r *vkit.Run, i int) {
	g := r.Rand("l2window", i)
	n := uint(1 + g.IntN(4))
	ivl := 60 * time.Millisecond
	v6 := g.IntN(3) == 0
	c := bcfg{N4: n, N6: n + 2, I4: ivl, I6: 2 * ivl, Period: hour, Duration: hour, K4: 24, K6: 48, Count: noBackoff, Est: 512}
	a, by := rand4(g), rand6(g)
	if v6 {
		c.N6, c.N4, c.I6, c.I4 = n, n+2, ivl, 2*ivl
		a, by = rand6(g), rand4(g)
	}
	m := newMon(r, "window", i, c)
	phases := 4 + g.IntN(3)
	for p := 0; p < phases; p++ {
		burst := 1 + g.IntN(int(n)+2)
		for j := 0; j < burst; j++ {
			m.query(a, dns.TypeA)
			if p > 0 && j == 0 && m.last.mustPass && !m.last.drop {
				r.Bucket("l2_window_slid_out_pass", 1)
			}
			if g.IntN(4) == 0 {
				m.sleep(time.Duration(g.IntN(3000)) * time.Microsecond)
			}
		}
		if g.IntN(2) == 0 {
			m.query(by, dns.TypeA)
		}
		m.sleep([]time.Duration{0, ivl * 4 / 10, ivl * 16 / 10, ivl * 25 / 10, ivl * 25 / 10}[g.IntN(5)])
	}
	if i == 5 {
		r.Sample(map[string]any{"layer": 2, "family": "window", "case_index": i, "config": c.witness(), "ops": m.trace})
	}
	m.finish(fmt.Sprintf("L2window/n%d/v6=%v/%d", n, v6, i))
}

// ---- family: the per-subnet counter entry outlives nothing but backoff_period

func layer2Expiry(r *vkit.Run) {
	cases := r.N(12, 128)
	parallel(cases, 8, func(i int) { guard(r, "backoff-expiry", i, func() { expiryCase(r, i) }) })
}

func expiryCase(r *vkit.Run, i int) {
	g := r.Rand("l2expiry", i)
	n := uint(2 + g.IntN(3))
	period := []time.Duration{150 * time.Millisecond, 300 * time.Millisecond}[g.IntN(2)]
	v6 := i%2 == 1
	c := bcfg{N4: n, N6: n, I4: 10 * time.Second, I6: 10 * time.Second, Period: period, Duration: hour, K4: 24, K6: 48, Count: noBackoff, Est: 512}
	a := rand4(g)
	if v6 {
		a = rand6(g)
	}
	m := newMon(r, "expiry", i, c)
	for j := 0; j < int(n)+2; j++ {
		m.query(a, dns.TypeA)
	}
	m.sleep(period + 100*time.Millisecond)
	for j := 0; j < int(n)+1; j++ {
		m.query(a, dns.TypeA)
		if m.last.mustDrop {
			r.Bucket("l2_expiry_probes_decided", 1)
		}
	}
	if i == 0 {
		r.Sample(map[string]any{"layer": 2, "family": "expiry", "case_index": i, "config": c.witness(), "ops": m.trace})
	}
	m.finish(fmt.Sprintf("L2expiry/n%d/p%s/v6=%v", n, period, v6))
}

// ---- family: back-off entry / exit (timed)

func layer2Backoff(r *vkit.Run) {
	cases := r.N(60, 900)
	parallel(cases, 8, func(i int) { guard(r, "backoff-backoff", i, func() { backoffCase(r, i) }) })
}

func backoffCase(r *vkit.Run, i int) {
	g := r.Rand("l2backoff", i)
	shape := i % 3
	n := uint(1 + g.IntN(3))
	cnt := uint(1 + g.IntN(4))
	ivl := 40 * time.Millisecond
	v6 := g.IntN(3) == 0
	c := bcfg{N4: n, N6: n, I4: ivl, I6: ivl, Period: hour, Duration: hour, K4: 24, K6: 48, Count: cnt, Est: 512}
	a, by := rand4(g), rand4(g)
	if v6 {
		a = rand6(g)
	}
	var name string
	switch shape {
	case 0:
		// B2: count over-limit events, window slides out, still dropped
		name = "in-backoff"
		m := newMon(r, "backoff/"+name, i, c)
		for j := 0; j < int(n+cnt); j++ {
			m.query(a, dns.TypeA)
		}
		m.sleep(3 * ivl)
		for j := 0; j < int(n)+1; j++ {
			m.query(a, dns.TypeA)
		}
		m.query(by, dns.TypeA)
		if n4, ok := sameSubnet(g, a, map[bool]int{false: 24, true: 48}[v6]); ok {
			m.query(n4, dns.TypeA) // the whole subnet is in back-off
		}
		if i == 0 {
			r.Sample(map[string]any{"layer": 2, "family": "backoff/" + name, "config": c.witness(), "ops": m.trace})
		}
		m.finish(fmt.Sprintf("L2backoff/%s/n%d/c%d/v6=%v", name, n, cnt, v6))
	case 1:
		// B1: one over-limit event fewer than count; after the window slid out
		// the subnet is served again, repeatedly
		name = "below-count"
		if cnt == 1 {
			cnt = 2
			c.Count = 2
		}
		m := newMon(r, "backoff/"+name, i, c)
		for j := 0; j < int(n+cnt-1); j++ {
			m.query(a, dns.TypeA)
		}
		m.sleep(3 * ivl)
		for j := 0; j < int(n); j++ {
			m.query(a, dns.TypeA)
			if m.last.mustPass && !m.last.drop {
				r.Bucket("l2_below_count_pass", 1)
			}
		}
		m.finish(fmt.Sprintf("L2backoff/%s/n%d/c%d/v6=%v", name, n, cnt, v6))
	default:
		// B3: back-off ends: duration + period after the last over-limit event
		name = "backoff-ends"
		c.Duration, c.Period = 120*time.Millisecond, 100*time.Millisecond
		m := newMon(r, "backoff/"+name, i, c)
		for j := 0; j < int(n+cnt)+1; j++ {
			m.query(a, dns.TypeA)
		}
		m.sleep(c.Duration + c.Period + 60*time.Millisecond)
		for j := 0; j < int(n); j++ {
			m.query(a, dns.TypeA)
			if m.last.mustPass && !m.last.drop {
				r.Bucket("l2_backoff_ended_pass", 1)
			}
		}
		m.query(a, dns.TypeA)
		m.finish(fmt.Sprintf("L2backoff/%s/n%d/c%d/v6=%v", name, n, cnt, v6))
	}
}

// ---- family: over-limit events spread over several back-off periods (timed)

func layer2SpreadHits(r *vkit.Run) {
	cases := r.N(24, 160)
	parallel(cases, 24, func(i int) { guard(r, "backoff-spread-hits", i, func() { spreadHitsCase(r, i) }) })
}

func spreadHitsCase(r *vkit.Run, i int) {
	g := r.Rand("l2spread", i)
	n := uint(1 + g.IntN(2))
	cnt := uint(3 + g.IntN(2))
	ivl := 20 * time.Millisecond
	w := []time.Duration{300, 400, 500}[g.IntN(3)] * time.Millisecond
	c := bcfg{N4: n, N6: n, I4: ivl, I6: ivl, Period: w, Duration: w, K4: 24, K6: 48, Count: cnt, Est: 512}
	switch i % 4 {
	case 1:
		c.Period = w * 8 / 10 // duration is the longer one
	case 2:
		c.Duration = w * 9 / 10 // period is the longer one
	}
	// any `cnt` consecutive over-limit events span at least 1.2 w, yet each gap
	// is shorter than both period and duration
	gap := w * 12 / 10 / time.Duration(cnt-1)
	v6 := g.IntN(3) == 0
	a := rand4(g)
	if v6 {
		a = rand6(g)
	}
	m := newMon(r, "spread-hits", i, c)
	hits := int(cnt) + g.IntN(2)
	for h := 0; h < hits; h++ {
		// n queries fill the (empty) window, one more exceeds the limit
		for j := 0; j < int(n)+1; j++ {
			m.query(a, dns.TypeA)
		}
		if h < hits-1 {
			m.sleep(gap)
		}
	}
	m.sleep(w * 2 / 10)
	// the window is empty again and there never were `cnt` over-limit events
	// within one period: served
	for j := 0; j < int(n); j++ {
		m.query(a, dns.TypeA)
	}
	if i == 0 {
		r.Sample(map[string]any{"layer": 2, "family": "spread-hits", "config": c.witness(), "ops": m.trace})
	}
	m.finish(fmt.Sprintf("L2spread/n%d/c%d/w%s/shape%d/v6=%v", n, cnt, w, i%4, v6))
}

// ---- family: large responses: every unit counts, also beyond the limit

func layer2LargeResp(r *vkit.Run) {
	cases := r.N(48, 320)
	parallel(cases, 24, func(i int) { guard(r, "backoff-large-response", i, func() { largeRespCase(r, i) }) })
}

func largeRespCase(r *vkit.Run, i int) {
	g := r.Rand("l2largeresp", i)
	est := uint64(100)
	v6 := g.IntN(3) == 0
	a, by := rand4(g), rand6(g)
	if v6 {
		a, by = rand6(g), rand4(g)
	}
	switch shape := i % 3; shape {
	case 0, 1:
		// (a) hits: `already` small events, one response of k estimates, the
		// window slides out (interval short, period/duration 1h): in back-off
		// iff the units beyond the limit make up `count` over-limit events.
		n := uint(1 + g.IntN(3))
		cnt := uint(2 + g.IntN(3))
		ivl := 40 * time.Millisecond
		c := bcfg{N4: n, N6: n, I4: ivl, I6: ivl, Period: hour, Duration: hour, K4: 24, K6: 48, Count: cnt, Est: est}
		already := g.IntN(int(n))
		k := int(n) - already + int(cnt) + g.IntN(4) // over-limit units: k-(n-already) >= cnt
		size := k*int(est) + int(est)/3
		if shape == 1 {
			// one over-limit unit too few, exact size (no tolerance unit): served
			k = int(n) - already + int(cnt) - 1
			size = k * int(est)
		}
		m := newMon(r, "large-response/hits", i, c)
		for j := 0; j < already; j++ {
			m.query(a, dns.TypeA)
		}
		m.countResp(a, size)
		m.sleep(3 * ivl)
		for j := 0; j < int(n); j++ {
			m.query(a, dns.TypeA)
			if shape == 1 && m.last.mustPass && !m.last.drop {
				r.Bucket("l2_large_resp_below_count_pass", 1)
			}
		}
		m.query(by, dns.TypeA)
		if i < 2 {
			r.Sample(map[string]any{"layer": 2, "family": "large-response/hits", "config": c.witness(), "ops": m.trace})
		}
		m.finish(fmt.Sprintf("L2largeresp/hits%d/n%d/c%d/already%d/k%d/v6=%v", shape, n, cnt, already, k, v6))
	default:
		// (b) window: s small events at t0, a response of k >= 3n estimates at
		// t0+0.5 I, the small events age out, a query at t0+1.2 I still sees
		// the k units inside the interval: dropped.
		n := uint(2 + g.IntN(3))
		ivl := 200 * time.Millisecond
		c := bcfg{N4: n, N6: n, I4: ivl, I6: ivl, Period: hour, Duration: hour, K4: 24, K6: 48, Count: noBackoff, Est: est}
		small := 2 + g.IntN(int(n)-1)
		k := 3*int(n) + g.IntN(4)
		m := newMon(r, "large-response/window", i, c)
		for j := 0; j < small; j++ {
			m.query(a, dns.TypeA)
		}
		m.sleep(ivl / 2)
		m.countResp(a, k*int(est)+int(est)/3)
		m.sleep(ivl * 7 / 10)
		m.query(a, dns.TypeA)
		m.query(by, dns.TypeA)
		if i == 2 {
			r.Sample(map[string]any{"layer": 2, "family": "large-response/window", "config": c.witness(), "ops": m.trace})
		}
		m.finish(fmt.Sprintf("L2largeresp/window/n%d/small%d/k%d/v6=%v", n, small, k, v6))
	}
}

// ---- family: slow handler: the response is counted when it is produced

func layer2SlowHandler(r *vkit.Run) {
	cases := r.N(24, 160)
	parallel(cases, 24, func(i int) { guard(r, "backoff-slow-handler", i, func() { slowHandlerCase(r, i) }) })
}

func slowHandlerCase(r *vkit.Run, i int) {
	g := r.Rand("l2slow", i)
	est := uint64(100)
	n := uint(2 + g.IntN(2))
	ivl := 300 * time.Millisecond
	c := bcfg{N4: n, N6: n, I4: ivl, I6: ivl, Period: hour, Duration: hour, K4: 24, K6: 48, Count: noBackoff, Est: est}
	v6 := g.IntN(3) == 0
	a, by := rand4(g), rand6(g)
	if v6 {
		a, by = rand6(g), rand4(g)
	}
	k := int(n) + g.IntN(3)
	m := newMon(r, "slow-handler", i, c)
	m.respWithReqCtx = true
	// the request arrives (1 event), its handler needs 0.6 interval and
	// produces a response of k >= n estimates (k events, counted with the
	// request's context); 0.6 interval later the request's own event has left
	// the window, the response's events have not: dropped.
	// An attempt whose probe is undecidable (the machine stretched a sleep so
	// far that the response's events may have left the window) is repeated
	// with a fresh subnet, at most twice.
	for attempt := 0; attempt < 3; attempt++ {
		if attempt > 0 {
			r.Bucket("l2_slow_handler_retries", 1)
			a = rand4(g)
			if v6 {
				a = rand6(g)
			}
		}
		m.query(a, dns.TypeA)
		m.sleep(ivl * 6 / 10)
		m.countResp(a, k*int(est)+int(est)/3)
		m.sleep(ivl * 6 / 10)
		m.query(a, dns.TypeA)
		if m.last.mustDrop {
			break
		}
	}
	m.query(by, dns.TypeA)
	if i == 0 {
		r.Sample(map[string]any{"layer": 2, "family": "slow-handler", "config": c.witness(), "ops": m.trace})
	}
	m.finish(fmt.Sprintf("L2slow/n%d/k%d/v6=%v", n, k, v6))
}

// ---- family: concurrent queries to one Backoff (race detector + totals)

func layer2Concurrent(r *vkit.Run) {
	rounds := r.N(20, 200)
	for i := 0; i < rounds; i++ {
		g := r.Rand("l2conc", i)
		n := uint(2 + g.IntN(10))
		c := bcfg{N4: n, N6: n, I4: hour, I6: hour, Period: hour, Duration: hour, K4: 24, K6: 48, Count: uint(1 + g.IntN(3)), Est: 512}
		l, _ := newBackoff(c)
		const S, G, K = 3, 4, 30
		subnets := make([]netip.Addr, S)
		for s := range subnets {
			subnets[s] = rand4(g)
			// the subnet's counter is created by a first, sequential query
			if drop, _, _ := l.IsRateLimited(ctxBG, mkReq(dns.TypeA), subnets[s]); drop {
				r.Violation("backoff:drop-with-window-not-full", "first query of a subnet dropped", map[string]any{"round": i})
			}
		}
		passed := make([]atomic.Int64, S)
		var wg sync.WaitGroup
		start := make(chan struct{})
		for s := 0; s < S; s++ {
			for w := 0; w < G; w++ {
				ip := subnets[s]
				if w%2 == 1 {
					ip = flipBit(ip, 31)
				}
				wg.Add(1)
				go func(s int, ip netip.Addr) {
					defer wg.Done()
					req := mkReq(dns.TypeA)
					<-start
					for k := 0; k < K; k++ {
						if drop, _, _ := l.IsRateLimited(ctxBG, req, ip); !drop {
							passed[s].Add(1)
						}
					}
				}(s, ip)
			}
		}
		close(start)
		wg.Wait()
		r.Bucket("l2_queries", S*G*K+S)
		for s := 0; s < S; s++ {
			got := passed[s].Load() + 1
			if got != int64(n) {
				key := "backoff:concurrent-too-many-passed"
				if got < int64(n) {
					key = "backoff:concurrent-too-few-passed"
				}
				r.Violation(key, "concurrent queries of one subnet (interval 1h): the number of queries let through differs from the limit",
					map[string]any{"round": i, "limit": n, "passed": got, "queries": G*K + 1, "config": c.witness()})
			}
		}
		// Observation only (outside the sequential quantifier): first queries
		// of a fresh subnet racing each other.
		fresh := rand6(g)
		var over atomic.Int64
		start2 := make(chan struct{})
		for w := 0; w < 8; w++ {
			wg.Add(1)
			go func() {
				defer wg.Done()
				<-start2
				for k := 0; k < int(n); k++ {
					if drop, _, _ := l.IsRateLimited(ctxBG, mkReq(dns.TypeA), fresh); !drop {
						over.Add(1)
					}
				}
			}()
		}
		close(start2)
		wg.Wait()
		if over.Load() > int64(n) {
			r.Bucket("l2_obs_racing_first_queries_overpass", 1)
		}
		r.Eval(fmt.Sprintf("L2conc/%d", i), false)
	}
}

// ---------------------------------------------------------------------------
// Layer 3a: agd.DefaultRatelimiter (profile limiter) directly
// ---------------------------------------------------------------------------

func layer3Profile(r *vkit.Run) {
	cases := r.N(16, 256)
	parallel(cases, 16, func(i int) { guard(r, "profile-limiter", i, func() { profileCase(r, i) }) })
}

func profileCase(r *vkit.Run, i int) {
	g := r.Rand("l3profile", i)
	rps := uint32(1 + g.IntN(5))
	if i%4 == 3 {
		rps = 0 // enabled profile with rps 0: every query of its clients is dropped
	}
	est := uint64(100)
	in4, in6, out4 := rand4(g), rand6(g), rand4(g)
	var subnets []netip.Prefix
	if i%4 != 0 {
		p4, _ := in4.Prefix(16 + g.IntN(17))
		p6, _ := in6.Prefix(32 + g.IntN(97))
		subnets = []netip.Prefix{p4, p6}
		for p4.Contains(out4) {
			out4 = rand4(g)
		}
	}
	l := agd.NewDefaultRatelimiter(&agd.RatelimitConfig{ClientSubnets: subnets, RPS: rps, Enabled: true}, datasize.ByteSize(est))
	t0 := time.Now()
	stepped := false
	now := func() int64 {
		t := time.Now()
		d := (t.UnixNano() - t0.UnixNano()) - int64(t.Sub(t0))
		if d > int64(stepTol) || d < -int64(stepTol) {
			stepped = true
		}
		return t.UnixNano()
	}
	ks := &keyModel{}
	var trace []traceRec
	var pend []pendViol
	nDrop, nPass := 0, 0
	ivl := int64(time.Second)
	check := func(ip netip.Addr) {
		b := now()
		res := l.Check(ctxBG, mkReq(dns.TypeA), ip)
		a := now()
		inside := len(subnets) == 0
		for _, p := range subnets {
			inside = inside || p.Contains(ip)
		}
		d := res == agd.RatelimitResultDrop
		rec := traceRec{Op: fmt.Sprintf("check -> %d", res), IP: ip.String(), BeforeU: (b - t0.UnixNano()) / 1000, AfterU: (a - t0.UnixNano()) / 1000, Drop: &d}
		defer func() { trace = append(trace, rec) }()
		if !inside {
			if res != agd.RatelimitResultUseGlobal {
				pend = append(pend, pendViol{"profile:outside-subnets-not-global", "a client outside the profile's client subnets was not referred to the global limiter", nil, len(trace)})
			} else {
				r.Bucket("l3_profile_use_global", 1)
			}
			return
		}
		if res == agd.RatelimitResultUseGlobal {
			pend = append(pend, pendViol{"profile:inside-subnets-used-global", "a client inside the profile's client subnets was referred to the global limiter", nil, len(trace)})
			return
		}
		lo, hi := ks.window(b, a, ivl)
		rec.Lo, rec.Hi = lo, hi
		switch {
		case lo >= int(rps):
			if res != agd.RatelimitResultDrop && rps == 0 {
				pend = append(pend, pendViol{"profile:rps-zero-not-dropped", "a profile limiter with rps 0 did not drop a query of a client inside its client subnets", nil, len(trace)})
			} else if res != agd.RatelimitResultDrop {
				pend = append(pend, pendViol{"profile:pass-with-full-window", "the profile limiter passed a query although the profile already had `rps` events within one second", nil, len(trace)})
			} else {
				nDrop++
				r.Bucket("l3_profile_decided", 1)
				if rps == 0 {
					r.Bucket("l3_profile_rps0_drop", 1)
				}
			}
		case hi < int(rps):
			if res != agd.RatelimitResultPass {
				pend = append(pend, pendViol{"profile:drop-with-window-not-full", "the profile limiter dropped a query although the profile had fewer than `rps` events within one second", nil, len(trace)})
			} else {
				nPass++
				r.Bucket("l3_profile_decided", 1)
			}
		default:
			r.Bucket("l3_profile_ambiguous", 1)
		}
		ks.events = append(ks.events, mEvent{span{b, a}, false, false, false})
	}
	for round := 0; round < 2; round++ {
		for j := 0; j < int(rps)+2; j++ {
			ip := in4
			if j%2 == 1 {
				ip = in6
			}
			check(ip)
			if g.IntN(3) == 0 {
				check(out4)
			}
		}
		if round == 0 {
			if i%2 == 0 {
				// a large response counts as several events
				time.Sleep(1150 * time.Millisecond)
				resp, wire := mkResp(dns.TypeA, int(est)*2+10)
				k := wire / int(est)
				b := now()
				l.CountResponses(ctxBG, resp, in4)
				a := now()
				for j := 0; j < k; j++ {
					ks.events = append(ks.events, mEvent{span{b, a}, false, false, false})
				}
				trace = append(trace, traceRec{Op: fmt.Sprintf("count_response(%d events)", k), Size: wire})
			} else {
				time.Sleep(1150 * time.Millisecond)
			}
		}
	}
	cls := fmt.Sprintf("L3profile/rps%d/subnets=%v/%d", rps, len(subnets) > 0, i%2)
	if stepped {
		r.Bucket("cases_discarded_clock_step", 1)
		r.Eval(cls, false)
		return
	}
	for _, p := range pend {
		r.Violation(p.key, p.what, map[string]any{"case_index": i, "rps": rps, "client_subnets": fmt.Sprint(subnets), "failing_op_index": p.at, "trace": trace})
	}
	r.Eval(cls, nDrop > 0 && nPass > 0)
}

// ---------------------------------------------------------------------------
// Layer 3b: the whole middleware through dnssvc.NewHandlers
// ---------------------------------------------------------------------------

type recRW struct {
	local, remote net.Addr
	mu            sync.Mutex
	writes        []*dns.Msg
	// normalise makes WriteMsg treat the message the way the plain-DNS writers
	// of dnsserver do (normalize is unexported there): the very message that
	// was passed in is truncated to 512 bytes for a request without EDNS and
	// switched to name compression.
	normalise bool
}

func (w *recRW) LocalAddr() net.Addr  { return w.local }
func (w *recRW) RemoteAddr() net.Addr { return w.remote }
func (w *recRW) WriteMsg(_ context.Context, req, resp *dns.Msg) error {
	if w.normalise {
		if req.IsEdns0() == nil {
			resp.Truncate(dns.MinMsgSize)
		}
		resp.Compress = true
	}
	w.mu.Lock()
	w.writes = append(w.writes, resp)
	w.mu.Unlock()
	return nil
}

type stack struct {
	plain, dot dnsserver.Handler
	terminal   atomic.Int64
	respSize   atomic.Int64
	delay      atomic.Int64 // ns the terminal handler needs to produce its response
	// mapped: IPv4 clients arrive in the 16-byte IPv4-mapped form
	// (::ffff:a.b.c.d), as on a dual-stack [::]:53 listener.
	mapped   bool
	mappedRq atomic.Int64
	// normalise: responses are written through a normalising writer;
	// manyA > 0: the terminal handler answers with so many A records under a
	// long owner name (large without name compression, small with it).
	normalise bool
	manyA     atomic.Int64
	// producedLen is the length of the last response as the terminal handler
	// produced it.
	producedLen atomic.Int64
	errs        atomic.Int64
	prof        *agd.Profile
	profIPs     map[netip.Addr]bool
}

func discardLogger() *slog.Logger { return slog.New(slog.NewTextHandler(io.Discard, nil)) }

func newStack(t testing.TB, global ratelimit.Interface, profLimiter agd.Ratelimiter, profIPs []netip.Addr) (s *stack, err error) {
	s = &stack{profIPs: map[netip.Addr]bool{}}
	for _, ip := range profIPs {
		s.profIPs[ip] = true
	}
	reg := prometheus.NewRegistry()
	prometheus.DefaultRegisterer, prometheus.DefaultGatherer = reg, reg
	dev := &agd.Device{
		Auth:             &agd.AuthSettings{Enabled: false, PasswordHash: agdpasswd.AllowAuthenticator{}},
		ID:               "dev1234",
		FilteringEnabled: true,
	}
	s.prof = &agd.Profile{
		FilterConfig: &filter.ConfigClient{
			Custom: &filter.ConfigCustom{}, Parental: &filter.ConfigParental{},
			RuleList: &filter.ConfigRuleList{}, SafeBrowsing: &filter.ConfigSafeBrowsing{},
		},
		Access:              access.EmptyProfile{},
		BlockingMode:        &dnsmsg.BlockingModeNullIP{},
		Ratelimiter:         profLimiter,
		ID:                  "prof1234",
		DeviceIDs:           []agd.DeviceID{dev.ID},
		FilteredResponseTTL: 10 * time.Second,
		FilteringEnabled:    true,
	}
	profDB := agdtest.NewProfileDB()
	profDB.OnProfileByLinkedIP = func(_ context.Context, ip netip.Addr) (*agd.Profile, *agd.Device, error) {
		if s.profIPs[ip] {
			return s.prof, dev, nil
		}
		return nil, nil, nil
	}
	flt := &agdtest.Filter{
		OnFilterRequest:  func(context.Context, *filter.Request) (filter.Result, error) { return nil, nil },
		OnFilterResponse: func(context.Context, *filter.Response) (filter.Result, error) { return nil, nil },
	}
	geo := agdtest.NewGeoIP()
	geo.OnData = func(string, netip.Addr) (*geoip.Location, error) {
		return &geoip.Location{Country: geoip.CountryAD, Continent: geoip.ContinentEU, ASN: 42}, nil
	}
	errColl := &agdtest.ErrorCollector{OnCollect: func(context.Context, error) { s.errs.Add(1) }}
	plainAddr := netip.MustParseAddrPort("94.149.14.14:53")
	dotAddr := netip.MustParseAddrPort("94.149.14.14:853")
	srvPlain := &agd.Server{Name: "plain", Protocol: agd.ProtoDNS, LinkedIPEnabled: true,
		ReadTimeout: time.Second, WriteTimeout: time.Second,
		TCPConf: &agd.TCPConfig{IdleTimeout: time.Second}, UDPConf: &agd.UDPConfig{MaxRespSize: dns.MaxMsgSize}}
	srvPlain.SetBindData([]*agd.ServerBindData{{AddrPort: plainAddr}})
	srvDoT := &agd.Server{Name: "dot", Protocol: agd.ProtoDoT, LinkedIPEnabled: true,
		ReadTimeout: time.Second, WriteTimeout: time.Second,
		TCPConf: &agd.TCPConfig{IdleTimeout: time.Second}, UDPConf: &agd.UDPConfig{MaxRespSize: dns.MaxMsgSize}}
	srvDoT.SetBindData([]*agd.ServerBindData{{AddrPort: dotAddr}})
	grp := &agd.ServerGroup{DDR: &agd.DDR{}, Name: "grp", FilteringGroup: "fg", Servers: []*agd.Server{srvPlain, srvDoT}, ProfilesEnabled: true}
	fltGrp := &agd.FilteringGroup{
		FilterConfig: &filter.ConfigGroup{Parental: &filter.ConfigParental{}, RuleList: &filter.ConfigRuleList{}, SafeBrowsing: &filter.ConfigSafeBrowsing{}},
		ID:           "fg",
	}
	terminal := dnsserver.HandlerFunc(func(ctx context.Context, rw dnsserver.ResponseWriter, req *dns.Msg) error {
		s.terminal.Add(1)
		if d := s.delay.Load(); d > 0 {
			time.Sleep(time.Duration(d))
		}
		resp, _ := mkResp(req.Question[0].Qtype, int(s.respSize.Load()))
		if n := int(s.manyA.Load()); n > 0 {
			resp = new(dns.Msg)
			resp.SetReply(req)
			resp.Compress = false
			owner := strings.Repeat("a", 50) + "." + req.Question[0].Name
			for x := 0; x < n; x++ {
				resp.Answer = append(resp.Answer, &dns.A{
					Hdr: dns.RR_Header{Name: owner, Rrtype: dns.TypeA, Class: dns.ClassINET, Ttl: 10},
					A:   net.IP{192, 0, 2, byte(1 + x)},
				})
			}
		}
		resp.Id = req.Id
		s.producedLen.Store(int64(resp.Len()))
		return rw.WriteMsg(ctx, req, resp)
	})
	handlers, err := dnssvc.NewHandlers(ctxBG, &dnssvc.HandlersConfig{
		BaseLogger:       discardLogger(),
		Cache:            &dnssvc.CacheConfig{Type: dnssvc.CacheTypeNone},
		StructuredErrors: agdtest.NewSDEConfig(true),
		Cloner:           agdtest.NewCloner(),
		HumanIDParser:    agd.NewHumanIDParser(),
		Messages:         agdtest.NewConstructor(t),
		AccessManager: &agdtest.AccessManager{
			OnIsBlockedHost: func(string, uint16) bool { return false },
			OnIsBlockedIP:   func(netip.Addr) bool { return false },
		},
		BillStat:     &agdtest.BillStatRecorder{OnRecord: func(context.Context, agd.DeviceID, geoip.Country, geoip.ASN, time.Time, agd.Protocol) {}},
		CacheManager: agdcache.EmptyManager{},
		DNSCheck:     &agdtest.DNSCheck{OnCheck: func(context.Context, *dns.Msg, *agd.RequestInfo) (*dns.Msg, error) { return nil, nil }},
		DNSDB:        &agdtest.DNSDB{OnRecord: func(context.Context, *dns.Msg, *agd.RequestInfo) {}},
		ErrColl:      errColl,
		FilterStorage: &agdtest.FilterStorage{
			OnForConfig: func(context.Context, filter.Config) filter.Interface { return flt },
			OnHasListID: func(filter.ID) bool { return false },
		},
		GeoIP:                geo,
		Handler:              terminal,
		HashMatcher:          hashprefix.NewMatcher(nil),
		ProfileDB:            profDB,
		PrometheusRegisterer: agdtest.NewTestPrometheusRegisterer(),
		QueryLog:             &agdtest.QueryLog{OnWrite: func(context.Context, *querylog.Entry) error { return nil }},
		RateLimit:            global,
		RuleStat:             &agdtest.RuleStat{OnCollect: func(context.Context, filter.ID, filter.RuleText) {}},
		MetricsNamespace:     "c09",
		FilteringGroups:      map[agd.FilteringGroupID]*agd.FilteringGroup{"fg": fltGrp},
		ServerGroups:         []*agd.ServerGroup{grp},
		EDEEnabled:           true,
	})
	if err != nil {
		return nil, err
	}
	s.plain = handlers[dnssvc.HandlerKey{Server: srvPlain, ServerGroup: grp}]
	s.dot = handlers[dnssvc.HandlerKey{Server: srvDoT, ServerGroup: grp}]
	if s.plain == nil || s.dot == nil {
		return nil, fmt.Errorf("handlers missing")
	}
	return s, nil
}

// serve sends one query through the stack and reports what was observed at
// the two ends: did the terminal handler run, how many messages were written.
func (s *stack) serve(enc bool, ip netip.Addr, qt uint16, id uint16) (ran int64, writes int, err error) {
	h, proto, port := s.plain, agd.ProtoDNS, 53
	if enc {
		h, proto, port = s.dot, agd.ProtoDoT, 853
	}
	ctx := dnsserver.ContextWithServerInfo(ctxBG, &dnsserver.ServerInfo{Name: "srv", Addr: "94.149.14.14", Proto: proto})
	ctx = dnsserver.ContextWithRequestInfo(ctx, &dnsserver.RequestInfo{StartTime: time.Now()})
	var local, remote net.Addr
	rip := net.IP(ip.AsSlice())
	if s.mapped && ip.Is4() {
		a16 := ip.As16()
		rip = net.IP(a16[:])
		s.mappedRq.Add(1)
	}
	if enc {
		local = &net.TCPAddr{IP: net.IP{94, 149, 14, 14}, Port: port}
		remote = &net.TCPAddr{IP: rip, Port: 40000 + int(id%1000)}
	} else {
		local = &net.UDPAddr{IP: net.IP{94, 149, 14, 14}, Port: port}
		remote = &net.UDPAddr{IP: rip, Port: 40000 + int(id%1000)}
	}
	rw := &recRW{local: local, remote: remote, normalise: s.normalise}
	req := mkReq(qt)
	req.Id = id
	before := s.terminal.Load()
	err = h.ServeDNS(ctx, rw, req)
	return s.terminal.Load() - before, len(rw.writes), err
}

// stackLimiter wraps the real global Backoff of the stack so that the monitor
// sees, per request, whether the global limiter was consulted at all.
type stackLimiter struct {
	inner   ratelimit.Interface
	checks  atomic.Int64
	counted atomic.Int64

	// wall-clock stamps around the last inner calls and the length of the last
	// counted response
	mu        sync.Mutex
	lastCheck span
	lastCount span
	lastLen   int
}

func (l *stackLimiter) IsRateLimited(ctx context.Context, req *dns.Msg, ip netip.Addr) (bool, bool, error) {
	l.checks.Add(1)
	b := time.Now().UnixNano()
	drop, allow, err := l.inner.IsRateLimited(ctx, req, ip)
	a := time.Now().UnixNano()
	l.mu.Lock()
	l.lastCheck = span{b, a}
	l.mu.Unlock()
	return drop, allow, err
}

func (l *stackLimiter) CountResponses(ctx context.Context, resp *dns.Msg, ip netip.Addr) {
	l.counted.Add(1)
	n := resp.Len()
	b := time.Now().UnixNano()
	l.inner.CountResponses(ctx, resp, ip)
	a := time.Now().UnixNano()
	l.mu.Lock()
	l.lastCount, l.lastLen = span{b, a}, n
	l.mu.Unlock()
}

func (l *stackLimiter) last() (check, count span, respLen int) {
	l.mu.Lock()
	defer l.mu.Unlock()
	return l.lastCheck, l.lastCount, l.lastLen
}

// layer3StackSlow: through the whole middleware, a slow terminal handler
// returns a large response; the response's events are counted when it is
// produced, so a query 0.6 interval later is dropped although the request
// itself was received more than one interval ago.
func layer3StackSlow(r *vkit.Run) {
	cases := r.N(12, 48)
	type slowCase struct {
		s   *stack
		gl  *stackLimiter
		c   bcfg
		ips []netip.Addr // one fresh client per attempt
		k   int
		idx int
	}
	var list []slowCase
	for i := 0; i < cases; i++ {
		g := r.Rand("l3slow", i)
		n := uint(2 + g.IntN(2))
		c := bcfg{N4: n, N6: n, I4: 500 * time.Millisecond, I6: 500 * time.Millisecond, Period: hour, Duration: hour, K4: 24, K6: 48, Count: noBackoff, Est: 120}
		inner, _ := newBackoff(c)
		gl := &stackLimiter{inner: inner}
		s, err := newStack(theT, gl, agd.GlobalRatelimiter{}, nil)
		if err != nil {
			r.Inconclusive("layer 3: dnssvc.NewHandlers failed: " + err.Error())
			return
		}
		ips := []netip.Addr{rand4(g), rand4(g), rand4(g)}
		if i%3 == 2 {
			ips = []netip.Addr{rand6(g), rand6(g), rand6(g)}
		}
		s.mapped = i%2 == 0
		list = append(list, slowCase{s, gl, c, ips, int(n) + g.IntN(3), i})
	}
	parallel(len(list), len(list), func(x int) {
		sc := list[x]
		guard(r, "stack-slow", sc.idx, func() {
			// An undecidable attempt (sleeps stretched by the machine) is
			// repeated with a fresh client, at most twice.
			for attempt, ip := range sc.ips {
				if attempt > 0 {
					r.Bucket("l3_stack_slow_retries", 1)
				}
				if stackSlowAttempt(r, sc.s, sc.gl, sc.c, ip, sc.k, sc.idx, uint16(2*attempt)) {
					break
				}
			}
		})
	})
}

// stackSlowAttempt reports whether the attempt was decided.
func stackSlowAttempt(r *vkit.Run, st *stack, gl *stackLimiter, c bcfg, ip netip.Addr, k, idx int, id0 uint16) (decided bool) {
	type scT struct {
		s   *stack
		gl  *stackLimiter
		c   bcfg
		ip  netip.Addr
		k   int
		idx int
	}
	sc := scT{st, gl, c, ip, k, idx}
	{
		{
			trace := map[string]any{}
			n, ivl, est := int(sc.c.N4), int64(sc.c.I4), int(sc.c.Est)
			t0 := time.Now()
			stepped := false
			chk := func() {
				t := time.Now()
				if d := (t.UnixNano() - t0.UnixNano()) - int64(t.Sub(t0)); d > int64(stepTol) || d < -int64(stepTol) {
					stepped = true
				}
			}
			us := func(w int64) int64 { return (w - t0.UnixNano()) / 1000 }
			cls := fmt.Sprintf("L3slow/n%d/k%d/v6=%v", n, sc.k, sc.ip.Is6())
			sc.s.respSize.Store(int64(sc.k*est + est/3))
			sc.s.delay.Store(int64(sc.c.I4 * 6 / 10))
			ran1, w1, _ := sc.s.serve(false, sc.ip, dns.TypeA, id0+1)
			chk()
			check1, count1, respLen := sc.gl.last()
			sc.s.delay.Store(0)
			sc.s.respSize.Store(50)
			time.Sleep(sc.c.I4 * 6 / 10)
			ran2, w2, _ := sc.s.serve(false, sc.ip, dns.TypeA, id0+2)
			chk()
			check2, _, _ := sc.gl.last()
			r.Bucket("l3_stack_requests", 2)
			trace = map[string]any{"case_index": sc.idx, "attempt": id0 / 2, "global": sc.c.witness(), "client": sc.ip.String(),
				"request_1": map[string]any{"limiter_check_us": []int64{us(check1.B), us(check1.A)}, "handler_delay": (sc.c.I4 * 6 / 10).String(),
					"response_len": respLen, "response_counted_us": []int64{us(count1.B), us(count1.A)}, "terminal_ran": ran1, "messages_written": w1},
				"request_2": map[string]any{"limiter_check_us": []int64{us(check2.B), us(check2.A)}, "terminal_ran": ran2, "messages_written": w2}}
			if stepped {
				r.Bucket("cases_discarded_clock_step", 1)
				r.Eval(cls, false)
				return false
			}
			if ran1 != 1 || w1 != 1 {
				r.Violation("stack:global:dropped", "the first query of a fresh subnet was not served", trace)
				r.Eval(cls, false)
				return true
			}
			ks := &keyModel{events: []mEvent{{span: check1}}}
			for j := 0; j < (respLen+est-1)/est && respLen >= est; j++ {
				ks.events = append(ks.events, mEvent{span: count1, opt: j >= respLen/est, lagged: true})
			}
			lo, hi := ks.window(check2.B, check2.A, ivl)
			trace["certainly_in_window"], trace["possibly_in_window"], trace["limit"] = lo, hi, n
			switch {
			case lo >= n:
				if ran2 == 0 && w2 == 0 {
					r.Bucket("l3_stack_dropped_silently", 1)
					if ks.loWithoutLagged(check2.A, ivl) < n {
						r.Bucket("l3_stack_slow_handler_dropped", 1)
					}
				} else {
					key := "stack:global:served"
					if ks.loWithoutLagged(check2.A, ivl) < n {
						key = "stack:slow-handler:served"
					}
					if sc.s.mapped && sc.ip.Is4() {
						key = strings.Replace(key, "stack:", "stack:v4mapped:", 1)
					}
					r.Violation(key, "a plain-DNS query was served although its subnet has `limit` or more events within the interval: the events of a large response that a slow handler produced within the interval (the request itself was received more than one interval ago)", trace)
				}
			case hi < n:
				r.Bucket("l3_stack_slow_window_slid_out", 1)
				if ran2 != 1 || w2 != 1 {
					r.Violation("stack:global:dropped", "a plain-DNS query was dropped although its subnet has fewer than `limit` events within the interval", trace)
				}
			default:
				r.Bucket("l3_stack_ambiguous", 1)
			}
			if sc.idx == 0 {
				r.Sample(map[string]any{"layer": 3, "family": "stack-slow-handler", "trace": trace})
			}
			r.Eval(cls, lo >= n)
			return lo >= n
		}
	}
}

// layer3StackNormalise: the middleware behind a writer that normalises the
// message in place as the real plain-DNS writers do.  A response that is three
// estimates long as the handlers produced it (and less than one estimate once
// compressed / truncated for the client) must be charged 1+3 events.
func layer3StackNormalise(r *vkit.Run) {
	cases := r.N(8, 32)
	for i := 0; i < cases; i++ {
		guard(r, "stack-normalise", i, func() {
			g := r.Rand("l3norm", i)
			const est, k = 300, 3
			gn := uint(6 + g.IntN(2))
			c := bcfg{N4: gn, N6: gn, I4: hour, I6: hour, Period: hour, Duration: hour, K4: 24, K6: 48, Count: noBackoff, Est: est}
			inner, _ := newBackoff(c)
			gl := &stackLimiter{inner: inner}
			s, err := newStack(theT, gl, agd.GlobalRatelimiter{}, nil)
			if err != nil {
				r.Inconclusive("layer 3: dnssvc.NewHandlers failed: " + err.Error())
				return
			}
			s.normalise, s.mapped = true, i%2 == 0
			s.respSize.Store(50)
			ip := rand4(g)
			if i%3 == 2 {
				ip = rand6(g)
			}
			m := newMon(r, "stack-normalising-writer", i, c)
			m.keyPrefix = "stack:normalising-writer:"
			m.l = &stackAsLimiter{s: s}
			// records: owner 50+1+13 bytes -> 78 bytes each uncompressed, 16 compressed
			nrec := (k*est + est/3 - 29) / 78
			s.manyA.Store(int64(nrec))
			dropped := m.query(ip, dns.TypeA)
			s.manyA.Store(0)
			respLen := int(s.producedLen.Load())
			if dropped || respLen < k*est {
				r.Bucket("l3_stack_normalise_setup_failed", 1)
				m.finish(fmt.Sprintf("L3norm/%d", i))
				return
			}
			m.trace = append(m.trace, traceRec{Op: "large answer through a normalising writer", Size: respLen})
			m.noteResponse(ip, respLen, respLen)
			for j := 0; j < int(gn); j++ {
				m.query(ip, dns.TypeA)
				if m.last.mustDrop && m.last.drop {
					r.Bucket("l3_stack_normalise_weight_drop", 1)
				}
			}
			if i == 0 {
				r.Sample(map[string]any{"layer": 3, "family": "stack-normalising-writer", "global": c.witness(), "ops": m.trace})
			}
			m.finish(fmt.Sprintf("L3norm/n%d/v6=%v/mapped=%v", gn, ip.Is6(), s.mapped))
		})
	}
}

// stackAsLimiter lets the layer-2 monitor drive the middleware: a query is
// "dropped" when the terminal handler did not run and nothing was written.
type stackAsLimiter struct {
	s  *stack
	id uint16
}

func (l *stackAsLimiter) IsRateLimited(_ context.Context, req *dns.Msg, ip netip.Addr) (drop, allow bool, err error) {
	l.id++
	ran, writes, _ := l.s.serve(false, ip, req.Question[0].Qtype, l.id)
	return ran == 0 && writes == 0, false, nil
}

func (l *stackAsLimiter) CountResponses(context.Context, *dns.Msg, netip.Addr) {}

func layer3Stack(r *vkit.Run) {
	cases := r.N(18, 240)
	for i := 0; i < cases; i++ {
		guard(r, "stack", i, func() { stackCase(r, i) })
	}
}

func stackCase(r *vkit.Run, i int) {
	g := r.Rand("l3stack", i)
	// Global: long interval so that its verdicts are timing-independent.
	gn := uint(2 + g.IntN(3))
	est := uint64(120)
	c := bcfg{N4: gn, N6: gn, I4: hour, I6: hour, Period: hour, Duration: hour, K4: 24, K6: 48, Count: noBackoff, Est: est, RefuseANY: true}
	wl := rand4(g)
	c.Persistent = []netip.Prefix{netip.PrefixFrom(wl, 32)}
	inner, _ := newBackoff(c)
	gl := &stackLimiter{inner: inner}
	// Profile: rps differs from the global limit in either direction.
	rps := uint32(gn) + 3
	if i%2 == 1 {
		rps = 1
	}
	if i%3 == 2 {
		rps = 0 // enabled profile with rps 0: every plain-DNS query of its client subnets is dropped
	}
	pin, pout, anon, anon2, encIP := rand4(g), rand4(g), rand4(g), rand6(g), rand4(g)
	pp, _ := pin.Prefix(24)
	for pp.Contains(pout) {
		pout = rand4(g)
	}
	pl := agd.NewDefaultRatelimiter(&agd.RatelimitConfig{ClientSubnets: []netip.Prefix{pp}, RPS: rps, Enabled: true}, datasize.ByteSize(est))
	s, err := newStack(theT, gl, pl, []netip.Addr{pin, pout})
	if err != nil {
		r.Inconclusive("layer 3: dnssvc.NewHandlers failed: " + err.Error())
		return
	}
	s.respSize.Store(50)
	s.mapped = (i/2)%2 == 0
	defer func() { r.Bucket("l3_stack_v4mapped_requests", s.mappedRq.Load()) }()
	var trace []map[string]any
	id := uint16(0)
	stepped := false
	t0 := time.Now()
	type obs struct {
		ran    int64
		writes int
		checks int64
		b, a   int64
	}
	send := func(who string, enc bool, ip netip.Addr, qt uint16) obs {
		id++
		chk := gl.checks.Load()
		tb := time.Now()
		ran, writes, err := s.serve(enc, ip, qt, id)
		ta := time.Now()
		if d := (ta.UnixNano() - t0.UnixNano()) - int64(ta.Sub(t0)); d > int64(stepTol) || d < -int64(stepTol) {
			stepped = true
		}
		o := obs{ran, writes, gl.checks.Load() - chk, tb.UnixNano(), ta.UnixNano()}
		trace = append(trace, map[string]any{"who": who, "encrypted": enc, "ip": ip.String(), "v4_mapped_form": s.mapped && ip.Is4(), "qtype": qtypeName[qt],
			"terminal_ran": ran, "messages_written": writes, "global_limiter_consulted": o.checks, "err": fmt.Sprint(err),
			"before_us": tb.Sub(t0).Microseconds(), "after_us": ta.Sub(t0).Microseconds()})
		r.Bucket("l3_stack_requests", 1)
		if err != nil {
			r.Bucket("l3_stack_handler_errors", 1)
		}
		return o
	}
	var pend []pendViol
	fail := func(key, what string) {
		if s.mapped {
			key = strings.Replace(key, "stack:", "stack:v4mapped:", 1)
			what += " [IPv4 clients arrive in the IPv4-mapped form ::ffff:a.b.c.d]"
		}
		pend = append(pend, pendViol{key, what, nil, len(trace) - 1})
	}
	// expectServed / expectDropped: the two observable outcomes
	served := func(o obs) bool { return o.ran == 1 && o.writes == 1 }
	silent := func(o obs) bool { return o.ran == 0 && o.writes == 0 }
	expect := func(o obs, wantServed bool, keyPrefix, who string) {
		switch {
		case wantServed && served(o), !wantServed && silent(o):
			if !wantServed {
				r.Bucket("l3_stack_dropped_silently", 1)
			}
		case wantServed && silent(o):
			fail(keyPrefix+":dropped", who+": a query that must be served was dropped")
		case !wantServed && served(o):
			fail(keyPrefix+":served", who+": a query that must be dropped was served")
		case !wantServed && o.ran == 0 && o.writes > 0:
			fail(keyPrefix+":response-written-for-dropped", who+": something was written for a query that must be dropped without any response")
		case !wantServed && o.ran > 0 && o.writes == 0:
			fail(keyPrefix+":handler-ran-for-dropped", who+": the next handler ran for a query that must be dropped")
		default:
			fail(keyPrefix+":odd-outcome", fmt.Sprintf("%s: terminal handler ran %d times, %d messages written", who, o.ran, o.writes))
		}
	}

	// 1. encrypted protocol: never limited, never consults the limiter.
	for j := 0; j < int(gn)+6; j++ {
		o := send("encrypted client", true, encIP, dns.TypeA)
		expect(o, true, "stack:encrypted", "encrypted client")
		if o.checks != 0 {
			fail("stack:encrypted:limiter-consulted", "the global limiter was consulted for an encrypted protocol")
		}
		if served(o) && j >= int(gn) {
			r.Bucket("l3_stack_encrypted_unlimited", 1)
		}
	}
	// ... and the encrypted traffic did not use up the plain-DNS budget of the same address.
	// 2. anonymous plain client: global limit.
	for _, ip := range []netip.Addr{encIP, anon, anon2} {
		for j := 0; j < int(gn)+2; j++ {
			o := send("anonymous plain client", false, ip, dns.TypeA)
			expect(o, j < int(gn), "stack:global", "anonymous plain client (global limit "+fmt.Sprint(gn)+")")
		}
	}
	// 3. ANY refused for everyone on plain DNS (also allow-listed), allow-listed otherwise never dropped.
	o := send("allow-listed plain client, ANY", false, wl, dns.TypeANY)
	expect(o, false, "stack:any", "allow-listed plain client sending ANY with refuse_any")
	for j := 0; j < int(gn)+4; j++ {
		o = send("allow-listed plain client", false, wl, dns.TypeA)
		expect(o, true, "stack:allowlisted", "allow-listed plain client")
	}
	// 4. profile client outside the profile's client subnets: global limit.
	for j := 0; j < int(gn)+2; j++ {
		o = send("profile client outside client_subnets", false, pout, dns.TypeA)
		expect(o, j < int(gn), "stack:profile-outside-subnets", "profile client outside the profile's client subnets (global limit)")
	}
	// 5. profile client inside the client subnets: the profile's limit instead
	// of the global one (1 s window: judged by interval arithmetic).
	var evs []span
	burst := int(rps) + 2
	profBig := 0
	if i%4 == 0 {
		profBig = 2 // the first response is 2 estimates long: 1+2 events of the profile's budget
	}
	for j := 0; j < burst; j++ {
		if j == 0 && profBig > 0 {
			s.respSize.Store(int64(profBig)*int64(est) + int64(est)/3)
		}
		o = send("profile client inside client_subnets", false, pin, dns.TypeA)
		s.respSize.Store(50)
		lo, hi := 0, 0
		for _, e := range evs {
			if o.a-e.B < int64(time.Second)-eps {
				lo++
			}
			if !(o.b-e.A > int64(time.Second)+eps) {
				hi++
			}
		}
		evs = append(evs, span{o.b, o.a})
		if j == 0 && served(o) {
			for x := 0; x < profBig; x++ {
				evs = append(evs, span{o.b, o.a})
			}
		}
		switch {
		case lo >= int(rps):
			pfx := "stack:profile-limit"
			if rps == 0 {
				pfx = "stack:profile-rps-zero"
				if silent(o) {
					r.Bucket("l3_stack_profile_rps0_dropped", 1)
				}
			}
			expect(o, false, pfx, fmt.Sprintf("profile client, query %d with profile rps %d (global %d)", j+1, rps, gn))
			if silent(o) && j < int(gn) {
				r.Bucket("l3_stack_profile_instead_of_global", 1) // dropped although the global limit would allow
			}
			if profBig > 0 && silent(o) && j < int(rps) {
				r.Bucket("l3_stack_profile_drop_due_to_large_response", 1)
			}
		case hi < int(rps):
			expect(o, true, "stack:profile-limit", fmt.Sprintf("profile client, query %d with profile rps %d (global %d)", j+1, rps, gn))
			if served(o) && j >= int(gn) {
				r.Bucket("l3_stack_profile_instead_of_global", 1) // served although the global limit is used up
			}
			if profBig > 0 && j > 0 {
				r.Bucket("l3_stack_profile_pass_after_large_response", 1)
			}
		default:
			r.Bucket("l3_stack_ambiguous", 1)
		}
		if o.checks != 0 {
			fail("stack:profile-limit:global-consulted", "the global limiter was consulted for a client covered by the profile's own limit")
		}
	}
	// the profile client's traffic did not touch the global window of its subnet:
	// a neighbour without profile still has its full global budget.
	nb := flipBit(pin, 31)
	for j := 0; j < int(gn)+1; j++ {
		o = send("anonymous neighbour of the profile client", false, nb, dns.TypeA)
		expect(o, j < int(gn), "stack:profile-traffic-counted-globally", "anonymous neighbour (same /24) of the profile client")
	}
	// 6. response size weighting through the stack: one query with a response
	// of k estimates uses 1+k events of the global budget.
	big := rand4(g)
	k := 1 + (i/2)%3
	s.respSize.Store(int64(k)*int64(est) + int64(est)/3)
	o = send(fmt.Sprintf("anonymous plain client, response of %d estimates", k), false, big, dns.TypeA)
	expect(o, true, "stack:global", "first query of a fresh subnet")
	s.respSize.Store(50)
	left := int(gn) - 1 - k
	for j := 0; j < max(left, 0)+2; j++ {
		o = send("anonymous plain client after a large response", false, big, dns.TypeA)
		expect(o, j < left, "stack:response-weight", fmt.Sprintf("query %d after a response of %d estimates, global limit %d", j+2, k, gn))
	}

	if i == 0 {
		r.Sample(map[string]any{"layer": 3, "family": "stack", "global_limit": gn, "profile_rps": rps, "first_requests": trace[:8], "requests": len(trace)})
	}
	cls := fmt.Sprintf("L3stack/g%d/rps%d", gn, rps)
	if stepped {
		r.Bucket("cases_discarded_clock_step", 1)
		r.Eval(cls, false)
		return
	}
	if n := s.errs.Load(); n > 0 {
		r.Bucket("l3_stack_errcoll", n)
	}
	for _, p := range pend {
		from := p.at - 12
		if from < 0 {
			from = 0
		}
		r.Violation(p.key, p.what, map[string]any{"case_index": i, "global": c.witness(), "profile_rps": rps, "profile_client_subnets": pp.String(),
			"failing_request_index": p.at, "trace_from": from, "trace": trace[from : p.at+1]})
	}
	r.Eval(cls, true)
}
