package c09

// Layer 5: delivery.  The rate-limit allow-list and the profiles' rate-limit
// settings reach the limiter the way production delivers them: an in-process
// gRPC backend answers GetRateLimitSettings / streams DNSProfile messages, the
// REAL backendpb.RateLimiter.Refresh updates the allow-list of a real Backoff
// and the REAL backendpb.ProfileStorage converts the profiles (with their
// agd.Ratelimiter).  The model is built from what the backend SENT.

import (
	"context"
	"fmt"
	"net"
	"net/netip"
	"net/url"
	"strconv"
	"strings"
	"sync"
	"time"

	"github.com/AdguardTeam/AdGuardDNS/internal/agd"
	"github.com/AdguardTeam/AdGuardDNS/internal/backendpb"
	"github.com/AdguardTeam/AdGuardDNS/internal/consul"
	"github.com/AdguardTeam/AdGuardDNS/internal/profiledb"
	"github.com/AdguardTeam/AdGuardDNS/verif/vkit"
	"github.com/AdguardTeam/golibs/netutil"
	"github.com/c2h5oh/datasize"
	"github.com/miekg/dns"
	"google.golang.org/grpc"
	"google.golang.org/grpc/metadata"
)

type c09Backend struct {
	backendpb.UnimplementedDNSServiceServer
	backendpb.UnimplementedRateLimitServiceServer

	mu       sync.Mutex
	allowed  []*backendpb.CidrRange
	profiles []*backendpb.DNSProfile
	epoch    int64
}

func (b *c09Backend) GetRateLimitSettings(context.Context, *backendpb.RateLimitSettingsRequest) (*backendpb.RateLimitSettingsResponse, error) {
	b.mu.Lock()
	defer b.mu.Unlock()
	return &backendpb.RateLimitSettingsResponse{AllowedSubnets: b.allowed}, nil
}

func (b *c09Backend) GetDNSProfiles(_ *backendpb.DNSProfilesRequest, srv grpc.ServerStreamingServer[backendpb.DNSProfile]) error {
	b.mu.Lock()
	batch := b.profiles
	b.epoch++
	ep := b.epoch
	b.mu.Unlock()
	for _, p := range batch {
		if err := srv.Send(p); err != nil {
			return err
		}
	}
	srv.SetTrailer(metadata.Pairs("sync_time", strconv.FormatInt(time.Now().UnixMilli()+ep, 10)))
	return nil
}

func cidrs(ps []netip.Prefix) []*backendpb.CidrRange {
	out := []*backendpb.CidrRange{}
	for _, p := range ps {
		out = append(out, &backendpb.CidrRange{Address: p.Addr().AsSlice(), Prefix: uint32(p.Bits())})
	}
	return out
}

type countErrColl struct {
	mu sync.Mutex
	n  int
}

func (c *countErrColl) Collect(context.Context, error) { c.mu.Lock(); c.n++; c.mu.Unlock() }

// randIn returns an address inside p.
func randIn(g rnd, p netip.Prefix) netip.Addr {
	var a netip.Addr
	if p.Addr().Is4() {
		a = rand4(g)
	} else {
		a = rand6(g)
	}
	ab, pb := a.AsSlice(), p.Addr().AsSlice()
	for i := 0; i < p.Bits(); i++ {
		m := byte(0x80) >> uint(i%8)
		ab[i/8] = ab[i/8]&^m | pb[i/8]&m
	}
	out, _ := netip.AddrFromSlice(ab)
	return out
}

// justOutside returns an address that differs from p in the last bit of the
// prefix; ok is false for a zero-length prefix.
func justOutside(g rnd, p netip.Prefix) (a netip.Addr, ok bool) {
	if p.Bits() == 0 {
		return a, false
	}
	return flipBit(randIn(g, p), p.Bits()-1), true
}

// deliveredSets are the subnet sets the backend sends: every boundary prefix
// length alone, and a few combinations.
func deliveredSets(g rnd) (sets [][]netip.Prefix) {
	mk := func(v6 bool, bits int) netip.Prefix {
		var a netip.Addr
		if v6 {
			a = rand6(g)
		} else {
			a = rand4(g)
		}
		p, _ := a.Prefix(bits)
		return p
	}
	for _, b := range []int{0, 1, 8, 24, 32} {
		sets = append(sets, []netip.Prefix{mk(false, b)})
	}
	for _, b := range []int{0, 1, 48, 128} {
		sets = append(sets, []netip.Prefix{mk(true, b)})
	}
	sets = append(sets,
		[]netip.Prefix{mk(false, 0), mk(true, 0)},
		[]netip.Prefix{mk(false, 8), mk(true, 48), mk(false, 32)},
		[]netip.Prefix{mk(false, 24), mk(true, 128), mk(true, 1)},
		[]netip.Prefix{mk(true, 0), mk(false, 24)},
	)
	return sets
}

func hasZero(ps []netip.Prefix, ip netip.Addr) bool {
	for _, p := range ps {
		if p.Bits() == 0 && p.Addr().Is4() == ip.Is4() {
			return true
		}
	}
	return false
}

func layer5Delivery(r *vkit.Run) {
	l, err := net.Listen("tcp4", "127.0.0.1:0")
	if err != nil {
		r.Inconclusive("layer 5: cannot listen: " + err.Error())
		return
	}
	be := &c09Backend{}
	gs := grpc.NewServer()
	backendpb.RegisterDNSServiceServer(gs, be)
	backendpb.RegisterRateLimitServiceServer(gs, be)
	go func() { _ = gs.Serve(l) }()
	defer gs.Stop()
	endpoint := &url.URL{Scheme: "grpc", Host: l.Addr().String()}
	ec := &countErrColl{}

	reps := r.N(1, 6)
	idx := 0
	for rep := 0; rep < reps; rep++ {
		for si, set := range deliveredSets(r.Rand("l5sets", rep)) {
			i := idx
			idx++
			guard(r, "delivery-allowlist", i, func() { deliveredAllowlistCase(r, be, endpoint, ec, i, si, set) })
			guard(r, "delivery-profile", i, func() { deliveredProfileCase(r, be, endpoint, ec, i, si, set) })
		}
	}
	ec.mu.Lock()
	r.Bucket("l5_backend_errcoll", int64(ec.n))
	ec.mu.Unlock()
}

// deliveredAllowlistCase: the allow-list of a real Backoff is filled by the
// real backendpb.RateLimiter from what the backend sends.
func deliveredAllowlistCase(r *vkit.Run, be *c09Backend, endpoint *url.URL, ec *countErrColl, i, si int, sent []netip.Prefix) {
	g := r.Rand("l5allow", i)
	n := uint(1 + g.IntN(3))
	c := bcfg{N4: n, N6: n, I4: hour, I6: hour, Period: hour, Duration: hour, K4: 24, K6: 48, Count: noBackoff, Est: 512, RefuseANY: true}
	if g.IntN(2) == 0 {
		c.Count = uint(1 + g.IntN(3))
	}
	// a configured (persistent) allow-list entry that no backend refresh may undo
	persA := rand4(g)
	if i%2 == 1 {
		persA = rand6(g)
	}
	c.Persistent = []netip.Prefix{netip.PrefixFrom(persA, persA.BitLen())}
	m := newMon(r, "delivery/allowlist", i, c)
	m.keyPrefix = "backend:"
	rl, err := backendpb.NewRateLimiter(&backendpb.RateLimiterConfig{
		Logger: discardLogger(), GRPCMetrics: backendpb.EmptyGRPCMetrics{}, Metrics: consul.EmptyMetrics{},
		Allowlist: m.al, ErrColl: ec, Endpoint: endpoint,
	})
	if err != nil {
		r.Inconclusive("layer 5: NewRateLimiter: " + err.Error())
		return
	}
	ctx, cancel := context.WithTimeout(ctxBG, 60*time.Second)
	defer cancel()
	refresh := func(list []netip.Prefix) bool {
		be.mu.Lock()
		be.allowed = cidrs(list)
		be.mu.Unlock()
		if rerr := rl.Refresh(ctx); rerr != nil {
			r.Inconclusive("layer 5: RateLimiter.Refresh: " + rerr.Error())
			return false
		}
		m.dyn = list // the model: what the backend sent
		m.trace = append(m.trace, traceRec{Op: "backend sent rate-limit allowed_subnets " + fmt.Sprint(list)})
		return true
	}
	if !refresh(sent) {
		return
	}

	var clients []netip.Addr
	for _, p := range sent {
		clients = append(clients, randIn(g, p), randIn(g, p))
		if o, ok := justOutside(g, p); ok {
			clients = append(clients, o)
		}
	}
	clients = append(clients, rand4(g), rand6(g))
	for _, ip := range clients {
		for j := 0; j < int(n)+3; j++ {
			m.query(ip, dns.TypeA)
			if j >= int(n) && m.last.mustPass && !m.last.drop && m.allowed(ip) {
				r.Bucket("l5_backend_allowlisted_pass_over_limit", 1)
				if hasZero(sent, ip) {
					r.Bucket("l5_backend_allowlisted_by_zero_prefix", 1)
				}
			}
			if m.last.mustDrop && m.last.drop {
				r.Bucket("l5_backend_not_allowlisted_drop", 1)
			}
		}
	}
	// The backend then delivers an EMPTY list and later the subnets again: the
	// configured persistent entry stays allow-listed throughout.
	for _, list := range [][]netip.Prefix{nil, sent, nil} {
		if !refresh(list) {
			return
		}
		for _, ip := range []netip.Addr{persA, randIn(g, sent[0]), rand4(g)} {
			for j := 0; j < int(n)+2; j++ {
				m.query(ip, dns.TypeA)
				if len(list) == 0 && ip == persA && j >= int(n) && m.last.mustPass && !m.last.drop {
					r.Bucket("l5_backend_persistent_pass_after_empty_refresh", 1)
				}
			}
		}
	}
	if i == 0 || i == 5 {
		r.Sample(map[string]any{"layer": 5, "family": "delivery/allowlist", "sent": fmt.Sprint(sent), "first_ops": m.trace[:min(len(m.trace), 10)]})
	}
	m.finish(fmt.Sprintf("L5allow/set%d/n%d", si, n))
}

// deliveredProfileCase: a profile's rate-limit settings go through the real
// backendpb.ProfileStorage; the delivered agd.Ratelimiter is checked directly
// and behind the whole middleware.
func deliveredProfileCase(r *vkit.Run, be *c09Backend, endpoint *url.URL, ec *countErrColl, i, si int, sent []netip.Prefix) {
	g := r.Rand("l5profile", i)
	rps := uint32(1 + g.IntN(3))
	strg, err := backendpb.NewProfileStorage(&backendpb.ProfileStorageConfig{
		BindSet:              netutil.SliceSubnetSet{netip.MustParsePrefix("192.0.2.64/26")},
		ErrColl:              ec,
		Logger:               discardLogger(),
		GRPCMetrics:          backendpb.EmptyGRPCMetrics{},
		Metrics:              backendpb.EmptyProfileDBMetrics{},
		Endpoint:             endpoint,
		ResponseSizeEstimate: datasize.KB, MaxProfilesSize: 64 * datasize.MB,
	})
	if err != nil {
		r.Inconclusive("layer 5: NewProfileStorage: " + err.Error())
		return
	}
	pb := &backendpb.DNSProfile{
		DnsId: "c09p0001", FilteringEnabled: true,
		BlockingMode: &backendpb.DNSProfile_BlockingModeNullIp{BlockingModeNullIp: &backendpb.BlockingModeNullIP{}},
		RateLimit:    &backendpb.RateLimitSettings{Enabled: true, Rps: rps, ClientCidr: cidrs(sent)},
		Devices:      []*backendpb.DeviceSettings{{Id: "c09dev01", Name: "device", FilteringEnabled: true}},
	}
	be.mu.Lock()
	be.profiles = []*backendpb.DNSProfile{pb}
	be.mu.Unlock()
	deliver := func() agd.Ratelimiter {
		ctx, cancel := context.WithTimeout(ctxBG, 60*time.Second)
		defer cancel()
		resp, perr := strg.Profiles(ctx, &profiledb.StorageProfilesRequest{})
		if perr != nil || len(resp.Profiles) != 1 || resp.Profiles[0].Ratelimiter == nil {
			r.Inconclusive(fmt.Sprintf("layer 5: ProfileStorage.Profiles: err=%v", perr))
			return nil
		}
		return resp.Profiles[0].Ratelimiter
	}
	lim := deliver()
	if lim == nil {
		return
	}
	inSent := func(ip netip.Addr) bool {
		for _, p := range sent {
			if p.Contains(ip) {
				return true
			}
		}
		return false
	}
	var inside, outside []netip.Addr
	for _, p := range sent {
		inside = append(inside, randIn(g, p))
		if o, ok := justOutside(g, p); ok && !inSent(o) {
			outside = append(outside, o)
		}
	}
	for _, ip := range []netip.Addr{rand4(g), rand6(g)} {
		if inSent(ip) {
			inside = append(inside, ip)
		} else {
			outside = append(outside, ip)
		}
	}
	cls := fmt.Sprintf("L5profile/set%d/rps%d", si, rps)
	w := map[string]any{"case_index": i, "backend_sent_client_cidr": fmt.Sprint(sent), "rps": rps}

	// (a) the delivered limiter itself
	t0 := time.Now()
	stepped := false
	now := func() int64 {
		t := time.Now()
		if d := (t.UnixNano() - t0.UnixNano()) - int64(t.Sub(t0)); d > int64(stepTol) || d < -int64(stepTol) {
			stepped = true
		}
		return t.UnixNano()
	}
	ks := &keyModel{}
	var trace []string
	var pend []pendViol
	for j := 0; j < int(rps)+2; j++ {
		ip := inside[j%len(inside)]
		b := now()
		res := lim.Check(ctxBG, mkReq(dns.TypeA), ip)
		a := now()
		lo, hi := ks.window(b, a, int64(time.Second))
		trace = append(trace, fmt.Sprintf("check(%s) -> %d (certainly %d / possibly %d events within 1s)", ip, res, lo, hi))
		switch {
		case res == agd.RatelimitResultUseGlobal:
			pend = append(pend, pendViol{"backend:profile:inside-subnets-used-global", "a client inside the client subnets the backend sent for the profile was referred to the global limiter", nil, len(trace) - 1})
			continue
		case lo >= int(rps) && res != agd.RatelimitResultDrop:
			pend = append(pend, pendViol{"backend:profile:pass-with-full-window", "the delivered profile limiter passed a query although the profile already had `rps` events within one second", nil, len(trace) - 1})
		case hi < int(rps) && res != agd.RatelimitResultPass:
			pend = append(pend, pendViol{"backend:profile:drop-with-window-not-full", "the delivered profile limiter dropped a query although the profile had fewer than `rps` events within one second", nil, len(trace) - 1})
		case lo >= int(rps) || hi < int(rps):
			r.Bucket("l5_backend_profile_inside_decided", 1)
			if hasZero(sent, ip) {
				r.Bucket("l5_backend_profile_inside_zero_prefix", 1)
			}
		}
		ks.events = append(ks.events, mEvent{span: span{b, a}})
	}
	for _, ip := range outside {
		res := lim.Check(ctxBG, mkReq(dns.TypeA), ip)
		trace = append(trace, fmt.Sprintf("check(%s) -> %d (outside)", ip, res))
		if res != agd.RatelimitResultUseGlobal {
			pend = append(pend, pendViol{"backend:profile:outside-subnets-not-global", "a client outside the client subnets the backend sent for the profile was not referred to the global limiter", nil, len(trace) - 1})
		} else {
			r.Bucket("l5_backend_profile_outside_global", 1)
		}
	}
	w["limiter_trace"] = trace

	// (b) behind the whole middleware: the profile's limit instead of the
	// global one for the delivered client subnets.
	if lim = deliver(); lim == nil {
		return
	}
	gn := uint(int(rps) + 2)
	gc := bcfg{N4: gn, N6: gn, I4: hour, I6: hour, Period: hour, Duration: hour, K4: 24, K6: 48, Count: noBackoff, Est: 1024}
	inner, _ := newBackoff(gc)
	gl := &stackLimiter{inner: inner}
	s, err := newStack(theT, gl, lim, append(append([]netip.Addr{}, inside...), outside...))
	if err != nil {
		r.Inconclusive("layer 5: dnssvc.NewHandlers failed: " + err.Error())
		return
	}
	s.respSize.Store(50)
	s.mapped = i%2 == 0
	var strace []string
	id := uint16(0)
	in := inside[0]
	var evs keyModel
	for j := 0; j < int(rps)+2; j++ {
		id++
		chk := gl.checks.Load()
		b := now()
		ran, writes, _ := s.serve(false, in, dns.TypeA, id)
		a := now()
		consulted := gl.checks.Load() - chk
		lo, hi := evs.window(b, a, int64(time.Second))
		evs.events = append(evs.events, mEvent{span: span{b, a}})
		strace = append(strace, fmt.Sprintf("profile client %s (inside): terminal ran %d, written %d, global limiter consulted %d (certainly %d / possibly %d events within 1s)", in, ran, writes, consulted, lo, hi))
		if consulted != 0 {
			pend = append(pend, pendViol{"backend:stack:profile-limit:global-consulted", "the global limiter was consulted for a client inside the client subnets the backend sent for the profile", nil, -1})
		}
		switch {
		case lo >= int(rps):
			if ran != 0 || writes != 0 {
				pend = append(pend, pendViol{"backend:stack:profile-limit:served", "a query beyond the delivered profile limit was served", nil, -1})
			} else {
				r.Bucket("l5_backend_stack_profile_drop", 1)
			}
		case hi < int(rps):
			if ran != 1 || writes != 1 {
				pend = append(pend, pendViol{"backend:stack:profile-limit:dropped", "a query within the delivered profile limit was not served", nil, -1})
			}
		}
	}
	if len(outside) > 0 {
		out := outside[0]
		for j := 0; j < int(gn)+1; j++ {
			id++
			chk := gl.checks.Load()
			ran, writes, _ := s.serve(false, out, dns.TypeA, id)
			consulted := gl.checks.Load() - chk
			strace = append(strace, fmt.Sprintf("profile client %s (outside): terminal ran %d, written %d, global limiter consulted %d", out, ran, writes, consulted))
			wantServed := j < int(gn)
			if wantServed != (ran == 1 && writes == 1) || (!wantServed && (ran != 0 || writes != 0)) {
				pend = append(pend, pendViol{"backend:stack:profile-outside-subnets:global-limit-not-applied", "a profile client outside the delivered client subnets is not governed by the global limit", nil, -1})
			}
		}
	}
	w["stack_trace"] = strace
	w["stack_v4_mapped_form"] = s.mapped

	if i == 0 || i == 5 {
		r.Sample(map[string]any{"layer": 5, "family": "delivery/profile", "witness": w})
	}
	if stepped {
		r.Bucket("cases_discarded_clock_step", 1)
		r.Eval(cls, false)
		return
	}
	seen := map[string]bool{}
	for _, p := range pend {
		if seen[p.key] {
			continue
		}
		seen[p.key] = true
		ww := map[string]any{"failing_op_index": p.at}
		for k, v := range w {
			ww[k] = v
		}
		r.Violation(p.key, p.what+" ["+strings.TrimSpace(fmt.Sprint(sent))+"]", ww)
	}
	r.Eval(cls, true)
}
