package c08

import (
	"context"
	"fmt"
	"net/netip"
	"strings"
	"sync"

	"github.com/AdguardTeam/AdGuardDNS/internal/agd"
	"github.com/AdguardTeam/AdGuardDNS/internal/agdcache"
	"github.com/AdguardTeam/AdGuardDNS/internal/agdtest"
	"github.com/AdguardTeam/AdGuardDNS/internal/dnsmsg"
	"github.com/AdguardTeam/AdGuardDNS/internal/dnsserver"
	"github.com/AdguardTeam/AdGuardDNS/internal/ecscache"
	"github.com/AdguardTeam/AdGuardDNS/internal/geoip"
	"github.com/AdguardTeam/AdGuardDNS/verif/tbench"
	"github.com/AdguardTeam/golibs/logutil/slogutil"
	"github.com/AdguardTeam/golibs/netutil"
	"github.com/miekg/dns"
)

// The ecs-cache phase: the handler of a separate bench is the repository's
// real ECS-cache middleware (ecscache.NewMiddleware, wired as dnssvc does:
// agd.RequestInfo in the context, the shared Cloner, which is also the
// Disposer of the servers) over a scripted upstream that answers with H8's
// responses.  Every name is asked several times: the first request is a cache
// miss (the middleware builds an upstream request out of the client's), the
// following ones are served from cache, over other transports and with other
// advertised sizes.  Every response is judged by the ordinary rules against the
// request THE CLIENT sent.

const phaseECS = "ecs-cache"

type ecsState struct {
	h       *h8
	wrapped dnsserver.Handler
	cloner  *dnsmsg.Cloner

	mu      sync.Mutex
	upCalls map[int]int
}

func newECSState(h *h8) (s *ecsState) {
	s = &ecsState{h: h, cloner: agdtest.NewCloner(), upCalls: map[int]int{}}
	mw := ecscache.NewMiddleware(&ecscache.MiddlewareConfig{
		Cloner:       s.cloner,
		Logger:       slogutil.NewDiscardLogger(),
		CacheManager: agdcache.EmptyManager{},
		GeoIP: &agdtest.GeoIP{
			OnData: func(_ string, _ netip.Addr) (l *geoip.Location, err error) { return nil, nil },
			OnSubnetByLocation: func(_ *geoip.Location, fam netutil.AddrFamily) (n netip.Prefix, err error) {
				return netutil.ZeroPrefix(fam), nil
			},
		},
		NoECSCount: 100_000,
		ECSCount:   100_000,
	})
	s.wrapped = mw.Wrap(dnsserver.HandlerFunc(s.upstream))

	return s
}

func (s *ecsState) calls(cell int) (n int) {
	s.mu.Lock()
	defer s.mu.Unlock()

	return s.upCalls[cell]
}

// upstream is the scripted upstream: H8's response for the question, whatever
// else the middleware put into the upstream request.
func (s *ecsState) upstream(ctx context.Context, rw dnsserver.ResponseWriter, req *dns.Msg) (err error) {
	resp, sh, _, err := buildResp(req)
	if err != nil {
		return err
	}

	s.mu.Lock()
	s.upCalls[sh.Cell]++
	s.mu.Unlock()

	return rw.WriteMsg(ctx, req, resp)
}

// ServeDNS is what the servers call: it does what the initial middleware of
// dnssvc does for the ECS cache (request information in the context) and hands
// the server's own writer and the client's request to the middleware.
func (s *ecsState) ServeDNS(ctx context.Context, rw dnsserver.ResponseWriter, req *dns.Msg) (err error) {
	s.h.invocations.Add(1)

	_, sh, size, err := buildResp(req)
	if err != nil {
		s.h.buildErrors.Add(1)
		s.h.firstErr.CompareAndSwap(nil, fmt.Sprintf("ecs bench: %v", err))

		return err
	}

	q := req.Question[0]
	ri := &agd.RequestInfo{
		Host:   strings.ToLower(strings.TrimSuffix(q.Name, ".")),
		QType:  q.Qtype,
		QClass: q.Qclass,
	}
	if ap, pErr := netip.ParseAddrPort(rw.RemoteAddr().String()); pErr == nil {
		ri.RemoteIP = ap.Addr().Unmap()
	} else {
		ri.RemoteIP = netip.MustParseAddr("127.0.0.1")
	}

	rec := hRecord{Size: size}
	if si, ok := dnsserver.ServerInfoFromContext(ctx); ok {
		rec.Server = si.Name
	}

	before := s.calls(sh.Cell)
	wErr := s.wrapped.ServeDNS(agd.ContextWithRequestInfo(ctx, ri), rw, req)
	if wErr != nil {
		rec.WriteErr = wErr.Error()
	}
	rec.UpstreamCalls = s.calls(sh.Cell) - before

	s.h.report(sh.Cell, rec)

	return nil
}

func ecsPaths(bench int) (paths []*pathDef) {
	return []*pathDef{
		{name: "ecs:udp", family: famUDP, bench: bench, cfg: 4096},
		{name: "ecs:dnscrypt-udp", family: famDCUDP, bench: bench, cfg: 65535},
		{name: "ecs:tcp", family: famTCP, bench: bench, cfg: 4096},
		{name: "ecs:dot", family: famDoT, bench: bench},
		{name: "ecs:doq", family: famDoQ, bench: bench},
		{name: "ecs:doh-h2-post", family: famDoH, variant: tbench.HTTP2, bench: bench},
	}
}

var ecsQType = map[string]uint16{"txt": dns.TypeTXT, "a": dns.TypeA, "ai": dns.TypeA, "nsr": dns.TypeNS}

func ecsCell(idx int, id uint16, p *pathDef, group string, f reqForm, sh shape, step int) (c *cell, err error) {
	c = &cell{idx: idx, path: p, form: f, boundary: group, phase: phaseECS, id: id, sh: sh, note: map[string]any{"history_step": step}}
	c.form.TTLVar = "plain"

	q := tbench.QuerySpec{
		ID: id, Flags: tbench.FlagRD, Name: tbench.WireNameString(sh.qname()),
		QType: ecsQType[sh.Kind], QClass: dns.ClassINET, OPT: c.form.opt(),
	}
	c.wire = q.Wire()
	c.req = &dns.Msg{}
	if err = c.req.Unpack(c.wire); err != nil {
		return nil, fmt.Errorf("ecs cell %d: own request does not parse: %w", idx, err)
	}

	return c, nil
}

// runECS drives the histories: workers goroutines, each with its own sessions,
// each taking whole histories (one name each).
func (e *env) runECS(paths []*pathDef, firstIdx, histories, workers int) (err error) {
	r := e.r
	smallAdv := []int{512, 600, 1232, 1400, 2048, 4095}
	anyAdv := []int{-1, 0, 512, 1232, 4095, 4096, 65535}
	plain := []string{"none", "do", "nsid5", "cookie"}
	datagram := []*pathDef{paths[0], paths[0], paths[0], paths[1]}

	type history []*cell
	all := make([]history, 0, histories)
	for hi := 0; hi < histories; hi++ {
		rng := r.Rand("ecs-history", hi)
		idx := firstIdx + hi

		// The first request: mostly a datagram client with a small
		// advertised size and an answer that does not fit it.
		p1, adv1 := pick(rng, datagram), pick(rng, smallAdv)
		if rng.IntN(5) == 0 {
			p1, adv1 = pick(rng, paths), pick(rng, anyAdv)
		}
		t := max(adv1, 512) + pick(rng, []int{-40, 1, 12, 100, 700, 1500, 3000, 3584, 5000})
		sh := shape{Cell: idx, T: t, Mix: pick(rng, []string{"an", "mix", "a1x"}), Kind: pick(rng, kinds)}
		opts := pick(rng, plain)

		// What the upstream puts into the OPT of its answers (see ownOPT), and
		// whether the first client is one that asks for padding / keep-alive
		// over a transport that grants them.  The later clients never ask.
		sh.OwnOPT = pick(rng, []int{0, 0, 3, 3, 3, 4, 4, 5})
		asking := ""
		var askPath *pathDef
		if rng.IntN(3) == 0 {
			k := rng.IntN(4)
			asking = []string{"pad+ka", "ka", "pad", "pad16"}[k]
			askPath = []*pathDef{paths[3], paths[2], paths[5], paths[4]}[k]
			if optSet(opts).DO {
				// The DO bit is part of the cache key.
				asking, askPath = "do+pad+ka", paths[3]
			}
			// The reflected options of the later clients (NSID, cookie) stay
			// theirs; the first client has none of them.
			p1, adv1 = askPath, 1232
		}
		tainted := sh.OwnOPT == 4 || sh.OwnOPT == 5 || (sh.OwnOPT == 3 && asking != "")

		var h history
		for step := 0; step < 3; step++ {
			p, adv := p1, adv1
			switch step {
			case 1:
				p, adv = pick(rng, paths), pick(rng, anyAdv)
			case 2:
				p, adv = pick(rng, datagram), pick(rng, smallAdv)
			}

			f := withAdv(optSet(opts), adv)
			if adv < 0 && optSet(opts).DO {
				// Another cache key (no DO without OPT); still a legal history.
				f = withAdv(optSet("none"), adv)
			}
			if step == 0 && asking != "" {
				f = withAdv(optSet(asking), adv)
			}

			c, cErr := ecsCell(idx, uint16(idx*7+11+step*13), p, "ecs-cache", f, sh, step)
			if cErr != nil {
				return cErr
			}
			c.note["upstream_opt_variant"] = sh.OwnOPT
			c.note["first_client_asked_for"] = asking
			c.upstreamOPTTainted = tainted
			h = append(h, c)
		}
		all = append(all, h)
	}

	ch := make(chan history)
	var wg sync.WaitGroup
	for w := 0; w < workers; w++ {
		wg.Add(1)
		go func() {
			defer wg.Done()

			sessions := map[*pathDef]session{}
			defer func() {
				for _, s := range sessions {
					s.finish()
				}
			}()

			for h := range ch {
				for _, c := range h {
					s := sessions[c.path]
					if s == nil {
						s = e.newSession(c.path)
						sessions[c.path] = s
					}
					e.one(s, c)
				}
			}
		}()
	}
	for _, h := range all {
		ch <- h
	}
	close(ch)
	wg.Wait()

	return nil
}
