package c08

import (
	"fmt"
	"sync"

	"github.com/AdguardTeam/AdGuardDNS/internal/dnsmsg"
	"github.com/AdguardTeam/AdGuardDNS/verif/tbench"
	"github.com/miekg/dns"
)

// The shared-cloner phase: the production wiring.  One dnsmsg.Cloner is the
// Disposer of every server, and the handler answers from a pooled clone of a
// stored response (like the cache and the filters do).  Clients of class A ask
// for padding and/or keep-alive over the transports that grant them; clients
// of class B, on every transport, never do.  The histories alternate A and B
// batches, so that B's responses are built from the structures the servers
// disposed of after answering A.  B's OPT is judged by the same rules as any
// other response.

const phasePooled = "shared-cloner"

// Stored-response kinds (payload kinds of H8 that are answered from a clone of
// a stored message instead of a freshly built one).
var storedKinds = []string{"sbare", "sempty", "sede", "sbareu", "snoopt"}

func isStoredKind(k string) bool {
	for _, s := range storedKinds {
		if s == k {
			return true
		}
	}

	return false
}

const storedOwner = "stored.h8.test."

// storedTemplate builds the stored message of the kind.  It is never handed
// out: the handler clones it with the Cloner, the model copies it.
func storedTemplate(kind string) (m *dns.Msg) {
	m = &dns.Msg{}
	m.Response = true
	m.RecursionAvailable = true
	m.Question = []dns.Question{{Name: storedOwner, Qtype: dns.TypeTXT, Qclass: dns.ClassINET}}
	m.Answer = []dns.RR{
		&dns.A{Hdr: dns.RR_Header{Name: storedOwner, Rrtype: dns.TypeA, Class: dns.ClassINET, Ttl: 60}, A: []byte{192, 0, 2, 1}},
		&dns.A{Hdr: dns.RR_Header{Name: storedOwner, Rrtype: dns.TypeA, Class: dns.ClassINET, Ttl: 60}, A: []byte{192, 0, 2, 2}},
	}

	opt := &dns.OPT{Hdr: dns.RR_Header{Name: ".", Rrtype: dns.TypeOPT, Class: 4096}}
	switch kind {
	case "sbare":
		// Option is nil.
	case "sempty":
		opt.Option = []dns.EDNS0{}
	case "sede":
		opt.Option = []dns.EDNS0{&dns.EDNS0_EDE{InfoCode: dns.ExtendedErrorCodeFiltered, ExtraText: "h8"}}
	case "sbareu":
		// As unpacked from an upstream's answer to a query with a bare OPT.
		m.Extra = []dns.RR{opt}
		b, err := m.Pack()
		if err != nil {
			panic(err)
		}
		u := &dns.Msg{}
		if err = u.Unpack(b); err != nil {
			panic(err)
		}

		return u
	default:
		return m
	}

	m.Extra = []dns.RR{opt}

	return m
}

var storedTemplates = func() (t map[string]*dns.Msg) {
	t = map[string]*dns.Msg{}
	for _, k := range storedKinds {
		t[k] = storedTemplate(k)
	}

	return t
}()

// adoptRequest makes a copy/clone of a stored message the response to req.
func adoptRequest(resp, req *dns.Msg) {
	resp.Id = req.Id
	resp.RecursionDesired = req.RecursionDesired
	resp.CheckingDisabled = req.CheckingDisabled
	resp.Question = append(resp.Question[:0], req.Question...)
}

// storedModel is what the handler hands to the server for a stored kind, as
// the statement's model sees it: the stored message, nothing else.
func storedModel(req *dns.Msg, sh shape) (m *dns.Msg, size int, err error) {
	m = storedTemplates[sh.Kind].Copy()
	adoptRequest(m, req)
	size, err = packedLen(m)

	return m, size, err
}

// pooledState is the part of H8 that answers from the shared Cloner.
type pooledState struct {
	cloner *dnsmsg.Cloner

	mu sync.Mutex
	// grantedOPT holds the OPT records of the clones that were handed to a
	// server for a request asking for padding or keep-alive.
	grantedOPT map[*dns.OPT]struct{}
	// reused counts the responses to requests asking for neither that were
	// built on an OPT record of grantedOPT (i.e. taken from the pool after the
	// server disposed of it).
	reused  int64
	clones  int64
	granted int64
}

func newPooledState() *pooledState {
	return &pooledState{cloner: dnsmsg.NewCloner(dnsmsg.EmptyClonerStat{}), grantedOPT: map[*dns.OPT]struct{}{}}
}

// respond returns the pooled clone for req.
func (p *pooledState) respond(req *dns.Msg, sh shape) (resp *dns.Msg) {
	resp = p.cloner.Clone(storedTemplates[sh.Kind])
	adoptRequest(resp, req)

	asks := false
	if ro := req.IsEdns0(); ro != nil {
		for _, o := range ro.Option {
			if c := o.Option(); c == dns.EDNS0PADDING || c == dns.EDNS0TCPKEEPALIVE {
				asks = true
			}
		}
	}

	opt := resp.IsEdns0()
	p.mu.Lock()
	p.clones++
	if opt != nil {
		_, was := p.grantedOPT[opt]
		switch {
		case asks:
			p.grantedOPT[opt] = struct{}{}
			p.granted++
		case was:
			p.reused++
		}
	}
	p.mu.Unlock()

	return resp
}

func (p *pooledState) counts() (clones, granted, reused int64) {
	p.mu.Lock()
	defer p.mu.Unlock()

	return p.clones, p.granted, p.reused
}

// pooledPaths are the client paths of the shared-cloner bench.
func pooledPaths(bench int) (paths []*pathDef) {
	return []*pathDef{
		{name: "pool:udp", family: famUDP, bench: bench, cfg: 4096},
		{name: "pool:tcp", family: famTCP, bench: bench, cfg: 4096},
		{name: "pool:dot", family: famDoT, bench: bench},
		{name: "pool:doq", family: famDoQ, bench: bench},
		{name: "pool:doh-h2-post", family: famDoH, variant: tbench.HTTP2, bench: bench},
		{name: "pool:doh-plain-post", family: famDoH, variant: tbench.HTTPPlain, bench: bench},
		{name: "pool:dnscrypt-udp", family: famDCUDP, bench: bench, cfg: 65535},
		{name: "pool:dnscrypt-tcp", family: famDCTCP, bench: bench},
	}
}

// pooledCell builds one cell of the phase.
func pooledCell(idx int, p *pathDef, group string, f reqForm, kind string) (c *cell, err error) {
	own := 1
	if kind == "snoopt" {
		own = 0
	}

	c = &cell{
		idx: idx, path: p, form: f, boundary: group, phase: phasePooled, id: uint16(idx*7 + 11),
		sh: shape{Cell: idx, T: 0, OwnOPT: own, Mix: "an", Kind: kind},
	}
	c.form.TTLVar = "plain"

	q := tbench.QuerySpec{
		ID: c.id, Flags: tbench.FlagRD, Name: tbench.WireNameString(c.sh.qname()),
		QType: dns.TypeTXT, QClass: dns.ClassINET, OPT: c.form.opt(),
	}
	c.wire = q.Wire()
	c.req = &dns.Msg{}
	if err = c.req.Unpack(c.wire); err != nil {
		return nil, fmt.Errorf("pooled cell %d: own request does not parse: %w", idx, err)
	}

	return c, nil
}

// runPooled drives the alternating histories.  Every path keeps one session
// for the whole phase; within a batch the paths run concurrently, the batches
// are strictly ordered.
//
// The number of rounds is not fixed by time but by what the monitor has seen:
// at least minRounds, then on until the handler has counted target responses
// of class B built on a record disposed of after class A (which depends on the
// scheduler and the garbage collector), at most maxRounds.
func (e *env) runPooled(paths []*pathDef, firstIdx, minRounds, maxRounds int, target int64) (nA, nB, rounds int, err error) {
	byName := map[string]*pathDef{}
	sessions := map[*pathDef]session{}
	for _, p := range paths {
		byName[p.name] = p
		sessions[p] = e.newSession(p)
	}
	defer func() {
		for _, s := range sessions {
			s.finish()
		}
	}()

	// Class A: who asks for what, where it is granted.
	type ask struct {
		path string
		opts string
	}
	asks := []ask{
		{"pool:dot", "pad+ka"}, {"pool:dot", "do+pad+ka"}, {"pool:tcp", "ka"},
		{"pool:doh-h2-post", "pad"}, {"pool:doh-plain-post", "pad16"}, {"pool:doq", "pad"},
	}
	// Class B: option subsets without padding and keep-alive, on every path.
	plain := []string{"none", "do", "nsid5", "cookie", "ecs", "nsid0"}

	idx := firstIdx
	batch := func(cells map[*pathDef][]*cell) {
		var wg sync.WaitGroup
		for p, list := range cells {
			wg.Add(1)
			go func() {
				defer wg.Done()

				for _, c := range list {
					e.one(sessions[p], c)
				}
			}()
		}
		wg.Wait()
	}

	const perAsk, perPlain = 8, 4
	for round := 0; round < maxRounds; round++ {
		if _, _, reused := e.h.pooled.counts(); round >= minRounds && reused >= target {
			break
		}

		rounds++
		a := map[*pathDef][]*cell{}
		for i, k := range asks {
			p := byName[k.path]
			for j := 0; j < perAsk; j++ {
				kind := storedKinds[(round+i+j)%len(storedKinds)]
				c, cErr := pooledCell(idx, p, "shared-cloner-A", withAdv(optSet(k.opts), 1232), kind)
				if cErr != nil {
					return nA, nB, rounds, cErr
				}
				idx++
				nA++
				a[p] = append(a[p], c)
			}
		}
		batch(a)

		b := map[*pathDef][]*cell{}
		for i, p := range paths {
			for j := 0; j < perPlain; j++ {
				// Mostly the kinds whose OPT has no options.
				kind := []string{"sbare", "sbareu", "sempty", "sbare", "sede", "sbareu", "snoopt"}[(round+i+j)%7]
				f := withAdv(optSet(plain[(round+i*perPlain+j)%len(plain)]), []int{1232, 4096, 512}[(round+j)%3])
				c, cErr := pooledCell(idx, p, "shared-cloner-B", f, kind)
				if cErr != nil {
					return nA, nB, rounds, cErr
				}
				idx++
				nB++
				b[p] = append(b[p], c)
			}
		}
		batch(b)
	}

	return nA, nB, rounds, nil
}
