package c08

import (
	"fmt"
	"strings"

	"github.com/miekg/dns"
)

// The oracle.  Everything below is written from the property statement and the
// documented rules, not from the implementation:
//
//	B1  UDP (plain, DNSCrypt): wire length <= max(512, min(advertised, configured))
//	B2  streams: <= 65535, and the framing agrees with the bytes
//	T1  records dropped  =>  TC set and answer section empty
//	T2  TC set  =>  answer section empty
//	O1  request has OPT  =>  response has exactly one OPT, version 0,
//	    UDP size = the size field of the request's OPT
//	P1  padding option in the response  =>  encrypted transport and the request
//	    carried the padding option
//	P2  (documented in padAnswer) on DoT/DoH/DoQ a request with the padding
//	    option is answered with padding
//	K1  keep-alive option in the response  =>  request carried it and the
//	    transport is TCP or DoT

func encrypted(fam string) bool {
	return fam == famDoT || fam == famDoH || fam == famDoQ || fam == famDCUDP || fam == famDCTCP
}

func padsOnRequest(fam string) bool { return fam == famDoT || fam == famDoH || fam == famDoQ }

func splitOPT(rrs []dns.RR) (plain []dns.RR, opts []*dns.OPT) {
	for _, rr := range rrs {
		if o, ok := rr.(*dns.OPT); ok {
			opts = append(opts, o)
		} else {
			plain = append(plain, rr)
		}
	}

	return plain, opts
}

// rrKey renders a record for comparison; a cache counts TTLs down, so they
// are left out where a cache is part of the handler.
func rrKey(rr dns.RR, ignoreTTL bool) string {
	if ignoreTTL {
		rr = dns.Copy(rr)
		rr.Header().Ttl = 0
	}

	return rr.String()
}

// isPrefix reports whether got is a prefix of want.
func isPrefix(got, want []dns.RR, ignoreTTL bool) bool {
	if len(got) > len(want) {
		return false
	}
	for i := range got {
		if rrKey(got[i], ignoreTTL) != rrKey(want[i], ignoreTTL) {
			return false
		}
	}

	return true
}

func relClass(full, limit int) string {
	d := full - limit
	switch {
	case d < -300:
		return "far-below"
	case d < -41:
		return "below"
	case d < 0:
		return "within-41-below"
	case d == 0:
		return "at"
	case d <= 41:
		return "within-41-above"
	case d <= 300:
		return "above"
	default:
		return "far-above"
	}
}

func advClass(adv int) string {
	if adv < 0 {
		return "no-opt"
	}

	return fmt.Sprint(adv)
}

func (e *env) noteOvershoot(c *cell, size, limit int) {
	fam := c.path.family
	d := size - limit

	e.mu.Lock()
	defer e.mu.Unlock()

	if cur, ok := e.overshoot[fam]; !ok || d > cur {
		e.overshoot[fam] = d
		e.closest[fam] = map[string]any{"cell": c.idx, "path": c.path.name, "size": size, "limit": limit, "qname": c.sh.qname(), "request_edns": c.form}
	}
}

func (e *env) violation(c *cell, o observation, key, what string, extra map[string]any) {
	switch c.phase {
	case phasePooled:
		// Histories across clients that share the servers' Disposer.
		key = c.phase + ":" + key
		what += " (response built from a pooled clone of a stored message; the servers dispose of written responses into the same Cloner)"
	case phaseShutdown:
		key = c.phase + ":" + key
		what += " (the query was read before Shutdown and answered after the server had begun to shut down)"
	case phaseSilent:
		key = c.phase + ":" + key
		what += " (the handler finished without writing, returning " + c.sh.NoWrite + "; the response is the server's own)"
	case phaseECS:
		served := "unknown"
		if o.hrec != nil {
			served = "cache"
			if o.hrec.UpstreamCalls > 0 {
				served = "upstream (cache miss)"
			}
		}
		key = c.phase + ":" + key
		what += " (handler = the real ECS-cache middleware over a scripted upstream; served from " + served + ")"
	}

	w := c.witness()
	w["observed_outcome"] = o.outcome
	w["observed_wire_len"] = o.wireLen
	w["observed_dns_len"] = len(o.msg)
	if len(o.msg) <= 1024 {
		w["observed_hex"] = fmt.Sprintf("%x", o.msg)
	} else {
		w["observed_head_hex"] = fmt.Sprintf("%x", o.msg[:256])
	}
	if o.hrec != nil {
		w["handler_saw"] = o.hrec
	}
	for k, v := range extra {
		w[k] = v
	}

	e.r.Violation(key, what, w)
}

func (e *env) judge(c *cell, o observation) {
	r := e.r
	fam := c.path.family
	limit := c.path.limit(c.form.Adv)

	if c.boundary != "" {
		r.Bucket("boundary_cells_run", 1)
	}

	if strings.HasPrefix(o.outcome, "infra:") {
		r.Bucket("cells:"+c.path.name+":infra", 1)
		r.Eval("infra", false)

		return
	}

	// What the handler handed to the server (recomputed from the request).
	exp, _, hsize, err := buildResp(c.req)
	if err != nil {
		r.Inconclusive("model cannot build the handler response: " + err.Error())

		return
	}
	if o.hrec != nil && o.hrec.Size != hsize {
		r.Inconclusive(fmt.Sprintf("cell %d: handler built %d bytes, model %d", c.idx, o.hrec.Size, hsize))

		return
	}

	if hsize == c.sh.T {
		r.Bucket("handler_size_equals_target", 1)
	} else {
		r.Bucket("handler_size_differs_from_target(target below the empty response + 13)", 1)
	}

	full := hsize + optLen(c.form, c.sh.OwnOPT)
	rel := relClass(full, limit)
	class := strings.Join([]string{c.phase, fam, fmt.Sprint(c.path.cfg), advClass(c.form.Adv), c.form.Name, c.form.TTLVar,
		fmt.Sprint("own", c.sh.OwnOPT), c.sh.Mix, c.sh.Kind, rel}, "|")

	// B2, framing half: decided by the session.
	if o.framing != "" {
		e.violation(c, o, "stream-framing:"+fam,
			"the length prefix of a stream response disagrees with the bytes that follow (a message beyond 65535 bytes was put on the stream)",
			map[string]any{"framing": o.framing, "handler_size": hsize, "full_size_without_padding": full})
		r.Bucket("cells:"+c.path.name+":framing-anomaly", 1)
		r.Eval(class+"|framing", true)

		return
	}

	if o.outcome != answered {
		// No response is not this property's subject; record what the client
		// got instead.
		r.Bucket("cells:"+c.path.name+":no-response", 1)
		what := o.outcome
		if fam == famDoQ && c.form.KA {
			what = "no-response: keep-alive option in a DoQ query is a protocol error (RFC 9250); " + strings.TrimPrefix(what, "no-response: ")
		}
		r.Bucket("no_response:"+fam+":"+rel+":"+what, 1)
		if c.phase == phaseSilent {
			r.Bucket("silent_handler:"+c.sh.NoWrite+":no-response:"+fam, 1)
		}
		r.Eval(class+"|no-response", false)
		if c.boundary != "" {
			r.Bucket("boundary_cells_without_response", 1)
		}

		return
	}

	// B1 / B2.
	size := o.wireLen
	if fam == famDCUDP || fam == famDCTCP {
		// The statement bounds the DNS message; the client decrypts and
		// unpads, which gives the server's DNS message exactly.
		size = len(o.msg)
		r.Bucket("dnscrypt_lengths_exact", 1)
		if fam == famDCUDP {
			e.mu.Lock()
			e.dcEncOver = max(e.dcEncOver, o.wireLen-limit)
			e.mu.Unlock()
		}
		if fam == famDCTCP && o.wireLen > streamMax {
			e.violation(c, o, "oversize:"+fam+":encrypted-frame", "a DNSCrypt TCP frame above 65535 bytes", nil)
		}
	}
	if size != len(o.msg) && fam != famDCUDP && fam != famDCTCP {
		r.Inconclusive(fmt.Sprintf("cell %d: wire length %d but message of %d bytes", c.idx, size, len(o.msg)))

		return
	}

	e.noteOvershoot(c, size, limit)

	m := &dns.Msg{}
	if uErr := m.Unpack(o.msg); uErr != nil {
		e.violation(c, o, "malformed-response:"+fam, "the response does not parse: "+uErr.Error(), nil)

		return
	}
	if !wireComplete(o.msg) {
		e.violation(c, o, "malformed-response:"+fam, "the response is not a structurally complete DNS message that ends with the last record its header announces", nil)

		return
	}

	// O1.
	obsA, optsA := splitOPT(m.Answer)
	obsN, optsN := splitOPT(m.Ns)
	obsX, opts := splitOPT(m.Extra)
	if len(optsA)+len(optsN) > 0 {
		e.violation(c, o, "opt-outside-additional:"+fam, "an OPT record outside the additional section", nil)
	}

	// The OPT of the response is the handler's own one (adjusted by the
	// server) or one the server built itself; error responses written by the
	// server instead of the handler's are always of the second kind.
	rcode := dns.RcodeToString[m.Rcode]
	own := fmt.Sprint("handler-opt=", c.sh.OwnOPT)
	// (Variant 5 is an upstream OPT without EDE, which the ECS cache removes.)
	serverBuilt := c.sh.OwnOPT == 0 || c.sh.OwnOPT == 5 || m.Rcode != dns.RcodeSuccess
	if serverBuilt {
		own = "server-built-opt"
	}
	if c.form.hasOPT() {
		switch {
		case len(opts) == 0:
			e.violation(c, o, "opt-missing:"+fam+":rcode="+rcode, "a query with an OPT record was answered without one", nil)
		case len(opts) > 1:
			e.violation(c, o, "opt-duplicated:"+fam+":"+own, "more than one OPT record in the response", nil)
		default:
			op := opts[0]
			r.Bucket(fmt.Sprintf("opt_version_checked:%s:request-version=%d", own, c.form.Version), 1)
			if op.Version() != 0 {
				e.violation(c, o, "opt-version:"+own, fmt.Sprintf("EDNS version %d in the response (the request carried version %d)", op.Version(), c.form.Version),
					map[string]any{"observed_version": op.Version(), "request_version": c.form.Version})
			} else {
				r.Bucket(fmt.Sprintf("opt_version_0:%s:request-version=%d", own, c.form.Version), 1)
			}
			// The rest of the TTL field is not covered by the statement.
			if x := op.ExtendedRcode() >> 4; x != 0 && c.form.ExtRcode != 0 {
				r.Bucket("opt_ttl_echo_not_in_statement:ext-rcode:"+own, 1)
			}
			if z := op.Hdr.Ttl & 0x7fff; z != 0 {
				r.Bucket("opt_ttl_echo_not_in_statement:z-bits:"+own, 1)
			}
			if got := int(op.UDPSize()); got != c.form.Adv {
				key := "opt-udp-size:" + own
				if serverBuilt && got == 0 {
					key = "opt-udp-size:server-built-opt-has-size-0"
				}
				e.violation(c, o, key,
					fmt.Sprintf("the response OPT carries UDP size %d, the client's is %d", got, c.form.Adv),
					map[string]any{"observed_udp_size": got, "client_udp_size": c.form.Adv})
			} else {
				r.Bucket("opt_udp_size_matches:"+own, 1)
			}
		}
	} else if len(opts) > 0 {
		r.Bucket("opt_in_response_to_query_without_opt:"+own, 1)
	}

	// P1, P2, K1.
	var pad *dns.EDNS0_PADDING
	var ka *dns.EDNS0_TCP_KEEPALIVE
	for _, op := range opts {
		for _, x := range op.Option {
			switch v := x.(type) {
			case *dns.EDNS0_PADDING:
				pad = v
			case *dns.EDNS0_TCP_KEEPALIVE:
				ka = v
			}
		}
	}

	if size > limit {
		cause := "tc-unset"
		if m.Truncated {
			cause = "tc-set"
		}
		padLen, kaLen := 0, 0
		if pad != nil {
			padLen = 4 + len(pad.Padding)
		}
		if ka != nil {
			kaLen = 6
		}
		switch {
		case padLen > 0 && size-padLen <= limit:
			cause = "by-padding"
		case kaLen > 0 && size-kaLen <= limit:
			cause = "by-keepalive"
		case padLen > 0 && kaLen > 0 && size-padLen-kaLen <= limit:
			cause = "by-padding-and-keepalive"
		}
		e.violation(c, o, "oversize:"+fam+":"+cause,
			fmt.Sprintf("a response of %d bytes on the wire where the bound is %d (overshoot %d)", size, limit, size-limit),
			map[string]any{"overshoot": size - limit, "handler_size": hsize, "full_size_without_padding": full,
				"padding_option_bytes": padLen, "keepalive_option_bytes": kaLen, "tc": m.Truncated})
	}

	switch {
	case pad != nil && !encrypted(fam):
		e.violation(c, o, "padding-on-unencrypted:"+fam, "a padded response on an unencrypted transport", map[string]any{"padding_len": len(pad.Padding)})
	case pad != nil && c.form.Pad < 0:
		e.violation(c, o, "padding-unsolicited:"+fam, "a padded response although the client did not send the padding option", map[string]any{"padding_len": len(pad.Padding)})
	case pad == nil && c.form.Pad >= 0 && padsOnRequest(fam):
		e.violation(c, o, "padding-missing:"+fam, "documented: a request with the padding option over DoT/DoH/DoQ is answered with padding; it was not", nil)
	case pad != nil:
		r.Bucket(fmt.Sprintf("padding_added:%s", fam), 1)
		r.Bucket(fmt.Sprintf("padding_len:%02d", len(pad.Padding)), 1)
	}

	switch {
	case ka != nil && !c.form.KA:
		e.violation(c, o, "keepalive-unsolicited:"+fam, "the TCP keep-alive option was returned to a client that did not send it", nil)
	case ka != nil && fam != famTCP && fam != famDoT:
		e.violation(c, o, "keepalive-wrong-transport:"+fam, "the TCP keep-alive option was returned on a transport other than TCP/DoT", nil)
	case ka != nil:
		r.Bucket("keepalive_returned:"+fam, 1)
	case c.form.KA && (fam == famTCP || fam == famDoT):
		r.Bucket("keepalive_requested_but_absent:"+fam, 1)
	}

	// T1, T2.
	outcome := "complete"
	if m.Rcode != dns.RcodeSuccess {
		// An error response (e.g. the SERVFAIL the server writes when the
		// handler returns the write error) is not a truncated answer.
		outcome = "rcode-" + dns.RcodeToString[m.Rcode]
	} else {
		expA, _ := splitOPT(exp.Answer)
		expN, _ := splitOPT(exp.Ns)
		expX, _ := splitOPT(exp.Extra)

		noTTL := c.phase == phaseECS
		if !isPrefix(obsA, expA, noTTL) || !isPrefix(obsN, expN, noTTL) || !isPrefix(obsX, expX, noTTL) {
			e.violation(c, o, "records-altered:"+fam, "the response carries records that are not a prefix of the handler's sections",
				map[string]any{"observed_counts": []int{len(obsA), len(obsN), len(obsX)}, "handler_counts": []int{len(expA), len(expN), len(expX)}})
		}

		dropped := len(obsA) < len(expA) || len(obsN) < len(expN) || len(obsX) < len(expX)
		counts := map[string]any{
			"observed_counts": []int{len(obsA), len(obsN), len(obsX)}, "handler_counts": []int{len(expA), len(expN), len(expX)},
			"tc": m.Truncated, "handler_size": hsize, "full_size_without_padding": full,
		}
		if dropped {
			outcome = "truncated"
			if !m.Truncated {
				e.violation(c, o, "dropped-without-tc:"+fam, "records were dropped from the response but the TC bit is not set", counts)
			}
			if full <= limit {
				r.Bucket("dropped_although_full_response_fits:"+fam, 1)
			}
		} else if m.Truncated {
			outcome = "complete-with-tc"
		}

		if m.Truncated && len(obsA) > 0 {
			e.violation(c, o, "tc-with-answers:"+fam, "the TC bit is set but the answer section is not empty", counts)
		}
	}

	if c.phase == phaseECS && o.hrec != nil {
		src := "hit"
		if o.hrec.UpstreamCalls > 0 {
			src = "miss"
		}
		r.Bucket("ecs_cache:"+src+":"+fam, 1)
		if c.path.datagram() && c.form.hasOPT() && c.form.Adv < 4096 && full > limit {
			// The class in which a request changed by the handler shows.
			r.Bucket("ecs_cache:"+src+":datagram-client-advertising-less-than-4096-and-answer-larger-than-that", 1)
		}
		if c.upstreamOPTTainted && c.form.Pad < 0 && !c.form.KA {
			// The class in which hop-by-hop options of the upstream's OPT
			// (cached or not) would reach a client that asked for neither.
			r.Bucket("ecs_cache:"+src+":client-asking-for-neither-after-upstream-opt-with-padding-and-keepalive:"+fam, 1)
			r.Bucket("ecs_cache:"+src+":client-asking-for-neither-after-upstream-opt-with-padding-and-keepalive", 1)
		}
		outcome = src + "-" + outcome
	}

	if c.phase == phaseSilent {
		opt := "query-with-opt"
		if !c.form.hasOPT() {
			opt = "query-without-opt"
		}
		r.Bucket("silent_handler:"+c.sh.NoWrite+":answered:"+fam+":"+opt, 1)
	}
	if c.path.jsonWire && c.phase == "" {
		switch {
		case hsize > streamMax:
			r.Bucket("json_wire:handler-response-larger-than-65535:judged", 1)
		case hsize >= streamMax-16:
			r.Bucket("json_wire:handler-response-within-16-of-65535:judged", 1)
		}
	}
	if c.path.family == famUDP && c.path.cfg == 0 && c.form.Adv > 512 && full > 512 {
		r.Bucket("udp_configured_max_0:advertised>512-and-answer>512:judged", 1)
	}

	r.Bucket("cells:"+c.path.name+":"+outcome, 1)
	r.Bucket("outcome:"+fam+":"+rel+":"+outcome, 1)
	r.Eval(class+"|"+outcome, true)
	if c.boundary != "" {
		r.Bucket("boundary_cells_judged", 1)
		r.Bucket("boundary_group:"+c.boundary+":"+fam, 1)
	}

	key := fam + "|" + outcome
	e.mu.Lock()
	want := !e.samples[key] && len(e.samples) < 6
	if want {
		e.samples[key] = true
	}
	e.mu.Unlock()
	if want {
		s := c.witness()
		delete(s, "request_hex")
		s["outcome"] = outcome
		s["wire_len"] = o.wireLen
		s["handler_size"] = hsize
		s["counts_observed"] = []int{len(obsA), len(obsN), len(obsX)}
		s["tc"] = m.Truncated
		r.Sample(s)
	}
}

// wireComplete walks msg by its header counts without a DNS library and
// reports whether it is structurally complete and ends exactly at len(msg).
// (The DNS library accepts a message that stops after the header.)
func wireComplete(msg []byte) (ok bool) {
	if len(msg) < 12 {
		return false
	}

	u16 := func(off int) int { return int(msg[off])<<8 | int(msg[off+1]) }
	skipName := func(off int) (next int, nOK bool) {
		for {
			if off >= len(msg) {
				return 0, false
			}

			l := int(msg[off])
			switch {
			case l == 0:
				return off + 1, true
			case l&0xc0 == 0xc0:
				return off + 2, off+2 <= len(msg)
			case l&0xc0 != 0:
				return 0, false
			default:
				off += 1 + l
			}
		}
	}

	off := 12
	var nOK bool
	for i := 0; i < u16(4); i++ {
		if off, nOK = skipName(off); !nOK {
			return false
		}
		off += 4
	}

	for i := 0; i < u16(6)+u16(8)+u16(10); i++ {
		if off, nOK = skipName(off); !nOK || off+10 > len(msg) {
			return false
		}
		off += 10 + u16(off+8)
	}

	return off == len(msg)
}
