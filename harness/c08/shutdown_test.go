package c08

import (
	"fmt"
	"sync"
	"time"

	"github.com/AdguardTeam/AdGuardDNS/verif/tbench"
	"github.com/miekg/dns"
)

// The shutdown phase: queries that were read before Shutdown and are answered
// after it has begun.  H8 parks the query (mode e6), the driver starts the
// server's Shutdown, sees the listener go away (the server marks itself as
// stopped before it closes the listeners), releases the handlers and reads the
// responses, which are judged by the ordinary rules.

const phaseShutdown = "shutdown"

// parkGate is the release channel of the currently parked queries.
type parkGate struct {
	mu sync.Mutex
	ch chan struct{}
}

func (g *parkGate) arm() (ch chan struct{}) {
	g.mu.Lock()
	defer g.mu.Unlock()

	g.ch = make(chan struct{})

	return g.ch
}

func (g *parkGate) current() (ch chan struct{}) {
	g.mu.Lock()
	defer g.mu.Unlock()

	return g.ch
}

func (e *env) runShutdown(firstIdx, rounds int) {
	r := e.r
	idx := firstIdx
	forms := []string{"none", "do", "nsid5", "cookie", "ka"}

	for round := 0; round < rounds; round++ {
		for _, fam := range []string{famTCP, famDoT} {
			srv := tbench.SrvDNS
			if fam == famDoT {
				srv = tbench.SrvDoT
			}

			b, err := tbench.Start(tbench.Config{Handler: e.h, Only: []tbench.Server{srv}, ShutdownTimeout: 20 * time.Second})
			if err != nil {
				r.Bucket("shutdown:bench-not-started", 1)

				continue
			}

			p := &pathDef{name: "shutdown:" + fam, family: fam}
			addr := b.TCPAddr
			if fam == famDoT {
				addr = b.DoTAddr
			}

			release := e.h.park.arm()

			type parked struct {
				c    *cell
				conn *tbench.StreamClient
				ch   chan hRecord
			}
			var ps []parked
			for i, name := range forms {
				f := withAdv(optSet(name), []int{1232, 4096, 512}[(round+i)%3])
				f.TTLVar = "plain"
				c := &cell{
					idx: idx, path: p, form: f, boundary: "shutdown", phase: phaseShutdown, id: uint16(idx*7 + 11),
					sh: shape{Cell: idx, T: 200 + 100*i, Mix: "an", Kind: "a", OwnOPT: (round + i) % 3, Park: true},
				}
				idx++
				q := tbench.QuerySpec{
					ID: c.id, Flags: tbench.FlagRD, Name: tbench.WireNameString(c.sh.qname()),
					QType: dns.TypeTXT, QClass: dns.ClassINET, OPT: c.form.opt(),
				}
				c.wire = q.Wire()
				c.req = &dns.Msg{}
				if err = c.req.Unpack(c.wire); err != nil {
					r.Inconclusive("shutdown cell does not parse: " + err.Error())

					return
				}

				var conn *tbench.StreamClient
				if fam == famDoT {
					conn, err = b.DialDoT()
				} else {
					conn, err = b.DialTCP()
				}
				if err != nil {
					e.infraFailure(p.name+":dial", err)

					continue
				}

				ch := e.h.expect(c.idx)
				if err = conn.WriteFrame(c.wire); err != nil {
					e.infraFailure(p.name+":write", err)
					_ = conn.Close()

					continue
				}

				// Wait until the handler holds the query.
				select {
				case rec := <-ch:
					if !rec.Parked {
						r.Bucket("shutdown:ambiguous:first-report-not-parked", 1)
					}
					ps = append(ps, parked{c: c, conn: conn, ch: ch})
				case <-time.After(10 * time.Second):
					r.Bucket("shutdown:ambiguous:query-not-parked", 1)
					_ = conn.Close()
				}
			}

			// Begin the shutdown; it blocks until the parked queries are done.
			done := make(chan error, 1)
			go func() { done <- b.Close() }()

			// The server marks itself as stopped, then closes the listener.
			began := false
			for i := 0; i < 1000 && !began; i++ {
				probe, dErr := tbench.DialTCP(addr)
				if dErr != nil {
					began = true
				} else {
					_ = probe.Close()
					time.Sleep(10 * time.Millisecond)
				}
			}

			close(release)

			for _, pk := range ps {
				o := observation{tries: 1}
				res := pk.conn.Read(e.answerWait)
				select {
				case rec := <-pk.ch:
					o.hrec = &rec
				case <-time.After(5 * time.Second):
				}
				e.h.forget(pk.c.idx)

				if res.Outcome == tbench.Answered {
					o.outcome, o.msg, o.wireLen = answered, res.Responses[0], res.WireLens[0]
				} else {
					o.outcome = "no-response: connection " + string(res.Outcome)
				}
				_ = pk.conn.Close()

				if !began {
					r.Bucket("shutdown:ambiguous:listener-still-open", 1)

					continue
				}

				if o.outcome == answered {
					ka := "query-without-keepalive"
					if pk.c.form.KA {
						ka = "query-with-keepalive"
					}
					r.Bucket(fmt.Sprintf("shutdown:answered-after-shutdown-began:%s:%s", fam, ka), 1)
				}
				e.judge(pk.c, o)
			}

			select {
			case cErr := <-done:
				if cErr != nil {
					r.Bucket("shutdown:close-error", 1)
				}
			case <-time.After(30 * time.Second):
				r.Bucket("shutdown:ambiguous:close-did-not-return", 1)
			}
		}
	}
}
