package c08

import (
	"encoding/binary"
	"fmt"
	"strings"
	"sync"
	"time"

	"github.com/AdguardTeam/AdGuardDNS/verif/tbench"
	"github.com/AdguardTeam/AdGuardDNS/verif/vkit"
	"github.com/miekg/dns"
)

type env struct {
	r       *vkit.Run
	h       *h8
	benches []*tbench.Bench
	http    map[string]*tbench.HTTPClient

	// Waits.  None of them decides a verdict: a response that does not arrive
	// is an observation without a size.
	answerWait time.Duration
	reportWait time.Duration
	dgramWait  time.Duration

	mu        sync.Mutex
	overshoot map[string]int // per family: max(observed - limit)
	dcEncOver int            // DNSCrypt UDP: max(encrypted datagram - limit), informational
	closest   map[string]map[string]any
	infra     int
	samples   map[string]bool
}

func (e *env) infraFailure(where string, err error) {
	e.mu.Lock()
	e.infra++
	n := e.infra
	e.mu.Unlock()

	e.r.Bucket("infra_failure:"+where, 1)
	if n == 1 {
		e.r.Extra("first_infra_failure", fmt.Sprintf("%s: %v", where, err))
	}
}

// observation is what the client got for one cell.
type observation struct {
	hrec *hRecord
	// outcome is "answered" or a description of what came instead of a
	// response.
	outcome string
	// framing, if not empty, describes a disagreement between the framing and
	// the bytes on a stream.
	framing string
	// msg is the DNS message as received (decrypted for DNSCrypt).
	msg []byte
	// wireLen is the length on the wire: UDP datagram length, value of the
	// 2-byte prefix, HTTP body length, length of the DNSCrypt packet.
	wireLen int
	tries   int
}

const answered = "answered"

type session interface {
	exchange(c *cell) observation
	finish()
}

func idOf(b []byte) (id uint16, ok bool) {
	if len(b) < 2 {
		return 0, false
	}

	return binary.BigEndian.Uint16(b), true
}

// ---------------------------------------------------------------------------
// Datagram sessions.
// ---------------------------------------------------------------------------

type dgramSession struct {
	e   *env
	p   *pathDef
	udp *tbench.UDPClient
	dc  *tbench.DNSCryptClient
}

func (s *dgramSession) ensure() (err error) {
	switch {
	case s.p.family == famUDP && s.udp == nil:
		s.udp, err = s.e.benches[s.p.bench].DialUDP()
	case s.p.family == famDCUDP && s.dc == nil:
		s.dc, err = s.e.benches[s.p.bench].DialDNSCrypt("udp")
	}

	return err
}

// recv returns the next datagram as (DNS message, wire length).
func (s *dgramSession) recv(wait time.Duration) (msg []byte, wireLen int, err error) {
	if s.dc == nil {
		msg, err = s.udp.Recv(wait)

		return msg, len(msg), err
	}

	msg, wireLen, undecryptable, err := s.dc.Recv(wait)
	if err == nil && undecryptable {
		s.e.r.Bucket("dnscrypt_undecryptable_datagrams", 1)

		return nil, wireLen, nil
	}

	return msg, wireLen, err
}

func (s *dgramSession) exchange(c *cell) (o observation) {
	err := s.ensure()
	if err != nil {
		s.e.infraFailure(s.p.name+":dial", err)

		return observation{outcome: "infra: dial: " + err.Error()}
	}

	ch := s.e.h.expect(c.idx)
	defer s.e.h.forget(c.idx)

	for try := 1; try <= 3; try++ {
		o.tries = try
		if s.dc != nil {
			err = s.dc.Send(c.wire)
		} else {
			err = s.udp.Send(c.wire)
		}
		if err != nil {
			s.e.infraFailure(s.p.name+":send", err)

			return observation{outcome: "infra: send: " + err.Error()}
		}

		// The handler reports when WriteMsg has returned.  On plain UDP the
		// datagram has then been handed to the kernel (or refused by it).
		var rec hRecord
		select {
		case rec = <-ch:
		case <-time.After(s.e.reportWait):
			s.e.r.Bucket("ambiguous:handler-not-invoked:"+s.p.family, 1)

			continue
		}

		o.hrec = &rec
		if rec.NoWrite == "nil" && s.p.family == famUDP {
			// The plain server documents silence for a handler that writes
			// nothing; there is nothing to wait for.
			o.outcome = "no-response: the handler wrote nothing"

			return o
		}
		if rec.WriteErr != "" && !c.sh.Propagate {
			// The kernel refused the datagram and the handler swallowed the
			// error: nothing is to come.
			o.outcome = "no-response: server-side write error: " + classifyWriteErr(rec.WriteErr)

			return o
		}

		deadline := time.Now().Add(s.e.dgramWait)
		for {
			left := time.Until(deadline)
			if left <= 0 {
				break
			}

			msg, wl, rErr := s.recv(left)
			if rErr == tbench.ErrTimeout {
				break
			} else if rErr != nil {
				s.e.infraFailure(s.p.name+":recv", rErr)

				return observation{outcome: "infra: recv: " + rErr.Error(), hrec: o.hrec}
			}

			if id, ok := idOf(msg); !ok || id != c.id {
				// A late duplicate of an earlier cell of this socket.
				s.e.r.Bucket("stale_datagrams:"+s.p.family, 1)

				continue
			}

			o.outcome, o.msg, o.wireLen = answered, msg, wl

			return o
		}

		s.e.r.Bucket("ambiguous:datagram-not-received:"+s.p.family, 1)
		if s.p.family == famDCUDP && try == 2 {
			break
		}
	}

	o.outcome = "no-response: nothing arrived although the handler wrote a response"

	return o
}

func classifyWriteErr(s string) string {
	switch {
	case strings.Contains(s, "message too long"):
		return "EMSGSIZE (datagram larger than UDP/IPv4 can carry)"
	case strings.Contains(s, "buffer too large"):
		return "packing refused (buffer too large)"
	default:
		return s
	}
}

func (s *dgramSession) finish() {
	if s.udp != nil {
		_ = s.udp.Close()
	}
	if s.dc != nil {
		_ = s.dc.Close()
	}
}

// ---------------------------------------------------------------------------
// Stream sessions (TCP, DoT, DNSCrypt over TCP).
// ---------------------------------------------------------------------------

type streamSession struct {
	e         *env
	p         *pathDef
	c         *tbench.StreamClient
	dc        *tbench.DNSCryptClient
	sentinels int
	unchecked int
}

func (s *streamSession) ensure() (err error) {
	b := s.e.benches[s.p.bench]
	switch {
	case s.p.family == famDCTCP && s.dc == nil:
		s.dc, err = b.DialDNSCrypt("tcp")
	case s.p.family == famDCTCP && s.dc.Stream() == nil:
		err = s.dc.Reconnect()
	case s.p.family == famDCTCP:
	case s.c != nil:
	case s.p.family == famDoT:
		s.c, err = b.DialDoT()
	default:
		s.c, err = b.DialTCP()
	}

	return err
}

func (s *streamSession) drop() {
	if s.dc != nil {
		_ = s.dc.Close()
	}
	if s.c != nil {
		_ = s.c.Close()
		s.c = nil
	}
	s.unchecked = 0
}

func (s *streamSession) stream() *tbench.StreamClient {
	if s.dc != nil {
		return s.dc.Stream()
	}

	return s.c
}

// rest reads whatever else arrives on a connection that is already known to
// be out of step, for the witness only.
func (s *streamSession) rest() (n int, closed bool) {
	st := s.stream()
	if st == nil {
		return 0, true
	}

	buf := make([]byte, 1<<16)
	for {
		_ = st.Conn().SetReadDeadline(time.Now().Add(500 * time.Millisecond))
		k, err := st.Conn().Read(buf)
		n += k
		if err != nil {
			return n, !strings.Contains(err.Error(), "timeout")
		}
	}
}

// roundTrip writes one request and reads one frame.  frameLen is the value of
// the 2-byte prefix.
func (s *streamSession) roundTrip(wire []byte) (msg []byte, frameLen int, outcome string) {
	if s.dc != nil {
		res := s.dc.Exchange(wire, s.e.answerWait)
		switch {
		case res.Outcome == tbench.Answered:
			return res.Responses[0], res.WireLens[0], answered
		case res.Err == "undecryptable packet":
			return nil, res.WireLens[0], "undecryptable"
		default:
			return nil, 0, "no-response: " + string(res.Outcome) + " " + res.Err
		}
	}

	res := s.c.Exchange(wire, s.e.answerWait)
	if res.Outcome == tbench.Answered {
		return res.Responses[0], res.WireLens[0], answered
	}

	out := "no-response: connection " + string(res.Outcome)
	if len(res.Trailing) > 0 {
		out += fmt.Sprintf(" after %d bytes of an incomplete frame", len(res.Trailing))
	}

	return nil, len(res.Trailing), out
}

// cellTrip sends the cell's request and obtains what the server sent for it.
// On the plain stream transports the handler reports the result of WriteMsg,
// so a response that the server refused to write is not waited for.
func (s *streamSession) cellTrip(c *cell, ch chan hRecord, o *observation) (msg []byte, frameLen int, outcome string) {
	if s.dc != nil {
		msg, frameLen, outcome = s.roundTrip(c.wire)
		select {
		case rec := <-ch:
			o.hrec = &rec
		default:
		}

		return msg, frameLen, outcome
	}

	err := s.c.WriteFrame(c.wire)
	if err != nil {
		return nil, 0, "no-response: connection closed (write: " + err.Error() + ")"
	}

	wait := s.e.answerWait
	select {
	case rec := <-ch:
		o.hrec = &rec
	case <-time.After(s.e.reportWait):
		// Not invoked: the connection is probably gone; a short read tells.
		wait = time.Second
	}

	if o.hrec != nil && o.hrec.WriteErr != "" && !c.sh.Propagate {
		// The server did not write the response and the handler swallowed
		// the error: nothing is to come.  A sentinel shows what the client
		// sees next on the connection.
		outcome = "no-response: server-side write error: " + classifyWriteErr(o.hrec.WriteErr)
		if problem := s.sentinel(c); problem != "" {
			outcome += "; then " + problem
		} else {
			outcome += "; connection stays usable"
		}

		return nil, 0, outcome
	}

	res := s.c.Read(wait)
	if res.Outcome == tbench.Answered {
		return res.Responses[0], res.WireLens[0], answered
	}

	outcome = "no-response: connection " + string(res.Outcome)
	if len(res.Trailing) > 0 {
		outcome += fmt.Sprintf(" after %d bytes of an incomplete frame", len(res.Trailing))
	}
	if o.hrec != nil && o.hrec.WriteErr != "" {
		outcome += " (server-side write error: " + classifyWriteErr(o.hrec.WriteErr) + ", propagated by the handler)"
	}

	return nil, len(res.Trailing), outcome
}

func sentinelQuery(id uint16) []byte {
	sh := shape{Cell: 9999999, T: 0, Mix: "an", Kind: "txt"}

	return tbench.SimpleQuery(id, sh.qname(), dns.TypeTXT, dns.ClassINET)
}

// sentinel checks that the connection is still in step: a small query must be
// answered by exactly its response as the very next frame.
func (s *streamSession) sentinel(after *cell) (problem string) {
	id := ^after.id
	msg, _, outcome := s.roundTrip(sentinelQuery(id))
	s.sentinels++
	s.e.r.Bucket("stream_sentinels:"+s.p.family, 1)
	s.unchecked = 0
	if outcome != answered {
		return "the next query on the connection got: " + outcome
	}

	got, ok := idOf(msg)
	if !ok || got != id || !wireComplete(msg) {
		return fmt.Sprintf("the frame after the response is not the answer to the next query (%d bytes, starts %x)", len(msg), msg[:min(len(msg), 16)])
	}

	return ""
}

func (s *streamSession) exchange(c *cell) (o observation) {
	for attempt := 0; ; attempt++ {
		err := s.ensure()
		if err != nil {
			s.e.infraFailure(s.p.name+":dial", err)
			if attempt < 2 {
				time.Sleep(100 * time.Millisecond)

				continue
			}

			return observation{outcome: "infra: dial: " + err.Error()}
		}

		break
	}

	ch := s.e.h.expect(c.idx)
	defer s.e.h.forget(c.idx)

	o.tries = 1
	msg, frameLen, outcome := s.cellTrip(c, ch, &o)
	if outcome != answered && outcome != "undecryptable" && o.hrec == nil {
		// The request never reached the handler (e.g. the server had closed
		// an idle connection): once more on a fresh connection.
		s.e.r.Bucket("stream_retry_on_fresh_connection:"+s.p.family, 1)
		s.drop()
		if err := s.ensure(); err == nil {
			o.tries = 2
			msg, frameLen, outcome = s.cellTrip(c, ch, &o)
		}
	}

	o.outcome, o.msg, o.wireLen = outcome, msg, frameLen
	if strings.HasSuffix(outcome, "connection stays usable") {
		return o
	}
	if outcome != answered {
		if outcome == "undecryptable" {
			n, closed := s.rest()
			o.framing = fmt.Sprintf("a frame of %d bytes that does not decrypt; %d more bytes followed (closed=%t)", frameLen, n, closed)
		}
		s.drop()

		return o
	}

	// The frame must be the answer to this request, complete.
	if id, ok := idOf(msg); !ok || id != c.id || !wireComplete(msg) {
		n, closed := s.rest()
		o.framing = fmt.Sprintf("prefix announces %d bytes, which are not a complete DNS message with the request's ID (start %x); %d more bytes followed on the connection (closed=%t)",
			frameLen, msg[:min(len(msg), 16)], n, closed)
		s.drop()

		return o
	}

	// And nothing may follow it.  Large responses are checked at once, small
	// ones in groups (a disagreement is then found by the next sentinel or
	// the next cell's ID check).
	s.unchecked++
	if frameLen >= 16000 || s.unchecked >= 8 {
		if problem := s.sentinel(c); problem != "" {
			n, closed := s.rest()
			o.framing = fmt.Sprintf("prefix announces %d bytes; %s; %d more bytes followed (closed=%t)", frameLen, problem, n, closed)
			s.drop()
		}
	}

	return o
}

func (s *streamSession) finish() { s.drop() }

// ---------------------------------------------------------------------------
// DoH and DoQ.
// ---------------------------------------------------------------------------

type dohSession struct {
	e *env
	p *pathDef
	c *tbench.HTTPClient
}

func (s *dohSession) exchange(c *cell) (o observation) {
	ch := s.e.h.expect(c.idx)
	defer s.e.h.forget(c.idx)

	var res tbench.Result
	for attempt := 0; attempt < 3; attempt++ {
		o.tries = attempt + 1
		if s.p.jsonWire {
			res = s.c.JSON(c.jsonQ, s.e.answerWait)
		} else if s.p.get {
			res = s.c.Get(c.wire, s.e.answerWait)
		} else {
			res = s.c.Post(c.wire, s.e.answerWait)
		}
		if res.Outcome != tbench.Failed {
			break
		}

		s.e.r.Bucket("http_transport_retry:"+s.p.name, 1)
	}

	select {
	case rec := <-ch:
		o.hrec = &rec
	default:
	}

	s.e.r.Bucket("http_proto:"+s.p.name+":"+res.HTTPProto, 1)
	switch {
	case res.Outcome == tbench.Answered && len(res.Responses) == 1:
		o.outcome, o.msg, o.wireLen = answered, res.Responses[0], res.WireLens[0]
	case res.Outcome == tbench.HTTPStatus:
		o.outcome = fmt.Sprintf("no-response: HTTP status %d", res.HTTPStatus)
	case res.Outcome == tbench.Failed:
		s.e.infraFailure(s.p.name+":http", fmt.Errorf("%s", res.Err))
		o.outcome = "infra: " + res.Err
	default:
		o.outcome = "no-response: " + string(res.Outcome) + " " + res.Err
	}

	return o
}

func (s *dohSession) finish() {}

type doqSession struct {
	e *env
	p *pathDef
	c *tbench.QUICClient
}

func (s *doqSession) exchange(c *cell) (o observation) {
	ch := s.e.h.expect(c.idx)
	defer s.e.h.forget(c.idx)

	for attempt := 0; ; attempt++ {
		if s.c == nil || !s.c.Alive() {
			if s.c != nil {
				_ = s.c.Close()
			}

			var err error
			s.c, err = s.e.benches[s.p.bench].DialDoQ()
			if err != nil {
				s.c = nil
				s.e.infraFailure(s.p.name+":dial", err)
				if attempt < 2 {
					time.Sleep(100 * time.Millisecond)

					continue
				}

				return observation{outcome: "infra: dial: " + err.Error()}
			}
		}

		break
	}

	o.tries = 1
	res := s.c.Exchange(c.wire, s.e.answerWait)
	select {
	case rec := <-ch:
		o.hrec = &rec
	default:
	}

	switch res.Outcome {
	case tbench.Answered:
		o.outcome, o.msg, o.wireLen = answered, res.Responses[0], res.WireLens[0]
		id, ok := idOf(o.msg)
		if len(res.Responses) != 1 || len(res.Trailing) != 0 || !ok || id != c.id || !wireComplete(o.msg) {
			total := len(res.Trailing)
			for _, f := range res.Responses {
				total += 2 + len(f)
			}
			o.framing = fmt.Sprintf("the stream carried %d bytes: first prefix announces %d, %d frames, %d trailing bytes; the first frame is not the complete answer or is not alone",
				total, res.WireLens[0], len(res.Responses), len(res.Trailing))
		}
	case tbench.Closed:
		o.outcome = fmt.Sprintf("no-response: stream ended after %d bytes without a complete frame", len(res.Trailing))
		if len(res.Trailing) > 0 {
			o.framing = fmt.Sprintf("the stream ended after %d bytes that are not a complete frame (start %x)", len(res.Trailing), res.Trailing[:min(len(res.Trailing), 16)])
		}
	case tbench.QUICError:
		o.outcome = fmt.Sprintf("no-response: QUIC %s error code %d remote=%t", res.QUICKind, res.QUICCode, res.QUICRemote)
		if len(res.Responses) > 0 || len(res.Trailing) > 0 {
			o.framing = fmt.Sprintf("QUIC error after %d frames and %d trailing bytes", len(res.Responses), len(res.Trailing))
		}
		_ = s.c.Close()
		s.c = nil
	default:
		o.outcome = "no-response: " + string(res.Outcome) + " " + res.Err
		_ = s.c.Close()
		s.c = nil
	}

	return o
}

func (s *doqSession) finish() {
	if s.c != nil {
		_ = s.c.Close()
	}
}

func (e *env) newSession(p *pathDef) session {
	switch p.family {
	case famUDP, famDCUDP:
		return &dgramSession{e: e, p: p}
	case famTCP, famDoT, famDCTCP:
		return &streamSession{e: e, p: p}
	case famDoH:
		return &dohSession{e: e, p: p, c: e.http[p.name]}
	default:
		return &doqSession{e: e, p: p}
	}
}

// run evaluates all cells, a few workers per path, all paths at once.
func (e *env) run(paths []*pathDef, cells []*cell) {
	byPath := map[*pathDef][]*cell{}
	for _, c := range cells {
		byPath[c.path] = append(byPath[c.path], c)
	}

	var wg sync.WaitGroup
	for _, p := range paths {
		list := byPath[p]
		if len(list) == 0 {
			continue
		}

		ch := make(chan *cell)
		for w := 0; w < p.workers; w++ {
			wg.Add(1)
			go func() {
				defer wg.Done()

				s := e.newSession(p)
				defer s.finish()

				for c := range ch {
					e.one(s, c)
				}
			}()
		}

		wg.Add(1)
		go func() {
			defer wg.Done()
			defer close(ch)

			for _, c := range list {
				ch <- c
			}
		}()
	}

	wg.Wait()
}

func (e *env) one(s session, c *cell) {
	defer func() {
		if p := recover(); p != nil {
			w := c.witness()
			w["panic"] = fmt.Sprint(p)
			e.r.Sample(w)
			e.r.Inconclusive(fmt.Sprintf("the harness panicked on cell %d: %v", c.idx, p))
		}
	}()

	o := s.exchange(c)
	e.judge(c, o)
}
