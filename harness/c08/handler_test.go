package c08

import (
	"context"
	"errors"
	"fmt"
	"net"
	"os"
	"strconv"
	"strings"
	"sync"
	"sync/atomic"
	"time"

	"github.com/AdguardTeam/AdGuardDNS/internal/dnsserver"
	"github.com/miekg/dns"
)

// Handler H8.  The size and the shape of its response are encoded in the
// query name:
//
//	c<cell>.t<target>.<mix>.<kind>.o<ownopt>.e<propagate>.h8.test.
//
// target  packed size (with compression, which every server turns on) of the
//
//	message handed to ResponseWriter.WriteMsg, 0…80000
//
// mix     an | ns | ar | mix | a1x : which sections carry the payload
// kind    txt | a | ai | nsr : payload records (big TXT; A with the question
//
//	name as owner = compressible; A with unique single-label owners =
//	incompressible; NS whose rdata names compress against the question)
//
// ownopt  0 no OPT | 1 plain OPT | 2 odd OPT (version 1, size 999, Z bits, an
//
//	NSID option of its own)
//
// propagate 1: the handler returns the error of WriteMsg (the server then
//
//	tries a SERVFAIL), 0: it swallows it.
//
// buildResp is a pure function of the request; the oracle calls it again on
// the client side to know what the handler handed to the server.

type shape struct {
	Cell      int    `json:"cell"`
	T         int    `json:"target_size"`
	Mix       string `json:"mix"`
	Kind      string `json:"kind"`
	OwnOPT    int    `json:"own_opt"`
	Propagate bool   `json:"propagate_write_error"`
	// NoWrite: "" the handler writes; "nil" it returns nil without writing
	// (what a rate limiter or an access check does when it drops a query);
	// "error" it returns an error without writing; "timeout" / "deadline" the
	// error is of the kind the servers treat as a non-critical network error
	// (a net.Error with Timeout, os.ErrDeadlineExceeded).
	NoWrite string `json:"handler_writes_nothing,omitempty"`
	// Park: the handler reports that it holds the query and writes only when
	// the driver releases it (shutdown phase).
	Park bool `json:"park,omitempty"`
}

var (
	mixes = []string{"an", "ns", "ar", "mix", "a1x"}
	kinds = []string{"txt", "a", "ai", "nsr"}
)

func (s shape) qname() string {
	e := 0
	switch {
	case s.NoWrite == "nil":
		e = 2
	case s.NoWrite == "error":
		e = 3
	case s.NoWrite == "timeout":
		e = 4
	case s.NoWrite == "deadline":
		e = 5
	case s.Park:
		e = 6
	case s.Propagate:
		e = 1
	}

	return fmt.Sprintf("c%07d.t%d.%s.%s.o%d.e%d.h8.test.", s.Cell, s.T, s.Mix, s.Kind, s.OwnOPT, e)
}

func parseShape(qname string) (s shape, err error) {
	labels := strings.Split(strings.ToLower(strings.TrimSuffix(qname, ".")), ".")
	if len(labels) != 8 || labels[6] != "h8" || labels[7] != "test" {
		return s, fmt.Errorf("c08: not an H8 name: %q", qname)
	}

	num := func(l string, pfx byte) (n int, nErr error) {
		if len(l) < 2 || l[0] != pfx {
			return 0, fmt.Errorf("c08: bad label %q in %q", l, qname)
		}

		return strconv.Atoi(l[1:])
	}

	if s.Cell, err = num(labels[0], 'c'); err != nil {
		return s, err
	}
	if s.T, err = num(labels[1], 't'); err != nil {
		return s, err
	}
	s.Mix, s.Kind = labels[2], labels[3]
	if s.OwnOPT, err = num(labels[4], 'o'); err != nil {
		return s, err
	}
	e, err := num(labels[5], 'e')
	if err != nil {
		return s, err
	}
	s.Propagate = e == 1
	switch e {
	case 2:
		s.NoWrite = "nil"
	case 3:
		s.NoWrite = "error"
	case 4:
		s.NoWrite = "timeout"
	case 5:
		s.NoWrite = "deadline"
	case 6:
		s.Park = true
	}

	return s, nil
}

// txtOfRdlen returns the strings of a TXT record whose rdata is exactly rdlen
// bytes (rdlen >= 1): strings of 255 bytes and one shorter one.
func txtOfRdlen(rdlen int, fill byte) (txt []string) {
	for rdlen > 0 {
		n := min(rdlen, 256)
		txt = append(txt, strings.Repeat(string(rune(fill)), n-1))
		rdlen -= n
	}

	return txt
}

// minFiller is the smallest wire size of the filler TXT record (owner =
// compression pointer to the question name): 2 + 10 + 1.
const minFiller = 13

func fillerTXT(qname string, wire int) (rr dns.RR) {
	return &dns.TXT{
		Hdr: dns.RR_Header{Name: qname, Rrtype: dns.TypeTXT, Class: dns.ClassINET, Ttl: 60},
		Txt: txtOfRdlen(wire-12, 'f'),
	}
}

// payloadRR returns the i-th payload record of the kind and its wire size
// when the question name is at offset 12.  want is how many bytes are left to
// fill (only TXT adapts to it).
func payloadRR(kind, qname string, i, want int) (rr dns.RR, wire int) {
	switch kind {
	case "a":
		return &dns.A{
			Hdr: dns.RR_Header{Name: qname, Rrtype: dns.TypeA, Class: dns.ClassINET, Ttl: 60},
			A:   []byte{10, byte(i >> 16), byte(i >> 8), byte(i)},
		}, 16
	case "ai":
		return &dns.A{
			Hdr: dns.RR_Header{Name: fmt.Sprintf("n%07d.", i), Rrtype: dns.TypeA, Class: dns.ClassINET, Ttl: 60},
			A:   []byte{10, byte(i >> 16), byte(i >> 8), byte(i)},
		}, 24
	case "nsr":
		return &dns.NS{
			Hdr: dns.RR_Header{Name: qname, Rrtype: dns.TypeNS, Class: dns.ClassINET, Ttl: 60},
			Ns:  fmt.Sprintf("s%05d.%s", i, qname),
		}, 21
	default:
		// Big TXT records of up to 2 KiB of rdata.
		rdlen := min(2048, want-12-minFiller)
		if rdlen < 1 {
			rdlen = 1
		}

		return &dns.TXT{
			Hdr: dns.RR_Header{Name: qname, Rrtype: dns.TypeTXT, Class: dns.ClassINET, Ttl: 60},
			Txt: txtOfRdlen(rdlen, byte('a'+i%26)),
		}, 12 + rdlen
	}
}

// Own-OPT variants 3..5 are what an UPSTREAM puts into its answers; they are
// only used behind the ECS-cache middleware, which documents that it removes
// every option but the Extended DNS Error from an upstream's OPT:
//
//	3  EDE + the hop-by-hop options the forwarded query asked for (padding,
//	   keep-alive, cookie, NSID)
//	4  EDE + padding + keep-alive + NSID + cookie, unsolicited
//	5  padding + keep-alive without EDE
func ownOPT(variant int, req *dns.Msg) (opt *dns.OPT) {
	ede := &dns.EDNS0_EDE{InfoCode: dns.ExtendedErrorCodeStaleAnswer, ExtraText: "h8"}
	pad := &dns.EDNS0_PADDING{Padding: make([]byte, 12)}
	ka := &dns.EDNS0_TCP_KEEPALIVE{Code: dns.EDNS0TCPKEEPALIVE, Timeout: 100}
	nsid := &dns.EDNS0_NSID{Code: dns.EDNS0NSID, Nsid: "7570"}
	cookie := &dns.EDNS0_COOKIE{Code: dns.EDNS0COOKIE, Cookie: "0102030405060708aabbccddeeff0011"}

	switch variant {
	case 3:
		opt = &dns.OPT{Hdr: dns.RR_Header{Name: ".", Rrtype: dns.TypeOPT}, Option: []dns.EDNS0{ede}}
		opt.SetUDPSize(1232)
		if ro := req.IsEdns0(); ro != nil {
			for _, o := range ro.Option {
				switch o.Option() {
				case dns.EDNS0PADDING:
					opt.Option = append(opt.Option, pad)
				case dns.EDNS0TCPKEEPALIVE:
					opt.Option = append(opt.Option, ka)
				case dns.EDNS0NSID:
					opt.Option = append(opt.Option, nsid)
				case dns.EDNS0COOKIE:
					opt.Option = append(opt.Option, cookie)
				}
			}
		}

		return opt
	case 4:
		opt = &dns.OPT{Hdr: dns.RR_Header{Name: ".", Rrtype: dns.TypeOPT}, Option: []dns.EDNS0{pad, ede, ka, nsid, cookie}}
		opt.SetUDPSize(1232)

		return opt
	case 5:
		opt = &dns.OPT{Hdr: dns.RR_Header{Name: ".", Rrtype: dns.TypeOPT}, Option: []dns.EDNS0{pad, ka}}
		opt.SetUDPSize(1232)

		return opt
	}

	switch variant {
	case 1:
		opt = &dns.OPT{Hdr: dns.RR_Header{Name: ".", Rrtype: dns.TypeOPT}}
		opt.SetUDPSize(4096)

		return opt
	case 2:
		opt = &dns.OPT{Hdr: dns.RR_Header{Name: ".", Rrtype: dns.TypeOPT}}
		opt.SetUDPSize(999)
		opt.SetVersion(1)
		opt.Hdr.Ttl |= 0x0055 // Z bits
		opt.Option = append(opt.Option, &dns.EDNS0_NSID{Code: dns.EDNS0NSID, Nsid: "6838"})

		return opt
	default:
		return nil
	}
}

// distribute puts the payload records and the filler into the sections.
func distribute(m *dns.Msg, mix string, recs []dns.RR, filler dns.RR, opt *dns.OPT) {
	m.Answer, m.Ns, m.Extra = nil, nil, nil
	all := recs
	if filler != nil {
		all = append(append([]dns.RR(nil), recs...), filler)
	}

	switch mix {
	case "an":
		m.Answer = all
	case "ns":
		m.Ns = all
	case "ar":
		m.Extra = all
	case "a1x":
		if len(all) > 0 {
			m.Answer = all[:1]
			m.Extra = append([]dns.RR(nil), all[1:]...)
		}
	default:
		k := (len(all) + 2) / 3
		m.Answer = all[:min(k, len(all))]
		if len(all) > k {
			m.Ns = all[k:min(2*k, len(all))]
		}
		if len(all) > 2*k {
			m.Extra = append([]dns.RR(nil), all[2*k:]...)
		}
	}

	if opt != nil {
		m.Extra = append(m.Extra, opt)
	}
}

// buildResp builds the message H8 hands to the server for req.  size is the
// packed size (with compression) of that message; it equals the target
// wherever the target is reachable (target >= size of the empty response + 13,
// or equal to it).
func buildResp(req *dns.Msg) (m *dns.Msg, sh shape, size int, err error) {
	if len(req.Question) != 1 {
		return nil, sh, 0, fmt.Errorf("c08: %d questions", len(req.Question))
	}

	sh, err = parseShape(req.Question[0].Name)
	if err != nil {
		return nil, sh, 0, err
	}

	if sh.OwnOPT < 3 {
		return buildRespVariant(req, sh.OwnOPT)
	}

	// An upstream's OPT depends on the options of the query it was sent; the
	// records must not (a cached answer is compared with the model of a later
	// client), so they are sized without it and the OPT is added afterwards.
	m, sh, _, err = buildRespVariant(req, 0)
	if err != nil {
		return nil, sh, 0, err
	}

	m.Extra = append(m.Extra, ownOPT(sh.OwnOPT, req))
	size, err = packedLen(m)

	return m, sh, size, err
}

// buildRespVariant is buildResp with the given own-OPT variant (0..2).
func buildRespVariant(req *dns.Msg, variant int) (m *dns.Msg, sh shape, size int, err error) {
	if len(req.Question) != 1 {
		return nil, sh, 0, fmt.Errorf("c08: %d questions", len(req.Question))
	}

	qname := req.Question[0].Name
	sh, err = parseShape(qname)
	if err != nil {
		return nil, sh, 0, err
	}

	if isStoredKind(sh.Kind) {
		m, size, err = storedModel(req, sh)

		return m, sh, size, err
	}

	if sh.NoWrite != "" {
		// Nothing is handed to the server; the model keeps the empty reply for
		// the size classes only.
		m = &dns.Msg{}
		m.SetReply(req)
		size, err = packedLen(m)

		return m, sh, size, err
	}

	m = &dns.Msg{}
	m.SetReply(req)
	m.RecursionAvailable = true
	m.Compress = true

	opt := ownOPT(variant, req)
	distribute(m, sh.Mix, nil, nil, opt)

	base, err := packedLen(m)
	if err != nil {
		return nil, sh, 0, err
	}

	if sh.T < base+minFiller {
		return m, sh, base, nil
	}

	var recs []dns.RR
	left := sh.T - base
	for i := 0; ; i++ {
		rr, wire := payloadRR(sh.Kind, qname, i, left)
		if left != wire && left < wire+minFiller {
			break
		}

		recs = append(recs, rr)
		left -= wire
		if left == 0 {
			break
		}
	}

	// The estimate of the record sizes is verified by packing; the filler
	// absorbs any difference.
	fill := left
	for attempt := 0; attempt < 4; attempt++ {
		var filler dns.RR
		if fill >= minFiller {
			filler = fillerTXT(qname, fill)
		}

		distribute(m, sh.Mix, recs, filler, opt)
		size, err = packedLen(m)
		if err != nil {
			return nil, sh, 0, err
		}

		if size == sh.T {
			return m, sh, size, nil
		}

		fill += sh.T - size
		if fill < minFiller {
			if len(recs) == 0 {
				break
			}

			// Give the filler the room of the last payload record.
			recs = recs[:len(recs)-1]
			distribute(m, sh.Mix, recs, nil, opt)
			s2, pErr := packedLen(m)
			if pErr != nil {
				return nil, sh, 0, pErr
			}
			fill = sh.T - s2
		}
	}

	// Not reached exactly (does not happen for the grid's sizes): report what
	// the message really is.
	size, err = packedLen(m)

	return m, sh, size, err
}

func packedLen(m *dns.Msg) (n int, err error) {
	c := *m
	c.Compress = true
	b, err := c.Pack()
	if err != nil {
		return 0, fmt.Errorf("c08: packing the handler response: %w", err)
	}

	return len(b), nil
}

// timeoutErr is a net.Error whose Timeout is true.
type timeoutErr struct{}

func (timeoutErr) Error() string   { return "c08: scripted i/o timeout" }
func (timeoutErr) Timeout() bool   { return true }
func (timeoutErr) Temporary() bool { return true }

var errNoWrite = errors.New("c08: scripted handler failure without a response")

// hRecord is what H8 observed for one invocation.
type hRecord struct {
	Server   string `json:"server"`
	WriteErr string `json:"write_err,omitempty"`
	NoWrite  string `json:"handler_wrote_nothing,omitempty"`
	Parked   bool   `json:"parked,omitempty"`
	Size     int    `json:"handler_size"`
	// UpstreamCalls is, in the ecs-cache phase, how many times the scripted
	// upstream was called for this request (0: served from cache).
	UpstreamCalls int `json:"upstream_calls"`
}

// h8 is the handler given to the servers.  It reports every invocation to the
// client that registered the cell.
type h8 struct {
	invocations atomic.Int64
	buildErrors atomic.Int64
	firstErr    atomic.Value // string

	// pooled answers the stored kinds from the shared Cloner.
	pooled *pooledState

	// park releases the parked queries (shutdown phase).
	park parkGate

	mu      sync.Mutex
	waiters map[int]chan hRecord
}

func newH8() *h8 { return &h8{waiters: map[int]chan hRecord{}, pooled: newPooledState()} }

// expect registers the cell and returns the channel on which the invocations
// for it are reported.
func (h *h8) expect(cell int) (ch chan hRecord) {
	ch = make(chan hRecord, 8)
	h.mu.Lock()
	h.waiters[cell] = ch
	h.mu.Unlock()

	return ch
}

func (h *h8) forget(cell int) {
	h.mu.Lock()
	delete(h.waiters, cell)
	h.mu.Unlock()
}

// report hands rec to the client that registered the cell, if any.
func (h *h8) report(cell int, rec hRecord) {
	h.mu.Lock()
	ch := h.waiters[cell]
	h.mu.Unlock()
	if ch != nil {
		select {
		case ch <- rec:
		default:
		}
	}
}

// ServeDNS implements dnsserver.Handler.
func (h *h8) ServeDNS(ctx context.Context, rw dnsserver.ResponseWriter, req *dns.Msg) (err error) {
	h.invocations.Add(1)

	resp, sh, size, err := buildResp(req)
	if err != nil {
		h.buildErrors.Add(1)
		srv := "?"
		if si, ok := dnsserver.ServerInfoFromContext(ctx); ok {
			srv = si.Name
		}
		h.firstErr.CompareAndSwap(nil, fmt.Sprintf("%s: %v; request: %s", srv, err, strings.ReplaceAll(req.String(), "\n", " | ")))

		return err
	}

	rec := hRecord{Size: size}
	if si, ok := dnsserver.ServerInfoFromContext(ctx); ok {
		rec.Server = si.Name
	}

	if sh.Park {
		h.report(sh.Cell, hRecord{Server: rec.Server, Size: size, Parked: true})
		if ch := h.park.current(); ch != nil {
			select {
			case <-ch:
			case <-time.After(30 * time.Second):
			}
		}
	}

	if sh.NoWrite != "" {
		// The server is on its own.
		rec.NoWrite = sh.NoWrite
		h.report(sh.Cell, rec)
		switch sh.NoWrite {
		case "error":
			return errNoWrite
		case "timeout":
			// What an upstream exchange that timed out returns.
			return fmt.Errorf("c08: upstream: %w", &net.OpError{Op: "read", Net: "udp", Err: timeoutErr{}})
		case "deadline":
			return fmt.Errorf("c08: upstream: %w", os.ErrDeadlineExceeded)
		}

		return nil
	}

	if isStoredKind(sh.Kind) {
		// Answer like the cache does: a pooled clone of the stored message.
		// (size stays the model's: what the stored message amounts to.)
		resp = h.pooled.respond(req, sh)
	}

	wErr := rw.WriteMsg(ctx, req, resp)
	if wErr != nil {
		rec.WriteErr = wErr.Error()
	}

	h.report(sh.Cell, rec)

	if sh.Propagate {
		return wErr
	}

	return nil
}
