// Package c08 monitors property C08: responses respect the transport's size
// limit, are truncated safely, and follow the OPT / padding / keep-alive rules.
package c08

import (
	"fmt"
	"sort"
	"testing"
	"time"

	"github.com/AdguardTeam/AdGuardDNS/verif/tbench"
	"github.com/AdguardTeam/AdGuardDNS/verif/vkit"
)

func TestCheck(t *testing.T) {
	r := vkit.Start(t, "C08", "exploration")
	defer r.Finish()

	r.Rule("Grid: transport path (plain UDP against six servers with MaxUDPRespSize 0/512/1024/1232/4096/65535, TCP, DoT, DoQ, " +
		"DoH h2 POST/GET, h1 POST, plain-HTTP POST, the JSON endpoint asked for wire format (h2, h1), h3 in the thorough tier, DNSCrypt UDP/TCP) x advertised EDNS size " +
		"{no OPT,0,511,512,513,1232,4096,65535} x request option subset (16 subsets of DO, padding, keep-alive, NSID 0/5/50/200, " +
		"cookie, ECS) x TTL field of the request OPT (plain, EDNS version 1/2/255, extended RCODE, Z bits, all three; sampled per cell and " +
		"enumerated against every path and handler OPT kind in the boundary group opt-ttl) x handler response without / with a plain / with an odd OPT x handler response size (general sizes, " +
		"limit-12..limit+1 around every effective UDP limit, sizes that make the response plus the OPT the server adds land " +
		"on the limit, 65490..65536 around the stream maximum, 70000, 80000). Section mix, payload kind (big TXT, A with " +
		"compressible / incompressible owners, NS with compressible rdata) and whether the handler propagates write errors " +
		"are drawn from the seed per cell. The handler steers the packed size of its response to the byte. " +
		"The boundary cells (see boundaryProtos) are evaluated in every run; the quick tier adds a seed-determined sample of " +
		"the rest, the thorough tier the whole grid. A cell is non-trivial when a response came back and was judged; its class is " +
		"(family, configured max, advertised, option subset, own OPT, section mix, payload kind, position of the full response " +
		"relative to the limit, outcome complete/truncated/error).")
	r.Assume("shared-cloner phase: one dnsmsg.Cloner is the Disposer of all servers of a separate bench and the handler answers from Cloner.Clone of stored messages (bare OPT, empty option list, one EDE option, unpacked bare OPT, no OPT); " +
		"batches of clients that ask for padding/keep-alive (DoT, TCP, DoH, DoQ) alternate with batches of clients that ask for neither on every transport; reuse of disposed OPT records is measured by pointer identity in the handler")
	r.Assume("ecs-cache phase: the handler is ecscache.NewMiddleware (context with agd.RequestInfo, Cloner shared with the servers' Disposer) over a scripted upstream answering with H8's responses; " +
		"every name is asked three times (miss, then hits over other transports / advertised sizes); the upstream's answers carry no OPT, or an OPT with an Extended DNS Error option plus the hop-by-hop options the forwarded query asked for " +
		"(padding, keep-alive, cookie, NSID), or plus all of them unsolicited, or padding + keep-alive without EDE; in a third of the histories the first client asks for padding / keep-alive over DoT, TCP, DoH or DoQ, the later clients never do; responses are judged against the request the client sent; record TTLs are not compared there (the cache counts them down)")
	r.Assume("a handler that is not part of the repository and edits the request object before passing it to WriteMsg is outside the quantifier (the ResponseWriter contract makes the request it is given the client's request); the repository's own middlewares are inside, hence the ecs-cache phase")
	r.Assume("json-wire paths: GET /resolve?...&ct=application/dns-message returns wire format from the JSON endpoint; the client cannot send an OPT there (the server builds the query, with an OPT of its own only for do=1), " +
		"so the size bound, the truncation rules and the padding / keep-alive rules are judged, the OPT-echo rule is not")
	r.Assume("shutdown phase: the handler parks queries on dedicated TCP / DoT servers, the driver starts Shutdown, waits until the listener refuses connections (the server marks itself as stopped before closing its listeners), releases the handlers and judges the responses by the ordinary rules")
	r.Assume("a configured maximum of 0 (the zero value of ConfigDNS.MaxUDPRespSize, which is all a direct user of the package gets; its doc comment names no default) is a configured maximum like any other: the statement's formula gives the bound max(512, min(advertised, 0)) = 512")
	r.Assume("silent-handler cells: the handler returns nil or an error WITHOUT writing; the plain UDP/TCP/DoT servers document silence / closing the connection for nil and DoH answers HTTP 500, which are recorded as no-response; every DNS response a server generates itself (SERVFAIL) is judged by the OPT, size, padding and keep-alive rules like any other")
	r.Assume("the client's UDP size = the CLASS field of the request's OPT, verbatim (normalize documents reqOpt.UDPSize())")
	r.Assume("DNSCrypt has no configured maximum (the server passes 65535); its bound is max(512, advertised), compared with the decrypted, unpadded DNS message, which is exact")
	r.Assume("the plain-HTTP DoH instance (meant to sit behind a TLS terminator) counts as DoH, i.e. as an encrypted transport, for the padding rule")
	r.Assume("UDP requests stay below 512 bytes (default read buffer of the plain server)")
	r.Assume("no response at all (packing refused, EMSGSIZE from the kernel for datagrams above 65507 bytes, QUIC connection closed) satisfies the size bound; it is recorded in buckets no_response:*")
	r.Assume("an error response (rcode other than NOERROR, e.g. the SERVFAIL written when the handler returns the write error) is judged for size, OPT, padding and keep-alive but not as a truncated answer")

	h := newH8()
	e := &env{
		r: r, h: h, http: map[string]*tbench.HTTPClient{},
		answerWait: 30 * time.Second, reportWait: 5 * time.Second, dgramWait: 3 * time.Second,
		dcEncOver: -1 << 30, overshoot: map[string]int{}, closest: map[string]map[string]any{}, samples: map[string]bool{},
	}

	// One plain-DNS server per configured maximum; the first bench also runs
	// the servers that have no such setting.
	for i, cfg := range configuredMaxima {
		conf := tbench.Config{
			Handler: h,
			DNS:     tbench.StreamOptions{MaxUDPRespSize: uint16(cfg)},
			Only:    []tbench.Server{tbench.SrvDNS},
		}
		if i == 0 {
			conf.Only = nil
			conf.EnableH3 = r.Thorough()
		}

		b, err := tbench.Start(conf)
		if err != nil {
			r.Sample(map[string]any{"setup_error": err.Error()})
			r.Inconclusive("cannot start the transport bench: " + err.Error())

			return
		}
		defer func() {
			if cErr := b.Close(); cErr != nil {
				r.Extra("shutdown_error", cErr.Error())
			}
		}()

		e.benches = append(e.benches, b)
	}

	// The bench with the production wiring: one Cloner is the Disposer of all
	// servers and the handler answers from its pooled clones.
	pb, err := tbench.Start(tbench.Config{
		Handler: h, Disposer: h.pooled.cloner, DNS: tbench.StreamOptions{MaxUDPRespSize: 4096},
	})
	if err != nil {
		r.Sample(map[string]any{"setup_error": err.Error()})
		r.Inconclusive("cannot start the shared-cloner bench: " + err.Error())

		return
	}
	defer func() {
		if cErr := pb.Close(); cErr != nil {
			r.Extra("shutdown_error_shared_cloner_bench", cErr.Error())
		}
	}()
	e.benches = append(e.benches, pb)
	poolPaths := pooledPaths(len(e.benches) - 1)

	// The bench whose handler is the real ECS-cache middleware.
	ecs := newECSState(h)
	eb, err := tbench.Start(tbench.Config{
		Handler: ecs, Disposer: ecs.cloner, DNS: tbench.StreamOptions{MaxUDPRespSize: 4096},
	})
	if err != nil {
		r.Sample(map[string]any{"setup_error": err.Error()})
		r.Inconclusive("cannot start the ecs-cache bench: " + err.Error())

		return
	}
	defer func() {
		if cErr := eb.Close(); cErr != nil {
			r.Extra("shutdown_error_ecs_cache_bench", cErr.Error())
		}
	}()
	e.benches = append(e.benches, eb)
	ecsP := ecsPaths(len(e.benches) - 1)

	var paths []*pathDef
	for i, cfg := range configuredMaxima {
		paths = append(paths, &pathDef{name: fmt.Sprintf("udp@%d", cfg), family: famUDP, bench: i, cfg: cfg, workers: 2})
	}
	paths = append(paths,
		&pathDef{name: "tcp", family: famTCP, bench: 0, cfg: 512, workers: 3},
		&pathDef{name: "tcp@65535", family: famTCP, bench: 4, cfg: 65535, workers: 1},
		&pathDef{name: "dot", family: famDoT, workers: 4},
		&pathDef{name: "doq", family: famDoQ, workers: 3},
		&pathDef{name: "doh-h2-post", family: famDoH, variant: tbench.HTTP2, workers: 3},
		&pathDef{name: "doh-h2-get", family: famDoH, variant: tbench.HTTP2, get: true, workers: 2},
		&pathDef{name: "doh-h1-post", family: famDoH, variant: tbench.HTTP1TLS, workers: 2},
		&pathDef{name: "doh-plain-post", family: famDoH, variant: tbench.HTTPPlain, workers: 2},
		&pathDef{name: "doh-h2-json-wire", family: famDoH, variant: tbench.HTTP2, jsonWire: true, workers: 2},
		&pathDef{name: "doh-h1-json-wire", family: famDoH, variant: tbench.HTTP1TLS, jsonWire: true, workers: 2},
		&pathDef{name: "dnscrypt-udp", family: famDCUDP, cfg: 65535, workers: 3},
		&pathDef{name: "dnscrypt-tcp", family: famDCTCP, workers: 2},
	)
	if r.Thorough() {
		paths = append(paths, &pathDef{name: "doh-h3-post", family: famDoH, variant: tbench.HTTP3, h3: true, workers: 2},
			&pathDef{name: "doh-h3-json-wire", family: famDoH, variant: tbench.HTTP3, h3: true, jsonWire: true, workers: 2})
	}

	for _, p := range append(append(append([]*pathDef(nil), paths...), poolPaths...), ecsP...) {
		if p.family != famDoH {
			continue
		}

		c, err := e.benches[p.bench].NewHTTPClient(p.variant)
		if err != nil {
			r.Sample(map[string]any{"setup_error": err.Error()})
			r.Inconclusive("cannot create the " + string(p.variant) + " client: " + err.Error())

			return
		}
		e.http[p.name] = c
	}

	// The case list.
	boundary := boundaryProtos(paths)
	grid := gridProtos(paths)
	protos := append([]proto(nil), boundary...)
	if r.Thorough() {
		protos = append(protos, grid...)
	} else {
		protos = append(protos, sampleProtos(r, grid, 4500)...)
	}
	r.Extra("grid_enumerated_completely", r.Thorough())
	r.Extra("grid_cells_total", len(grid))
	r.Extra("boundary_cells_total", len(boundary))

	cells, err := buildCells(r, protos)
	if err != nil {
		r.Inconclusive("cannot build the cells: " + err.Error())

		return
	}

	// The shared-cloner histories run first, while the process is quiet (the
	// pools are emptied by garbage collections).
	nA, nB, rounds, err := e.runPooled(poolPaths, len(cells), r.N(12, 60), r.N(60, 200), int64(r.N(200, 1000)))
	if err != nil {
		r.Inconclusive("cannot build the shared-cloner cells: " + err.Error())

		return
	}
	clones, granted, reused := h.pooled.counts()
	r.Bucket("shared_cloner:cells_class_A(ask for padding/keep-alive)", int64(nA))
	r.Bucket("shared_cloner:cells_class_B(ask for neither)", int64(nB))
	r.Bucket("shared_cloner:handler_clones", clones)
	r.Bucket("shared_cloner:rounds", int64(rounds))
	r.Bucket("shared_cloner:clones_handed_out_for_class_A", granted)
	r.Bucket("shared_cloner:class_B_responses_built_on_an_OPT_disposed_after_class_A", reused)

	// Queries answered while the server shuts down.
	e.runShutdown(len(cells)+200_000, r.N(3, 12))

	// The ecs-cache histories.
	nHist := r.N(600, 4000)
	if err = e.runECS(ecsP, len(cells)+100_000, nHist, 6); err != nil {
		r.Inconclusive("cannot build the ecs-cache cells: " + err.Error())

		return
	}
	r.Bucket("ecs_cache:histories", int64(nHist))

	e.run(paths, cells)

	// Evidence.
	r.Bucket("cells_total", int64(len(cells)))
	r.Bucket("handler_invocations", h.invocations.Load())
	if n := h.buildErrors.Load(); n > 0 {
		// Queries that are not cells of this run (a stray datagram of another
		// process that used the port before).  A failure on a cell of this
		// run would also fail in the model, which is inconclusive there.
		r.Bucket("queries_not_from_this_run_seen_by_handler", n)
		r.Extra("first_query_not_from_this_run", h.firstErr.Load())
		if n > 50 {
			r.Inconclusive(fmt.Sprintf("the handler could not build %d responses; first: %v", n, h.firstErr.Load()))
		}
	}

	e.mu.Lock()
	maxOver := -1 << 30
	fams := make([]string, 0, len(e.overshoot))
	for f, d := range e.overshoot {
		fams = append(fams, f)
		maxOver = max(maxOver, d)
	}
	sort.Strings(fams)
	r.Extra("max_overshoot_by_family", e.overshoot)
	r.Extra("closest_to_limit_by_family", e.closest)
	r.Extra("max_overshoot", maxOver)
	r.Extra("dnscrypt_udp_max_encrypted_datagram_minus_limit_informational", e.dcEncOver)
	infra := e.infra
	for _, f := range fams {
		if e.overshoot[f] == 0 {
			r.Bucket("limit_reached_exactly:"+f, 1)
		}
	}
	e.mu.Unlock()

	if infra > 20 {
		r.Inconclusive(fmt.Sprintf("%d client-side infrastructure failures, see buckets infra_failure:*", infra))
	}

	// Coverage gates, far below what the unchanged tree produces.
	nb := int64(len(boundary))
	r.Require("boundary_cells_run", nb)
	r.Require("boundary_cells_judged", nb*7/10)
	for _, p := range paths {
		n := 0
		for _, c := range cells {
			if c.path == p {
				n++
			}
		}
		r.Bucket("cells_assigned:"+p.name, int64(n))
	}
	for _, f := range []string{famUDP, famDCUDP} {
		r.Require("boundary_group:udp-limit:"+f, 60)
		r.Require("boundary_group:udp-limit-reflected-nsid:"+f, 20)
	}
	r.Require("boundary_group:stream-max-keepalive:"+famTCP, 5)
	r.Require("boundary_group:stream-max-padding:"+famDoT, 5)
	r.Require("boundary_group:stream-max-padding:"+famDoQ, 5)
	r.Require("boundary_group:stream-max-padding:"+famDoH, 30)
	for _, f := range []string{famUDP, famTCP, famDoT, famDoQ, famDoH, famDCUDP, famDCTCP} {
		r.Require("boundary_group:opt-ttl:"+f, 20)
	}
	r.Require("opt_version_checked:server-built-opt:request-version=1", 20)
	r.Require("opt_version_checked:server-built-opt:request-version=255", 10)
	r.Require("opt_version_checked:handler-opt=2:request-version=2", 5)
	r.Require("shared_cloner:class_B_responses_built_on_an_OPT_disposed_after_class_A", int64(r.N(60, 300)))
	for _, f := range []string{famUDP, famTCP, famDoT, famDoQ, famDoH, famDCUDP, famDCTCP} {
		r.Require("boundary_group:shared-cloner-B:"+f, int64(r.N(30, 150)))
	}
	r.Require("boundary_group:shared-cloner-A:"+famDoT, int64(r.N(100, 500)))
	r.Require("ecs_cache:miss:datagram-client-advertising-less-than-4096-and-answer-larger-than-that", int64(r.N(120, 1200)))
	r.Require("ecs_cache:hit:datagram-client-advertising-less-than-4096-and-answer-larger-than-that", int64(r.N(100, 1000)))
	r.Require("ecs_cache:hit:client-asking-for-neither-after-upstream-opt-with-padding-and-keepalive", int64(r.N(150, 1000)))
	r.Require("ecs_cache:miss:client-asking-for-neither-after-upstream-opt-with-padding-and-keepalive", int64(r.N(50, 300)))
	r.Require("ecs_cache:hit:client-asking-for-neither-after-upstream-opt-with-padding-and-keepalive:"+famUDP, int64(r.N(60, 400)))
	r.Require("ecs_cache:hit:client-asking-for-neither-after-upstream-opt-with-padding-and-keepalive:"+famTCP, int64(r.N(8, 50)))
	r.Require("ecs_cache:miss:"+famUDP, int64(r.N(150, 1500)))
	r.Require("ecs_cache:miss:"+famDCUDP, int64(r.N(40, 400)))
	r.Require("ecs_cache:hit:"+famUDP, int64(r.N(150, 1500)))
	r.Require("ecs_cache:hit:"+famTCP, int64(r.N(15, 150)))
	for _, f := range []string{famDoQ, famDCUDP, famDCTCP} {
		r.Require("silent_handler:nil:answered:"+f+":query-with-opt", 6)
	}
	for _, f := range []string{famUDP, famTCP, famDoT, famDoQ, famDoH, famDCUDP, famDCTCP} {
		r.Require("silent_handler:error:answered:"+f+":query-with-opt", 6)
	}
	r.Require("json_wire:handler-response-larger-than-65535:judged", 12)
	r.Require("json_wire:handler-response-within-16-of-65535:judged", 40)
	for _, f := range []string{famUDP, famTCP, famDoT, famDoQ, famDoH, famDCUDP, famDCTCP} {
		r.Require("silent_handler:timeout:answered:"+f+":query-with-opt", 6)
		r.Require("silent_handler:deadline:answered:"+f+":query-with-opt", 6)
	}
	for _, f := range []string{famTCP, famDoT} {
		r.Require("shutdown:answered-after-shutdown-began:"+f+":query-without-keepalive", int64(r.N(8, 30)))
	}
	r.Require("udp_configured_max_0:advertised>512-and-answer>512:judged", 60)
	r.Require("keepalive_returned:"+famTCP, 5)
	r.Require("keepalive_returned:"+famDoT, 5)
	r.Require("padding_added:"+famDoT, 10)
	r.Require("padding_added:"+famDoQ, 10)
	r.Require("padding_added:"+famDoH, 30)
	r.Require("stream_sentinels:"+famTCP, 20)
	r.Require("stream_sentinels:"+famDoT, 20)
	r.Require("handler_invocations", int64(len(cells))*7/10)
}
