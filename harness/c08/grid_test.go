package c08

import (
	"fmt"
	"math/rand/v2"
	"net/url"
	"sort"

	"github.com/AdguardTeam/AdGuardDNS/verif/tbench"
	"github.com/AdguardTeam/AdGuardDNS/verif/vkit"
	"github.com/miekg/dns"
)

// Transport families.
const (
	famUDP      = "udp"
	famTCP      = "tcp"
	famDoT      = "dot"
	famDoQ      = "doq"
	famDoH      = "doh"
	famDCUDP    = "dnscrypt-udp"
	famDCTCP    = "dnscrypt-tcp"
	streamMax   = 65535
	optFixedLen = 11
)

// configuredMaxima are the MaxUDPRespSize values; one plain-DNS server each.
//
// 0 is the zero value a direct user of the package gets; the statement's
// formula makes its bound 512 like for any maximum below 512.  (It is last so
// that the first bench, which also runs the other servers, stays at 512.)
var configuredMaxima = []int{512, 1024, 1232, 4096, 65535, 0}

// advertised are the EDNS UDP sizes of the requests; -1 means no OPT.
var advertised = []int{-1, 0, 511, 512, 513, 1232, 4096, 65535}

type pathDef struct {
	name    string
	family  string
	variant tbench.HTTPVariant
	bench   int // index into env.benches
	cfg     int // configured UDP maximum (UDP families)
	workers int
	get     bool
	h3      bool
	// jsonWire: GET /resolve?name=...&type=...&ct=application/dns-message,
	// the JSON endpoint asked for wire-format output.  The client cannot send
	// an OPT record there (the server builds the query itself).
	jsonWire bool
}

// limit is the statement's bound for a request that advertised adv (-1: no
// OPT) on this path.
func (p *pathDef) limit(adv int) (n int) {
	switch p.family {
	case famUDP, famDCUDP:
		return max(512, min(max(adv, 0), p.cfg))
	default:
		return streamMax
	}
}

func (p *pathDef) datagram() bool { return p.family == famUDP || p.family == famDCUDP }

// reqForm is the EDNS part of a request.
type reqForm struct {
	Name   string `json:"opts"`
	Adv    int    `json:"advertised"` // -1: no OPT at all
	Pad    int    `json:"padding_len"`
	NSID   int    `json:"nsid_len"`
	DO     bool   `json:"do"`
	KA     bool   `json:"keepalive"`
	Cookie bool   `json:"cookie"`
	ECS    bool   `json:"ecs"`

	// The rest of the TTL field of the request's OPT: EDNS version, extended
	// RCODE and the reserved Z bits (everything but DO).
	TTLVar   string `json:"opt_ttl_variant"`
	Z        uint16 `json:"z_bits"`
	Version  uint8  `json:"edns_version"`
	ExtRcode uint8  `json:"ext_rcode"`
}

// ttlVariants are the non-plain contents of the request OPT's TTL field.
var ttlVariants = []reqForm{
	{TTLVar: "v1", Version: 1},
	{TTLVar: "v2", Version: 2},
	{TTLVar: "v255", Version: 255},
	{TTLVar: "ext-rcode", ExtRcode: 0x5a},
	{TTLVar: "z-bits", Z: 0x5aa5},
	{TTLVar: "v1+ext-rcode+z-bits", Version: 1, ExtRcode: 1, Z: 0x7fff},
}

func withTTL(f reqForm, v reqForm) reqForm {
	f.TTLVar, f.Version, f.ExtRcode, f.Z = v.TTLVar, v.Version, v.ExtRcode, v.Z

	return f
}

func (f reqForm) hasOPT() bool { return f.Adv >= 0 }

// reflected is the number of bytes of request options the documentation says
// are copied into a response OPT built by the server (NSID).
func (f reqForm) reflected() int {
	if f.NSID >= 0 {
		return 4 + f.NSID
	}

	return 0
}

// optSets are the request option subsets.
var optSets = []reqForm{
	{Name: "none", Pad: -1, NSID: -1},
	{Name: "do", Pad: -1, NSID: -1, DO: true},
	{Name: "pad", Pad: 0, NSID: -1},
	{Name: "pad16", Pad: 16, NSID: -1},
	{Name: "ka", Pad: -1, NSID: -1, KA: true},
	{Name: "pad+ka", Pad: 0, NSID: -1, KA: true},
	{Name: "nsid0", Pad: -1, NSID: 0},
	{Name: "nsid5", Pad: -1, NSID: 5},
	{Name: "nsid50", Pad: -1, NSID: 50},
	{Name: "nsid200", Pad: -1, NSID: 200},
	{Name: "cookie", Pad: -1, NSID: -1, Cookie: true},
	{Name: "ecs", Pad: -1, NSID: -1, ECS: true},
	{Name: "all", Pad: 8, NSID: 50, DO: true, KA: true, Cookie: true, ECS: true},
	{Name: "pad+nsid200", Pad: 0, NSID: 200},
	{Name: "ka+nsid200", Pad: -1, NSID: 200, KA: true},
	{Name: "do+pad+ka", Pad: 4, NSID: -1, DO: true, KA: true},
}

func optSet(name string) reqForm {
	for _, f := range optSets {
		if f.Name == name {
			return f
		}
	}

	panic("c08: unknown option set " + name)
}

func (f reqForm) opt() (o *tbench.OPTSpec) {
	if !f.hasOPT() {
		return nil
	}

	o = &tbench.OPTSpec{UDPSize: uint16(f.Adv), DO: f.DO, Version: f.Version, ExtRcode: f.ExtRcode, ZFlags: f.Z}
	if f.NSID >= 0 {
		d := make([]byte, f.NSID)
		for i := range d {
			d[i] = byte('A' + i%26)
		}
		o.Options = append(o.Options, tbench.Option{Code: tbench.OptNSID, Data: d})
	}
	if f.ECS {
		o.Options = append(o.Options, tbench.Option{Code: tbench.OptSubnet, Data: []byte{0, 1, 24, 0, 192, 0, 2}})
	}
	if f.Cookie {
		o.Options = append(o.Options, tbench.Option{Code: tbench.OptCookie, Data: []byte{1, 2, 3, 4, 5, 6, 7, 8}})
	}
	if f.KA {
		o.Options = append(o.Options, tbench.Option{Code: tbench.OptKeepAlive})
	}
	if f.Pad >= 0 {
		o.Options = append(o.Options, tbench.Option{Code: tbench.OptPadding, Data: make([]byte, f.Pad)})
	}

	return o
}

// phaseSilent marks the cells whose handler finishes without writing.
const phaseSilent = "silent-handler"

// cell is one point of the grid.
type cell struct {
	path     *pathDef
	req      *dns.Msg // the request as parsed from wire
	boundary string   // name of the boundary group, or ""
	phase    string   // "" for the grid, phasePooled for the shared-cloner histories
	note     map[string]any
	jsonQ    url.Values // the query parameters on a jsonWire path
	// upstreamOPTTainted: ecs-cache phase, the upstream's answer to the first
	// request of the history carried padding / keep-alive options in its OPT.
	upstreamOPTTainted bool
	wire               []byte
	form               reqForm
	sh                 shape
	idx                int
	id                 uint16
}

func (c *cell) witness() map[string]any {
	w := map[string]any{
		"cell": c.idx, "path": c.path.name, "configured_udp_max": c.path.cfg, "request_edns": c.form,
		"handler_response": c.sh, "qname": c.sh.qname(), "request_hex": fmt.Sprintf("%x", c.wire),
		"limit": c.path.limit(c.form.Adv), "boundary_group": c.boundary, "phase": c.phase,
	}
	for k, v := range c.note {
		w[k] = v
	}

	return w
}

// proto is a cell before shapes and indexes are assigned.
type proto struct {
	path     *pathDef
	boundary string
	form     reqForm
	t        int
	ownOPT   int
	noWrite  string
}

var generalSizes = []int{0, 100, 500, 511, 512, 513, 1231, 1232, 1233, 4095, 4096, 4097, 16384, 65000}

func withAdv(f reqForm, adv int) reqForm {
	if adv < 0 {
		return reqForm{Name: "no-opt", Adv: -1, Pad: -1, NSID: -1}
	}

	f.Adv = adv

	return f
}

// optLen is the size of the OPT the server has to add itself.
func optLen(f reqForm, ownOPT int) int {
	if !f.hasOPT() || ownOPT != 0 {
		return 0
	}

	return optFixedLen + f.reflected()
}

// boundaryProtos lists the cells that every run evaluates, whatever the seed.
func boundaryProtos(paths []*pathDef) (out []proto) {
	add := func(p *pathDef, group string, f reqForm, own int, ts ...int) {
		for _, t := range ts {
			if t >= 0 {
				out = append(out, proto{path: p, boundary: group, form: f, t: t, ownOPT: own})
			}
		}
	}
	rng := func(lo, hi int) (ts []int) {
		for t := lo; t <= hi; t++ {
			ts = append(ts, t)
		}

		return ts
	}

	for _, p := range paths {
		if p.jsonWire {
			bare := withAdv(optSet("none"), -1)
			for own := 0; own <= 2; own++ {
				add(p, "json-wire-stream-max", bare, own, rng(65520, 65536)...)
				add(p, "json-wire-stream-max", bare, own, 100, 4096, 65000, 66000, 70000, 80000)
			}
			for _, nw := range []string{"nil", "error", "timeout", "deadline"} {
				out = append(out, proto{path: p, boundary: "silent-handler", form: bare, t: 300, noWrite: nw})
			}

			continue
		}

		// A handler that finishes without writing: whatever the server then
		// generates itself is a response like any other.
		for _, nw := range []string{"nil", "error", "timeout", "deadline"} {
			sets := []string{"none", "do", "nsid5", "cookie", "pad", "ka", "all"}
			for i, name := range sets {
				f := withAdv(optSet(name), []int{1232, 512, 4096, 65535}[i%4])
				if p.family == famDoQ && f.KA {
					// A protocol error over DoQ, never reaches the handler.
					f = withAdv(optSet("pad16"), 1232)
				}
				out = append(out, proto{path: p, boundary: "silent-handler", form: f, t: 300, noWrite: nw})
			}
			out = append(out,
				proto{path: p, boundary: "silent-handler", form: withTTL(withAdv(optSet("none"), 1232), ttlVariants[0]), t: 300, noWrite: nw},
				proto{path: p, boundary: "silent-handler", form: withAdv(optSet("none"), -1), t: 300, noWrite: nw})
		}

		// The TTL field of the request's OPT, on every path, against every
		// kind of handler OPT.
		for own := 0; own <= 2; own++ {
			for i, v := range ttlVariants {
				base := optSet([]string{"none", "do", "nsid5"}[(i+own)%3])
				add(p, "opt-ttl", withTTL(withAdv(base, 1232), v), own, 100, 700)
			}
		}

		switch p.family {
		case famUDP, famDCUDP:
			for _, adv := range advertised {
				l := p.limit(adv)
				none := withAdv(optSet("none"), adv)
				// Handler response without OPT: limit-12 … limit+1.
				add(p, "udp-limit", none, 0, rng(l-12, l+1)...)
				// Handler response with its own OPT: around the limit.
				add(p, "udp-limit-own-opt", none, 1, l-1, l, l+1)
				if adv >= 0 {
					n200 := withAdv(optSet("nsid200"), adv)
					ol := optLen(n200, 0)
					add(p, "udp-limit-reflected-nsid", n200, 0, l-ol-1, l-ol, l-ol+1, l-ol/2, l-12, l)
				}
				if p.family == famDCUDP {
					// The library cuts at limit-64.
					add(p, "dnscrypt-limit-64", none, 1, rng(l-66, l-62)...)
				}
			}
		case famTCP:
			top := rng(65520, 65536)
			add(p, "stream-max", withAdv(optSet("none"), -1), 0, top...)
			add(p, "stream-max", withAdv(optSet("none"), 4096), 1, top...)
			add(p, "stream-max-keepalive", withAdv(optSet("ka"), 4096), 1, top...)
			f := withAdv(optSet("ka+nsid200"), 1232)
			ol := optLen(f, 0)
			add(p, "stream-max-keepalive-nsid", f, 0, rng(65520-ol, 65536-ol)...)
		case famDoT:
			top := rng(65520, 65536)
			full := rng(65490, 65536)
			add(p, "stream-max", withAdv(optSet("none"), 4096), 1, top...)
			add(p, "stream-max-keepalive", withAdv(optSet("ka"), 4096), 1, top...)
			add(p, "stream-max-padding", withAdv(optSet("pad"), 4096), 1, full...)
			add(p, "stream-max-padding-keepalive", withAdv(optSet("pad+ka"), 1232), 1, full...)
		case famDoQ:
			add(p, "stream-max", withAdv(optSet("none"), 4096), 1, rng(65520, 65536)...)
			add(p, "stream-max-padding", withAdv(optSet("pad"), 65535), 1, rng(65490, 65536)...)
		case famDoH:
			switch {
			case p.get:
				add(p, "stream-max-padding", withAdv(optSet("pad"), 4096), 1, rng(65520, 65536)...)
			case p.variant == tbench.HTTP2:
				add(p, "stream-max", withAdv(optSet("none"), 4096), 1, rng(65520, 65536)...)
				add(p, "stream-max-padding", withAdv(optSet("pad"), 4096), 1, rng(65490, 65536)...)
			default:
				add(p, "stream-max-padding", withAdv(optSet("pad16"), 512), 1, rng(65490, 65536)...)
			}
		case famDCTCP:
			add(p, "stream-max", withAdv(optSet("none"), 4096), 1, rng(65520, 65536)...)
			add(p, "dnscrypt-limit-64", withAdv(optSet("none"), 4096), 1, rng(65535-64-8, 65535-64+3)...)
		}
	}

	return out
}

// gridProtos enumerates the whole grid.
func gridProtos(paths []*pathDef) (out []proto) {
	for _, p := range paths {
		for _, adv := range advertised {
			if p.jsonWire && adv >= 0 {
				continue
			}

			sets := optSets
			if adv < 0 {
				sets = optSets[:1]
			}
			for _, os := range sets {
				f := withAdv(os, adv)
				for own := 0; own <= 2; own++ {
					for _, t := range gridSizes(p, f, own) {
						out = append(out, proto{path: p, form: f, t: t, ownOPT: own})
					}
				}
			}
		}
	}

	return out
}

func gridSizes(p *pathDef, f reqForm, own int) (ts []int) {
	set := map[int]struct{}{}
	for _, t := range generalSizes {
		set[t] = struct{}{}
	}

	ol := optLen(f, own)
	if p.datagram() {
		l := p.limit(f.Adv)
		for t := l - 12; t <= l+1; t++ {
			set[t] = struct{}{}
		}
		if ol > optFixedLen {
			for _, t := range []int{l - ol - 1, l - ol, l - ol + 1, l - ol + 2, l - ol/2} {
				set[t] = struct{}{}
			}
		}
		if p.family == famDCUDP {
			for t := l - 66; t <= l-62; t++ {
				set[t] = struct{}{}
			}
		}
	} else {
		// Byte by byte below the stream maximum wherever the server adds
		// something after truncation, every third byte otherwise.
		step := 3
		if f.Pad >= 0 || f.KA || f.NSID >= 0 {
			step = 1
		}
		for t := 65490; t <= 65535; t += step {
			set[t] = struct{}{}
		}
		for _, t := range []int{65533, 65534, 65535, 65536, 70000, 80000} {
			set[t] = struct{}{}
		}
		if ol > optFixedLen && (f.Pad >= 0 || f.KA) {
			for t := 65535 - ol - 42; t <= 65535-ol+1; t++ {
				set[t] = struct{}{}
			}
		}
	}

	for t := range set {
		if t >= 0 {
			ts = append(ts, t)
		}
	}
	sort.Ints(ts)

	return ts
}

// buildCells turns protos into cells: assigns indexes, draws the shape
// dimensions that are sampled (section mix, payload kind, error propagation)
// from the seed, and renders the request bytes.
func buildCells(r *vkit.Run, protos []proto) (cells []*cell, err error) {
	cells = make([]*cell, 0, len(protos))
	for i, pr := range protos {
		rng := r.Rand("shape", i)
		c := &cell{
			idx: i, path: pr.path, form: pr.form, boundary: pr.boundary, id: uint16(i*7 + 11),
			sh: shape{Cell: i, T: pr.t, OwnOPT: pr.ownOPT, Mix: pick(rng, mixes), Kind: pick(rng, kinds), Propagate: rng.IntN(4) == 0},
		}
		if pr.noWrite != "" {
			c.sh.NoWrite, c.sh.Propagate, c.phase = pr.noWrite, false, phaseSilent
		}

		if c.form.hasOPT() && c.form.TTLVar == "" {
			if k := rng.IntN(2 * len(ttlVariants)); k < len(ttlVariants) && c.boundary == "" {
				c.form = withTTL(c.form, ttlVariants[k])
			} else {
				c.form.TTLVar = "plain"
			}
		}

		flags := tbench.FlagRD
		if rng.IntN(3) == 0 {
			flags |= tbench.FlagCD
		}
		q := tbench.QuerySpec{
			ID: c.id, Flags: flags, Name: tbench.WireNameString(c.sh.qname()),
			QType: dns.TypeTXT, QClass: dns.ClassINET, OPT: c.form.opt(),
		}
		if c.path.jsonWire {
			// c.wire / c.req are the query the server builds out of the
			// parameters (ID and OPT aside), for the model.
			c.jsonQ = url.Values{"name": {c.sh.qname()}, "type": {"TXT"}, "ct": {"application/dns-message"}}
			if flags&tbench.FlagCD != 0 {
				c.jsonQ.Set("cd", "1")
			}
			if rng.IntN(2) == 0 {
				c.jsonQ.Set("do", "1")
			}
			c.note = map[string]any{"url_query": c.jsonQ.Encode()}
		}
		c.wire = q.Wire()
		c.req = &dns.Msg{}
		if err = c.req.Unpack(c.wire); err != nil {
			return nil, fmt.Errorf("cell %d: own request does not parse: %w", i, err)
		}
		if len(c.wire) > 512 {
			return nil, fmt.Errorf("cell %d: request of %d bytes", i, len(c.wire))
		}

		cells = append(cells, c)
	}

	return cells, nil
}

func pick[T any](rng *rand.Rand, xs []T) (x T) { return xs[rng.IntN(len(xs))] }

// sampleProtos picks n protos from the grid, spread over the paths in
// proportion, determined by the seed.
func sampleProtos(r *vkit.Run, grid []proto, n int) (out []proto) {
	if n >= len(grid) {
		return grid
	}

	rng := r.Rand("sample", 0)
	perm := rng.Perm(len(grid))
	// Large responses are the expensive ones; keep their share bounded.
	big, maxBig := 0, n/4
	for _, i := range perm {
		if len(out) >= n {
			break
		}

		if grid[i].t >= 60000 {
			if big >= maxBig {
				continue
			}
			big++
		}

		out = append(out, grid[i])
	}

	return out
}
