package tbench_test

import (
	"context"
	"encoding/json"
	"net/url"
	"testing"
	"time"

	"github.com/AdguardTeam/AdGuardDNS/internal/dnsserver"
	"github.com/AdguardTeam/AdGuardDNS/verif/tbench"
	"github.com/miekg/dns"
)

// TestSmoke drives every client path of the bench once with a trivial handler.
// It is a self-test of the bench, not a property check.
func TestSmoke(t *testing.T) {
	h := dnsserver.HandlerFunc(func(ctx context.Context, rw dnsserver.ResponseWriter, req *dns.Msg) error {
		resp := (&dns.Msg{}).SetReply(req)
		resp.Answer = append(resp.Answer, &dns.A{
			Hdr: dns.RR_Header{Name: req.Question[0].Name, Rrtype: dns.TypeA, Class: dns.ClassINET, Ttl: 10},
			A:   []byte{192, 0, 2, 1},
		})

		return rw.WriteMsg(ctx, req, resp)
	})

	m := &tbench.CountingMetrics{}
	b, err := tbench.Start(tbench.Config{Handler: h, Metrics: m, EnableH3: true})
	if err != nil {
		t.Fatal(err)
	}
	defer func() {
		if cErr := b.Close(); cErr != nil {
			t.Errorf("close: %v", cErr)
		}
	}()

	const wait = 5 * time.Second
	q := tbench.SimpleQuery(0x1234, "Smoke.Example.", dns.TypeA, dns.ClassINET)
	check := func(path string, res tbench.Result) {
		t.Helper()
		one := res.One()
		if res.Outcome != tbench.Answered || one == nil {
			t.Errorf("%s: %s", path, res)

			return
		}
		r := &dns.Msg{}
		if uErr := r.Unpack(one); uErr != nil || r.Id != 0x1234 || len(r.Answer) != 1 || r.Question[0].Name != "Smoke.Example." {
			t.Errorf("%s: bad response %v %v", path, uErr, r)
		}
	}

	u, err := b.DialUDP()
	if err != nil {
		t.Fatal(err)
	}
	check("udp", u.Exchange(q, wait, 20*time.Millisecond))
	if res := u.Exchange([]byte{1, 2, 3}, 100*time.Millisecond, 0); res.Outcome != tbench.Silence {
		t.Errorf("udp garbage: %s", res)
	}
	_ = u.Close()

	tc, err := b.DialTCP()
	if err != nil {
		t.Fatal(err)
	}
	check("tcp", tc.Exchange(q, wait))
	if res := tc.Exchange([]byte{1, 2, 3}, wait); res.Outcome != tbench.Closed {
		t.Errorf("tcp garbage: %s", res)
	}
	_ = tc.Close()

	dt, err := b.DialDoT()
	if err != nil {
		t.Fatal(err)
	}
	check("dot", dt.Exchange(q, wait))
	_ = dt.Close()

	for _, v := range []tbench.HTTPVariant{tbench.HTTP2, tbench.HTTP1TLS, tbench.HTTPPlain, tbench.HTTP3} {
		hc, hErr := b.NewHTTPClient(v)
		if hErr != nil {
			t.Fatal(hErr)
		}
		res := hc.Get(q, wait)
		check(string(v)+" get", res)
		t.Logf("%s: proto %s", v, res.HTTPProto)
		check(string(v)+" post", hc.Post(q, wait))
		if res = hc.Post([]byte{1, 2, 3}, wait); res.Outcome != tbench.HTTPStatus || res.HTTPStatus != 500 {
			t.Errorf("%s garbage: %s", v, res)
		}
		res = hc.JSON(url.Values{"name": {"Smoke.Example."}, "type": {"A"}}, wait)
		jm := &dnsserver.JSONMsg{}
		if jErr := json.Unmarshal(res.Body, jm); jErr != nil || len(jm.Answer) != 1 || jm.Question[0].Name != "Smoke.Example." {
			t.Errorf("%s json: %s %s %v", v, res, res.Body, jErr)
		}
	}

	qc, err := b.DialDoQ()
	if err != nil {
		t.Fatal(err)
	}
	check("doq", qc.Exchange(q, wait))
	check("doq again", qc.Exchange(q, wait))
	res := qc.ExchangeRaw([]byte{0, 1, 2}, true, wait)
	if res.Outcome != tbench.QUICError || res.QUICKind != "application" || res.QUICCode != 2 || !res.QUICRemote {
		t.Errorf("doq garbage: %s", res)
	}
	if qc.Alive() {
		t.Errorf("doq: connection still alive after protocol error")
	}
	_ = qc.Close()

	for _, network := range []string{"udp", "tcp"} {
		dc, dErr := b.DialDNSCrypt(network)
		if dErr != nil {
			t.Fatal(dErr)
		}
		check("dnscrypt "+network, dc.Exchange(q, wait))
		resp, xErr := dc.ExchangeMsg((&dns.Msg{}).SetQuestion("lib.example.", dns.TypeA))
		if xErr != nil || len(resp.Answer) != 1 {
			t.Errorf("dnscrypt %s library exchange: %v", network, xErr)
		}
		_ = dc.Close()
	}

	snap := m.Snapshot()
	t.Logf("metrics: %+v", snap)
	if snap.Panics != 0 {
		t.Errorf("panics: %d", snap.Panics)
	}
}

// TestGenerators checks the shape of generated names.
func TestGenerators(t *testing.T) {
	for seed := uint64(0); seed < 200; seed++ {
		rng := tbench.NewRand(seed, 7)
		for _, kind := range tbench.NameKinds {
			name := tbench.GenNameOfKind(rng, kind, []byte("c1"))
			if len(name) > 255 {
				t.Fatalf("%s: %d octets", kind, len(name))
			}
			if kind == tbench.NameMaxLen && len(name) != 255 {
				t.Fatalf("%s: %d octets, want 255", kind, len(name))
			}
			q := tbench.QuerySpec{ID: 1, Name: name, QType: 1, QClass: 1}
			m := &dns.Msg{}
			if err := m.Unpack(q.Wire()); err != nil {
				t.Fatalf("%s: %x: %v", kind, name, err)
			}
		}
	}
}
