package tbench

import (
	"crypto/ecdsa"
	"crypto/elliptic"
	"crypto/rand"
	"crypto/tls"
	"crypto/x509"
	"crypto/x509/pkix"
	"fmt"
	"math/big"
	"net"
	"sync"
	"time"
)

// PKI is an in-memory certificate authority with one server certificate
// issued for a DNS name and for 127.0.0.1.
type PKI struct {
	// ServerName is the DNS name in the server certificate; clients use it as
	// SNI.
	ServerName string

	caCert   *x509.Certificate
	caKey    *ecdsa.PrivateKey
	pool     *x509.CertPool
	leaf     tls.Certificate
	leafX509 *x509.Certificate
}

var (
	pkiMu    sync.Mutex
	pkiCache = map[string]*PKI{}
)

// SharedPKI returns a process-wide PKI for serverName, creating it on first
// use.  Key generation is the expensive part of starting a bench, so benches
// that do not care about distinct identities share it.
func SharedPKI(serverName string) (p *PKI, err error) {
	pkiMu.Lock()
	defer pkiMu.Unlock()

	if p = pkiCache[serverName]; p != nil {
		return p, nil
	}

	p, err = NewPKI(serverName)
	if err != nil {
		return nil, err
	}

	pkiCache[serverName] = p

	return p, nil
}

// NewPKI creates a fresh CA (ECDSA P-256) and a server certificate for
// serverName and 127.0.0.1, valid from one hour ago for 48 hours.
func NewPKI(serverName string) (p *PKI, err error) {
	caKey, err := ecdsa.GenerateKey(elliptic.P256(), rand.Reader)
	if err != nil {
		return nil, fmt.Errorf("tbench: ca key: %w", err)
	}

	now := time.Now()
	caTmpl := &x509.Certificate{
		SerialNumber:          big.NewInt(1),
		Subject:               pkix.Name{CommonName: "tbench test CA", Organization: []string{"tbench"}},
		NotBefore:             now.Add(-time.Hour),
		NotAfter:              now.Add(48 * time.Hour),
		KeyUsage:              x509.KeyUsageCertSign | x509.KeyUsageDigitalSignature,
		BasicConstraintsValid: true,
		IsCA:                  true,
	}

	caDER, err := x509.CreateCertificate(rand.Reader, caTmpl, caTmpl, &caKey.PublicKey, caKey)
	if err != nil {
		return nil, fmt.Errorf("tbench: ca cert: %w", err)
	}

	caCert, err := x509.ParseCertificate(caDER)
	if err != nil {
		return nil, fmt.Errorf("tbench: parsing ca cert: %w", err)
	}

	leafKey, err := ecdsa.GenerateKey(elliptic.P256(), rand.Reader)
	if err != nil {
		return nil, fmt.Errorf("tbench: leaf key: %w", err)
	}

	leafTmpl := &x509.Certificate{
		SerialNumber: big.NewInt(2),
		Subject:      pkix.Name{CommonName: serverName, Organization: []string{"tbench"}},
		NotBefore:    now.Add(-time.Hour),
		NotAfter:     now.Add(48 * time.Hour),
		KeyUsage:     x509.KeyUsageDigitalSignature,
		ExtKeyUsage:  []x509.ExtKeyUsage{x509.ExtKeyUsageServerAuth},
		DNSNames:     []string{serverName},
		IPAddresses:  []net.IP{net.IPv4(127, 0, 0, 1)},
	}

	leafDER, err := x509.CreateCertificate(rand.Reader, leafTmpl, caCert, &leafKey.PublicKey, caKey)
	if err != nil {
		return nil, fmt.Errorf("tbench: leaf cert: %w", err)
	}

	leafX509, err := x509.ParseCertificate(leafDER)
	if err != nil {
		return nil, fmt.Errorf("tbench: parsing leaf cert: %w", err)
	}

	pool := x509.NewCertPool()
	pool.AddCert(caCert)

	return &PKI{
		ServerName: serverName,
		caCert:     caCert,
		caKey:      caKey,
		pool:       pool,
		leaf: tls.Certificate{
			Certificate: [][]byte{leafDER, caDER},
			PrivateKey:  leafKey,
			Leaf:        leafX509,
		},
		leafX509: leafX509,
	}, nil
}

// ServerTLS returns a new server-side configuration with the given ALPN list.
func (p *PKI) ServerTLS(nextProtos ...string) (conf *tls.Config) {
	return &tls.Config{
		Certificates: []tls.Certificate{p.leaf},
		NextProtos:   append([]string(nil), nextProtos...),
		MinVersion:   tls.VersionTLS12,
	}
}

// ClientTLS returns a new client-side configuration that trusts the CA,
// sends ServerName as SNI and offers the given ALPN list.
func (p *PKI) ClientTLS(nextProtos ...string) (conf *tls.Config) {
	return &tls.Config{
		RootCAs:    p.pool,
		ServerName: p.ServerName,
		NextProtos: append([]string(nil), nextProtos...),
		MinVersion: tls.VersionTLS12,
	}
}

// CAPool returns the pool holding the CA certificate.
func (p *PKI) CAPool() (pool *x509.CertPool) { return p.pool }
