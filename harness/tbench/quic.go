package tbench

import (
	"context"
	"errors"
	"fmt"
	"io"
	"time"

	"github.com/quic-go/quic-go"
)

// QUICClient is one DNS-over-QUIC connection.  Every request uses its own
// stream.  Streams may be used concurrently.
type QUICClient struct {
	conn quic.Connection

	// DialStart is taken before the connection was dialled.
	DialStart time.Time
}

// DialDoQ opens a QUIC connection to the DoQ listener with ALPN "doq".
func (b *Bench) DialDoQ() (c *QUICClient, err error) {
	return DialDoQ(b.DoQAddr, b.PKI, "doq")
}

// DialDoQ opens a QUIC connection to addr.
func DialDoQ(addr string, pki *PKI, alpn ...string) (c *QUICClient, err error) {
	start := time.Now()
	ctx, cancel := context.WithTimeout(context.Background(), 15*time.Second)
	defer cancel()

	conn, err := quic.DialAddr(ctx, addr, pki.ClientTLS(alpn...), &quic.Config{
		HandshakeIdleTimeout: 15 * time.Second,
		MaxIdleTimeout:       60 * time.Second,
	})
	if err != nil {
		return nil, fmt.Errorf("tbench: quic dial: %w", err)
	}

	return &QUICClient{conn: conn, DialStart: start}, nil
}

// Conn returns the underlying connection.
func (c *QUICClient) Conn() (conn quic.Connection) { return c.conn }

// Close closes the connection with application error code 0.
func (c *QUICClient) Close() (err error) { return c.conn.CloseWithError(0, "") }

// Alive reports whether the connection has not been closed yet.
func (c *QUICClient) Alive() (ok bool) { return c.conn.Context().Err() == nil }

// Exchange opens a stream, writes payload preceded by its 2-byte length,
// sends FIN and reads the stream to its end.
func (c *QUICClient) Exchange(payload []byte, wait time.Duration) (res Result) {
	return c.ExchangeRaw(Frame(payload), true, wait)
}

// ExchangeRaw opens a stream, writes exactly raw, sends FIN if fin is set, and
// reads until the stream ends, an error occurs or wait elapses.  Complete
// 2-byte-prefixed frames received are the responses; anything after them is in
// Trailing.
func (c *QUICClient) ExchangeRaw(raw []byte, fin bool, wait time.Duration) (res Result) {
	return c.exchange(raw, fin, 0, wait)
}

// ExchangeLateFIN is Exchange, except that the send side of the stream is
// closed only finDelay after the query was written, so that the STREAM FIN
// travels in a later packet than the query data (legal, and what clients that
// write and close in two steps do).
func (c *QUICClient) ExchangeLateFIN(payload []byte, finDelay, wait time.Duration) (res Result) {
	return c.exchange(Frame(payload), true, finDelay, wait)
}

func (c *QUICClient) exchange(raw []byte, fin bool, finDelay, wait time.Duration) (res Result) {
	ctx, cancel := context.WithTimeout(context.Background(), wait)
	defer cancel()

	start := time.Now()
	defer func() {
		if res.SendElapsed == 0 {
			res.SendElapsed = time.Since(start)
		}
	}()

	stream, err := c.conn.OpenStreamSync(ctx)
	if err != nil {
		return quicErrResult(err, nil)
	}

	dl := time.Now().Add(wait)
	_ = stream.SetDeadline(dl)

	if len(raw) > 0 {
		_, err = stream.Write(raw)
		if err != nil {
			stream.CancelRead(0)

			return quicErrResult(err, nil)
		}
	}

	if fin {
		if finDelay > 0 {
			time.Sleep(finDelay)
		}

		err = stream.Close()
		if err != nil {
			stream.CancelRead(0)

			return quicErrResult(err, nil)
		}
	}

	sent := time.Since(start)

	data, err := io.ReadAll(stream)
	if !fin {
		stream.CancelWrite(0)
	}

	if err != nil {
		res = quicErrResult(err, data)
	} else {
		res = streamDataResult(data)
	}
	res.SendElapsed = sent

	return res
}

func streamDataResult(data []byte) (res Result) {
	frames, rest := SplitFrames(data)
	res = Result{Outcome: Answered, Trailing: rest}
	for _, f := range frames {
		res.Responses = append(res.Responses, f)
		res.WireLens = append(res.WireLens, len(f))
	}

	if len(frames) == 0 {
		// The stream ended without a complete message.
		res.Outcome = Closed
	}

	return res
}

func quicErrResult(err error, data []byte) (res Result) {
	res = Result{Outcome: QUICError, Err: err.Error()}
	frames, rest := SplitFrames(data)
	for _, f := range frames {
		res.Responses = append(res.Responses, f)
		res.WireLens = append(res.WireLens, len(f))
	}
	res.Trailing = rest

	var (
		appErr    *quic.ApplicationError
		streamErr *quic.StreamError
		trErr     *quic.TransportError
		idleErr   *quic.IdleTimeoutError
	)

	switch {
	case errors.As(err, &appErr):
		res.QUICKind = "application"
		res.QUICCode = uint64(appErr.ErrorCode)
		res.QUICRemote = appErr.Remote
	case errors.As(err, &streamErr):
		res.QUICKind = "stream"
		res.QUICCode = uint64(streamErr.ErrorCode)
		res.QUICRemote = streamErr.Remote
	case errors.As(err, &trErr):
		res.QUICKind = "transport"
		res.QUICCode = uint64(trErr.ErrorCode)
		res.QUICRemote = trErr.Remote
	case errors.As(err, &idleErr):
		res.QUICKind = "idle-timeout"
	case isTimeout(err) || errors.Is(err, context.DeadlineExceeded):
		res.Outcome = Timeout
	default:
		res.QUICKind = "other"
	}

	return res
}
