package tbench

import (
	"bytes"
	"fmt"
	"net"
	"time"

	"github.com/ameshkov/dnscrypt/v2"
	"github.com/miekg/dns"
)

// DNSCryptClient talks to the DNSCrypt server over one network ("udp" or
// "tcp").  The certificate is fetched and the shared key computed by the
// ameshkov/dnscrypt client; queries are encrypted with that library's
// EncryptedQuery so that the plaintext is exactly the bytes given.  It is not
// safe for concurrent use.
type DNSCryptClient struct {
	// Network is "udp" or "tcp".
	Network string

	// Info is the resolver information obtained by the library client.
	Info *dnscrypt.ResolverInfo

	lib  *dnscrypt.Client
	addr string
	udp  *UDPClient
	tcp  *StreamClient
}

// DialDNSCrypt fetches the certificate over the given network and opens a
// client socket / connection to the DNSCrypt server.
func (b *Bench) DialDNSCrypt(network string) (c *DNSCryptClient, err error) {
	addr := b.DNSCryptUDPAddr
	if network == "tcp" {
		addr = b.DNSCryptTCPAddr
	} else if network != "udp" {
		return nil, fmt.Errorf("tbench: bad dnscrypt network %q", network)
	}

	lib := &dnscrypt.Client{Net: network, Timeout: 10 * time.Second, UDPSize: dns.MaxMsgSize}
	info, err := lib.DialStamp(b.DNSCryptStamp(addr))
	if err != nil {
		return nil, fmt.Errorf("tbench: dnscrypt cert: %w", err)
	}

	c = &DNSCryptClient{Network: network, Info: info, lib: lib, addr: addr}
	err = c.Reconnect()
	if err != nil {
		return nil, err
	}

	return c, nil
}

// Reconnect replaces the socket / connection with a fresh one, keeping the
// keys.
func (c *DNSCryptClient) Reconnect() (err error) {
	_ = c.Close()

	if c.Network == "udp" {
		c.udp, err = DialUDP(c.addr)
	} else {
		c.tcp, err = DialTCP(c.addr)
	}

	return err
}

// Stream returns the TCP connection wrapper (nil for UDP); its timestamps let
// callers reason about server-side read timeouts.
func (c *DNSCryptClient) Stream() (s *StreamClient) { return c.tcp }

// Close closes the socket / connection.
func (c *DNSCryptClient) Close() (err error) {
	if c.udp != nil {
		err = c.udp.Close()
		c.udp = nil
	}
	if c.tcp != nil {
		err = c.tcp.Close()
		c.tcp = nil
	}

	return err
}

// Encrypt returns the DNSCrypt packet whose plaintext is exactly payload, and
// the client half of the nonce used.
func (c *DNSCryptClient) Encrypt(payload []byte) (packet []byte, nonce []byte, err error) {
	q := dnscrypt.EncryptedQuery{
		EsVersion:   c.Info.ResolverCert.EsVersion,
		ClientMagic: c.Info.ResolverCert.ClientMagic,
		ClientPk:    c.Info.PublicKey,
	}

	// The library pads by appending to the slice it is given; hand it a
	// private copy so that the caller's bytes (possibly shared between
	// goroutines) are never written to.
	packet, err = q.Encrypt(bytes.Clone(payload), c.Info.SharedKey)
	if err != nil {
		return nil, nil, err
	}

	return packet, bytes.Clone(q.Nonce[:12]), nil
}

// Decrypt decrypts a DNSCrypt response packet and returns the plaintext and
// the client half of its nonce.
func (c *DNSCryptClient) Decrypt(packet []byte) (payload []byte, nonce []byte, err error) {
	r := dnscrypt.EncryptedResponse{EsVersion: c.Info.ResolverCert.EsVersion}
	payload, err = r.Decrypt(packet, c.Info.SharedKey)
	if err != nil {
		return nil, nil, err
	}

	return payload, bytes.Clone(r.Nonce[:12]), nil
}

// Send encrypts payload and sends it (framed on TCP) without waiting for a
// response.
func (c *DNSCryptClient) Send(payload []byte) (err error) {
	packet, _, err := c.Encrypt(payload)
	if err != nil {
		return err
	}

	return c.SendPacket(packet)
}

// SendPacket sends packet as is (framed on TCP), without encryption; use it
// for bytes that are not a DNSCrypt query at all.
func (c *DNSCryptClient) SendPacket(packet []byte) (err error) {
	if c.udp != nil {
		return c.udp.Send(packet)
	}

	return c.tcp.WriteFrame(packet)
}

// Recv receives the next packet and decrypts it.  It returns ErrTimeout or
// ErrClosed like the underlying clients do.  undecryptable is set, and the
// raw packet returned as payload, when a packet arrived that cannot be
// decrypted.
func (c *DNSCryptClient) Recv(wait time.Duration) (payload []byte, wireLen int, undecryptable bool, err error) {
	var packet []byte
	if c.udp != nil {
		packet, err = c.udp.Recv(wait)
	} else {
		packet, _, err = c.tcp.ReadFrame(wait)
	}
	if err != nil {
		return nil, 0, false, err
	}

	payload, _, err = c.Decrypt(packet)
	if err != nil {
		return packet, len(packet), true, nil
	}

	return payload, len(packet), false, nil
}

// Drain collects every further response (UDP only) until the socket has been
// quiet for the given duration.
func (c *DNSCryptClient) Drain(quiet time.Duration) (payloads [][]byte) {
	if c.udp == nil {
		return nil
	}

	for {
		p, _, _, err := c.Recv(quiet)
		if err != nil {
			return payloads
		}

		payloads = append(payloads, p)
	}
}

// Exchange encrypts payload, sends it and waits for one response.
func (c *DNSCryptClient) Exchange(payload []byte, wait time.Duration) (res Result) {
	packet, _, err := c.Encrypt(payload)
	if err != nil {
		return Result{Outcome: Failed, Err: "encrypting: " + err.Error()}
	}

	return c.ExchangePacket(packet, wait)
}

// ExchangePacket sends packet as is and waits for one response.
func (c *DNSCryptClient) ExchangePacket(packet []byte, wait time.Duration) (res Result) {
	err := c.SendPacket(packet)
	if err != nil {
		if isPeerClose(err) {
			return Result{Outcome: Closed, Err: err.Error()}
		}

		return Result{Outcome: Failed, Err: err.Error()}
	}

	payload, wireLen, undecryptable, err := c.Recv(wait)
	switch {
	case err == ErrTimeout && c.udp != nil:
		return Result{Outcome: Silence}
	case err == ErrTimeout:
		return Result{Outcome: Timeout}
	case err == ErrClosed:
		return Result{Outcome: Closed}
	case err != nil:
		return Result{Outcome: Failed, Err: err.Error()}
	case undecryptable:
		// E.g. a plain-DNS reply to a certificate request.
		return Result{Outcome: Failed, Err: "undecryptable packet", Body: payload, WireLens: []int{wireLen}}
	}

	return Result{Outcome: Answered, Responses: [][]byte{payload}, WireLens: []int{wireLen}}
}

// ExchangeMsg performs one exchange entirely through the library client (new
// connection, library packing and parsing).
func (c *DNSCryptClient) ExchangeMsg(m *dns.Msg) (resp *dns.Msg, err error) {
	return c.lib.Exchange(m, c.Info)
}

// LocalAddr returns the local address of the socket / connection.
func (c *DNSCryptClient) LocalAddr() (addr net.Addr) {
	if c.udp != nil {
		return c.udp.LocalAddr()
	}

	return c.tcp.Conn().LocalAddr()
}
