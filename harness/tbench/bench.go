// Package tbench is a transport bench: it starts, in-process on 127.0.0.1:0,
// the real servers of every protocol of module dnsserver with a
// caller-supplied handler, and provides clients that send exact bytes and
// report exactly what came back.  It contains no property-specific oracle.
package tbench

import (
	"context"
	"crypto/ed25519"
	"errors"
	"fmt"
	"io"
	"net"
	"net/http"
	"slices"
	"sync"
	"time"

	"github.com/AdguardTeam/AdGuardDNS/internal/dnsserver"
	"github.com/AdguardTeam/AdGuardDNS/internal/dnsserver/netext"
	"github.com/AdguardTeam/golibs/log"
	"github.com/ameshkov/dnscrypt/v2"
	"github.com/ameshkov/dnsstamps"
)

// Server identifies one of the server instances of a bench.
type Server string

// Server instances.
const (
	SrvDNS      Server = "dns"       // ServerDNS, UDP + TCP on one port
	SrvDoT      Server = "dot"       // ServerTLS
	SrvDoH      Server = "doh"       // ServerHTTPS with TLS (h2 + http/1.1, optionally h3)
	SrvDoHPlain Server = "doh-plain" // ServerHTTPS without TLS (plain HTTP/1.1)
	SrvDoQ      Server = "doq"       // ServerQUIC
	SrvDNSCrypt Server = "dnscrypt"  // ServerDNSCrypt, UDP + TCP on one port
)

// AllServers lists every server instance a bench can start.
var AllServers = []Server{SrvDNS, SrvDoT, SrvDoH, SrvDoHPlain, SrvDoQ, SrvDNSCrypt}

// StreamOptions are the options of the two servers built on ServerDNS; zero
// values mean the server's own defaults.
type StreamOptions struct {
	ListenConfig       netext.ListenConfig
	ReadTimeout        time.Duration
	WriteTimeout       time.Duration
	TCPIdleTimeout     time.Duration
	MaxPipelineCount   uint
	UDPSize            int
	TCPSize            int
	MaxUDPRespSize     uint16
	MaxPipelineEnabled bool
}

// Config configures Start.
type Config struct {
	// Handler receives the requests of every server.  Required.  The name
	// of the server instance ("tbench-" + Server) and its protocol are
	// available to it through dnsserver.ServerInfoFromContext.
	Handler dnsserver.Handler

	// Handlers optionally overrides Handler per server instance.
	Handlers map[Server]dnsserver.Handler

	// Metrics, Disposer and RequestContext are passed to every server as is.
	Metrics        dnsserver.MetricsListener
	Disposer       dnsserver.Disposer
	RequestContext dnsserver.ContextConstructor

	// DNS and DoT are the options of ServerDNS and ServerTLS.
	DNS StreamOptions
	DoT StreamOptions

	// ListenConfigs optionally sets the listen configuration of the servers
	// that are not covered by DNS and DoT.
	ListenConfigs map[Server]netext.ListenConfig

	// NonDNSHandler is passed to both ServerHTTPS instances.
	NonDNSHandler http.Handler

	// MaxStreamsPerPeer and QUICLimitsEnabled are passed to ServerQUIC and
	// to the TLS ServerHTTPS instance.
	MaxStreamsPerPeer int
	QUICLimitsEnabled bool

	// EnableH3 makes the TLS ServerHTTPS instance also listen for HTTP/3.
	EnableH3 bool

	// Only limits the set of servers started; nil means all.
	Only []Server

	// PKI is the certificate authority to use; nil means the shared one for
	// ServerName.
	PKI *PKI

	// ServerName is the TLS server name; default "dns.tbench.test".
	ServerName string

	// ProviderName is the DNSCrypt provider name; default
	// "2.dnscrypt-cert.tbench.test".
	ProviderName string

	// LogOutput receives the output of the golibs logger used by the servers;
	// nil means io.Discard.  Note that this is process-global.
	LogOutput io.Writer

	// ShutdownTimeout bounds each server's Shutdown; default 5 s.
	ShutdownTimeout time.Duration
}

// Bench is a set of running servers.
type Bench struct {
	// PKI holds the certificates the TLS-based servers use.
	PKI *PKI

	// The server instances; nil if not started.
	DNS      *dnsserver.ServerDNS
	DoT      *dnsserver.ServerTLS
	DoH      *dnsserver.ServerHTTPS
	DoHPlain *dnsserver.ServerHTTPS
	DoQ      *dnsserver.ServerQUIC
	DNSCrypt *dnsserver.ServerDNSCrypt

	// Addresses ("127.0.0.1:port"); empty if the server was not started.
	UDPAddr         string
	TCPAddr         string
	DoTAddr         string
	DoHAddr         string
	DoH3Addr        string
	DoHPlainAddr    string
	DoQAddr         string
	DNSCryptUDPAddr string
	DNSCryptTCPAddr string

	// DNSCrypt identity.
	DNSCryptProviderName string
	DNSCryptPublicKey    ed25519.PublicKey
	DNSCryptCert         *dnscrypt.Cert

	conf Config

	mu      sync.Mutex
	closed  bool
	started []dnsserver.Server
	closers []func()
}

// Start starts the servers selected by conf.  On error everything already
// started is shut down again.
func Start(conf Config) (b *Bench, err error) {
	if conf.Handler == nil && len(conf.Handlers) == 0 {
		return nil, errors.New("tbench: no handler")
	}

	if conf.ServerName == "" {
		conf.ServerName = "dns.tbench.test"
	}
	if conf.ProviderName == "" {
		conf.ProviderName = "2.dnscrypt-cert.tbench.test"
	}
	if conf.ShutdownTimeout == 0 {
		conf.ShutdownTimeout = 5 * time.Second
	}

	if conf.LogOutput == nil {
		log.SetOutput(io.Discard)
	} else {
		log.SetOutput(conf.LogOutput)
	}

	pki := conf.PKI
	if pki == nil {
		pki, err = SharedPKI(conf.ServerName)
		if err != nil {
			return nil, err
		}
	}

	b = &Bench{PKI: pki, conf: conf}
	defer func() {
		if err != nil {
			b.Close()
			b = nil
		}
	}()

	want := func(s Server) (ok bool) { return conf.Only == nil || slices.Contains(conf.Only, s) }

	if want(SrvDNS) {
		err = b.startDNS()
		if err != nil {
			return b, fmt.Errorf("tbench: starting %s: %w", SrvDNS, err)
		}
	}

	if want(SrvDoT) {
		err = b.startDoT()
		if err != nil {
			return b, fmt.Errorf("tbench: starting %s: %w", SrvDoT, err)
		}
	}

	if want(SrvDoH) {
		err = b.startDoH()
		if err != nil {
			return b, fmt.Errorf("tbench: starting %s: %w", SrvDoH, err)
		}
	}

	if want(SrvDoHPlain) {
		err = b.startDoHPlain()
		if err != nil {
			return b, fmt.Errorf("tbench: starting %s: %w", SrvDoHPlain, err)
		}
	}

	if want(SrvDoQ) {
		err = b.startDoQ()
		if err != nil {
			return b, fmt.Errorf("tbench: starting %s: %w", SrvDoQ, err)
		}
	}

	if want(SrvDNSCrypt) {
		err = b.startDNSCrypt()
		if err != nil {
			return b, fmt.Errorf("tbench: starting %s: %w", SrvDNSCrypt, err)
		}
	}

	return b, nil
}

// Has reports whether server instance s is running.
func (b *Bench) Has(s Server) (ok bool) {
	switch s {
	case SrvDNS:
		return b.DNS != nil
	case SrvDoT:
		return b.DoT != nil
	case SrvDoH:
		return b.DoH != nil
	case SrvDoHPlain:
		return b.DoHPlain != nil
	case SrvDoQ:
		return b.DoQ != nil
	case SrvDNSCrypt:
		return b.DNSCrypt != nil
	default:
		return false
	}
}

// OnClose registers f to be called by Close before the servers are shut down
// (clients that keep connections open register themselves here).
func (b *Bench) OnClose(f func()) {
	b.mu.Lock()
	defer b.mu.Unlock()

	b.closers = append(b.closers, f)
}

// Close shuts every server down.  It returns the shutdown errors joined.
func (b *Bench) Close() (err error) {
	b.mu.Lock()
	if b.closed {
		b.mu.Unlock()

		return nil
	}
	b.closed = true
	closers := b.closers
	started := b.started
	b.mu.Unlock()

	for _, f := range closers {
		f()
	}

	var errs []error
	for _, s := range started {
		ctx, cancel := context.WithTimeout(context.Background(), b.conf.ShutdownTimeout)
		sErr := s.Shutdown(ctx)
		cancel()
		if sErr != nil {
			errs = append(errs, fmt.Errorf("%s: %w", s.Name(), sErr))
		}
	}

	return errors.Join(errs...)
}

func (b *Bench) base(s Server) (cb dnsserver.ConfigBase) {
	h := b.conf.Handler
	if o, ok := b.conf.Handlers[s]; ok {
		h = o
	}

	return dnsserver.ConfigBase{
		Name:           "tbench-" + string(s),
		Addr:           "127.0.0.1:0",
		Handler:        h,
		Metrics:        b.conf.Metrics,
		Disposer:       b.conf.Disposer,
		RequestContext: b.conf.RequestContext,
		ListenConfig:   b.conf.ListenConfigs[s],
	}
}

func (b *Bench) confDNS(s Server, o StreamOptions) (c dnsserver.ConfigDNS) {
	c = dnsserver.ConfigDNS{
		ConfigBase:         b.base(s),
		ReadTimeout:        o.ReadTimeout,
		WriteTimeout:       o.WriteTimeout,
		TCPIdleTimeout:     o.TCPIdleTimeout,
		MaxPipelineCount:   o.MaxPipelineCount,
		UDPSize:            o.UDPSize,
		TCPSize:            o.TCPSize,
		MaxUDPRespSize:     o.MaxUDPRespSize,
		MaxPipelineEnabled: o.MaxPipelineEnabled,
	}
	if o.ListenConfig != nil {
		c.ListenConfig = o.ListenConfig
	}

	return c
}

// startRetry starts a server built by mk, retrying with a fresh instance a
// few times, since the UDP+TCP servers need the same free port number on both
// networks.
func startRetry[T dnsserver.Server](b *Bench, mk func() T) (s T, err error) {
	for attempt := 0; attempt < 20; attempt++ {
		s = mk()
		err = s.Start(context.Background())
		if err == nil {
			b.started = append(b.started, s)

			return s, nil
		}

		// A server whose Start failed after opening its first listener
		// releases it itself: its serving loop sees that the server is not
		// marked as started and closes the listener on return.
		time.Sleep(50 * time.Millisecond)
	}

	return s, err
}

// dualAddr returns "127.0.0.1:port" for a port that was free on both TCP and
// UDP a moment ago.  The servers that listen on both networks open UDP first
// and then insist on the same TCP port; on a machine with many connections in
// TIME_WAIT that port is usually taken, so the bench picks the port from the
// TCP side, which is the crowded one.  Falls back to port 0.
func dualAddr() (addr string) {
	for attempt := 0; attempt < 50; attempt++ {
		l, err := net.Listen("tcp", "127.0.0.1:0")
		if err != nil {
			continue
		}

		addr = l.Addr().String()
		pc, err := net.ListenPacket("udp", addr)
		_ = l.Close()
		if err != nil {
			continue
		}

		_ = pc.Close()

		return addr
	}

	return "127.0.0.1:0"
}

func (b *Bench) startDNS() (err error) {
	b.DNS, err = startRetry(b, func() *dnsserver.ServerDNS {
		c := b.confDNS(SrvDNS, b.conf.DNS)
		c.Addr = dualAddr()

		return dnsserver.NewServerDNS(c)
	})
	if err != nil {
		b.DNS = nil

		return err
	}

	b.UDPAddr = b.DNS.LocalUDPAddr().String()
	b.TCPAddr = b.DNS.LocalTCPAddr().String()

	return nil
}

func (b *Bench) startDoT() (err error) {
	b.DoT, err = startRetry(b, func() *dnsserver.ServerTLS {
		return dnsserver.NewServerTLS(dnsserver.ConfigTLS{
			TLSConfig: b.PKI.ServerTLS("dot"),
			ConfigDNS: b.confDNS(SrvDoT, b.conf.DoT),
		})
	})
	if err != nil {
		b.DoT = nil

		return err
	}

	b.DoTAddr = b.DoT.LocalTCPAddr().String()

	return nil
}

func (b *Bench) startDoH() (err error) {
	b.DoH, err = startRetry(b, func() *dnsserver.ServerHTTPS {
		c := dnsserver.ConfigHTTPS{
			TLSConfDefault:    b.PKI.ServerTLS(dnsserver.NextProtoDoH...),
			NonDNSHandler:     b.conf.NonDNSHandler,
			ConfigBase:        b.base(SrvDoH),
			MaxStreamsPerPeer: b.conf.MaxStreamsPerPeer,
			QUICLimitsEnabled: b.conf.QUICLimitsEnabled,
		}
		if b.conf.EnableH3 {
			c.TLSConfH3 = b.PKI.ServerTLS(dnsserver.NextProtoDoH3...)
			c.Network = dnsserver.NetworkAny
		} else {
			c.Network = dnsserver.NetworkTCP
		}

		return dnsserver.NewServerHTTPS(c)
	})
	if err != nil {
		b.DoH = nil

		return err
	}

	b.DoHAddr = b.DoH.LocalTCPAddr().String()
	if b.conf.EnableH3 {
		b.DoH3Addr = b.DoH.LocalUDPAddr().String()
	}

	return nil
}

func (b *Bench) startDoHPlain() (err error) {
	b.DoHPlain, err = startRetry(b, func() *dnsserver.ServerHTTPS {
		cb := b.base(SrvDoHPlain)
		cb.Network = dnsserver.NetworkTCP

		return dnsserver.NewServerHTTPS(dnsserver.ConfigHTTPS{
			NonDNSHandler: b.conf.NonDNSHandler,
			ConfigBase:    cb,
		})
	})
	if err != nil {
		b.DoHPlain = nil

		return err
	}

	b.DoHPlainAddr = b.DoHPlain.LocalTCPAddr().String()

	return nil
}

func (b *Bench) startDoQ() (err error) {
	b.DoQ, err = startRetry(b, func() *dnsserver.ServerQUIC {
		return dnsserver.NewServerQUIC(dnsserver.ConfigQUIC{
			TLSConfig:         b.PKI.ServerTLS(dnsserver.NextProtoDoQ...),
			ConfigBase:        b.base(SrvDoQ),
			MaxStreamsPerPeer: b.conf.MaxStreamsPerPeer,
			QUICLimitsEnabled: b.conf.QUICLimitsEnabled,
		})
	})
	if err != nil {
		b.DoQ = nil

		return err
	}

	b.DoQAddr = b.DoQ.LocalUDPAddr().String()

	return nil
}

func (b *Bench) startDNSCrypt() (err error) {
	rc, err := dnscrypt.GenerateResolverConfig(b.conf.ProviderName, nil)
	if err != nil {
		return fmt.Errorf("generating resolver config: %w", err)
	}

	cert, err := rc.CreateCert()
	if err != nil {
		return fmt.Errorf("creating cert: %w", err)
	}

	sk, err := dnscrypt.HexDecodeKey(rc.PrivateKey)
	if err != nil {
		return fmt.Errorf("decoding key: %w", err)
	}

	pk, ok := ed25519.PrivateKey(sk).Public().(ed25519.PublicKey)
	if !ok {
		return errors.New("unexpected public key type")
	}

	b.DNSCrypt, err = startRetry(b, func() *dnsserver.ServerDNSCrypt {
		cb := b.base(SrvDNSCrypt)
		cb.Addr = dualAddr()

		return dnsserver.NewServerDNSCrypt(dnsserver.ConfigDNSCrypt{
			ConfigBase:           cb,
			DNSCryptResolverCert: cert,
			DNSCryptProviderName: rc.ProviderName,
		})
	})
	if err != nil {
		b.DNSCrypt = nil

		return err
	}

	b.DNSCryptProviderName = rc.ProviderName
	b.DNSCryptPublicKey = pk
	b.DNSCryptCert = cert
	b.DNSCryptUDPAddr = b.DNSCrypt.LocalUDPAddr().String()
	b.DNSCryptTCPAddr = b.DNSCrypt.LocalTCPAddr().String()

	// The DNSCrypt library marks itself started inside its serving
	// goroutines; wait until both listeners answer the certificate query so
	// that an early Close does not race with that.
	err = b.waitDNSCrypt()
	if err != nil {
		return err
	}

	return nil
}

// DNSCryptStamp returns the stamp for the given network address of the
// DNSCrypt server.
func (b *Bench) DNSCryptStamp(addr string) (stamp dnsstamps.ServerStamp) {
	return dnsstamps.ServerStamp{
		ServerAddrStr: addr,
		ServerPk:      b.DNSCryptPublicKey,
		ProviderName:  b.DNSCryptProviderName,
		Proto:         dnsstamps.StampProtoTypeDNSCrypt,
	}
}

func (b *Bench) waitDNSCrypt() (err error) {
	deadline := time.Now().Add(10 * time.Second)
	for _, network := range []string{"udp", "tcp"} {
		for {
			c := &dnscrypt.Client{Net: network, Timeout: time.Second}
			addr := b.DNSCryptUDPAddr
			if network == "tcp" {
				addr = b.DNSCryptTCPAddr
			}

			_, err = c.DialStamp(b.DNSCryptStamp(addr))
			if err == nil {
				break
			}

			if time.Now().After(deadline) {
				return fmt.Errorf("dnscrypt %s listener does not serve its certificate: %w", network, err)
			}

			time.Sleep(20 * time.Millisecond)
		}
	}

	return nil
}

// dial is net.Dial with a timeout.
func dial(network, addr string, timeout time.Duration) (c net.Conn, err error) {
	d := net.Dialer{Timeout: timeout}

	return d.Dial(network, addr)
}
