package tbench

import (
	"fmt"
	"math/rand/v2"

	"github.com/miekg/dns"
)

// This file holds property-neutral generators of query material.  Every
// generator is a pure function of the PRNG handed to it.

// pick returns a random element.
func pick[T any](rng *rand.Rand, xs []T) (x T) { return xs[rng.IntN(len(xs))] }

// randBytes returns n random bytes.
func randBytes(rng *rand.Rand, n int) (b []byte) {
	b = make([]byte, n)
	for i := range b {
		b[i] = byte(rng.UintN(256))
	}

	return b
}

const lowerAlnum = "abcdefghijklmnopqrstuvwxyz0123456789"

func randLabel(rng *rand.Rand, n int) (l []byte) {
	l = make([]byte, n)
	for i := range l {
		l[i] = lowerAlnum[rng.IntN(len(lowerAlnum))]
	}

	return l
}

func mixCase(rng *rand.Rand, l []byte) (m []byte) {
	m = make([]byte, len(l))
	for i, c := range l {
		if c >= 'a' && c <= 'z' && rng.IntN(2) == 0 {
			c -= 'a' - 'A'
		}
		m[i] = c
	}

	return m
}

// Name kinds produced by GenName.
const (
	NameSimple     = "simple"
	NameMixedCase  = "mixed-case"
	NameUpper      = "upper-case"
	NameMaxLen     = "max-255-octets"
	NameLabel63    = "label-63"
	NameRoot       = "root"
	NameManyLabels = "many-1-byte-labels"
	NameSpecial    = "special-bytes"
	NameUnderscore = "underscore-hyphen-digits"
	NameSingle     = "single-label"
)

// NameKinds lists the kinds GenName produces.
var NameKinds = []string{
	NameSimple, NameMixedCase, NameUpper, NameMaxLen, NameLabel63, NameRoot,
	NameManyLabels, NameSpecial, NameUnderscore, NameSingle,
}

// GenNameOfKind generates a wire-format name of the given kind.  lead, if not
// empty, becomes the first label(s) of the name (except for the root), which
// lets callers make names unique or address a handler's reserved labels.
func GenNameOfKind(rng *rand.Rand, kind string, lead ...[]byte) (name []byte) {
	labels := append([][]byte(nil), lead...)
	used := 1
	for _, l := range labels {
		used += 1 + len(l)
	}

	switch kind {
	case NameRoot:
		return []byte{0}
	case NameSimple:
		labels = append(labels, randLabel(rng, 1+rng.IntN(10)), []byte("example"), []byte(pick(rng, []string{"com", "org", "net", "test"})))
	case NameMixedCase:
		labels = append(labels, mixCase(rng, randLabel(rng, 3+rng.IntN(12))), mixCase(rng, []byte("example")), mixCase(rng, []byte("org")))
		for i := range lead {
			labels[i] = mixCase(rng, labels[i])
		}
	case NameUpper:
		labels = append(labels, []byte("WWW"), []byte("EXAMPLE"), []byte("COM"))
	case NameMaxLen:
		// Fill up to exactly 255 octets on the wire.
		for used < 255 {
			room := 255 - used - 1
			n := min(63, room)
			if room-n == 1 {
				// Do not leave room for a length octet only.
				n--
			}
			labels = append(labels, mixCase(rng, randLabel(rng, n)))
			used += 1 + n
		}
	case NameLabel63:
		labels = append(labels, randLabel(rng, 63), []byte("test"))
	case NameManyLabels:
		n := 20 + rng.IntN(100)
		for i := 0; i < n && used+2 <= 255; i++ {
			labels = append(labels, randLabel(rng, 1))
			used += 2
		}
	case NameSpecial:
		specials := [][]byte{
			[]byte("a.b"), []byte(`back\slash`), []byte("sp ace"), {0}, {0xff, 0xfe}, []byte(`qu"ote`),
			[]byte("semi;colon"), []byte("(paren)"), []byte("@"), []byte("$ORIGIN"), []byte("tab\there"),
			[]byte("*"), {0x7f}, []byte("\xc3\xa9"), []byte("new\nline"),
		}
		k := 1 + rng.IntN(3)
		for i := 0; i < k; i++ {
			labels = append(labels, pick(rng, specials))
		}
		labels = append(labels, []byte("test"))
	case NameUnderscore:
		labels = append(labels, []byte("_dmarc"), []byte("-lead-"), []byte(fmt.Sprint(rng.IntN(1000))), []byte("x--y"), []byte("test"))
	case NameSingle:
		if len(lead) == 0 {
			labels = append(labels, randLabel(rng, 1+rng.IntN(20)))
		}
	default:
		panic("tbench: unknown name kind " + kind)
	}

	return WireName(labels...)
}

// GenName generates a name of a random kind, biased towards the unusual ones.
func GenName(rng *rand.Rand, lead ...[]byte) (name []byte, kind string) {
	kind = pick(rng, []string{
		NameSimple, NameSimple, NameMixedCase, NameMixedCase, NameMixedCase, NameUpper, NameMaxLen, NameMaxLen,
		NameLabel63, NameRoot, NameManyLabels, NameSpecial, NameSpecial, NameUnderscore, NameSingle,
	})

	return GenNameOfKind(rng, kind, lead...), kind
}

// SpecialQTypes are the query types that servers commonly special-case.
var SpecialQTypes = []uint16{
	dns.TypeANY, dns.TypeAXFR, dns.TypeIXFR, dns.TypeOPT, 0, dns.TypeTSIG, dns.TypeTKEY, dns.TypeMAILB,
	dns.TypeMAILA, dns.TypeNone, dns.TypeSIG, dns.TypeRRSIG, dns.TypeNSEC3, dns.TypeHTTPS, dns.TypeSVCB, 65535,
}

// CommonQTypes are ordinary query types.
var CommonQTypes = []uint16{
	dns.TypeA, dns.TypeAAAA, dns.TypeCNAME, dns.TypeTXT, dns.TypeMX, dns.TypeNS, dns.TypeSOA, dns.TypePTR,
	dns.TypeSRV, dns.TypeCAA, dns.TypeDS, dns.TypeDNSKEY,
}

// GenQType returns a query type and the class it was drawn from ("common",
// "special", "random").
func GenQType(rng *rand.Rand) (qtype uint16, class string) {
	switch r := rng.IntN(10); {
	case r < 4:
		return pick(rng, CommonQTypes), "common"
	case r < 9:
		return pick(rng, SpecialQTypes), "special"
	default:
		return uint16(rng.UintN(65536)), "random"
	}
}

// SpecialQClasses are the query classes other than IN worth trying.
var SpecialQClasses = []uint16{dns.ClassCHAOS, dns.ClassANY, dns.ClassNONE, dns.ClassHESIOD, dns.ClassCSNET, 0, 65535}

// GenQClass returns a query class and the class it was drawn from.
func GenQClass(rng *rand.Rand) (qclass uint16, class string) {
	switch r := rng.IntN(10); {
	case r < 5:
		return dns.ClassINET, "in"
	case r < 9:
		return pick(rng, SpecialQClasses), "special"
	default:
		return uint16(rng.UintN(65536)), "random"
	}
}

// GenQueryFlags returns a flags word for a query that a server should accept:
// QR clear, opcode QUERY (or, rarely, NOTIFY), every other bit random, RCODE
// mostly zero.
func GenQueryFlags(rng *rand.Rand) (flags uint16) {
	opcode := dns.OpcodeQuery
	if rng.IntN(12) == 0 {
		opcode = dns.OpcodeNotify
	}

	var bits uint16
	for _, f := range []uint16{FlagAA, FlagTC, FlagRD, FlagRA, FlagZ, FlagAD, FlagCD} {
		if rng.IntN(3) == 0 {
			bits |= f
		}
	}
	if rng.IntN(2) == 0 {
		bits |= FlagRD
	}

	rcode := 0
	if rng.IntN(10) == 0 {
		rcode = rng.IntN(16)
	}

	return FlagsWord(opcode, bits, rcode)
}

// OPTGenOptions restricts GenOPT.
type OPTGenOptions struct {
	// NoMalformed excludes options that the DNS library refuses to parse.
	NoMalformed bool
	// MaxPadding bounds the padding option length; 0 means 40.
	MaxPadding int
}

// GenOPT returns nil (no EDNS) or an OPT specification covering UDP sizes
// 0…65535, DO, version, Z bits and options: padding, keep-alive, NSID, client
// subnet (valid, zero, malformed), cookies, expire, EDE, unknown codes.  tags
// names what was included; malformed is set when an option was generated that
// is expected to make the whole message unparseable.
func GenOPT(rng *rand.Rand, o OPTGenOptions) (opt *OPTSpec, tags []string, malformed bool) {
	if rng.IntN(5) < 2 {
		return nil, []string{"no-edns"}, false
	}

	opt = &OPTSpec{}
	opt.UDPSize = pick(rng, []uint16{0, 1, 511, 512, 513, 1232, 1452, 4096, 65535, uint16(rng.UintN(65536))})
	tags = append(tags, fmt.Sprintf("udpsize-%s", sizeClass(opt.UDPSize)))

	if rng.IntN(3) == 0 {
		opt.DO = true
		tags = append(tags, "do")
	}
	if rng.IntN(12) == 0 {
		opt.Version = uint8(1 + rng.IntN(3))
		tags = append(tags, "version-nonzero")
	}
	if rng.IntN(12) == 0 {
		opt.ZFlags = uint16(rng.UintN(0x8000))
		tags = append(tags, "z-bits")
	}
	if rng.IntN(16) == 0 {
		opt.ExtRcode = uint8(rng.UintN(256))
		tags = append(tags, "ext-rcode")
	}

	maxPad := o.MaxPadding
	if maxPad == 0 {
		maxPad = 40
	}

	n := rng.IntN(4)
	for i := 0; i < n; i++ {
		switch rng.IntN(12) {
		case 0, 1:
			opt.Options = append(opt.Options, Option{Code: OptPadding, Data: make([]byte, rng.IntN(maxPad+1))})
			tags = append(tags, "padding")
		case 2, 3:
			var d []byte
			if rng.IntN(3) == 0 {
				d = []byte{0, byte(rng.UintN(256))}
			}
			opt.Options = append(opt.Options, Option{Code: OptKeepAlive, Data: d})
			tags = append(tags, "keepalive")
		case 4:
			opt.Options = append(opt.Options, Option{Code: OptNSID, Data: randBytes(rng, rng.IntN(9))})
			tags = append(tags, "nsid")
		case 5:
			// Valid ECS: IPv4 /24 or IPv6 /56.
			if rng.IntN(2) == 0 {
				opt.Options = append(opt.Options, Option{Code: OptSubnet, Data: []byte{0, 1, 24, 0, 192, 0, 2}})
			} else {
				opt.Options = append(opt.Options, Option{Code: OptSubnet, Data: []byte{0, 2, 56, 0, 0x20, 0x01, 0x0d, 0xb8, 0, 0, 1}})
			}
			tags = append(tags, "ecs-valid")
		case 6:
			opt.Options = append(opt.Options, Option{Code: OptSubnet, Data: []byte{0, 1, 0, 0}})
			tags = append(tags, "ecs-zero")
		case 7:
			if o.NoMalformed {
				continue
			}
			bad := [][]byte{
				{0, 1, 33, 0, 1, 2, 3, 4},       // IPv4 prefix length 33
				{0, 1, 24, 0, 1, 2, 3, 4, 5, 6}, // IPv4 with six address octets
				{0, 2, 129, 0, 1},               // IPv6 prefix length 129
				{0, 1},                          // cut short
				{0, 7, 8, 0, 1},                 // unknown family
			}
			opt.Options = append(opt.Options, Option{Code: OptSubnet, Data: pick(rng, bad)})
			tags = append(tags, "ecs-malformed")
			malformed = true
		case 8:
			l := pick(rng, []int{8, 16, 24, 40})
			opt.Options = append(opt.Options, Option{Code: OptCookie, Data: randBytes(rng, l)})
			tags = append(tags, "cookie")
		case 9:
			opt.Options = append(opt.Options, Option{Code: OptExpire})
			tags = append(tags, "expire")
		case 10:
			opt.Options = append(opt.Options, Option{Code: OptEDE, Data: []byte{0, byte(rng.UintN(30))}})
			tags = append(tags, "ede")
		default:
			opt.Options = append(opt.Options, Option{Code: uint16(65001 + rng.IntN(500)), Data: randBytes(rng, rng.IntN(6))})
			tags = append(tags, "unknown-option")
		}
	}

	return opt, tags, malformed
}

func sizeClass(s uint16) (c string) {
	switch {
	case s == 0:
		return "0"
	case s < 512:
		return "lt512"
	case s == 512:
		return "512"
	case s <= 1232:
		return "le1232"
	case s <= 4096:
		return "le4096"
	case s == 65535:
		return "65535"
	default:
		return "gt4096"
	}
}

// Truncations returns msg cut at every offset 0…len(msg)-1.
func Truncations(msg []byte) (cuts [][]byte) {
	for k := 0; k < len(msg); k++ {
		cuts = append(cuts, append([]byte(nil), msg[:k]...))
	}

	return cuts
}

// CountValues are the section-count values used for header mutations.
var CountValues = []uint16{0, 1, 2, 65535}

// WithHeader returns a copy of msg (at least 12 bytes) whose flags word and
// section counts are replaced; the body is left as it is, so the counts may
// lie.
func WithHeader(msg []byte, flags uint16, counts [4]uint16) (mutated []byte) {
	mutated = append([]byte(nil), msg...)
	if len(mutated) < 12 {
		return mutated
	}

	mutated[2], mutated[3] = byte(flags>>8), byte(flags)
	for i, c := range counts {
		mutated[4+2*i], mutated[5+2*i] = byte(c>>8), byte(c)
	}

	return mutated
}

// SetID returns a copy of msg whose first two bytes are id, if it has two.
func SetID(msg []byte, id uint16) (out []byte) {
	out = append([]byte(nil), msg...)
	if len(out) >= 2 {
		out[0], out[1] = byte(id>>8), byte(id)
	}

	return out
}

// CompressionLoop returns a 1-question message whose name is a compression
// pointer to itself.
func CompressionLoop(id uint16) (msg []byte) {
	q := QuerySpec{ID: id, Flags: FlagRD, Name: []byte{0xc0, 12}, QType: dns.TypeA, QClass: dns.ClassINET}

	return q.Wire()
}
