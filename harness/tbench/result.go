package tbench

import (
	"encoding/binary"
	"encoding/hex"
	"errors"
	"fmt"
	"io"
	"net"
	"os"
	"syscall"
	"time"
)

// Outcome is the uniform classification of what came back for one request.
type Outcome string

const (
	// Answered: at least one complete DNS message came back (Responses).
	Answered Outcome = "answered"
	// Silence: datagram transports only; nothing arrived within the wait.
	Silence Outcome = "silence"
	// Closed: stream transports only; the peer closed (EOF / reset) before a
	// complete response frame arrived.
	Closed Outcome = "closed"
	// Timeout: stream / HTTP / QUIC; nothing arrived within the wait and the
	// connection was still open.
	Timeout Outcome = "timeout"
	// HTTPStatus: an HTTP response with a status other than 200 (HTTPStatus).
	HTTPStatus Outcome = "http-status"
	// QUICError: the stream or connection was terminated with a QUIC error
	// (QUICKind, QUICCode, QUICRemote).
	QUICError Outcome = "quic-error"
	// Failed: any other client-side failure (dial error, undecryptable
	// DNSCrypt datagram, HTTP transport error, ...); see Err.
	Failed Outcome = "failed"
)

// Result is what one request produced on one client path.
type Result struct {
	// Outcome is the class of the result.
	Outcome Outcome `json:"outcome"`

	// Responses holds every DNS message received for this request, exactly as
	// received (after removing the transport framing / decryption).
	Responses [][]byte `json:"-"`

	// WireLens has one entry per response: the length as seen on the wire
	// (UDP datagram length; value of the 2-byte prefix on TCP/DoT/DoQ; HTTP
	// body length; for DNSCrypt the length of the encrypted packet).
	WireLens []int `json:"wire_lens,omitempty"`

	// Trailing holds bytes received after the last complete frame (streams).
	Trailing []byte `json:"-"`

	// HTTP details.
	HTTPStatus  int    `json:"http_status,omitempty"`
	HTTPProto   string `json:"http_proto,omitempty"`
	ContentType string `json:"content_type,omitempty"`
	Body        []byte `json:"-"`

	// QUIC details.  QUICKind is one of "application", "stream", "transport",
	// "idle-timeout", "other".
	QUICKind   string `json:"quic_kind,omitempty"`
	QUICCode   uint64 `json:"quic_code,omitempty"`
	QUICRemote bool   `json:"quic_remote,omitempty"`

	// Err is the textual form of the client-side error, if any.
	Err string `json:"err,omitempty"`

	// SendElapsed is, for QUIC, the time from just before the stream was
	// opened until all request bytes and the FIN had been handed to the
	// transport.  The DoQ server gives a stream two seconds to deliver its
	// query; a caller can use this to recognise a client-side stall.
	SendElapsed time.Duration `json:"send_elapsed_ns,omitempty"`
}

// One returns the single response, or nil if there is not exactly one.
func (r Result) One() (b []byte) {
	if len(r.Responses) == 1 {
		return r.Responses[0]
	}

	return nil
}

// String renders the result compactly for witnesses.
func (r Result) String() (s string) {
	s = string(r.Outcome)
	switch r.Outcome {
	case Answered:
		s += fmt.Sprintf(" n=%d", len(r.Responses))
		for i, b := range r.Responses {
			if i >= 3 {
				s += " ..."

				break
			}
			s += " " + hex.EncodeToString(b)
		}
	case HTTPStatus:
		s += fmt.Sprintf(" %d %s", r.HTTPStatus, r.HTTPProto)
	case QUICError:
		s += fmt.Sprintf(" kind=%s code=%d remote=%t", r.QUICKind, r.QUICCode, r.QUICRemote)
	}
	if r.Err != "" {
		s += " err=" + r.Err
	}
	if len(r.Trailing) > 0 {
		s += " trailing=" + hex.EncodeToString(r.Trailing)
	}

	return s
}

// ErrTimeout is returned by the low-level receive functions when nothing
// arrived within the wait.
var ErrTimeout = errors.New("tbench: timeout")

// ErrClosed is returned by the low-level receive functions when the peer
// closed the connection.
var ErrClosed = errors.New("tbench: connection closed by peer")

// isTimeout reports whether err is a deadline error.
func isTimeout(err error) (ok bool) {
	if errors.Is(err, os.ErrDeadlineExceeded) {
		return true
	}

	var ne net.Error

	return errors.As(err, &ne) && ne.Timeout()
}

// isPeerClose reports whether err means that the peer closed or reset the
// connection.
func isPeerClose(err error) (ok bool) {
	return errors.Is(err, io.EOF) ||
		errors.Is(err, io.ErrUnexpectedEOF) ||
		errors.Is(err, syscall.ECONNRESET) ||
		errors.Is(err, syscall.EPIPE) ||
		errors.Is(err, syscall.ECONNABORTED)
}

// Frame returns payload preceded by its 2-byte big-endian length.
func Frame(payload []byte) (framed []byte) {
	return FrameWithPrefix(uint16(len(payload)), payload)
}

// FrameWithPrefix returns payload preceded by an arbitrary 2-byte prefix, so
// that the announced length can disagree with the payload.
func FrameWithPrefix(prefix uint16, payload []byte) (framed []byte) {
	framed = make([]byte, 2+len(payload))
	binary.BigEndian.PutUint16(framed, prefix)
	copy(framed[2:], payload)

	return framed
}

// SplitFrames cuts data into complete 2-byte-prefixed frames and returns the
// rest, if any.
func SplitFrames(data []byte) (frames [][]byte, rest []byte) {
	for len(data) >= 2 {
		l := int(binary.BigEndian.Uint16(data))
		if len(data) < 2+l {
			break
		}

		frames = append(frames, data[2:2+l])
		data = data[2+l:]
	}

	return frames, data
}
