package tbench

import (
	"bufio"
	"bytes"
	"context"
	"crypto/tls"
	"encoding/base64"
	"errors"
	"fmt"
	"io"
	"net"
	"net/http"
	"net/url"
	"strings"
	"time"

	"github.com/AdguardTeam/AdGuardDNS/internal/dnsserver"
	"github.com/quic-go/quic-go"
	"github.com/quic-go/quic-go/http3"
	"golang.org/x/net/http2"
)

// HTTPVariant selects how a DoH client talks to the bench.
type HTTPVariant string

// DoH client variants.
const (
	HTTP2     HTTPVariant = "h2"    // HTTP/2 over TLS, to the TLS instance
	HTTP1TLS  HTTPVariant = "h1"    // HTTP/1.1 over TLS, to the TLS instance
	HTTPPlain HTTPVariant = "plain" // HTTP/1.1 without TLS, to the plain instance
	HTTP3     HTTPVariant = "h3"    // HTTP/3, to the TLS instance (needs EnableH3)
)

// HTTPClient is a DoH client of one variant.  It is safe for concurrent use.
type HTTPClient struct {
	Variant HTTPVariant

	client *http.Client
	base   string
	close  func()
}

// NewHTTPClient creates a DoH client of the given variant.
func (b *Bench) NewHTTPClient(v HTTPVariant) (c *HTTPClient, err error) {
	c = &HTTPClient{Variant: v}

	dialer := &net.Dialer{Timeout: 10 * time.Second}

	switch v {
	case HTTP2:
		if b.DoH == nil {
			return nil, errors.New("tbench: TLS DoH server not running")
		}

		addr := b.DoHAddr
		tr := &http2.Transport{
			TLSClientConfig: b.PKI.ClientTLS(http2.NextProtoTLS),
			DialTLSContext: func(ctx context.Context, _, _ string, conf *tls.Config) (net.Conn, error) {
				td := &tls.Dialer{NetDialer: dialer, Config: conf}

				return td.DialContext(ctx, "tcp", addr)
			},
			DisableCompression: true,
		}
		c.client = &http.Client{Transport: tr}
		c.base = "https://" + b.PKI.ServerName
		c.close = tr.CloseIdleConnections
	case HTTP1TLS:
		if b.DoH == nil {
			return nil, errors.New("tbench: TLS DoH server not running")
		}

		addr := b.DoHAddr
		tr := &http.Transport{
			TLSClientConfig: b.PKI.ClientTLS("http/1.1"),
			// A non-nil empty map disables HTTP/2.
			TLSNextProto: map[string]func(string, *tls.Conn) http.RoundTripper{},
			DialContext: func(ctx context.Context, _, _ string) (net.Conn, error) {
				return dialer.DialContext(ctx, "tcp", addr)
			},
			DisableCompression:  true,
			MaxIdleConnsPerHost: 64,
		}
		c.client = &http.Client{Transport: tr}
		c.base = "https://" + b.PKI.ServerName
		c.close = tr.CloseIdleConnections
	case HTTPPlain:
		if b.DoHPlain == nil {
			return nil, errors.New("tbench: plain DoH server not running")
		}

		addr := b.DoHPlainAddr
		tr := &http.Transport{
			DialContext: func(ctx context.Context, _, _ string) (net.Conn, error) {
				return dialer.DialContext(ctx, "tcp", addr)
			},
			DisableCompression:  true,
			MaxIdleConnsPerHost: 64,
		}
		c.client = &http.Client{Transport: tr}
		c.base = "http://" + b.PKI.ServerName
		c.close = tr.CloseIdleConnections
	case HTTP3:
		if b.DoH == nil || b.DoH3Addr == "" {
			return nil, errors.New("tbench: HTTP/3 not enabled")
		}

		addr := b.DoH3Addr
		tr := &http3.Transport{
			TLSClientConfig:    b.PKI.ClientTLS(http3.NextProtoH3),
			DisableCompression: true,
			Dial: func(
				ctx context.Context,
				_ string,
				tlsCfg *tls.Config,
				cfg *quic.Config,
			) (quic.EarlyConnection, error) {
				return quic.DialAddrEarly(ctx, addr, tlsCfg, cfg)
			},
		}
		c.client = &http.Client{Transport: tr}
		c.base = "https://" + b.PKI.ServerName
		c.close = func() { _ = tr.Close() }
	default:
		return nil, fmt.Errorf("tbench: unknown http variant %q", v)
	}

	b.OnClose(c.Close)

	return c, nil
}

// Close releases the client's connections.
func (c *HTTPClient) Close() {
	if c.close != nil {
		c.close()
	}
}

// URL returns the absolute URL for a path (with optional raw query).
func (c *HTTPClient) URL(pathAndQuery string) (u string) { return c.base + pathAndQuery }

// Base64URL is the unpadded base64url encoding RFC 8484 prescribes.
func Base64URL(msg []byte) (s string) { return base64.RawURLEncoding.EncodeToString(msg) }

// Get sends msg as the unpadded base64url "dns" parameter of a GET request to
// /dns-query.
func (c *HTTPClient) Get(msg []byte, wait time.Duration) (res Result) {
	return c.GetRawQuery(dnsserver.PathDoH, "dns="+Base64URL(msg), wait)
}

// GetRawQuery sends a GET request to path with exactly the given raw query
// string.
func (c *HTTPClient) GetRawQuery(path, rawQuery string, wait time.Duration) (res Result) {
	u := c.base + path
	if rawQuery != "" {
		u += "?" + rawQuery
	}

	ctx, cancel := context.WithTimeout(context.Background(), wait)
	defer cancel()

	req, err := http.NewRequestWithContext(ctx, http.MethodGet, u, nil)
	if err != nil {
		return Result{Outcome: Failed, Err: err.Error()}
	}

	req.Header.Set("Accept", dnsserver.MimeTypeDoH)

	return c.Do(req)
}

// Post sends msg as the body of a POST request to /dns-query.
func (c *HTTPClient) Post(msg []byte, wait time.Duration) (res Result) {
	return c.Send(http.MethodPost, dnsserver.PathDoH, msg, wait)
}

// Send sends body with an arbitrary method to path.
func (c *HTTPClient) Send(method, path string, body []byte, wait time.Duration) (res Result) {
	ctx, cancel := context.WithTimeout(context.Background(), wait)
	defer cancel()

	req, err := http.NewRequestWithContext(ctx, method, c.base+path, bytes.NewReader(body))
	if err != nil {
		return Result{Outcome: Failed, Err: err.Error()}
	}

	req.Header.Set("Content-Type", dnsserver.MimeTypeDoH)
	req.Header.Set("Accept", dnsserver.MimeTypeDoH)

	return c.Do(req)
}

// JSON sends a GET request to the JSON API (/resolve) with the given
// parameters.  The JSON document is in Result.Body.
func (c *HTTPClient) JSON(params url.Values, wait time.Duration) (res Result) {
	ctx, cancel := context.WithTimeout(context.Background(), wait)
	defer cancel()

	u := c.base + dnsserver.PathJSON + "?" + params.Encode()
	req, err := http.NewRequestWithContext(ctx, http.MethodGet, u, nil)
	if err != nil {
		return Result{Outcome: Failed, Err: err.Error()}
	}

	req.Header.Set("Accept", dnsserver.MimeTypeJSON)

	return c.Do(req)
}

// pieceReader hands out a body piece by piece.  It is deliberately not one of
// the reader types whose length net/http can see, so the request is sent
// without a declared length.
type pieceReader struct {
	pieces [][]byte
}

// Read implements the io.Reader interface for *pieceReader.
func (r *pieceReader) Read(p []byte) (n int, err error) {
	for len(r.pieces) > 0 && len(r.pieces[0]) == 0 {
		r.pieces = r.pieces[1:]
	}

	if len(r.pieces) == 0 {
		return 0, io.EOF
	}

	n = copy(p, r.pieces[0])
	r.pieces[0] = r.pieces[0][n:]

	return n, nil
}

// SplitPieces cuts b into n pieces of nearly equal size (fewer if b is
// shorter than n bytes).
func SplitPieces(b []byte, n int) (pieces [][]byte) {
	if n < 1 {
		n = 1
	}

	for i := 0; i < n; i++ {
		lo, hi := len(b)*i/n, len(b)*(i+1)/n
		if hi > lo {
			pieces = append(pieces, b[lo:hi])
		}
	}

	return pieces
}

// PostUnsized sends msg as the body of a POST request to /dns-query without
// announcing its length: the body is streamed in the given number of pieces,
// which makes an HTTP/1.1 client use "Transfer-Encoding: chunked" (one chunk
// per piece) and an HTTP/2 or HTTP/3 client omit content-length.
func (c *HTTPClient) PostUnsized(msg []byte, pieces int, wait time.Duration) (res Result) {
	ctx, cancel := context.WithTimeout(context.Background(), wait)
	defer cancel()

	body := &pieceReader{pieces: SplitPieces(msg, pieces)}
	req, err := http.NewRequestWithContext(ctx, http.MethodPost, c.base+dnsserver.PathDoH, body)
	if err != nil {
		return Result{Outcome: Failed, Err: err.Error()}
	}

	// Unknown length, whatever the body type.
	req.ContentLength = -1
	req.Header.Set("Content-Type", dnsserver.MimeTypeDoH)
	req.Header.Set("Accept", dnsserver.MimeTypeDoH)

	return c.Do(req)
}

// ChunkedPOST renders, byte by byte, an HTTP/1.1 POST request to path whose
// body is sent with "Transfer-Encoding: chunked", one chunk per element of
// chunks (empty elements are skipped, since an empty chunk ends the body).
func ChunkedPOST(host, path string, chunks [][]byte) (request []byte) {
	var b bytes.Buffer
	fmt.Fprintf(&b, "POST %s HTTP/1.1\r\nHost: %s\r\n", path, host)
	fmt.Fprintf(&b, "Content-Type: %s\r\nAccept: %s\r\n", dnsserver.MimeTypeDoH, dnsserver.MimeTypeDoH)
	b.WriteString("Transfer-Encoding: chunked\r\nConnection: close\r\n\r\n")
	for _, c := range chunks {
		if len(c) == 0 {
			continue
		}

		fmt.Fprintf(&b, "%x\r\n", len(c))
		b.Write(c)
		b.WriteString("\r\n")
	}
	b.WriteString("0\r\n\r\n")

	return b.Bytes()
}

// RawHTTP1 opens a new connection to the TLS (HTTP1TLS) or plain (HTTPPlain)
// DoH instance, writes exactly request, which must be a complete HTTP/1.1
// request, and parses one response.
func (b *Bench) RawHTTP1(v HTTPVariant, request []byte, wait time.Duration) (res Result) {
	return b.RawHTTP1Pieces(v, [][]byte{request}, 0, wait)
}

// RawHTTP1Pieces is RawHTTP1 with the request written piece by piece, each
// with its own write call and a pause in between.
func (b *Bench) RawHTTP1Pieces(v HTTPVariant, pieces [][]byte, pause, wait time.Duration) (res Result) {
	var (
		conn net.Conn
		err  error
	)

	switch v {
	case HTTP1TLS:
		d := &net.Dialer{Timeout: 10 * time.Second}
		conn, err = tls.DialWithDialer(d, "tcp", b.DoHAddr, b.PKI.ClientTLS("http/1.1"))
	case HTTPPlain:
		conn, err = dial("tcp", b.DoHPlainAddr, 10*time.Second)
	default:
		return Result{Outcome: Failed, Err: fmt.Sprintf("raw http/1.1 is not available for variant %q", v)}
	}
	if err != nil {
		return Result{Outcome: Failed, Err: "dial: " + err.Error()}
	}
	defer func() { _ = conn.Close() }()

	_ = conn.SetDeadline(time.Now().Add(wait))
	for i, p := range pieces {
		if len(p) == 0 {
			continue
		}

		if i > 0 && pause > 0 {
			time.Sleep(pause)
		}

		_, err = conn.Write(p)
		if err != nil {
			return Result{Outcome: Failed, Err: "write: " + err.Error()}
		}
	}

	resp, err := http.ReadResponse(bufio.NewReader(conn), nil)
	if err != nil {
		switch {
		case isTimeout(err):
			return Result{Outcome: Timeout, Err: err.Error()}
		case isPeerClose(err):
			return Result{Outcome: Closed, Err: err.Error()}
		default:
			return Result{Outcome: Failed, Err: "reading response: " + err.Error()}
		}
	}

	return resultFromResponse(resp)
}

// Do performs an arbitrary request and classifies the response: status 200
// is Answered (a body of type application/dns-message is the one response; any
// other body is only in Body), other statuses are HTTPStatus.
func (c *HTTPClient) Do(req *http.Request) (res Result) {
	resp, err := c.client.Do(req)
	if err != nil {
		if errors.Is(err, context.DeadlineExceeded) || isTimeout(err) {
			return Result{Outcome: Timeout, Err: err.Error()}
		}

		return Result{Outcome: Failed, Err: err.Error()}
	}

	return resultFromResponse(resp)
}

// resultFromResponse reads the body of resp, closes it and classifies the
// response.
func resultFromResponse(resp *http.Response) (res Result) {
	defer func() { _ = resp.Body.Close() }()

	body, err := io.ReadAll(resp.Body)
	res = Result{
		HTTPStatus:  resp.StatusCode,
		HTTPProto:   resp.Proto,
		ContentType: resp.Header.Get("Content-Type"),
		Body:        body,
	}
	if err != nil {
		res.Outcome = Failed
		res.Err = "reading body: " + err.Error()

		return res
	}

	if resp.StatusCode != http.StatusOK {
		res.Outcome = HTTPStatus

		return res
	}

	res.Outcome = Answered
	if strings.HasPrefix(res.ContentType, dnsserver.MimeTypeDoH) {
		res.Responses = [][]byte{body}
		res.WireLens = []int{len(body)}
	}

	return res
}
