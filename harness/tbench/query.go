package tbench

import (
	"encoding/binary"
	"strings"

	"github.com/miekg/dns"
)

// Header flag bits of the second 16-bit word of a DNS header.
const (
	FlagQR uint16 = 1 << 15
	FlagAA uint16 = 1 << 10
	FlagTC uint16 = 1 << 9
	FlagRD uint16 = 1 << 8
	FlagRA uint16 = 1 << 7
	FlagZ  uint16 = 1 << 6
	FlagAD uint16 = 1 << 5
	FlagCD uint16 = 1 << 4
)

// FlagsWord builds the flags word from an opcode, flag bits and an rcode.
func FlagsWord(opcode int, bits uint16, rcode int) (w uint16) {
	return bits&^(0xf<<11)&^0xf | uint16(opcode&0xf)<<11 | uint16(rcode&0xf)
}

// EDNS option codes used by the generators.
const (
	OptNSID      uint16 = 3
	OptSubnet    uint16 = 8
	OptExpire    uint16 = 9
	OptCookie    uint16 = 10
	OptKeepAlive uint16 = 11
	OptPadding   uint16 = 12
	OptEDE       uint16 = 15
)

// Option is one raw EDNS option.
type Option struct {
	Data []byte
	Code uint16
}

// OPTSpec describes an OPT pseudo-record at the wire level.
type OPTSpec struct {
	Options  []Option
	UDPSize  uint16
	ZFlags   uint16 // low 15 bits of the flags field (everything but DO)
	ExtRcode uint8
	Version  uint8
	DO       bool
}

// Wire renders the OPT record.
func (o *OPTSpec) Wire() (rr []byte) {
	var rdata []byte
	for _, op := range o.Options {
		rdata = binary.BigEndian.AppendUint16(rdata, op.Code)
		rdata = binary.BigEndian.AppendUint16(rdata, uint16(len(op.Data)))
		rdata = append(rdata, op.Data...)
	}

	flags := o.ZFlags & 0x7fff
	if o.DO {
		flags |= 0x8000
	}

	rr = []byte{0}
	rr = binary.BigEndian.AppendUint16(rr, dns.TypeOPT)
	rr = binary.BigEndian.AppendUint16(rr, o.UDPSize)
	rr = append(rr, o.ExtRcode, o.Version)
	rr = binary.BigEndian.AppendUint16(rr, flags)
	rr = binary.BigEndian.AppendUint16(rr, uint16(len(rdata)))
	rr = append(rr, rdata...)

	return rr
}

// Has reports whether the OPT carries an option with the given code.
func (o *OPTSpec) Has(code uint16) (ok bool) {
	if o == nil {
		return false
	}

	for _, op := range o.Options {
		if op.Code == code {
			return true
		}
	}

	return false
}

// QuerySpec describes a DNS message at the wire level.  Wire assembles it
// without any help from a DNS library, so the bytes are exactly what the spec
// says (case of the name, flag bits, counts).
type QuerySpec struct {
	// Counts, if not nil, overrides the four section counts of the header
	// (QD, AN, NS, AR) independently of the actual content.
	Counts *[4]uint16

	// OPT, if not nil, is appended as the last additional record.
	OPT *OPTSpec

	// Name is the wire-format question name.  NoQuestion omits the question.
	Name []byte

	// ExtraQuestions are further complete question entries (wire format).
	ExtraQuestions [][]byte

	// Answer, Ns and Extra hold raw resource records.
	Answer [][]byte
	Ns     [][]byte
	Extra  [][]byte

	ID         uint16
	Flags      uint16
	QType      uint16
	QClass     uint16
	NoQuestion bool
}

// Wire renders the message.
func (q *QuerySpec) Wire() (msg []byte) {
	qd := uint16(len(q.ExtraQuestions))
	if !q.NoQuestion {
		qd++
	}

	ar := uint16(len(q.Extra))
	if q.OPT != nil {
		ar++
	}

	counts := [4]uint16{qd, uint16(len(q.Answer)), uint16(len(q.Ns)), ar}
	if q.Counts != nil {
		counts = *q.Counts
	}

	msg = make([]byte, 0, 64+len(q.Name))
	msg = binary.BigEndian.AppendUint16(msg, q.ID)
	msg = binary.BigEndian.AppendUint16(msg, q.Flags)
	for _, c := range counts {
		msg = binary.BigEndian.AppendUint16(msg, c)
	}

	if !q.NoQuestion {
		msg = append(msg, QuestionWire(q.Name, q.QType, q.QClass)...)
	}
	for _, eq := range q.ExtraQuestions {
		msg = append(msg, eq...)
	}
	for _, sec := range [][][]byte{q.Answer, q.Ns, q.Extra} {
		for _, rr := range sec {
			msg = append(msg, rr...)
		}
	}
	if q.OPT != nil {
		msg = append(msg, q.OPT.Wire()...)
	}

	return msg
}

// QuestionWire renders one question entry.
func QuestionWire(name []byte, qtype, qclass uint16) (b []byte) {
	b = append(b, name...)
	b = binary.BigEndian.AppendUint16(b, qtype)
	b = binary.BigEndian.AppendUint16(b, qclass)

	return b
}

// RawRR renders one resource record from a wire-format owner name and rdata.
func RawRR(name []byte, rrtype, class uint16, ttl uint32, rdata []byte) (rr []byte) {
	rr = append(rr, name...)
	rr = binary.BigEndian.AppendUint16(rr, rrtype)
	rr = binary.BigEndian.AppendUint16(rr, class)
	rr = binary.BigEndian.AppendUint32(rr, ttl)
	rr = binary.BigEndian.AppendUint16(rr, uint16(len(rdata)))
	rr = append(rr, rdata...)

	return rr
}

// WireName builds a wire-format name from raw labels (no escaping: label
// bytes are taken as they are).
func WireName(labels ...[]byte) (name []byte) {
	for _, l := range labels {
		name = append(name, byte(len(l)))
		name = append(name, l...)
	}

	return append(name, 0)
}

// WireNameString builds a wire-format name from a plain dotted string whose
// labels contain no dots or escapes ("www.Example.com." or "." for the root).
func WireNameString(s string) (name []byte) {
	s = strings.TrimSuffix(s, ".")
	if s == "" {
		return []byte{0}
	}

	var labels [][]byte
	for _, l := range strings.Split(s, ".") {
		labels = append(labels, []byte(l))
	}

	return WireName(labels...)
}

// SimpleQuery renders a minimal query: given ID, RD set, one question.
func SimpleQuery(id uint16, name string, qtype, qclass uint16) (msg []byte) {
	q := QuerySpec{ID: id, Flags: FlagRD, Name: WireNameString(name), QType: qtype, QClass: qclass}

	return q.Wire()
}

// PresentationName converts a wire-format name into the presentation format
// used by miekg/dns (escapes included), or "" if it does not parse.
func PresentationName(wire []byte) (s string) {
	s, _, err := dns.UnpackDomainName(wire, 0)
	if err != nil {
		return ""
	}

	return s
}
