package tbench

import (
	"context"
	"fmt"
	"math/rand/v2"
	"sync"

	"github.com/AdguardTeam/AdGuardDNS/internal/dnsserver"
)

// CountingMetrics is a dnsserver.MetricsListener that counts the callbacks of
// the servers.  It is an observation device only.
type CountingMetrics struct {
	mu   sync.Mutex
	snap MetricsSnapshot
}

// MetricsSnapshot is the state of a CountingMetrics.
type MetricsSnapshot struct {
	// PanicValues holds the first few recovered panic values, rendered.
	PanicValues []string `json:"panic_values,omitempty"`
	// ErrorTexts holds the first few OnError texts.
	ErrorTexts []string `json:"error_texts,omitempty"`

	Requests        int64 `json:"requests"`
	RequestsNoResp  int64 `json:"requests_without_response"`
	InvalidMsgs     int64 `json:"invalid_msgs"`
	Errors          int64 `json:"errors"`
	Panics          int64 `json:"panics"`
	QUICValidations int64 `json:"quic_validations"`
}

// type check
var _ dnsserver.MetricsListener = (*CountingMetrics)(nil)

// OnRequest implements the dnsserver.MetricsListener interface.
func (m *CountingMetrics) OnRequest(_ context.Context, info *dnsserver.QueryInfo, _ dnsserver.ResponseWriter) {
	m.mu.Lock()
	defer m.mu.Unlock()

	m.snap.Requests++
	if info == nil || info.Response == nil {
		m.snap.RequestsNoResp++
	}
}

// OnInvalidMsg implements the dnsserver.MetricsListener interface.
func (m *CountingMetrics) OnInvalidMsg(_ context.Context) {
	m.mu.Lock()
	defer m.mu.Unlock()

	m.snap.InvalidMsgs++
}

// OnError implements the dnsserver.MetricsListener interface.
func (m *CountingMetrics) OnError(_ context.Context, err error) {
	m.mu.Lock()
	defer m.mu.Unlock()

	m.snap.Errors++
	if len(m.snap.ErrorTexts) < 8 && err != nil {
		m.snap.ErrorTexts = append(m.snap.ErrorTexts, err.Error())
	}
}

// OnPanic implements the dnsserver.MetricsListener interface.
func (m *CountingMetrics) OnPanic(_ context.Context, v any) {
	m.mu.Lock()
	defer m.mu.Unlock()

	m.snap.Panics++
	if len(m.snap.PanicValues) < 8 {
		m.snap.PanicValues = append(m.snap.PanicValues, fmt.Sprint(v))
	}
}

// OnQUICAddressValidation implements the dnsserver.MetricsListener interface.
func (m *CountingMetrics) OnQUICAddressValidation(_ bool) {
	m.mu.Lock()
	defer m.mu.Unlock()

	m.snap.QUICValidations++
}

// Snapshot returns a copy of the counters.
func (m *CountingMetrics) Snapshot() (s MetricsSnapshot) {
	m.mu.Lock()
	defer m.mu.Unlock()

	s = m.snap
	s.PanicValues = append([]string(nil), m.snap.PanicValues...)
	s.ErrorTexts = append([]string(nil), m.snap.ErrorTexts...)

	return s
}

// NewRand returns a PCG generator for the two seed words; a convenience for
// callers that do not have their own seeded source.
func NewRand(seed1, seed2 uint64) (rng *rand.Rand) {
	return rand.New(rand.NewPCG(seed1, seed2))
}
