package tbench

import (
	"crypto/tls"
	"encoding/binary"
	"fmt"
	"io"
	"net"
	"time"
)

// StreamClient is one TCP or TLS connection carrying 2-byte-prefixed DNS
// messages.  The framing is written by the client itself so that the prefix
// can disagree with the payload.  It is not safe for concurrent use.
type StreamClient struct {
	conn net.Conn

	// DialStart is taken before the connection was dialled; LastWriteStart
	// is taken before the most recent write began.  Both are monotonic and
	// let callers bound for how long the server may have been waiting for
	// data when it closed a connection.
	DialStart      time.Time
	LastWriteStart time.Time
}

// DialTCP connects to a plain TCP listener.
func DialTCP(addr string) (c *StreamClient, err error) {
	start := time.Now()
	conn, err := dial("tcp", addr, 10*time.Second)
	if err != nil {
		return nil, fmt.Errorf("tbench: tcp dial: %w", err)
	}

	return &StreamClient{conn: conn, DialStart: start, LastWriteStart: start}, nil
}

// DialTLS connects to a TLS listener and completes the handshake.
func DialTLS(addr string, conf *tls.Config) (c *StreamClient, err error) {
	start := time.Now()
	d := &net.Dialer{Timeout: 10 * time.Second}
	conn, err := tls.DialWithDialer(d, "tcp", addr, conf)
	if err != nil {
		return nil, fmt.Errorf("tbench: tls dial: %w", err)
	}

	return &StreamClient{conn: conn, DialStart: start, LastWriteStart: start}, nil
}

// DialTCP connects to the plain-DNS TCP listener.
func (b *Bench) DialTCP() (c *StreamClient, err error) { return DialTCP(b.TCPAddr) }

// DialDoT connects to the DNS-over-TLS listener.
func (b *Bench) DialDoT() (c *StreamClient, err error) {
	return DialTLS(b.DoTAddr, b.PKI.ClientTLS("dot"))
}

// Conn returns the underlying connection.
func (c *StreamClient) Conn() (conn net.Conn) { return c.conn }

// Close closes the connection.
func (c *StreamClient) Close() (err error) { return c.conn.Close() }

// CloseWrite half-closes the connection: TCP sends FIN, TLS sends
// close_notify; the read side stays open so that outstanding responses can
// still be received.
func (c *StreamClient) CloseWrite() (err error) {
	type closeWriter interface{ CloseWrite() error }

	cw, ok := c.conn.(closeWriter)
	if !ok {
		return fmt.Errorf("tbench: %T cannot half-close", c.conn)
	}

	return cw.CloseWrite()
}

// WriteRaw writes exactly b, with no framing added.
func (c *StreamClient) WriteRaw(b []byte) (err error) {
	c.LastWriteStart = time.Now()
	_ = c.conn.SetWriteDeadline(time.Now().Add(10 * time.Second))
	_, err = c.conn.Write(b)

	return err
}

// WritePieces writes every piece with its own write call, pausing between
// them, so that each piece leaves as its own TCP segment (Go enables
// TCP_NODELAY) or its own TLS record and, given the pause, reaches a reading
// server separately.
func (c *StreamClient) WritePieces(pieces [][]byte, pause time.Duration) (err error) {
	c.LastWriteStart = time.Now()
	for i, p := range pieces {
		if len(p) == 0 {
			continue
		}

		if i > 0 && pause > 0 {
			time.Sleep(pause)
		}

		_ = c.conn.SetWriteDeadline(time.Now().Add(10 * time.Second))
		_, err = c.conn.Write(p)
		if err != nil {
			return err
		}
	}

	return nil
}

// SplitAt cuts b at the given offsets (ascending; offsets outside b are
// ignored).
func SplitAt(b []byte, offsets ...int) (pieces [][]byte) {
	last := 0
	for _, o := range offsets {
		if o <= last || o >= len(b) {
			continue
		}

		pieces = append(pieces, b[last:o])
		last = o
	}

	return append(pieces, b[last:])
}

// ExchangePieces writes the pieces one by one (see WritePieces) and reads one
// frame back.
func (c *StreamClient) ExchangePieces(pieces [][]byte, pause, wait time.Duration) (res Result) {
	err := c.WritePieces(pieces, pause)
	if err != nil {
		if isPeerClose(err) {
			return Result{Outcome: Closed, Err: err.Error()}
		}

		return Result{Outcome: Failed, Err: err.Error()}
	}

	return c.Read(wait)
}

// WriteFrame writes payload preceded by its 2-byte length in one write.
func (c *StreamClient) WriteFrame(payload []byte) (err error) {
	return c.WriteRaw(Frame(payload))
}

// WriteFrameWithPrefix writes payload preceded by an arbitrary prefix.
func (c *StreamClient) WriteFrameWithPrefix(prefix uint16, payload []byte) (err error) {
	return c.WriteRaw(FrameWithPrefix(prefix, payload))
}

// ReadFrame reads the next 2-byte-prefixed frame.  It returns ErrTimeout if
// the frame does not arrive completely within wait, and ErrClosed if the peer
// closed or reset the connection first; partial holds what was read of an
// incomplete frame (prefix included).
func (c *StreamClient) ReadFrame(wait time.Duration) (payload, partial []byte, err error) {
	_ = c.conn.SetReadDeadline(time.Now().Add(wait))

	var pfx [2]byte
	n, err := io.ReadFull(c.conn, pfx[:])
	if err != nil {
		return nil, pfx[:n], c.classify(err)
	}

	l := int(binary.BigEndian.Uint16(pfx[:]))
	payload = make([]byte, l)
	n, err = io.ReadFull(c.conn, payload)
	if err != nil {
		return nil, append(pfx[:], payload[:n]...), c.classify(err)
	}

	return payload, nil, nil
}

func (c *StreamClient) classify(err error) (classified error) {
	switch {
	case isTimeout(err):
		return ErrTimeout
	case isPeerClose(err):
		return ErrClosed
	default:
		return err
	}
}

// Exchange writes payload as one honest frame and reads one frame back.
func (c *StreamClient) Exchange(payload []byte, wait time.Duration) (res Result) {
	return c.ExchangeRaw(Frame(payload), wait)
}

// ExchangeRaw writes exactly raw and reads one frame back.
func (c *StreamClient) ExchangeRaw(raw []byte, wait time.Duration) (res Result) {
	err := c.WriteRaw(raw)
	if err != nil {
		if isPeerClose(err) {
			return Result{Outcome: Closed, Err: err.Error()}
		}

		return Result{Outcome: Failed, Err: err.Error()}
	}

	return c.Read(wait)
}

// Read reads one frame and reports it as a Result.
func (c *StreamClient) Read(wait time.Duration) (res Result) {
	payload, partial, err := c.ReadFrame(wait)
	switch {
	case err == nil:
		return Result{Outcome: Answered, Responses: [][]byte{payload}, WireLens: []int{len(payload)}}
	case err == ErrTimeout:
		return Result{Outcome: Timeout, Trailing: partial}
	case err == ErrClosed:
		return Result{Outcome: Closed, Trailing: partial}
	default:
		return Result{Outcome: Failed, Err: err.Error(), Trailing: partial}
	}
}

// ReadUntilClosed reads frames until the peer closes the connection or wait
// elapses; it reports whether the close was observed.
func (c *StreamClient) ReadUntilClosed(wait time.Duration) (frames [][]byte, closed bool, rest []byte) {
	deadline := time.Now().Add(wait)
	for {
		left := time.Until(deadline)
		if left <= 0 {
			return frames, false, rest
		}

		payload, partial, err := c.ReadFrame(left)
		if err == nil {
			frames = append(frames, payload)

			continue
		}

		return frames, err == ErrClosed, partial
	}
}
