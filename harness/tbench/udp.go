package tbench

import (
	"fmt"
	"net"
	"time"
)

// UDPClient is one client socket connected to a UDP listener.  It is not safe
// for concurrent use.
type UDPClient struct {
	conn *net.UDPConn
	buf  []byte
}

// DialUDP opens a new client socket connected to addr.
func DialUDP(addr string) (c *UDPClient, err error) {
	ua, err := net.ResolveUDPAddr("udp", addr)
	if err != nil {
		return nil, fmt.Errorf("tbench: udp addr: %w", err)
	}

	conn, err := net.DialUDP("udp", nil, ua)
	if err != nil {
		return nil, fmt.Errorf("tbench: udp dial: %w", err)
	}

	// Make room for bursts of large responses.
	_ = conn.SetReadBuffer(4 << 20)

	return &UDPClient{conn: conn, buf: make([]byte, 65536)}, nil
}

// DialUDP opens a new client socket connected to the plain-DNS UDP listener.
func (b *Bench) DialUDP() (c *UDPClient, err error) { return DialUDP(b.UDPAddr) }

// LocalAddr returns the local address of the socket.
func (c *UDPClient) LocalAddr() (addr net.Addr) { return c.conn.LocalAddr() }

// Close closes the socket.
func (c *UDPClient) Close() (err error) { return c.conn.Close() }

// Send sends exactly datagram.
func (c *UDPClient) Send(datagram []byte) (err error) {
	_ = c.conn.SetWriteDeadline(time.Now().Add(5 * time.Second))
	_, err = c.conn.Write(datagram)

	return err
}

// Recv returns the next datagram (a copy), or ErrTimeout if none arrives
// within wait.
func (c *UDPClient) Recv(wait time.Duration) (datagram []byte, err error) {
	_ = c.conn.SetReadDeadline(time.Now().Add(wait))
	n, err := c.conn.Read(c.buf)
	if err != nil {
		if isTimeout(err) {
			return nil, ErrTimeout
		}

		return nil, err
	}

	datagram = make([]byte, n)
	copy(datagram, c.buf[:n])

	return datagram, nil
}

// Drain returns every datagram that arrives until the socket has been quiet
// for the given duration.
func (c *UDPClient) Drain(quiet time.Duration) (datagrams [][]byte) {
	for {
		d, err := c.Recv(quiet)
		if err != nil {
			return datagrams
		}

		datagrams = append(datagrams, d)
	}
}

// Exchange sends datagram, waits up to wait for the first response and then,
// if drain > 0, keeps collecting further datagrams until the socket has been
// quiet for drain.  All datagrams received are returned as responses of this
// request.
func (c *UDPClient) Exchange(datagram []byte, wait, drain time.Duration) (res Result) {
	err := c.Send(datagram)
	if err != nil {
		return Result{Outcome: Failed, Err: err.Error()}
	}

	first, err := c.Recv(wait)
	switch {
	case err == ErrTimeout:
		return Result{Outcome: Silence}
	case err != nil:
		// E.g. ICMP port unreachable surfaced as ECONNREFUSED.
		return Result{Outcome: Failed, Err: err.Error()}
	}

	res = Result{Outcome: Answered, Responses: [][]byte{first}, WireLens: []int{len(first)}}
	if drain > 0 {
		for _, d := range c.Drain(drain) {
			res.Responses = append(res.Responses, d)
			res.WireLens = append(res.WireLens, len(d))
		}
	}

	return res
}
