package c03

import (
	"context"
	"encoding/json"
	"fmt"
	"net/netip"
	"os"
	"os/exec"
	"path/filepath"
	"runtime"
	"runtime/debug"
	"sort"
	"strconv"
	"strings"
	"sync"
	"sync/atomic"
	"testing"
	"time"

	"github.com/AdguardTeam/AdGuardDNS/internal/agd"
	"github.com/AdguardTeam/AdGuardDNS/verif/stack"
	"github.com/AdguardTeam/AdGuardDNS/verif/vkit"
	"github.com/miekg/dns"
)

// concurrentPhase is the concurrent phase (it runs in a child process, see
// runConcurrent): after a few requests to unknown
// dedicated addresses (dropped), many goroutines send recognised and
// anonymous requests through the SAME server handlers so that requests
// overlap inside the middlewares.  Every request is judged from its own trace
// with the same decision table as in the sequential phases: whatever state
// the handlers share between requests (pooled request information, caches of
// the device finder) must not make one request inherit another's device.
func concurrentPhase(r *vkit.Run, round int) {
	var tick atomic.Uint64
	// The pauses only widen the overlap of requests; no verdict depends on
	// them.
	yield := func() {
		if tick.Add(1)%7 == 0 {
			time.Sleep(20 * time.Microsecond)
		} else {
			runtime.Gosched()
		}
	}
	slowUpstream := func(ctx context.Context, req *dns.Msg, ri *agd.RequestInfo) (*dns.Msg, error) {
		if n := tick.Add(1); n%5 == 0 {
			time.Sleep(time.Duration(100+n%400) * time.Microsecond)
		}
		return stack.DefaultUpstream(ctx, req, ri)
	}
	w, err := buildWorld(r, "real", 1000+round, func(o *stack.Options) { o.Yield, o.Upstream = yield, slowUpstream })
	if err != nil {
		r.Inconclusive("building the concurrent world: " + err.Error())
		return
	}
	g := &gen{r: r, w: w, round: round, idx: 2_000_000}
	dnsi, dnsil := w.server("gp", "dnsi"), w.server("gp", "dnsil")
	dot, doh, dnsc, dnsci := w.server("gp", "dot"), w.server("gp", "doh"), w.server("gp", "dnscrypt"), w.server("gp", "dnscrypti")
	var live []*devSpec
	for _, d := range w.Devs {
		if d.State == stLive {
			live = append(live, d)
		}
	}
	unknownDed := func(s *srvSpec, k int) string {
		// Several distinct unowned addresses of the dedicated range.
		a := s.unknownDedicated().As4()
		a[3] -= byte(k % 8)
		return netip.AddrPortFrom(netip.AddrFrom4(a), s.Own.Port()).String()
	}

	// 1. Dropped requests first.
	for _, s := range []*srvSpec{dnsi, dnsil} {
		for k := 0; k < 12; k++ {
			rq := g.base(s, nil, "concurrent/prior-unknown-dedicated")
			rq.Layer = "concurrent"
			rq.Round = round
			rq.Local = unknownDed(s, k)
			w.run(r, rq)
			r.Bucket("concurrent_prior_unknown_dedicated_drops", 1)
		}
	}

	// 2. The fixed, seed-determined case list.
	n := r.N(8000, 40000)
	cases := make([]*reqSpec, 0, n)
	nonCanonical := 0
	for i := 0; i < n; i++ {
		rnd := r.Rand(fmt.Sprintf("concurrent-%d", round), i)
		d := live[rnd.IntN(len(live))]
		if rnd.IntN(6) == 0 {
			d = w.Devs[rnd.IntN(len(w.Devs))]
		}
		id := string(d.ID)
		var rq *reqSpec
		switch p := rnd.IntN(100); {
		case p < 75:
			s := dnsi
			if rnd.IntN(5) < 2 {
				s = dnsil
			}
			switch k := rnd.IntN(20); {
			case k < 2:
				rq = g.base(s, nil, "concurrent/plain/unknown-dedicated")
				rq.Local = unknownDed(s, rnd.IntN(8))
			case k < 8:
				rq = g.base(s, nil, "concurrent/plain/anonymous")
			case k < 9:
				rq = g.base(s, d, "concurrent/plain/other-code")
				rq.EDNS = []ednsOpt{{cpeIDOption - 1, id}}
			case k < 14:
				rq = g.base(s, d, "concurrent/plain/edns")
				rq.EDNS = []ednsOpt{{cpeIDOption, id}}
			case k < 18:
				rq = g.base(s, d, "concurrent/plain/dedicated")
				rq.Local = netip.AddrPortFrom(d.Dedicated[s.Name], s.Own.Port()).String()
			default:
				rq = g.base(s, d, "concurrent/plain/linked")
				g.linkedRemote(rq, d)
			}
		case p < 82:
			// A burst of DISTINCT human-readable identifiers that all need
			// normalisation; each must get a device of its own identifier.
			srv, seps := dot, []string{"_", "!", " ", "~", "\u00e9", "__"}
			ext := fmt.Sprintf("otr-pauto-b%d%sx%d%sr%d", i, seps[rnd.IntN(len(seps))], rnd.IntN(100000), seps[rnd.IntN(len(seps))], round)
			if rnd.IntN(2) == 0 {
				srv = doh
			}
			rq = g.base(srv, nil, "concurrent/noncanonical-human-id")
			if srv == doh {
				rq.Path = "/dns-query/" + ext
			} else {
				rq.SNI = ext + "." + domMain
			}
			nonCanonical++
		case p < 88:
			rq = g.base(dot, d, "concurrent/dot")
			switch rnd.IntN(4) {
			case 0:
			case 1:
				rq.SNI = id + ".foreign.example"
			case 2:
				rq.SNI = id + "x" + domMain
			default:
				rq.SNI = id + "." + domMain
			}
		case p < 95:
			rq = g.base(doh, d, "concurrent/doh")
			rq.Path = "/dns-query"
			switch rnd.IntN(4) {
			case 0:
			case 1:
				rq.Path += "/" + id
			case 2:
				rq.HasUser, rq.User, rq.PassSet, rq.Pass = true, id, true, d.Password+"x"
			default:
				rq.HasUser, rq.User, rq.PassSet, rq.Pass = true, id, true, d.Password
				if !d.hasHash() {
					rq.Pass = "anything"
				}
			}
		default:
			s := dnsc
			if rnd.IntN(2) == 0 {
				s = dnsci
			}
			rq = g.base(s, d, "concurrent/dnscrypt")
			if rnd.IntN(2) == 0 {
				rq.EDNS = []ednsOpt{{cpeIDOption, id}}
			}
		}
		rq.Layer, rq.Round = "concurrent", round
		cases = append(cases, rq)
	}

	r.Bucket("concurrent_noncanonical_human_ids", int64(nonCanonical))

	// 3. Run them from many goroutines, measuring the real overlap.
	const workers = 24
	inflight := map[string]*atomic.Int64{}
	for _, s := range w.Servers {
		inflight[s.Group+"/"+s.Name] = &atomic.Int64{}
	}
	var next atomic.Int64
	var wg sync.WaitGroup
	for wk := 0; wk < workers; wk++ {
		wg.Add(1)
		go func() {
			defer wg.Done()
			// Requests that wrongly share state may produce torn values; turn
			// the resulting memory faults into panics of this goroutine.
			debug.SetPanicOnFault(true)
			for {
				i := int(next.Add(1)) - 1
				if i >= len(cases) {
					return
				}
				rq := cases[i]
				rq.DB = w.DBKind
				fl := inflight[rq.Group+"/"+rq.Server]
				others := fl.Add(1) - 1
				dc := w.decide(rq)
				sr, err := w.toStackRequest(rq)
				if err != nil {
					fl.Add(-1)
					r.Inconclusive(fmt.Sprintf("cannot build request %d: %v", rq.Idx, err))
					continue
				}
				o := w.st.Serve(sr)
				fl.Add(-1)
				var ob *observed
				func() {
					defer func() {
						if p := recover(); p != nil {
							ob = nil
							r.Violation("concurrent:corrupt-observation:"+w.server(rq.Group, rq.Server).protoName(),
								"what the terminal handler / billing / query log recorded for an overlapped request is not even readable (torn values): "+fmt.Sprint(p),
								witness{Req: rq, Decision: dc})
						}
					}()
					ob = observe(o)
					w.st.Forget(o)
					w.judge(r, rq, dc, ob)
				}()
				if ob == nil {
					continue
				}
				r.Bucket("concurrent_requests", 1)
				// Each pair is counted once, by the request that started later.
				r.Bucket("concurrent_same_handler_overlap_pairs", others)
				if others > 0 {
					r.Bucket("concurrent_requests_started_during_another", 1)
				}
				switch {
				case dc.Expect == "dropped" && ob.Responses == 0:
					r.Bucket("concurrent_unknown_dedicated_drops", 1)
				case dc.Expect == "attributed" && ob.outcome() == "served-attributed":
					r.Bucket("concurrent_recognised", 1)
				case dc.Expect == "anonymous" && ob.outcome() == "served-anonymous":
					r.Bucket("concurrent_anonymous_served", 1)
				}
			}
		}()
	}
	wg.Wait()
}

// ---- child process ----

const (
	envRole  = "VERIF_C03_ROLE"
	envRound = "VERIF_C03_ROUND"
)

type childClasses struct {
	Classes map[string][2]int `json:"classes"` // class -> {nontrivial evaluations, trivial evaluations}
}

// TestChild runs the concurrent phase when re-executed by runConcurrent.
func TestChild(t *testing.T) {
	if os.Getenv(envRole) != "concurrent" {
		t.Skip("not a child")
	}
	round, _ := strconv.Atoi(os.Getenv(envRound))
	r := vkit.Start(t, "C03", "exploration")
	var mu sync.Mutex
	cc := childClasses{Classes: map[string][2]int{}}
	classSink = func(class string, nontrivial bool) {
		mu.Lock()
		v := cc.Classes[class]
		if nontrivial {
			v[0]++
		} else {
			v[1]++
		}
		cc.Classes[class] = v
		mu.Unlock()
	}
	r.Rule("child of C03: concurrent phase")
	concurrentPhase(r, round)
	mu.Lock()
	b, _ := json.Marshal(cc)
	mu.Unlock()
	_ = os.WriteFile(filepath.Join(r.Root, "classes.json"), b, 0o644)
	r.Sample("child done")
	r.Finish()
}

// runConcurrent runs the concurrent phase in a child process: requests that
// wrongly share state can corrupt memory and kill the process, which must be
// an observation and not the end of every monitor.
func runConcurrent(r *vkit.Run, t *testing.T, round int) {
	scratch := os.Getenv("VERIF_SCRATCH")
	if scratch == "" {
		scratch = t.TempDir()
	}
	root := filepath.Join(scratch, fmt.Sprintf("c03-child-%d", round))
	if err := os.MkdirAll(root, 0o755); err != nil {
		r.Inconclusive("concurrent phase: " + err.Error())
		return
	}
	logPath := filepath.Join(root, "child.log")
	lf, err := os.Create(logPath)
	if err != nil {
		r.Inconclusive("concurrent phase: " + err.Error())
		return
	}
	ctx, cancel := context.WithTimeout(context.Background(), 10*time.Minute)
	defer cancel()
	cmd := exec.CommandContext(ctx, os.Args[0], "-test.run=^TestChild$", "-test.v", "-test.count=1", "-test.timeout=9m")
	cmd.Env = append(os.Environ(), envRole+"=concurrent", envRound+"="+strconv.Itoa(round), "VERIF_ROOT="+root)
	cmd.Stdout, cmd.Stderr = lf, lf
	runErr := cmd.Run()
	_ = lf.Close()
	logb, _ := os.ReadFile(logPath)
	tail := string(logb)
	r.Bucket("concurrent_child_runs", 1)

	evb, evErr := os.ReadFile(filepath.Join(root, "evidence", "C03.json"))
	if evErr != nil {
		// The child died before its verdict.
		if ctx.Err() != nil {
			r.Inconclusive("concurrent phase: child process timed out, log tail: " + lastLines(tail, 15))
			return
		}
		first := ""
		for _, l := range strings.Split(tail, "\n") {
			if strings.HasPrefix(l, "fatal error:") || strings.HasPrefix(l, "panic:") || strings.HasPrefix(l, "unexpected fault address") ||
				strings.HasPrefix(l, "[signal ") || strings.HasPrefix(l, "SIGSEGV") {
				first += l + "\n"
				if len(first) > 600 {
					break
				}
			}
		}
		if first != "" {
			r.Violation("concurrent:crash", "the process crashed while serving overlapping requests (after requests to unknown dedicated addresses): "+strings.TrimSpace(first),
				map[string]any{"round": round, "exit": fmt.Sprint(runErr), "fatal": first, "log_head": firstLines(tail, 80)})
			return
		}
		r.Inconclusive(fmt.Sprintf("concurrent phase: child exited (%v) without evidence, log tail: %s", runErr, lastLines(tail, 15)))
		return
	}
	var ev struct {
		Coverage struct {
			Buckets      map[string]int64 `json:"buckets"`
			Inconclusive []string         `json:"inconclusive"`
			Samples      []any            `json:"samples"`
		} `json:"coverage"`
	}
	if err = json.Unmarshal(evb, &ev); err != nil {
		r.Inconclusive("concurrent phase: child evidence unreadable: " + err.Error())
		return
	}
	for k, v := range ev.Coverage.Buckets {
		if k == "violation_observations" || k == "known_finding_observations" {
			continue
		}
		r.Bucket(k, v)
	}
	for _, s := range ev.Coverage.Inconclusive {
		r.Inconclusive("concurrent phase (child): " + s)
	}
	if cb, err := os.ReadFile(filepath.Join(root, "classes.json")); err == nil {
		var cc childClasses
		if json.Unmarshal(cb, &cc) == nil {
			for class, n := range cc.Classes {
				for i := 0; i < n[0]; i++ {
					r.Eval(class, true)
				}
				for i := 0; i < n[1]; i++ {
					r.Eval(class, false)
				}
			}
		}
	} else {
		r.Inconclusive("concurrent phase: child wrote no class list")
	}
	reps, _ := filepath.Glob(filepath.Join(root, "replays", "*.json"))
	sort.Strings(reps)
	for _, f := range reps {
		var doc struct {
			Key     string `json:"key"`
			What    string `json:"what"`
			Witness any    `json:"witness"`
		}
		if b, err := os.ReadFile(f); err == nil && json.Unmarshal(b, &doc) == nil && doc.Key != "" {
			r.Violation(doc.Key, doc.What, doc.Witness)
		}
	}
}

func lastLines(s string, n int) string {
	ls := strings.Split(strings.TrimRight(s, "\n"), "\n")
	if len(ls) > n {
		ls = ls[len(ls)-n:]
	}
	return strings.Join(ls, " | ")
}

func firstLines(s string, n int) []string {
	ls := strings.Split(s, "\n")
	if len(ls) > n {
		ls = ls[:n]
	}
	return ls
}
