package c03

import (
	"context"
	"fmt"
	"net/netip"
	"runtime"
	"sync"
	"sync/atomic"
	"time"

	"github.com/AdguardTeam/AdGuardDNS/internal/agd"
	"github.com/AdguardTeam/AdGuardDNS/verif/stack"
	"github.com/AdguardTeam/AdGuardDNS/verif/vkit"
	"github.com/miekg/dns"
)

// runConcurrent is the concurrent phase: after a few requests to unknown
// dedicated addresses (dropped), many goroutines send recognised and
// anonymous requests through the SAME server handlers so that requests
// overlap inside the middlewares.  Every request is judged from its own trace
// with the same decision table as in the sequential phases: whatever state
// the handlers share between requests (pooled request information, caches of
// the device finder) must not make one request inherit another's device.
func runConcurrent(r *vkit.Run, round int) {
	var tick atomic.Uint64
	// The pauses only widen the overlap of requests; no verdict depends on
	// them.
	yield := func() {
		if tick.Add(1)%7 == 0 {
			time.Sleep(20 * time.Microsecond)
		} else {
			runtime.Gosched()
		}
	}
	slowUpstream := func(ctx context.Context, req *dns.Msg, ri *agd.RequestInfo) (*dns.Msg, error) {
		if n := tick.Add(1); n%5 == 0 {
			time.Sleep(time.Duration(100+n%400) * time.Microsecond)
		}
		return stack.DefaultUpstream(ctx, req, ri)
	}
	w, err := buildWorld(r, "real", 1000+round, func(o *stack.Options) { o.Yield, o.Upstream = yield, slowUpstream })
	if err != nil {
		r.Inconclusive("building the concurrent world: " + err.Error())
		return
	}
	g := &gen{r: r, w: w, round: round, idx: 2_000_000}
	dnsi, dnsil := w.server("gp", "dnsi"), w.server("gp", "dnsil")
	dot, doh, dnsc, dnsci := w.server("gp", "dot"), w.server("gp", "doh"), w.server("gp", "dnscrypt"), w.server("gp", "dnscrypti")
	var live []*devSpec
	for _, d := range w.Devs {
		if d.State == stLive {
			live = append(live, d)
		}
	}
	unknownDed := func(s *srvSpec, k int) string {
		// Several distinct unowned addresses of the dedicated range.
		a := s.unknownDedicated().As4()
		a[3] -= byte(k % 8)
		return netip.AddrPortFrom(netip.AddrFrom4(a), s.Own.Port()).String()
	}

	// 1. Dropped requests first.
	for _, s := range []*srvSpec{dnsi, dnsil} {
		for k := 0; k < 12; k++ {
			rq := g.base(s, nil, "concurrent/prior-unknown-dedicated")
			rq.Layer = "concurrent"
			rq.Round = round
			rq.Local = unknownDed(s, k)
			w.run(r, rq)
			r.Bucket("concurrent_prior_unknown_dedicated_drops", 1)
		}
	}

	// 2. The fixed, seed-determined case list.
	n := r.N(8000, 40000)
	cases := make([]*reqSpec, 0, n)
	for i := 0; i < n; i++ {
		rnd := r.Rand(fmt.Sprintf("concurrent-%d", round), i)
		d := live[rnd.IntN(len(live))]
		if rnd.IntN(6) == 0 {
			d = w.Devs[rnd.IntN(len(w.Devs))]
		}
		id := string(d.ID)
		var rq *reqSpec
		switch p := rnd.IntN(100); {
		case p < 75:
			s := dnsi
			if rnd.IntN(5) < 2 {
				s = dnsil
			}
			switch k := rnd.IntN(20); {
			case k < 2:
				rq = g.base(s, nil, "concurrent/plain/unknown-dedicated")
				rq.Local = unknownDed(s, rnd.IntN(8))
			case k < 8:
				rq = g.base(s, nil, "concurrent/plain/anonymous")
			case k < 9:
				rq = g.base(s, d, "concurrent/plain/other-code")
				rq.EDNS = []ednsOpt{{cpeIDOption - 1, id}}
			case k < 14:
				rq = g.base(s, d, "concurrent/plain/edns")
				rq.EDNS = []ednsOpt{{cpeIDOption, id}}
			case k < 18:
				rq = g.base(s, d, "concurrent/plain/dedicated")
				rq.Local = netip.AddrPortFrom(d.Dedicated[s.Name], s.Own.Port()).String()
			default:
				rq = g.base(s, d, "concurrent/plain/linked")
				g.linkedRemote(rq, d)
			}
		case p < 85:
			rq = g.base(dot, d, "concurrent/dot")
			switch rnd.IntN(4) {
			case 0:
			case 1:
				rq.SNI = id + ".foreign.example"
			case 2:
				rq.SNI = id + "x" + domMain
			default:
				rq.SNI = id + "." + domMain
			}
		case p < 95:
			rq = g.base(doh, d, "concurrent/doh")
			rq.Path = "/dns-query"
			switch rnd.IntN(4) {
			case 0:
			case 1:
				rq.Path += "/" + id
			case 2:
				rq.HasUser, rq.User, rq.PassSet, rq.Pass = true, id, true, d.Password+"x"
			default:
				rq.HasUser, rq.User, rq.PassSet, rq.Pass = true, id, true, d.Password
				if !d.hasHash() {
					rq.Pass = "anything"
				}
			}
		default:
			s := dnsc
			if rnd.IntN(2) == 0 {
				s = dnsci
			}
			rq = g.base(s, d, "concurrent/dnscrypt")
			if rnd.IntN(2) == 0 {
				rq.EDNS = []ednsOpt{{cpeIDOption, id}}
			}
		}
		rq.Layer, rq.Round = "concurrent", round
		cases = append(cases, rq)
	}

	// 3. Run them from many goroutines, measuring the real overlap.
	const workers = 24
	inflight := map[string]*atomic.Int64{}
	for _, s := range w.Servers {
		inflight[s.Group+"/"+s.Name] = &atomic.Int64{}
	}
	var next atomic.Int64
	var wg sync.WaitGroup
	for wk := 0; wk < workers; wk++ {
		wg.Add(1)
		go func() {
			defer wg.Done()
			for {
				i := int(next.Add(1)) - 1
				if i >= len(cases) {
					return
				}
				rq := cases[i]
				fl := inflight[rq.Group+"/"+rq.Server]
				others := fl.Add(1) - 1
				dc := w.decide(rq)
				sr, err := w.toStackRequest(rq)
				if err != nil {
					fl.Add(-1)
					r.Inconclusive(fmt.Sprintf("cannot build request %d: %v", rq.Idx, err))
					continue
				}
				o := w.st.Serve(sr)
				fl.Add(-1)
				ob := observe(o)
				w.st.Forget(o)
				rq.DB = w.DBKind
				w.judge(r, rq, dc, ob)
				r.Bucket("concurrent_requests", 1)
				// Each pair is counted once, by the request that started later.
				r.Bucket("concurrent_same_handler_overlap_pairs", others)
				if others > 0 {
					r.Bucket("concurrent_requests_started_during_another", 1)
				}
				switch {
				case dc.Expect == "dropped" && ob.Responses == 0:
					r.Bucket("concurrent_unknown_dedicated_drops", 1)
				case dc.Expect == "attributed" && ob.outcome() == "served-attributed":
					r.Bucket("concurrent_recognised", 1)
				case dc.Expect == "anonymous" && ob.outcome() == "served-anonymous":
					r.Bucket("concurrent_anonymous_served", 1)
				}
			}
		}()
	}
	wg.Wait()
}
