package c03

import (
	"context"
	"fmt"
	"net"
	"net/netip"
	"net/url"
	"strconv"
	"sync"
	"time"

	"github.com/AdguardTeam/AdGuardDNS/internal/agd"
	"github.com/AdguardTeam/AdGuardDNS/internal/agdpasswd"
	"github.com/AdguardTeam/AdGuardDNS/internal/backendpb"
	"github.com/AdguardTeam/AdGuardDNS/internal/profiledb"
	"github.com/AdguardTeam/AdGuardDNS/verif/stack"
	"github.com/AdguardTeam/AdGuardDNS/verif/vkit"
	"github.com/AdguardTeam/golibs/netutil"
	"github.com/c2h5oh/datasize"
	"google.golang.org/grpc"
	"google.golang.org/grpc/metadata"
)

// The "backend" world: the real profile database is fed by the REAL
// backendpb.ProfileStorage talking gRPC to an in-process backend.  The full
// synchronisation delivers every profile alive with all its devices; the
// incremental one delivers what a backend sends for a deleted profile (a
// tombstone without devices) and for profiles that lost devices (the remaining
// devices only, possibly none).

type pbBackend struct {
	backendpb.UnimplementedDNSServiceServer

	mu      sync.Mutex
	batches [][]*backendpb.DNSProfile
	calls   int
}

func (b *pbBackend) GetDNSProfiles(_ *backendpb.DNSProfilesRequest, srv grpc.ServerStreamingServer[backendpb.DNSProfile]) error {
	b.mu.Lock()
	var batch []*backendpb.DNSProfile
	if b.calls < len(b.batches) {
		batch = b.batches[b.calls]
	}
	b.calls++
	n := b.calls
	b.mu.Unlock()
	for _, p := range batch {
		if err := srv.Send(p); err != nil {
			return err
		}
	}
	srv.SetTrailer(metadata.Pairs("sync_time", strconv.FormatInt(time.Now().UnixMilli()+int64(n), 10)))
	return nil
}

func devToProto(d *devSpec) *backendpb.DeviceSettings {
	ds := &backendpb.DeviceSettings{Id: string(d.ID), Name: "dev " + string(d.ID), FilteringEnabled: true, HumanIdLower: d.HumanLower}
	ds.LinkedIp = d.Linked.AsSlice()
	for _, a := range d.dev.DedicatedIPs {
		ds.DedicatedIps = append(ds.DedicatedIps, a.AsSlice())
	}
	if d.enabled() {
		au := &backendpb.AuthenticationSettings{DohAuthOnly: d.dohOnly()}
		if h, ok := d.dev.Auth.PasswordHash.(*agdpasswd.PasswordHashBcrypt); ok {
			au.DohPasswordHash = &backendpb.AuthenticationSettings_PasswordHashBcrypt{PasswordHashBcrypt: h.PasswordHash()}
		}
		ds.Authentication = au
	}
	return ds
}

func newBackendDB(w *world, profs map[agd.ProfileID]*agd.Profile) (profiledb.Interface, error) {
	mk := func(id agd.ProfileID, deleted bool, keep func(d *devSpec) bool) *backendpb.DNSProfile {
		pb := &backendpb.DNSProfile{DnsId: string(id), FilteringEnabled: true, QueryLogEnabled: true, IpLogEnabled: true,
			Deleted: deleted, AutoDevicesEnabled: profs[id].AutoDevicesEnabled,
			BlockingMode: &backendpb.DNSProfile_BlockingModeNullIp{BlockingModeNullIp: &backendpb.BlockingModeNullIP{}}}
		for _, d := range w.Devs {
			if d.Prof == id && keep(d) {
				pb.Devices = append(pb.Devices, devToProto(d))
			}
		}
		return pb
	}
	var full, part []*backendpb.DNSProfile
	for id := range profs {
		full = append(full, mk(id, false, func(*devSpec) bool { return true }))
		ps := w.Profs[id]
		detaches := false
		for _, d := range w.Devs {
			detaches = detaches || (d.Prof == id && d.State == stDetached)
		}
		switch {
		case ps.Deleted:
			part = append(part, mk(id, true, func(*devSpec) bool { return false }))
		case detaches:
			part = append(part, mk(id, false, func(d *devSpec) bool { return d.State != stDetached }))
		}
	}
	be := &pbBackend{batches: [][]*backendpb.DNSProfile{full, part}}
	l, err := net.Listen("tcp4", "127.0.0.1:0")
	if err != nil {
		return nil, err
	}
	gs := grpc.NewServer()
	backendpb.RegisterDNSServiceServer(gs, be)
	go func() { _ = gs.Serve(l) }()
	defer gs.Stop()
	ec := &errColl{}
	strg, err := backendpb.NewProfileStorage(&backendpb.ProfileStorageConfig{
		BindSet: netutil.SliceSubnetSet{netip.MustParsePrefix("198.18.0.0/16")},
		ErrColl: ec, Logger: stack.Logger(), GRPCMetrics: backendpb.EmptyGRPCMetrics{}, Metrics: backendpb.EmptyProfileDBMetrics{},
		Endpoint:             &url.URL{Scheme: "grpc", Host: l.Addr().String()},
		ResponseSizeEstimate: datasize.KB, MaxProfilesSize: 64 * datasize.MB,
	})
	if err != nil {
		return nil, err
	}
	db, err := profiledb.New(&profiledb.Config{Logger: stack.Logger(), Storage: strg, ErrColl: ec, Metrics: profiledb.EmptyMetrics{},
		CacheFilePath: "none", FullSyncIvl: 24 * time.Hour, FullSyncRetryIvl: time.Hour, ResponseSizeEstimate: datasize.KB})
	if err != nil {
		return nil, err
	}
	for i := 0; i < 2; i++ {
		if err = db.Refresh(context.Background()); err != nil {
			return nil, fmt.Errorf("backend refresh %d: %w", i, err)
		}
	}
	ec.mu.Lock()
	nerr := len(ec.errs)
	first := ""
	if nerr > 0 {
		first = ec.errs[0]
	}
	ec.mu.Unlock()
	if nerr > 0 {
		return nil, fmt.Errorf("the backend data were not accepted cleanly: %d errors, first: %s", nerr, first)
	}
	if be.calls != 2 {
		return nil, fmt.Errorf("backend was asked %d times, want 2", be.calls)
	}
	return db, nil
}

// runBackend runs the per-device products on the backend-fed database.
func runBackend(r *vkit.Run, round int) {
	w, err := buildWorld(r, "backend", round)
	if err != nil {
		r.Inconclusive("building the backend world: " + err.Error())
		return
	}
	g := &gen{r: r, w: w, round: round, idx: 5_000_000}
	// Unusable hashes are rejected by nothing on the way, but they add nothing
	// here; automatic devices need a backend method that is not scripted.
	g.only = func(d *devSpec) bool { return d.BadHash == "" }
	g.emit = func(rq *reqSpec) {
		rq.Round = round
		w.run(r, rq)
		r.Bucket("cases:backend", 1)
		if d := w.devByID(rq.Dev); d != nil {
			r.Bucket("backend_cases:"+d.State, 1)
			if d.Prof == "plast" || d.Prof == "pdel" {
				r.Bucket("backend_cases_profile_without_devices_in_update", 1)
			}
		}
	}
	g.plain()
	g.tls()
	g.doh()
	for k, v := range w.db.snapshot() {
		r.Bucket("db_calls:backend:"+k, int64(v))
	}
}
