// Package c03 monitors property C03: a device is recognised only via its own
// identifier and only when authenticated.
//
// The real middleware stack (dnssvc.NewHandlers: rate-limit/access middleware
// with the real device finder, main middleware with billing and query log)
// is driven with requests of every protocol; the attribution of each request
// is observed at three points (agd.RequestInfo at the terminal handler,
// billing records, query-log entries) and compared with a decision table
// written from the property statement (model_test.go).  A subset goes
// through real DoH and DoT listeners (e2e_test.go).
package c03

import (
	"fmt"
	"testing"

	"github.com/AdguardTeam/AdGuardDNS/verif/vkit"
)

func TestCheck(t *testing.T) {
	r := vkit.Start(t, "C03", "exploration")
	defer r.Finish()
	r.Rule("cases: fixed product transport x identifier channel (DoH path, DoH basic-auth user, TLS server name incl. case/nested/foreign/" +
		"suffix variants, EDNS CPE-ID, dedicated local address, linked remote IP, none) x credentials (none, user only, empty, wrong, right, " +
		"other device's password/credentials, unknown user) x device (5 authentication kinds x {live, deleted profile, detached}, human-id devices) " +
		"x server (16 servers in 3 groups) x profile database (MapDB fake, real profiledb.Default after full+partial sync), plus seeded cross-device " +
		"combinations and a subset through real DoH/DoT listeners.  A case is non-trivial iff the request carries the identifier of a known device " +
		"(or an unknown/extended identifier) through ANY carrier, valid or not, i.e. the decision table was actually consulted; the class of a case is " +
		"(layer, db, group, server, valid-channel claims and how they resolve, invalid carriers, credential class, device auth kind, device state, expected outcome).")
	r.Assume("a device whose settings carry no password hash (backend sends none -> agdpasswd.AllowAuthenticator) accepts any SUPPLIED password; " +
		"the wrong/empty-password clause is checked for devices with a bcrypt hash")
	r.Assume("linked IP and dedicated addresses are identification channels of plain DNS only (property mechanism: 'addresses (plain DNS only)'; agd.Device.LinkedIP doc)")
	r.Assume("an Authorization header without a colon is not valid basic credentials (RFC 7617) and counts as no credentials")
	r.Assume("requests with a syntactically invalid identifier (too long, extra path elements) are only checked in the security direction")

	rounds := r.N(1, 8)
	for round := 0; round < rounds; round++ {
		for _, dbKind := range []string{"mapdb", "real"} {
			w, err := buildWorld(r, dbKind, round)
			if err != nil {
				r.Inconclusive("building the " + dbKind + " world: " + err.Error())
				return
			}
			g := &gen{r: r, w: w, round: round}
			g.emit = func(rq *reqSpec) {
				rq.Round = round
				w.run(r, rq)
				r.Bucket("cases:"+dbKind, 1)
			}
			g.all()
			for k, v := range w.db.snapshot() {
				r.Bucket("db_calls:"+dbKind+":"+k, int64(v))
			}
			runE2E(r, w, round)
			if round == 0 {
				r.Extra("devices_"+dbKind, w.Devs)
			}
		}
		// The same contents after a restart (file-cache round trip); no
		// listeners here, the handler-level product is what matters.
		if w, err := buildWorld(r, "restored", round); err != nil {
			r.Inconclusive("building the restored world: " + err.Error())
		} else {
			g := &gen{r: r, w: w, round: round}
			g.emit = func(rq *reqSpec) {
				rq.Round = round
				w.run(r, rq)
				r.Bucket("cases:restored", 1)
				if rq.Dev != "" && len(rq.Dev) > 0 {
					if d := w.devByID(rq.Dev); d != nil && d.State == stLive && d.dohOnly() {
						r.Bucket("restored_cases_dohonly_device", 1)
					}
				}
			}
			g.all()
			for k, v := range w.db.snapshot() {
				r.Bucket("db_calls:restored:"+k, int64(v))
			}
		}
		runBackend(r, round)
		runSyncDuringCreate(r, round)
		runHumanOverlap(r, round)
		runConcurrent(r, t, round)
	}

	// Coverage gates: the monitor must have seen every kind of decision.
	for b, min := range map[string]int64{
		"recognised":                                      2000,
		"attributed_entitled":                             3000,
		"auth_failure_served_anonymous":                   800,
		"anonymous_served":                                5000,
		"anonymous_despite_invalid_carrier":               2000,
		"unknown_dedicated_dropped":                       100,
		"not_attributed:deleted":                          1500,
		"not_attributed:detached":                         1500,
		"attributed_auto_device":                          8,
		"attributed_via:doh-user":                         100,
		"attributed_via:doh-path":                         100,
		"attributed_via:sni":                              300,
		"attributed_via:edns":                             100,
		"attributed_via:dedicated":                        50,
		"attributed_via:linked":                           50,
		"proto:dns":                                       2000,
		"proto:dot":                                       1000,
		"proto:doq":                                       500,
		"proto:doh":                                       5000,
		"proto:dnscrypt":                                  200,
		"e2e_requests:e2e-doh":                            200,
		"e2e_requests:e2e-dot":                            150,
		"e2e_requestinfo_userinfo_as_assumed":             200,
		"e2e_requestinfo_sni_as_assumed":                  300,
		"db_calls:real:device-id":                         1000,
		"db_calls:real:linked-ip":                         80,
		"db_calls:real:dedicated-ip":                      100,
		"e2e_wire_sni_confirmed":                          500,
		"e2e_host_header_cases":                           200,
		"e2e_host_header_cases_without_sni":               100,
		"cases:restored":                                  15000,
		"restored_cases_dohonly_device":                   1000,
		"db_calls:restored:device-id":                     1000,
		"badhash_wrong_or_empty_password_cases":           3000,
		"cases:backend":                                   10000,
		"backend_cases:deleted":                           2000,
		"backend_cases:detached":                          2000,
		"backend_cases:live":                              2000,
		"backend_cases_profile_without_devices_in_update": 2000,
		"human_overlap_pairs":                             20,
		"human_overlap_auto_devices":                      40,
		"concurrent_noncanonical_human_ids":               300,
		"syncrace_creates_in_flight_during_sync":          2,
		"syncrace_cases":                                  1000,
		"syncrace_cases:deleted":                          400,
		"syncrace_cases:detached":                         400,
		"concurrent_requests":                             4000,
		"concurrent_prior_unknown_dedicated_drops":        16,
		"concurrent_unknown_dedicated_drops":              100,
		"concurrent_same_handler_overlap_pairs":           2000,
		"concurrent_recognised":                           500,
		"concurrent_anonymous_served":                     500,
		"db_calls:real:human-id":                          20,
	} {
		r.Require(b, min)
	}
	if testing.Verbose() {
		fmt.Println("c03: done")
	}
}
