package c03

import (
	"fmt"
	"net"
	"net/netip"
	"net/url"
	"path"
	"regexp"
	"sort"
	"strings"

	"github.com/AdguardTeam/AdGuardDNS/internal/agd"
	"github.com/AdguardTeam/AdGuardDNS/verif/stack"
	"github.com/AdguardTeam/AdGuardDNS/verif/vkit"
)

// reqSpec is one request, in terms of what the CLIENT presented.  It is the
// only input of the reference model (together with the world).
type reqSpec struct {
	Idx    int    `json:"idx"`
	Round  int    `json:"round"`
	Layer  string `json:"layer"` // "handler" or "e2e-doh" / "e2e-dot"
	Gen    string `json:"generator"`
	DB     string `json:"db"`
	Group  string `json:"group"`
	Server string `json:"server"`
	// Dev is the device the generator was aiming at (documentation only).
	Dev string `json:"target_device"`

	EDNS   []ednsOpt `json:"edns,omitempty"`
	Remote string    `json:"remote"`
	Local  string    `json:"local"`
	SNI    string    `json:"sni,omitempty"`
	// Host is the HTTP Host header / :authority, when it differs from the
	// address dialled.  It is NOT an identification channel.
	Host string `json:"host_header,omitempty"`
	Path string `json:"path,omitempty"`
	// Userinfo: HasUser=false means no credentials at all.
	HasUser bool   `json:"has_userinfo,omitempty"`
	User    string `json:"user,omitempty"`
	PassSet bool   `json:"password_set,omitempty"`
	Pass    string `json:"password,omitempty"`
}

// claim is an identifier presented through a channel that is valid for the
// transport of the request.
type claim struct {
	Channel string `json:"channel"`
	Raw     string `json:"raw"`
	// Dev is the device the identifier designates when compared
	// case-insensitively ("" = none); Exact tells whether it also designates
	// it under the documented matching rule of the channel.
	Dev   string `json:"device,omitempty"`
	Exact bool   `json:"exact"`
	// Ext human-id data.
	ExtProf  string `json:"ext_profile,omitempty"`
	ExtHuman string `json:"ext_human,omitempty"`

	dev *devSpec
}

type decision struct {
	Claims []claim `json:"claims"`
	// Invalid lists identifiers of known devices carried by something that is
	// NOT a valid channel for this request: "<why>=<device>".
	Invalid   []string          `json:"invalid_carriers,omitempty"`
	Malformed bool              `json:"malformed,omitempty"`
	Entitled  map[string]string `json:"entitled"`                // device id -> channel
	AutoProf  map[string]string `json:"auto_entitled,omitempty"` // profile id -> human id (lower)
	Denied    map[string]string `json:"denied,omitempty"`        // device id -> reason
	Expect    string            `json:"expect"`                  // attributed | anonymous | dropped | free
	ExpectDev string            `json:"expect_device,omitempty"`
	Cred      string            `json:"cred_class"`
	Why       string            `json:"why"`
}

var reLabel = regexp.MustCompile(`^[A-Za-z0-9]([A-Za-z0-9-]*[A-Za-z0-9])?$`)

func validDeviceIDSyntax(s string) bool {
	return len(s) >= 1 && len(s) <= 8 && reLabel.MatchString(s)
}

var deviceTypes = map[string]bool{"win": true, "adr": true, "mac": true, "ios": true, "lnx": true, "rtr": true, "stv": true, "gam": true, "otr": true}

var reAlnumRuns = regexp.MustCompile(`[A-Za-z0-9]+`)

// normalHumanID returns the human-readable identifier that s stands for.  A
// valid host-name label (at most 63 bytes, no "---") stands for itself.  Of
// the identifiers that need the documented best-effort normalisation only the
// unambiguous ones are modelled: letters and digits separated by runs of
// characters that are not allowed in a label (and no hyphen anywhere) stand
// for the runs of letters and digits joined by single hyphens.  Everything
// else is not modelled (ok is false; such requests are only checked in the
// security direction).
func normalHumanID(s string) (human string, ok bool) {
	if len(s) <= 63 && reLabel.MatchString(s) && !strings.Contains(s, "---") {
		return s, true
	}
	if strings.Contains(s, "-") || len(s) > 200 {
		return "", false
	}
	segs := reAlnumRuns.FindAllString(s, -1)
	human = strings.Join(segs, "-")
	if len(segs) == 0 || len(human) > 63 {
		return "", false
	}
	return human, true
}

// identClaim interprets raw as presented through channel.  fold tells whether
// the channel is a domain name / URL path element (matched case-insensitively)
// or an opaque string (matched exactly).  ext tells whether the channel
// supports extended human-readable identifiers.
func (w *world) identClaim(channel, raw string, fold, ext bool) (c claim, malformed bool) {
	c = claim{Channel: channel, Raw: raw}
	if ext && strings.Count(raw, "-") >= 2 {
		parts := strings.SplitN(raw, "-", 3)
		human, okHuman := normalHumanID(parts[2])
		if !deviceTypes[strings.ToLower(parts[0])] || len(parts[1]) > 8 || parts[1] == "" || !okHuman {
			return c, true
		}
		c.ExtProf, c.ExtHuman = strings.ToLower(parts[1]), strings.ToLower(human)
		if d := w.devByHuman(agd.ProfileID(c.ExtProf), c.ExtHuman); d != nil {
			c.dev, c.Dev, c.Exact = d, string(d.ID), true
		}
		return c, false
	}
	if !validDeviceIDSyntax(raw) {
		return c, true
	}
	if d := w.devByID(strings.ToLower(raw)); d != nil {
		c.dev, c.Dev = d, string(d.ID)
		c.Exact = fold || raw == string(d.ID)
	}
	return c, false
}

// sniLabel returns the label directly under one of the device domains, or why
// there is none.
func sniLabel(sni string, domains []string) (label, why string) {
	if sni == "" {
		return "", ""
	}
	if len(domains) == 0 {
		return "", "sni-no-device-domains"
	}
	low := strings.ToLower(sni)
	for _, d := range domains {
		if strings.HasSuffix(low, "."+d) {
			rest := sni[:len(sni)-len(d)-1]
			if rest == "" {
				return "", "sni-foreign"
			}
			if strings.Contains(rest, ".") {
				return "", "sni-nested"
			}
			return rest, ""
		}
	}
	return "", "sni-foreign"
}

// credClass classifies the supplied credentials relative to device d.
func credClass(rq *reqSpec, d *devSpec) string {
	switch {
	case !rq.HasUser:
		return "nouser"
	case !rq.PassSet:
		return "unset"
	case d != nil && !d.hasHash():
		return "any"
	case d != nil && rq.Pass == d.Password:
		return "right"
	case rq.Pass == "":
		return "empty"
	default:
		return "wrong"
	}
}

// policy is the authentication policy of the statement for device d on this
// request.
func policy(rq *reqSpec, s *srvSpec, d *devSpec) (ok bool, why string) {
	if !d.enabled() {
		return true, ""
	}
	if s.Proto != agd.ProtoDoH {
		if d.dohOnly() {
			return false, "doh-only-on-" + s.protoName()
		}
		return true, ""
	}
	if !rq.HasUser {
		if d.dohOnly() {
			return false, "doh-only-no-credentials"
		}
		return true, ""
	}
	if !strings.EqualFold(rq.User, string(d.ID)) {
		return false, "credentials-of-another-user"
	}
	switch cc := credClass(rq, d); cc {
	case "right", "any":
		return true, ""
	default:
		return false, cc + "-password"
	}
}

// decide is the reference model: what the statement allows / requires for rq.
func (w *world) decide(rq *reqSpec) *decision {
	s := w.server(rq.Group, rq.Server)
	g := w.Groups[rq.Group]
	dc := &decision{Entitled: map[string]string{}, AutoProf: map[string]string{}, Denied: map[string]string{}}
	local := netip.MustParseAddrPort(rq.Local)
	remote := netip.MustParseAddrPort(rq.Remote)
	identifying := g.Profiles && s.Proto != agd.ProtoDNSCrypt

	invalid := func(why string, d *devSpec) {
		if d != nil {
			dc.Invalid = append(dc.Invalid, why+"="+string(d.ID))
		}
	}
	add := func(c claim, malformed bool) {
		if malformed {
			dc.Malformed = true
			return
		}
		dc.Claims = append(dc.Claims, c)
	}
	notID := "profiles-disabled"
	if s.Proto == agd.ProtoDNSCrypt {
		notID = "dnscrypt"
	}

	// EDNS.
	for _, o := range rq.EDNS {
		d := w.devByID(strings.ToLower(o.Data))
		switch {
		case o.Code != cpeIDOption:
			invalid("edns-other-code", d)
		case !identifying:
			invalid(notID+"-edns", d)
		case s.Proto != agd.ProtoDNS:
			invalid("edns-on-"+s.protoName(), d)
		default:
			add(w.identClaim("edns", o.Data, false, false))
		}
	}
	// Addresses.
	w.mu.Lock()
	dedDev, linkDev := w.byDed[local.Addr()], w.byLinked[remote.Addr()]
	w.mu.Unlock()
	nonOwn := s.Iface && local != s.Own
	switch {
	case !nonOwn:
		// The server's own address identifies nobody.
	case !identifying:
		invalid(notID+"-dedicated", dedDev)
	case s.Proto != agd.ProtoDNS:
		invalid("dedicated-on-"+s.protoName(), dedDev)
	default:
		c := claim{Channel: "dedicated", Raw: local.Addr().String()}
		if dedDev != nil {
			c.dev, c.Dev, c.Exact = dedDev, string(dedDev.ID), true
		}
		dc.Claims = append(dc.Claims, c)
	}
	switch {
	case linkDev == nil:
	case !identifying:
		invalid(notID+"-linked-ip", linkDev)
	case s.Proto != agd.ProtoDNS:
		invalid("linked-ip-on-"+s.protoName(), linkDev)
	case !s.Linked:
		invalid("linked-ip-disabled", linkDev)
	default:
		dc.Claims = append(dc.Claims, claim{Channel: "linked", Raw: remote.Addr().String(), dev: linkDev, Dev: string(linkDev.ID), Exact: true})
	}
	// DoH data.
	if rq.HasUser {
		d := w.devByID(strings.ToLower(rq.User))
		switch {
		case !identifying:
			invalid(notID+"-userinfo", d)
		case s.Proto != agd.ProtoDoH:
			invalid("userinfo-on-"+s.protoName(), d)
		default:
			add(w.identClaim("doh-user", rq.User, false, false))
		}
	}
	if rq.Path != "" {
		elems := strings.Split(strings.TrimPrefix(path.Clean(rq.Path), "/"), "/")
		switch {
		case len(elems) > 2 || (elems[0] != "dns-query" && elems[0] != "resolve"):
			if s.Proto == agd.ProtoDoH && identifying {
				dc.Malformed = true
			}
		case len(elems) == 2:
			d := w.devByID(strings.ToLower(elems[1]))
			switch {
			case !identifying:
				invalid(notID+"-path", d)
			case s.Proto != agd.ProtoDoH:
				invalid("path-on-"+s.protoName(), d)
			default:
				add(w.identClaim("doh-path", elems[1], true, true))
			}
		}
	}
	// TLS server name.
	if rq.SNI != "" {
		label, why := sniLabel(rq.SNI, g.Domains)
		first, _, _ := strings.Cut(rq.SNI, ".")
		carried := w.devByID(strings.ToLower(first))
		if carried == nil {
			// nested: x.<id>.<domain>
			for _, l := range strings.Split(strings.ToLower(rq.SNI), ".") {
				if d := w.devByID(l); d != nil {
					carried = d
				}
			}
		}
		if carried == nil && why == "sni-foreign" {
			// Near miss: the name starts with a device id that is not a label
			// of its own, or ends with the characters of a device domain.
			low := strings.ToLower(rq.SNI)
			for _, d := range w.Devs {
				if strings.HasPrefix(low, string(d.ID)) {
					carried, why = d, "sni-near-miss"
				}
			}
		}
		switch {
		case !identifying:
			invalid(notID+"-sni", carried)
		case !s.Proto.IsStdEncrypted():
			invalid("sni-on-"+s.protoName(), carried)
		case why != "":
			invalid(why, carried)
		default:
			add(w.identClaim("sni", label, true, true))
		}
	}

	// HTTP Host header: never a channel, whatever it names.
	if rq.Host != "" {
		h := rq.Host
		if hh, _, err := net.SplitHostPort(h); err == nil {
			h = hh
		}
		var carried *devSpec
		if label, why := sniLabel(h, []string{domMain, domAlt}); why == "" && label != "" {
			carried = w.devByID(strings.ToLower(label))
		}
		invalid("host-header", carried)
	}

	// Entitlement: the security direction.
	for _, c := range dc.Claims {
		if c.ExtProf != "" && (c.dev == nil || c.dev.State == stDetached) {
			// A human-readable identifier that no attached device of the
			// profile owns (never used, or its device was detached) may create
			// a NEW automatic device if the profile allows that; the detached
			// device itself stays unentitled below.
			if p := w.Profs[agd.ProfileID(c.ExtProf)]; p != nil && p.Auto && !p.Deleted {
				dc.AutoProf[c.ExtProf] = c.ExtHuman
			}
		}
		if c.dev == nil {
			continue
		}
		d := c.dev
		id := string(d.ID)
		switch {
		case d.State == stDeleted:
			dc.Denied[id] = "deleted-profile"
		case d.State == stDetached:
			dc.Denied[id] = "detached-device"
		default:
			if ok, why := policy(rq, s, d); ok {
				dc.Entitled[id] = c.Channel
				delete(dc.Denied, id)
			} else if _, ent := dc.Entitled[id]; !ent {
				dc.Denied[id] = fmt.Sprintf("auth:%s:%s:%s", d.Kind, s.protoName(), why)
			}
		}
	}

	// What the statement fixes about the outcome.
	var target *devSpec
	if len(dc.Claims) > 0 {
		target = dc.Claims[0].dev
	}
	dc.Cred = credClass(rq, target)
	allSame := len(dc.Claims) > 0
	for _, c := range dc.Claims {
		if c.dev == nil || !c.Exact || c.dev != target {
			allSame = false
		}
	}
	switch {
	case dc.Malformed:
		dc.Expect, dc.Why = "free", "malformed identifier"
	case !identifying:
		dc.Expect, dc.Why = "anonymous", notID
	case len(dc.Claims) == 0:
		dc.Expect, dc.Why = "anonymous", "no identifier through a valid channel"
	case len(dc.Claims) == 1 && dc.Claims[0].Channel == "dedicated" && dc.Claims[0].dev == nil:
		dc.Expect, dc.Why = "dropped", "unknown dedicated address"
	case !allSame:
		dc.Expect, dc.Why = "free", "unknown, inexact or conflicting identifiers"
	case target.State != stLive:
		dc.Expect, dc.Why = "free", "device does not belong to a live profile: "+target.State
	case target.BadHash != "" && s.Proto == agd.ProtoDoH && dc.Cred == "right":
		// Entitled above (so an attribution is not flagged), but not required.
		dc.Expect, dc.Why = "free", "the password the unusable stored hash was derived from: undocumented, counted only"
	default:
		if _, ok := dc.Entitled[string(target.ID)]; ok {
			dc.Expect, dc.ExpectDev, dc.Why = "attributed", string(target.ID), "own identifier, policy met"
		} else {
			dc.Expect, dc.ExpectDev, dc.Why = "anonymous", string(target.ID), dc.Denied[string(target.ID)]
		}
	}
	return dc
}

// ---- observation ----

type attr struct {
	Prof string `json:"profile"`
	Dev  string `json:"device"`
	Via  string `json:"seen_in"`
}

type observed struct {
	Responses   int      `json:"responses"`
	Rcode       int      `json:"rcode"`
	Upstream    int      `json:"upstream_calls"`
	Results     []string `json:"device_results"`
	Attributed  []attr   `json:"attributed"`
	Err         string   `json:"err,omitempty"`
	Panic       string   `json:"panic,omitempty"`
	SideEffects int      `json:"side_effects"`
	Errors      []string `json:"collected_errors,omitempty"`
}

func observe(o *stack.Outcome) *observed {
	ob := &observed{Responses: len(o.Responses), Rcode: -1}
	if o.Err != nil {
		ob.Err = o.Err.Error()
	}
	if o.Panic != nil {
		ob.Panic = fmt.Sprint(o.Panic)
	}
	if r := o.Resp(); r != nil {
		ob.Rcode = r.Rcode
	}
	if o.Trace == nil {
		return ob
	}
	if o.Panic == nil {
		// A panic inside one of the stack's fakes leaves the trace's mutex
		// locked (the stack package does not unlock with defer); the panic
		// itself is the reported violation then.
		ob.SideEffects = o.Trace.SideEffects()
	}
	ob.Upstream = len(o.Trace.UpstreamRI)
	seen := map[attr]bool{}
	put := func(a attr) {
		if !seen[a] {
			seen[a] = true
			ob.Attributed = append(ob.Attributed, a)
		}
	}
	for _, ri := range o.Trace.UpstreamRI {
		ob.Results = append(ob.Results, ri.Result)
		if ri.Result == "ok" || ri.ProfileID != "" || ri.DeviceID != "" {
			put(attr{string(ri.ProfileID), string(ri.DeviceID), "request-info"})
		}
	}
	for _, b := range o.Trace.Bill {
		put(attr{"", string(b.Device), "billing"})
	}
	for _, q := range o.Trace.QueryLog {
		put(attr{string(q.ProfileID), string(q.DeviceID), "query-log"})
	}
	ob.Errors = append(ob.Errors, o.Trace.Errors...)
	return ob
}

func (ob *observed) outcome() string {
	switch {
	case ob.Panic != "":
		return "panic"
	case ob.Responses == 0 && ob.Err != "":
		return "error"
	case ob.Responses == 0:
		return "no-response"
	case ob.Responses > 1:
		return "many-responses"
	case ob.Rcode != 0:
		return fmt.Sprintf("rcode-%d", ob.Rcode)
	case len(ob.Attributed) > 0:
		return "served-attributed"
	default:
		return "served-anonymous"
	}
}

// ---- oracle ----

type witness struct {
	Req      *reqSpec  `json:"request"`
	Decision *decision `json:"model"`
	Observed *observed `json:"observed"`
	Device   *devSpec  `json:"device,omitempty"`
	Note     string    `json:"note,omitempty"`
}

// unentitledReason names the class of an attribution the model does not allow.
func (w *world) unentitledReason(rq *reqSpec, dc *decision, a attr) (string, *devSpec) {
	d := w.devByID(a.Dev)
	if d == nil {
		return "unknown-device", nil
	}
	if d.Auto {
		return "auto-device", d
	}
	if a.Prof != "" && a.Prof != string(d.Prof) {
		return "wrong-profile", d
	}
	if why, ok := dc.Denied[a.Dev]; ok {
		return why, d
	}
	var whys []string
	for _, iv := range dc.Invalid {
		why, id, _ := strings.Cut(iv, "=")
		if id == a.Dev {
			whys = append(whys, why)
		}
	}
	if len(whys) > 0 {
		sort.Strings(whys)
		return strings.Join(whys, "+"), d
	}
	return "no-identifier", d
}

func channelsOf(dc *decision) string {
	var cs []string
	for _, c := range dc.Claims {
		res := "unknown"
		switch {
		case c.dev != nil && c.Exact:
			res = "dev"
		case c.dev != nil:
			res = "dev-inexact"
		case c.ExtProf != "":
			res = "ext-unknown"
		}
		if c.dev != nil && c.ExtProf != "" {
			res = "ext-dev"
		}
		cs = append(cs, c.Channel+"="+res)
	}
	sort.Strings(cs)
	return strings.Join(cs, "+")
}

func invalidOf(dc *decision) string {
	var cs []string
	for _, iv := range dc.Invalid {
		why, _, _ := strings.Cut(iv, "=")
		cs = append(cs, why)
	}
	sort.Strings(cs)
	return strings.Join(cs, "+")
}

// classSink, if set (child process of the concurrent phase), receives every
// evaluated class so that the parent can account for it.
var classSink func(class string, nontrivial bool)

// judge compares the observation with the model and does the accounting.
func (w *world) judge(r *vkit.Run, rq *reqSpec, dc *decision, ob *observed) {
	s := w.server(rq.Group, rq.Server)
	var target *devSpec
	if len(dc.Claims) > 0 {
		target = dc.Claims[0].dev
	}
	kind, state := "-", "-"
	if target != nil {
		kind, state = target.Kind, target.State
	} else if d := w.devByID(rq.Dev); d != nil && len(dc.Invalid) > 0 {
		kind, state = d.Kind, d.State
	}
	class := strings.Join([]string{rq.Layer, w.DBKind, rq.Group, rq.Server, channelsOf(dc), invalidOf(dc), dc.Cred, kind, state, dc.Expect}, "|")
	nontrivial := len(dc.Claims) > 0 || len(dc.Invalid) > 0
	r.Eval(class, nontrivial)
	if classSink != nil {
		classSink(class, nontrivial)
	}
	wit := func(note string, d *devSpec) witness {
		return witness{Req: rq, Decision: dc, Observed: ob, Device: d, Note: note}
	}
	out := ob.outcome()
	r.Bucket("outcome:"+out, 1)
	if target != nil && target.BadHash != "" && s.Proto == agd.ProtoDoH && target.State == stLive {
		switch dc.Cred {
		case "right":
			r.Bucket("badhash_original_password:"+target.BadHash+":"+out, 1)
		case "wrong", "empty":
			if dc.Expect == "anonymous" {
				r.Bucket("badhash_wrong_or_empty_password_cases", 1)
				r.Bucket("badhash_wrong_or_empty_password_cases:"+target.BadHash, 1)
			}
		}
	}
	r.Bucket("proto:"+s.protoName(), 1)
	r.Bucket("expect:"+dc.Expect, 1)
	for _, res := range ob.Results {
		if res == "" {
			res = "nil"
		}
		r.Bucket("device_result:"+res, 1)
	}
	if ob.Panic != "" {
		r.Violation("panic:"+s.protoName(), "the stack panicked on a request", wit("", target))
		return
	}

	// 1. Security direction: attributed ==> entitled.
	for _, a := range ob.Attributed {
		if _, ok := dc.Entitled[a.Dev]; ok {
			d := w.devByID(a.Dev)
			if a.Prof == "" || (d != nil && a.Prof == string(d.Prof)) {
				r.Bucket("attributed_entitled", 1)
				r.Bucket("attributed_via:"+dc.Entitled[a.Dev], 1)
				continue
			}
		}
		if d := w.devByID(a.Dev); d != nil && d.Auto && d.State == stLive {
			if h, ok := dc.AutoProf[string(d.Prof)]; ok && h == d.HumanLower && (a.Prof == "" || a.Prof == string(d.Prof)) {
				r.Bucket("attributed_auto_device", 1)
				if rq.Layer == "human-overlap" && a.Via == "request-info" {
					r.Bucket("human_overlap_auto_devices", 1)
				}
				continue
			}
		}
		why, d := w.unentitledReason(rq, dc, a)
		r.Violation("unentitled:"+why,
			"a request was attributed to a profile/device ("+a.Via+") that it is not entitled to: "+why, wit("attributed "+a.Prof+"/"+a.Dev, d))
	}

	// 2. What the statement fixes about the outcome.
	switch dc.Expect {
	case "attributed":
		ok := out == "served-attributed"
		for _, a := range ob.Attributed {
			if a.Dev != dc.ExpectDev {
				ok = false
			}
		}
		if ok && w.DBKind != "" {
			// All three observation points must agree.
			vias := map[string]bool{}
			for _, a := range ob.Attributed {
				vias[a.Via] = true
			}
			if !vias["request-info"] || !vias["billing"] || !vias["query-log"] {
				r.Bucket("attributed_partial_observation", 1)
			}
		}
		if !ok {
			r.Violation(fmt.Sprintf("unrecognised:%s:%s:%s:%s:%s", channelsOf(dc), target.Kind, s.protoName(), dc.Cred, out),
				"a request carrying exactly one device's own identifier through a valid channel, with the authentication policy met, was not attributed to it", wit("", target))
		} else {
			r.Bucket("recognised", 1)
			r.Bucket("recognised:"+s.protoName()+":"+channelsOf(dc), 1)
		}
	case "anonymous":
		if out != "served-anonymous" {
			key := fmt.Sprintf("anonymous-not-served:%s:%s:%s", s.protoName(), invalidOf(dc), out)
			what := "a request without any identifier through a valid channel was not served as anonymous"
			if dc.ExpectDev != "" {
				key = fmt.Sprintf("authfail-not-anonymous:%s:%s", dc.Why, out)
				what = "a request that fails the device's authentication policy was not served as anonymous"
			}
			r.Violation(key, what, wit("", target))
		} else if dc.ExpectDev != "" {
			r.Bucket("auth_failure_served_anonymous", 1)
			r.Bucket("authfail:"+dc.Why, 1)
			for _, res := range ob.Results {
				r.Bucket("auth_failure_device_result:"+res, 1)
			}
		} else {
			r.Bucket("anonymous_served", 1)
			if len(dc.Invalid) > 0 {
				r.Bucket("anonymous_despite_invalid_carrier", 1)
				r.Bucket("invalid_carrier:"+invalidOf(dc), 1)
			}
		}
	case "dropped":
		if ob.Responses != 0 || ob.Upstream != 0 || ob.SideEffects != 0 || ob.Err != "" {
			r.Violation("unknown-dedicated-not-dropped:"+out,
				"a plain-DNS request to a dedicated address that belongs to no device was not dropped silently", wit("", nil))
		} else {
			r.Bucket("unknown_dedicated_dropped", 1)
		}
	default:
		r.Bucket("free:"+out, 1)
		if target != nil && target.State != stLive && len(ob.Attributed) == 0 {
			r.Bucket("not_attributed:"+target.State, 1)
		}
	}
}

// toStackRequest converts the spec into what the server of that protocol
// would have put into the context.
func (w *world) toStackRequest(rq *reqSpec) (*stack.Request, error) {
	s := w.server(rq.Group, rq.Server)
	m, err := newMsg(uint16(rq.Idx), fmt.Sprintf("c%d.www.example.org", rq.Idx), rq.EDNS)
	if err != nil {
		return nil, err
	}
	sr := &stack.Request{Server: s.srv, Group: s.grp, Msg: m,
		Remote: netip.MustParseAddrPort(rq.Remote), Local: netip.MustParseAddrPort(rq.Local), TLSServerName: rq.SNI}
	if rq.Path != "" {
		sr.URL = &url.URL{Path: rq.Path}
	}
	if s.Proto == agd.ProtoDoH && sr.URL == nil {
		sr.URL = &url.URL{Path: "/dns-query"}
	}
	if rq.HasUser {
		if rq.PassSet {
			sr.Userinfo = url.UserPassword(rq.User, rq.Pass)
		} else {
			sr.Userinfo = url.User(rq.User)
		}
	}
	return sr, nil
}

// run executes one handler-level case.
func (w *world) run(r *vkit.Run, rq *reqSpec) {
	rq.DB = w.DBKind
	if rq.Layer == "" {
		rq.Layer = "handler"
	}
	dc := w.decide(rq)
	sr, err := w.toStackRequest(rq)
	if err != nil {
		r.Inconclusive(fmt.Sprintf("cannot build request %d: %v", rq.Idx, err))
		return
	}
	o := w.st.Serve(sr)
	ob := observe(o)
	w.st.Forget(o)
	// Devices created on the way are known to the model only now; decide again
	// is not needed: entitlement of auto devices is checked against AutoProf.
	w.judge(r, rq, dc, ob)
	if rq.Idx%997 == 0 || (dc.Expect == "anonymous" && dc.ExpectDev != "" && rq.Idx%211 == 0) {
		r.Sample(witness{Req: rq, Decision: dc, Observed: ob})
	}
}
