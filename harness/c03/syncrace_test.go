package c03

import (
	"context"
	"fmt"
	"time"

	"github.com/AdguardTeam/AdGuardDNS/internal/profiledb"
	"github.com/AdguardTeam/AdGuardDNS/verif/stack"
	"github.com/AdguardTeam/AdGuardDNS/verif/vkit"
)

// runSyncDuringCreate drives one fixed sequence on the real profile database:
// requests with a new human-readable identifier make the database ask the
// storage to create an automatic device; while those (slow) storage calls are
// blocked, an incremental synchronisation delivers "profile deleted" and
// "device detached" for the same profiles; then the storage calls return.
// Afterwards the database contents are, by the last synchronisation, exactly
// those of the "real" world, and every request identifying a device of those
// profiles is judged with the same decision table: a deleted profile stays
// deleted and a detached device stays detached, whatever was in flight.
//
// The order of events is enforced with channels, not left to the scheduler.
func runSyncDuringCreate(r *vkit.Run, round int) {
	w, err := buildWorld(r, "syncrace", round)
	if err != nil {
		r.Inconclusive("building the syncrace world: " + err.Error())
		return
	}
	targets := []string{"pautodel", "pautodet"}
	entered := make(chan string, 16)
	release := make(chan struct{})
	stg := w.storage
	stg.mu.Lock()
	stg.onCreate = func(req *profiledb.StorageCreateAutoDeviceRequest) {
		entered <- string(req.ProfileID)
		<-release
	}
	stg.mu.Unlock()

	g := &gen{r: r, w: w, round: round, idx: 3_000_000}
	results := make(chan *observed, len(targets))
	for i, p := range targets {
		var rq *reqSpec
		ext := "otr-" + p + "-inflight"
		if i%2 == 0 {
			rq = g.base(w.server("gp", "dot"), nil, "syncrace/in-flight-create/sni")
			rq.SNI = ext + "." + domMain
		} else {
			rq = g.base(w.server("gp", "doh"), nil, "syncrace/in-flight-create/path")
			rq.Path = "/dns-query/" + ext
		}
		rq.Layer, rq.Round, rq.DB = "syncrace", round, w.DBKind
		sr, berr := w.toStackRequest(rq)
		if berr != nil {
			r.Inconclusive("syncrace: " + berr.Error())
			close(release)
			return
		}
		sr.Timeout = 10 * time.Minute
		go func() {
			o := w.st.Serve(sr)
			ob := observe(o)
			w.st.Forget(o)
			results <- ob
		}()
	}
	// Wait until every creation is inside the storage call.
	timeout := time.After(3 * time.Minute)
	for n := 0; n < len(targets); n++ {
		select {
		case <-entered:
		case <-timeout:
			close(release)
			r.Inconclusive(fmt.Sprintf("syncrace: only %d of %d automatic-device creations reached the storage", n, len(targets)))
			return
		}
	}
	// The incremental synchronisation lands now.
	serr := w.realDB.Refresh(context.Background())
	close(release)
	if serr != nil {
		r.Inconclusive("syncrace: partial sync: " + serr.Error())
		return
	}
	for range targets {
		select {
		case ob := <-results:
			// The in-flight request itself straddles the change and is not
			// judged; its outcome is only counted.
			r.Bucket("syncrace_in_flight_outcome:"+ob.outcome(), 1)
		case <-timeout:
			r.Inconclusive("syncrace: an in-flight request did not finish")
			return
		}
	}
	stg.mu.Lock()
	stg.onCreate = nil
	stg.mu.Unlock()
	r.Bucket("syncrace_creates_in_flight_during_sync", int64(len(targets)))

	// Now every device of those profiles, through every channel.
	g.only = func(d *devSpec) bool { return d.Prof == "pautodel" || d.Prof == "pautodet" }
	g.emit = func(rq *reqSpec) {
		rq.Round, rq.Layer = round, "syncrace"
		w.run(r, rq)
		r.Bucket("syncrace_cases", 1)
		if d := w.devByID(rq.Dev); d != nil && g.only(d) {
			r.Bucket("syncrace_cases:"+d.State, 1)
		}
	}
	g.all()
}

var _ = stack.Logger
