package c03

import (
	"bytes"
	"context"
	"crypto/ecdsa"
	"crypto/elliptic"
	crand "crypto/rand"
	"crypto/tls"
	"crypto/x509"
	"crypto/x509/pkix"
	"encoding/base64"
	"encoding/binary"
	"fmt"
	"io"
	"math/big"
	"net"
	"net/http"
	"net/netip"
	"net/url"
	"strings"
	"sync"
	"time"

	"github.com/AdguardTeam/AdGuardDNS/internal/dnsserver"
	"github.com/AdguardTeam/AdGuardDNS/verif/stack"
	"github.com/AdguardTeam/AdGuardDNS/verif/vkit"
	"github.com/AdguardTeam/golibs/netutil"
	"github.com/miekg/dns"
)

func selfSigned() (tls.Certificate, error) {
	key, err := ecdsa.GenerateKey(elliptic.P256(), crand.Reader)
	if err != nil {
		return tls.Certificate{}, err
	}
	tmpl := &x509.Certificate{SerialNumber: big.NewInt(1), Subject: pkix.Name{CommonName: "verif"},
		NotBefore: time.Now().Add(-time.Hour), NotAfter: time.Now().Add(24 * time.Hour),
		KeyUsage: x509.KeyUsageDigitalSignature, ExtKeyUsage: []x509.ExtKeyUsage{x509.ExtKeyUsageServerAuth},
		DNSNames: []string{"*." + domMain, "*." + domAlt}}
	der, err := x509.CreateCertificate(crand.Reader, tmpl, tmpl, &key.PublicKey, key)
	if err != nil {
		return tls.Certificate{}, err
	}
	return tls.Certificate{Certificate: [][]byte{der}, PrivateKey: key}, nil
}

// captured is what the handler behind a real listener saw for one query.
type captured struct {
	Path     string `json:"path"`
	HasUser  bool   `json:"has_userinfo"`
	User     string `json:"user"`
	PassSet  bool   `json:"password_set"`
	Pass     string `json:"password"`
	SNI      string `json:"sni"`
	Remote   string `json:"remote"`
	observed *observed
}

// e2eHandler records the dnsserver.RequestInfo that the real server built and
// hands exactly those data on to the stack.
type e2eHandler struct {
	w *world
	s *srvSpec

	mu   sync.Mutex
	seen map[string]*captured
}

func (h *e2eHandler) ServeDNS(ctx context.Context, rw dnsserver.ResponseWriter, req *dns.Msg) error {
	ri := dnsserver.MustRequestInfoFromContext(ctx)
	c := &captured{SNI: ri.TLSServerName}
	var u *url.URL
	if ri.URL != nil {
		u = netutil.CloneURL(ri.URL)
		c.Path = ri.URL.Path
	}
	if ri.Userinfo != nil {
		c.HasUser, c.User = true, ri.Userinfo.Username()
		c.Pass, c.PassSet = ri.Userinfo.Password()
	}
	remote := netutil.NetAddrToAddrPort(rw.RemoteAddr())
	c.Remote = remote.String()
	q := req.Question[0].Name
	o := h.w.st.Serve(&stack.Request{Server: h.s.srv, Group: h.s.grp, Msg: req, Remote: remote, Local: h.s.Own,
		TLSServerName: ri.TLSServerName, URL: u, Userinfo: ri.Userinfo})
	c.observed = observe(o)
	h.w.st.Forget(o)
	h.mu.Lock()
	h.seen[strings.ToLower(q)] = c
	h.mu.Unlock()
	if resp := o.Resp(); resp != nil {
		return rw.WriteMsg(ctx, req, resp)
	}
	return o.Err
}

func (h *e2eHandler) take(q string) *captured {
	h.mu.Lock()
	defer h.mu.Unlock()
	c := h.seen[strings.ToLower(q)]
	delete(h.seen, strings.ToLower(q))
	return c
}

type e2eCase struct {
	rq     *reqSpec
	header string // raw credentials to put into "Authorization: Basic" ("" = none)
	urlUI  *url.Userinfo
	h2     bool
}

const e2eTimeout = 60 * time.Second

func dohExchange(addr string, c *e2eCase, q *dns.Msg) (status int, err error) {
	body, err := q.Pack()
	if err != nil {
		return 0, err
	}
	tr := &http.Transport{
		TLSClientConfig:   &tls.Config{ServerName: c.rq.SNI, InsecureSkipVerify: true},
		ForceAttemptHTTP2: c.h2,
	}
	if !c.h2 {
		tr.TLSNextProto = map[string]func(string, *tls.Conn) http.RoundTripper{}
	}
	defer tr.CloseIdleConnections()
	cl := &http.Client{Transport: tr, Timeout: e2eTimeout}
	u := &url.URL{Scheme: "https", Host: addr, Path: c.rq.Path, User: c.urlUI}
	req, err := http.NewRequest(http.MethodPost, u.String(), bytes.NewReader(body))
	if err != nil {
		return 0, err
	}
	if c.rq.Host != "" {
		req.Host = c.rq.Host
	}
	req.Header.Set("Content-Type", dnsserver.MimeTypeDoH)
	req.Header.Set("Accept", dnsserver.MimeTypeDoH)
	if c.header != "" {
		req.Header.Set("Authorization", "Basic "+base64.StdEncoding.EncodeToString([]byte(c.header)))
	}
	resp, err := cl.Do(req)
	if err != nil {
		return 0, err
	}
	defer resp.Body.Close()
	_, _ = io.Copy(io.Discard, resp.Body)
	return resp.StatusCode, nil
}

func dotExchange(addr string, sni string, q *dns.Msg) error {
	body, err := q.Pack()
	if err != nil {
		return err
	}
	d := &net.Dialer{Timeout: e2eTimeout}
	conn, err := tls.DialWithDialer(d, "tcp", addr, &tls.Config{ServerName: sni, InsecureSkipVerify: true})
	if err != nil {
		return err
	}
	defer conn.Close()
	_ = conn.SetDeadline(time.Now().Add(e2eTimeout))
	buf := make([]byte, 2+len(body))
	binary.BigEndian.PutUint16(buf, uint16(len(body)))
	copy(buf[2:], body)
	if _, err = conn.Write(buf); err != nil {
		return err
	}
	var l [2]byte
	if _, err = io.ReadFull(conn, l[:]); err != nil {
		return err
	}
	rb := make([]byte, binary.BigEndian.Uint16(l[:]))
	_, err = io.ReadFull(conn, rb)
	return err
}

// runE2E sends a subset of the cases through REAL DoH and DoT listeners; the
// handler behind them forwards the RequestInfo the server built to the stack.
// The model is evaluated on what the CLIENT sent.
func runE2E(r *vkit.Run, w *world, round int) {
	cert, err := selfSigned()
	if err != nil {
		r.Inconclusive("e2e: certificate: " + err.Error())
		return
	}
	ctx := context.Background()
	// What was REALLY in each ClientHello, by the client's address: the ground
	// truth for the TLS server name channel.
	var wireMu sync.Mutex
	wireSNI := map[string]string{}
	recordHello := func(chi *tls.ClientHelloInfo) (*tls.Config, error) {
		wireMu.Lock()
		wireSNI[chi.Conn.RemoteAddr().String()] = chi.ServerName
		wireMu.Unlock()
		return nil, nil
	}
	dohSpec, dotSpec := w.server("gp", "doh"), w.server("gp", "dot")
	hDoH := &e2eHandler{w: w, s: dohSpec, seen: map[string]*captured{}}
	hDoT := &e2eHandler{w: w, s: dotSpec, seen: map[string]*captured{}}
	doh := dnsserver.NewServerHTTPS(dnsserver.ConfigHTTPS{
		ConfigBase: dnsserver.ConfigBase{Name: "e2e-doh", Addr: "127.0.0.1:0", Handler: hDoH, Network: dnsserver.NetworkTCP},
		TLSConfDefault: &tls.Config{Certificates: []tls.Certificate{cert}, NextProtos: dnsserver.NextProtoDoH, MinVersion: tls.VersionTLS12,
			GetConfigForClient: recordHello},
	})
	if err = doh.Start(ctx); err != nil {
		r.Inconclusive("e2e: starting doh: " + err.Error())
		return
	}
	defer func() { _ = doh.Shutdown(ctx) }()
	dot := dnsserver.NewServerTLS(dnsserver.ConfigTLS{
		ConfigDNS: dnsserver.ConfigDNS{ConfigBase: dnsserver.ConfigBase{Name: "e2e-dot", Addr: "127.0.0.1:0", Handler: hDoT},
			ReadTimeout: e2eTimeout, WriteTimeout: e2eTimeout, TCPIdleTimeout: e2eTimeout},
		TLSConfig: &tls.Config{Certificates: []tls.Certificate{cert}, MinVersion: tls.VersionTLS12, GetConfigForClient: recordHello},
	})
	if err = dot.Start(ctx); err != nil {
		r.Inconclusive("e2e: starting dot: " + err.Error())
		return
	}
	defer func() { _ = dot.Shutdown(ctx) }()
	dohAddr, dotAddr := doh.LocalTCPAddr().String(), dot.LocalTCPAddr().String()

	mismatch := map[string]bool{}
	compare := func(rq *reqSpec, c *captured, fields ...string) {
		for _, f := range fields {
			ok := true
			switch f {
			case "path":
				ok = c.Path == rq.Path
			case "userinfo":
				ok = c.HasUser == rq.HasUser && c.User == rq.User && c.PassSet == rq.PassSet && c.Pass == rq.Pass
			case "sni":
				// The harness side: was the intended server name really in the
				// ClientHello?  (A difference here is a harness problem.)
				wireMu.Lock()
				wire, seen := wireSNI[c.Remote]
				delete(wireSNI, c.Remote)
				wireMu.Unlock()
				ok = seen && wire == rq.SNI
				if ok {
					r.Bucket("e2e_wire_sni_confirmed", 1)
					// The server side: a TLS server name in the RequestInfo that
					// is not the one of the ClientHello is the server's doing, not
					// an assumption of the harness; the case is judged by its
					// outcome against what was really sent.
					if c.SNI != wire {
						r.Bucket("e2e_server_tls_name_differs_from_clienthello", 1)
						continue
					}
				}
			}
			if ok {
				r.Bucket("e2e_requestinfo_"+f+"_as_assumed", 1)
			} else {
				r.Bucket("e2e_requestinfo_mismatch:"+f, 1)
				if !mismatch[f] {
					mismatch[f] = true
					r.Inconclusive(fmt.Sprintf("e2e: harness mismatch on the %s listener in field %q (for sni: the ClientHello did not carry the intended name; for path/userinfo: the handler saw something else than was sent and the wire cannot be observed independently): sent %s, handler saw %s",
						rq.Layer, f, vkit.JSON(rq), vkit.JSON(c)))
				}
			}
		}
	}

	idx := 1_000_000
	newRq := func(layer string, s *srvSpec, d *devSpec, gen string) *reqSpec {
		idx++
		return &reqSpec{Idx: idx, Round: round, Layer: layer, Gen: gen, DB: w.DBKind, Group: s.Group, Server: s.Name, Dev: string(d.ID), Local: s.Own.String()}
	}
	finish := func(rq *reqSpec, h *e2eHandler, q *dns.Msg, fields ...string) {
		c := h.take(q.Question[0].Name)
		if c == nil {
			r.Bucket("e2e_not_reached", 1)
			r.Inconclusive(fmt.Sprintf("e2e: request %d never reached the handler: %s", rq.Idx, vkit.JSON(rq)))
			return
		}
		rq.Remote = c.Remote
		compare(rq, c, fields...)
		dc := w.decide(rq)
		w.judge(r, rq, dc, c.observed)
		r.Bucket("e2e_requests", 1)
		r.Bucket("e2e_requests:"+rq.Layer, 1)
		if rq.Idx%61 == 0 {
			r.Sample(witness{Req: rq, Decision: dc, Observed: c.observed, Note: "handler saw " + vkit.JSON(c)})
		}
	}

	// DoH.
	k, combo := 0, 0
	full := r.Thorough()
	for _, d := range w.Devs {
		right, wrong := d.Password, d.Password+"x"
		if !d.hasHash() {
			right, wrong = "anything", "wrong"
		}
		id := string(d.ID)
		type auth struct {
			name, header string
			ui           *url.Userinfo
			has, set     bool
			user, pass   string
		}
		auths := []auth{
			{name: "none"},
			// No colon: not valid basic credentials (RFC 7617); equivalent to none.
			{name: "nocolon", header: id},
			{name: "empty", header: id + ":", has: true, set: true, user: id},
			{name: "wrong", header: id + ":" + wrong, has: true, set: true, user: id, pass: wrong},
			{name: "right", header: id + ":" + right, has: true, set: true, user: id, pass: right},
			// Credentials in the URL: the Go client turns them into a header;
			// a user without a password becomes "user:".
			{name: "url-user-only", ui: url.User(id), has: true, set: true, user: id},
			{name: "url-right", ui: url.UserPassword(id, right), has: true, set: true, user: id, pass: right},
		}
		snis := []string{"", id + "." + domMain, strings.ToUpper(id) + "." + domMain, "x." + id + "." + domMain, id + "x" + domMain}
		for _, p := range []string{"/dns-query", "/dns-query/" + id} {
			for _, a := range auths {
				combo++
				for si, sni := range snis {
					k++
					if !full && si != combo%len(snis) {
						continue
					}
					rq := newRq("e2e-doh", dohSpec, d, fmt.Sprintf("e2e-doh/path=%s/auth=%s/sni=%d", p, a.name, si))
					rq.Path, rq.SNI = p, sni
					rq.HasUser, rq.User, rq.PassSet, rq.Pass = a.has, a.user, a.set, a.pass
					q := stack.NewQuery(uint16(rq.Idx), fmt.Sprintf("e%d.e2e.example.org", rq.Idx), dns.TypeA, dns.ClassINET)
					ec := &e2eCase{rq: rq, header: a.header, urlUI: a.ui, h2: k%2 == 0}
					var status int
					var xerr error
					for try := 0; try < 3; try++ {
						// Only transport errors are retried (a loaded machine may
						// hit the server's fixed 5 s HTTP timeouts); verdicts never
						// depend on timing.
						if status, xerr = dohExchange(dohAddr, ec, q); xerr == nil {
							break
						}
						r.Bucket("e2e_client_retries", 1)
					}
					if xerr != nil {
						r.Bucket("e2e_client_errors", 1)
						r.Inconclusive(fmt.Sprintf("e2e: doh client error for request %d: %v", rq.Idx, xerr))
						continue
					}
					r.Bucket(fmt.Sprintf("e2e_http_status:%d", status), 1)
					finish(rq, hDoH, q, "path", "userinfo", "sni")
				}
			}
		}
	}
	// DoH: a device-like name only in the HTTP Host header (:authority on
	// HTTP/2), which is not an identification channel; no or a foreign server
	// name in the ClientHello, nothing in the path, no credentials.
	for _, d := range w.Devs {
		id := string(d.ID)
		hosts := []string{id + "." + domMain, id + "." + domMain + ":8443", strings.ToUpper(id + "." + domMain), id + "." + domAlt + ":443"}
		for si, sni := range []string{"", id + ".foreign.example"} {
			for hi, host := range hosts {
				for _, h2 := range []bool{false, true} {
					rq := newRq("e2e-doh", dohSpec, d, fmt.Sprintf("e2e-doh/host-header=%d/sni=%d/h2=%v", hi, si, h2))
					rq.Path, rq.SNI, rq.Host = "/dns-query", sni, host
					q := stack.NewQuery(uint16(rq.Idx), fmt.Sprintf("e%d.e2e.example.org", rq.Idx), dns.TypeA, dns.ClassINET)
					ec := &e2eCase{rq: rq, h2: h2}
					var xerr error
					for try := 0; try < 3; try++ {
						if _, xerr = dohExchange(dohAddr, ec, q); xerr == nil {
							break
						}
						r.Bucket("e2e_client_retries", 1)
					}
					if xerr != nil {
						r.Bucket("e2e_client_errors", 1)
						r.Inconclusive(fmt.Sprintf("e2e: doh client error for request %d: %v", rq.Idx, xerr))
						continue
					}
					finish(rq, hDoH, q, "path", "userinfo", "sni")
					r.Bucket("e2e_host_header_cases", 1)
					if sni == "" {
						r.Bucket("e2e_host_header_cases_without_sni", 1)
					}
				}
			}
		}
	}
	// DoT.
	for di, d := range w.Devs {
		rnd := r.Rand(fmt.Sprintf("e2e-dot-sni-%d", round), di)
		id := string(d.ID)
		snis := []string{"", id + "." + domMain, strings.ToUpper(id + "." + domAlt), mixCase(rnd, id+"."+domMain), "x." + id + "." + domMain, id + ".foreign.example",
			id + "x" + domMain, strings.ToUpper(id + "-" + domAlt), id + domMain, id + ".x" + domMain, id + ".example"}
		if d.HumanLower != "" {
			snis = append(snis, extID(d, "otr")+"."+domMain)
		}
		for si, sni := range snis {
			rq := newRq("e2e-dot", dotSpec, d, fmt.Sprintf("e2e-dot/sni=%d", si))
			rq.SNI = sni
			q := stack.NewQuery(uint16(rq.Idx), fmt.Sprintf("e%d.e2e.example.org", rq.Idx), dns.TypeA, dns.ClassINET)
			var xerr error
			for try := 0; try < 3; try++ {
				if xerr = dotExchange(dotAddr, sni, q); xerr == nil {
					break
				}
				r.Bucket("e2e_client_retries", 1)
			}
			if xerr != nil {
				r.Bucket("e2e_client_errors", 1)
				r.Inconclusive(fmt.Sprintf("e2e: dot client error for request %d: %v", rq.Idx, xerr))
				continue
			}
			finish(rq, hDoT, q, "sni")
		}
	}
}

var _ = netip.Addr{}
