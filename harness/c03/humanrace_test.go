package c03

import (
	"fmt"
	"runtime"
	"time"

	"github.com/AdguardTeam/AdGuardDNS/verif/vkit"
)

// runHumanOverlap drives fixed sequences of two overlapping requests that
// both carry a human-readable identifier which needs normalisation: request
// A is held inside the profile-database lookup (a slow database) while
// request B, with ANOTHER such identifier, is served completely on the same
// stack; then A is released.  Both must end up with devices of their OWN
// identifiers.  The order is enforced with channels; the phase runs with one
// scheduler thread so that B really reuses whatever per-thread state (pooled
// parser buffers) A left behind, instead of depending on where the scheduler
// happens to put B.
func runHumanOverlap(r *vkit.Run, round int) {
	w, err := buildWorld(r, "real", 2000+round)
	if err != nil {
		r.Inconclusive("building the human-overlap world: " + err.Error())
		return
	}
	w.DBKind = "real-overlap"
	prev := runtime.GOMAXPROCS(1)
	defer runtime.GOMAXPROCS(prev)

	g := &gen{r: r, w: w, round: round, idx: 4_000_000}
	type ch struct{ server, channel string }
	chans := []ch{{"doh", "path"}, {"dot", "sni"}, {"doq", "sni"}}
	pairs := r.N(24, 120)
	timeout := time.After(5 * time.Minute)
	for k := 0; k < pairs; k++ {
		rnd := r.Rand(fmt.Sprintf("human-overlap-%d", round), k)
		seps := []string{"_", "!", " ", "~", "é", "__", "_!"}
		sep := func() string { return seps[rnd.IntN(len(seps))] }
		// Different lengths on purpose: B may be shorter, equal or longer.
		humanA := fmt.Sprintf("hold%da%sx%d%sq", k, sep(), rnd.IntN(1000), sep())
		humanB := fmt.Sprintf("zz%d%sother%s%d", rnd.IntN(100000), sep(), sep(), k)
		wantA, _ := normalHumanID(humanA)
		mk := func(c ch, human, name string) *reqSpec {
			s := w.server("gp", c.server)
			rq := g.base(s, nil, "human-overlap/"+name+"/"+c.server+"/"+c.channel)
			ext := "adr-pauto-" + human
			if c.channel == "path" {
				rq.Path = "/dns-query/" + ext
			} else {
				rq.SNI = ext + "." + domMain
			}
			rq.Layer, rq.Round = "human-overlap", round
			return rq
		}
		rqA, rqB := mk(chans[k%len(chans)], humanA, "held"), mk(chans[(k/len(chans))%len(chans)], humanB, "overtaking")

		entered := make(chan struct{}, 4)
		release := make(chan struct{})
		first := true
		w.db.mu.Lock()
		w.db.onHuman = func(prof, humanLower string) {
			// Only A's first lookup is held (the hook runs on A's goroutine and
			// on the main one, never concurrently with itself before release).
			if first && prof == "pauto" && humanLower == wantA {
				first = false
				entered <- struct{}{}
				<-release
			}
		}
		w.db.mu.Unlock()

		done := make(chan struct{})
		go func() {
			defer close(done)
			w.run(r, rqA)
		}()
		select {
		case <-entered:
		case <-done:
			// A never reached the database lookup with its own identifier.
			r.Bucket("human_overlap_not_held", 1)
			close(release)
			continue
		case <-timeout:
			close(release)
			r.Inconclusive("human-overlap: request A did not reach the database")
			return
		}
		w.run(r, rqB)
		close(release)
		select {
		case <-done:
		case <-timeout:
			r.Inconclusive("human-overlap: request A did not finish")
			return
		}
		r.Bucket("human_overlap_pairs", 1)
	}
	w.db.mu.Lock()
	w.db.onHuman = nil
	w.db.mu.Unlock()
}
