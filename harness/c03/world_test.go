package c03

import (
	"context"
	"fmt"
	"net/netip"
	"os"
	"path/filepath"
	"strings"
	"sync"
	"time"

	"github.com/AdguardTeam/AdGuardDNS/internal/access"
	"github.com/AdguardTeam/AdGuardDNS/internal/agd"
	"github.com/AdguardTeam/AdGuardDNS/internal/agdnet"
	"github.com/AdguardTeam/AdGuardDNS/internal/agdpasswd"
	"github.com/AdguardTeam/AdGuardDNS/internal/dnsmsg"
	"github.com/AdguardTeam/AdGuardDNS/internal/filter"
	"github.com/AdguardTeam/AdGuardDNS/internal/profiledb"
	"github.com/AdguardTeam/AdGuardDNS/verif/stack"
	"github.com/AdguardTeam/AdGuardDNS/verif/vkit"
	"github.com/miekg/dns"
	"golang.org/x/crypto/bcrypt"
)

// ---- devices ----

// Authentication kinds of a device.
const (
	akOff       = "off"   // auth disabled (a hash is configured but unused)
	akOn        = "on"    // auth enabled, not DoH-only, bcrypt hash
	akDoHOnly   = "doh"   // auth enabled, DoH-only, bcrypt hash
	akOnAllow   = "ona"   // auth enabled, not DoH-only, no hash configured (backend sends none)
	akDoHOAllow = "dohna" // auth enabled, DoH-only, no hash configured
)

var authKinds = []string{akOff, akOn, akDoHOnly, akOnAllow, akDoHOAllow}

// Database states of a device.
const (
	stLive     = "live"
	stDeleted  = "deleted"  // profile has Deleted set
	stDetached = "detached" // device record exists, profile no longer lists it (MapDB: not in the database at all)
)

var devStates = []string{stLive, stDeleted, stDetached}

// devSpec is what the reference model knows about a device.
type devSpec struct {
	ID       agd.DeviceID  `json:"id"`
	Prof     agd.ProfileID `json:"profile"`
	Kind     string        `json:"auth_kind"`
	State    string        `json:"state"`
	Password string        `json:"password,omitempty"` // "" = no hash configured (accepts any supplied password)
	Linked   netip.Addr    `json:"linked_ip"`
	// Dedicated maps an interface-bound server name to the device's dedicated
	// address on that server.
	Dedicated  map[string]netip.Addr `json:"dedicated"`
	HumanLower string                `json:"human_id,omitempty"`
	Auto       bool                  `json:"auto_created,omitempty"`
	// BadHash names the way the stored hash is unusable ("" = usable).
	BadHash string `json:"bad_hash,omitempty"`

	dev *agd.Device
}

func (d *devSpec) enabled() bool { return d.Kind != akOff }
func (d *devSpec) dohOnly() bool {
	return d.Kind == akDoHOnly || d.Kind == akDoHOAllow || strings.HasPrefix(d.Kind, "bhd-")
}
func (d *devSpec) hasHash() bool {
	return d.Kind == akOff || d.Kind == akOn || d.Kind == akDoHOnly || d.BadHash != ""
}

// badHashes are stored password hashes that bcrypt cannot use; the key is the
// variant name, the value makes the stored bytes from a valid hash.  A device
// with authentication enabled and such a hash has NO password that the
// statement would call right: nothing is documented about the password the
// hash was once derived from, so that one is counted and not judged; a wrong
// or empty password must never yield recognition.
var badHashes = []struct {
	name, idPrefix string
	mk             func(valid []byte) []byte
}{
	{"empty", "bem", func([]byte) []byte { return []byte{} }},
	{"trunc", "btr", func(h []byte) []byte { return h[:30] }},
	{"newver", "bnv", func(h []byte) []byte { return append([]byte("$3"), h[2:]...) }},
	{"noprefix", "bnp", func(h []byte) []byte { return append([]byte("x"), h[1:]...) }},
	{"argon2", "bar", func([]byte) []byte {
		return []byte("$argon2id$v=19$m=65536,t=3,p=4$c29tZXNhbHRzb21lc2FsdA$RdescudvJCsgt3ub+b+dWRWJTmaaJObG8Uw1vHBBD5s")
	}},
	{"cost03", "bc3", func(h []byte) []byte { return append(append([]byte{}, h[:4]...), append([]byte("03"), h[6:]...)...) }},
	{"cost32", "bc9", func(h []byte) []byte { return append(append([]byte{}, h[:4]...), append([]byte("32"), h[6:]...)...) }},
	{"trail", "btl", func(h []byte) []byte { return append(append([]byte{}, h...), "xx"...) }},
}

// profSpec is what the model knows about a profile.
type profSpec struct {
	ID      agd.ProfileID
	Deleted bool
	Auto    bool
}

// ---- servers ----

type srvSpec struct {
	Name   string
	Group  string
	Proto  agd.Protocol
	Linked bool
	Iface  bool
	Own    netip.AddrPort // the server's own (non-dedicated) address
	Prefix netip.Prefix   // dedicated range (Iface only)

	srv *agd.Server
	grp *agd.ServerGroup
}

func (s *srvSpec) protoName() string {
	switch s.Proto {
	case agd.ProtoDNS:
		return "dns"
	case agd.ProtoDoH:
		return "doh"
	case agd.ProtoDoT:
		return "dot"
	case agd.ProtoDoQ:
		return "doq"
	case agd.ProtoDNSCrypt:
		return "dnscrypt"
	}
	return "?"
}

// unknownDedicated returns an address inside the server's dedicated range that
// no device owns.
func (s *srvSpec) unknownDedicated() netip.Addr {
	a := s.Prefix.Addr().As4()
	a[3] += byte(1<<(32-s.Prefix.Bits())) - 2
	return netip.AddrFrom4(a)
}

type grpSpec struct {
	Name     string
	Profiles bool
	Domains  []string
}

// world is one constructed stack plus everything the model needs.
type world struct {
	DBKind  string
	Groups  map[string]*grpSpec
	Servers []*srvSpec
	byName  map[string]*srvSpec
	Devs    []*devSpec
	Profs   map[agd.ProfileID]*profSpec

	mu       sync.Mutex
	byID     map[agd.DeviceID]*devSpec
	byLinked map[netip.Addr]*devSpec
	byDed    map[netip.Addr]*devSpec
	byHuman  map[string]*devSpec // "prof/humanlower"

	db *recDB
	st *stack.Stack

	// Only for the "syncrace" world.
	realDB  *profiledb.Default
	storage *scriptStorage
}

func (w *world) server(group, name string) *srvSpec { return w.byName[group+"/"+name] }

func (w *world) devByID(id string) *devSpec {
	w.mu.Lock()
	defer w.mu.Unlock()
	return w.byID[agd.DeviceID(id)]
}

func (w *world) devByHuman(prof agd.ProfileID, humanLower string) *devSpec {
	w.mu.Lock()
	defer w.mu.Unlock()
	return w.byHuman[string(prof)+"/"+humanLower]
}

func newProfile(id agd.ProfileID, auto bool) *agd.Profile {
	return &agd.Profile{
		ID: id,
		FilterConfig: &filter.ConfigClient{Custom: &filter.ConfigCustom{}, Parental: &filter.ConfigParental{},
			RuleList: &filter.ConfigRuleList{}, SafeBrowsing: &filter.ConfigSafeBrowsing{}},
		Access: access.EmptyProfile{}, BlockingMode: &dnsmsg.BlockingModeNullIP{}, Ratelimiter: agd.GlobalRatelimiter{},
		FilteredResponseTTL: 10 * time.Second, AutoDevicesEnabled: auto,
		FilteringEnabled: true, QueryLogEnabled: true, IPLogEnabled: true,
	}
}

func cloneProfile(p *agd.Profile) *agd.Profile {
	c := *p
	c.DeviceIDs = append([]agd.DeviceID(nil), p.DeviceIDs...)
	return &c
}

const (
	domMain = "d.example"
	domAlt  = "dev.alt.example"
)

var neutralRemote = netip.MustParseAddr("198.51.100.7")

// ifaceServers lists the interface-bound servers and their dedicated ranges.
var ifaceRanges = map[string]string{
	"dnsi":      "198.18.1.0/25",
	"dnsil":     "198.18.2.0/25",
	"doti":      "198.18.3.0/25",
	"dnscrypti": "198.18.4.0/25",
}

func buildServers() (map[string]*grpSpec, []*srvSpec, []*agd.ServerGroup) {
	groups := map[string]*grpSpec{
		"gp":  {Name: "gp", Profiles: true, Domains: []string{domMain, domAlt}},
		"gnd": {Name: "gnd", Profiles: true, Domains: nil},
		"gnp": {Name: "gnp", Profiles: false, Domains: []string{domMain, domAlt}},
	}
	type sd struct {
		group, name string
		proto       agd.Protocol
		linked      bool
		own         string
	}
	defs := []sd{
		{"gp", "dns", agd.ProtoDNS, false, "192.0.2.1:53"},
		{"gp", "dnsl", agd.ProtoDNS, true, "192.0.2.2:53"},
		{"gp", "dnsi", agd.ProtoDNS, false, "192.0.2.3:53"},
		{"gp", "dnsil", agd.ProtoDNS, true, "192.0.2.4:53"},
		// The encrypted servers deliberately have LinkedIPEnabled set: the
		// address channels must still not be used there.
		{"gp", "dot", agd.ProtoDoT, true, "192.0.2.5:853"},
		{"gp", "doh", agd.ProtoDoH, true, "192.0.2.6:443"},
		{"gp", "doq", agd.ProtoDoQ, true, "192.0.2.7:853"},
		{"gp", "dnscrypt", agd.ProtoDNSCrypt, true, "192.0.2.8:5443"},
		{"gp", "doti", agd.ProtoDoT, true, "192.0.2.9:853"},
		{"gp", "dnscrypti", agd.ProtoDNSCrypt, true, "192.0.2.10:5443"},
		{"gnd", "dot", agd.ProtoDoT, false, "192.0.2.21:853"},
		{"gnd", "doh", agd.ProtoDoH, false, "192.0.2.22:443"},
		{"gnd", "doq", agd.ProtoDoQ, false, "192.0.2.23:853"},
		{"gnp", "dnsl", agd.ProtoDNS, true, "192.0.2.31:53"},
		{"gnp", "doh", agd.ProtoDoH, true, "192.0.2.32:443"},
		{"gnp", "dot", agd.ProtoDoT, true, "192.0.2.33:853"},
	}
	var specs []*srvSpec
	agdGroups := map[string]*agd.ServerGroup{}
	var order []*agd.ServerGroup
	for _, gname := range []string{"gp", "gnd", "gnp"} {
		g := groups[gname]
		ag := &agd.ServerGroup{DDR: stack.NewDDR(false), DeviceDomains: g.Domains, Name: agd.ServerGroupName(gname),
			FilteringGroup: "fg", ProfilesEnabled: g.Profiles}
		agdGroups[gname] = ag
		order = append(order, ag)
	}
	for _, d := range defs {
		own := netip.MustParseAddrPort(d.own)
		sp := &srvSpec{Name: d.name, Group: d.group, Proto: d.proto, Linked: d.linked, Own: own}
		srv := stack.NewServer(d.group+"-"+d.name, d.proto, own, d.linked)
		if rng, ok := ifaceRanges[d.name]; ok && d.group == "gp" {
			sp.Iface = true
			sp.Prefix = netip.MustParsePrefix(rng)
			netw := "udp"
			if d.proto == agd.ProtoDoT {
				netw = "tcp"
			}
			srv.SetBindData([]*agd.ServerBindData{
				{PrefixAddr: &agdnet.PrefixNetAddr{Prefix: sp.Prefix, Net: netw, Port: own.Port()}},
				{PrefixAddr: &agdnet.PrefixNetAddr{Prefix: netip.PrefixFrom(own.Addr(), 32), Net: netw, Port: own.Port()}},
			})
		}
		sp.srv = srv
		sp.grp = agdGroups[d.group]
		sp.grp.Servers = append(sp.grp.Servers, srv)
		specs = append(specs, sp)
	}
	return groups, specs, order
}

// buildWorld constructs devices, profiles, the profile database of the given
// kind ("mapdb" or "real") and the full stack.  round selects another set of
// seed-derived device identifiers and passwords.
func buildWorld(r *vkit.Run, dbKind string, round int, tweak ...func(*stack.Options)) (*world, error) {
	rnd := r.Rand("world-"+dbKind, round)
	w := &world{DBKind: dbKind, byName: map[string]*srvSpec{}, Profs: map[agd.ProfileID]*profSpec{},
		byID: map[agd.DeviceID]*devSpec{}, byLinked: map[netip.Addr]*devSpec{}, byDed: map[netip.Addr]*devSpec{},
		byHuman: map[string]*devSpec{}}
	var agdGroups []*agd.ServerGroup
	w.Groups, w.Servers, agdGroups = buildServers()
	for _, s := range w.Servers {
		w.byName[s.Group+"/"+s.Name] = s
	}

	// Profiles.
	profs := map[agd.ProfileID]*agd.Profile{}
	addProf := func(id agd.ProfileID, deleted, auto bool) {
		profs[id] = newProfile(id, auto)
		w.Profs[id] = &profSpec{ID: id, Deleted: deleted, Auto: auto}
	}
	addProf("plive", false, false)
	addProf("pdel", true, false)
	addProf("pdet", false, false)
	addProf("pauto", false, true)
	addProf("pautodel", true, true)
	addProf("pautodet", false, true)
	addProf("plast", false, false)

	const pwChars = "abcdefghijklmnopqrstuvwxyzABCDEFGHIJKLMNOPQRSTUVWXYZ0123456789:@/ %"
	n := 0
	badHash := ""
	newDev := func(prof agd.ProfileID, kind, state, idPrefix, human string) *devSpec {
		n++
		id := agd.DeviceID(fmt.Sprintf("%s%02x", idPrefix, rnd.IntN(256)))
		for w.byID[id] != nil {
			id = agd.DeviceID(fmt.Sprintf("%s%02x", idPrefix, rnd.IntN(256)))
		}
		d := &devSpec{ID: id, Prof: prof, Kind: kind, State: state, HumanLower: human, BadHash: badHash,
			Linked:    netip.AddrFrom4([4]byte{203, 0, 113, byte(10 + n)}),
			Dedicated: map[string]netip.Addr{}}
		var ded []netip.Addr
		for _, s := range w.Servers {
			if s.Iface {
				a := s.Prefix.Addr().As4()
				a[3] += byte(n)
				d.Dedicated[s.Name] = netip.AddrFrom4(a)
				ded = append(ded, d.Dedicated[s.Name])
			}
		}
		auth := &agd.AuthSettings{Enabled: d.enabled(), DoHAuthOnly: d.dohOnly()}
		if d.hasHash() {
			pw := make([]byte, 6+rnd.IntN(10))
			for i := range pw {
				pw[i] = pwChars[rnd.IntN(len(pwChars))]
			}
			d.Password = string(pw)
			h, err := bcrypt.GenerateFromPassword(pw, bcrypt.MinCost)
			if err != nil {
				panic(err)
			}
			for _, bh := range badHashes {
				if bh.name == badHash {
					h = bh.mk(h)
				}
			}
			auth.PasswordHash = agdpasswd.NewPasswordHashBcrypt(h)
		} else {
			auth.PasswordHash = agdpasswd.AllowAuthenticator{}
		}
		d.dev = &agd.Device{Auth: auth, ID: id, LinkedIP: d.Linked, Name: agd.DeviceName("dev " + string(id)),
			HumanIDLower: agd.HumanIDLower(human), DedicatedIPs: ded, FilteringEnabled: true}
		w.Devs = append(w.Devs, d)
		w.byID[id] = d
		w.byLinked[d.Linked] = d
		for _, a := range ded {
			w.byDed[a] = d
		}
		if human != "" {
			w.byHuman[string(prof)+"/"+human] = d
		}
		return d
	}
	stLetter := map[string]string{stLive: "l", stDeleted: "x", stDetached: "t"}
	stProf := map[string]agd.ProfileID{stLive: "plive", stDeleted: "pdel", stDetached: "pdet"}
	for _, st := range devStates {
		for _, k := range authKinds {
			newDev(stProf[st], k, st, k[:min(len(k), 4)]+stLetter[st], "")
		}
	}
	keeper := newDev("pdet", akOff, stLive, "keep", "")
	// Human-id devices.
	newDev("pauto", akOff, stLive, "hoff", "my-phone")
	newDev("pauto", akDoHOnly, stLive, "hdoh", "kids-tab")
	newDev("pauto", akOn, stLive, "hon", "tv2")
	newDev("pautodel", akOff, stDeleted, "hdel", "old-tv")
	newDev("pautodet", akOn, stDetached, "hdet", "old-pad")
	// The only device of its profile: after the detach the profile has none.
	newDev("plast", akOff, stDetached, "last", "")
	_ = keeper
	// Devices with authentication enabled and an unusable stored hash.
	for _, bh := range badHashes {
		badHash = bh.name
		newDev("plive", "bh-"+bh.name, stLive, bh.idPrefix+"l", "")
	}
	badHash = "empty"
	newDev("plive", "bhd-empty", stLive, "bdel", "")
	badHash = ""
	if n > 100 {
		return nil, fmt.Errorf("too many devices for the dedicated ranges: %d", n)
	}

	// Database.
	switch dbKind {
	case "mapdb":
		db := stack.NewMapDB()
		byProf := map[agd.ProfileID][]*agd.Device{}
		for _, d := range w.Devs {
			if d.State == stDetached {
				continue // not in the database at all
			}
			byProf[d.Prof] = append(byProf[d.Prof], d.dev)
		}
		for id, p := range profs {
			p.Deleted = w.Profs[id].Deleted
			db.Add(p, byProf[id]...)
		}
		w.db = &recDB{inner: db, w: w}
	case "real", "syncrace":
		stg := &scriptStorage{w: w}
		full := &profiledb.StorageProfilesResponse{SyncTime: time.Unix(1_700_000_000, 0)}
		for id, p := range profs {
			fp := cloneProfile(p)
			for _, d := range w.Devs {
				if d.Prof == id {
					fp.DeviceIDs = append(fp.DeviceIDs, d.ID)
					full.Devices = append(full.Devices, d.dev)
				}
			}
			full.Profiles = append(full.Profiles, fp)
		}
		part := &profiledb.StorageProfilesResponse{SyncTime: time.Unix(1_700_000_600, 0)}
		for id, p := range profs {
			ps := w.Profs[id]
			detaches := false
			for _, d := range w.Devs {
				detaches = detaches || (d.Prof == id && d.State == stDetached)
			}
			if !ps.Deleted && !detaches {
				continue
			}
			up := cloneProfile(p)
			up.Deleted = ps.Deleted
			for _, d := range w.Devs {
				if d.Prof == id && d.State != stDetached {
					up.DeviceIDs = append(up.DeviceIDs, d.ID)
					if detaches {
						part.Devices = append(part.Devices, d.dev)
					}
				}
			}
			part.Profiles = append(part.Profiles, up)
		}
		stg.resps = []*profiledb.StorageProfilesResponse{full, part}
		db, err := profiledb.New(&profiledb.Config{
			Logger: stack.Logger(), Storage: stg, ErrColl: &errColl{}, Metrics: profiledb.EmptyMetrics{},
			CacheFilePath: "none", FullSyncIvl: 24 * time.Hour, FullSyncRetryIvl: time.Hour, ResponseSizeEstimate: 1024,
		})
		if err != nil {
			return nil, err
		}
		syncs := 2
		if dbKind == "syncrace" {
			// The partial sync is delivered later, while automatic-device
			// creations are in flight (see syncDuringCreate).
			syncs = 1
			w.realDB, w.storage = db, stg
		}
		for i := 0; i < syncs; i++ {
			if err = db.Refresh(context.Background()); err != nil {
				return nil, fmt.Errorf("refresh %d: %w", i, err)
			}
		}
		if stg.calls != syncs {
			return nil, fmt.Errorf("storage was asked %d times, want %d", stg.calls, syncs)
		}
		w.db = &recDB{inner: db, w: w}
	case "backend":
		db, err := newBackendDB(w, profs)
		if err != nil {
			return nil, err
		}
		w.db = &recDB{inner: db, w: w}
	case "restored":
		// The final database contents go through a real file-cache round
		// trip: a first profiledb.Default stores them after its full sync, a
		// second one (whose storage is never asked) loads them on start-up, as
		// after a restart of the service.
		dir := os.Getenv("VERIF_SCRATCH")
		if dir == "" {
			dir = os.TempDir()
		}
		cachePath := filepath.Join(dir, fmt.Sprintf("c03-profiles-%d-%d.pb", os.Getpid(), round))
		defer os.Remove(cachePath)
		full := &profiledb.StorageProfilesResponse{SyncTime: time.Unix(1_700_000_000, 0)}
		for id, p := range profs {
			fp := cloneProfile(p)
			fp.Deleted = w.Profs[id].Deleted
			for _, d := range w.Devs {
				if d.Prof != id {
					continue
				}
				// A detached device's record is still delivered, but no profile
				// lists it.
				full.Devices = append(full.Devices, d.dev)
				if d.State != stDetached {
					fp.DeviceIDs = append(fp.DeviceIDs, d.ID)
				}
			}
			full.Profiles = append(full.Profiles, fp)
		}
		conf := func(stg profiledb.Storage) *profiledb.Config {
			return &profiledb.Config{
				Logger: stack.Logger(), Storage: stg, ErrColl: &errColl{}, Metrics: profiledb.EmptyMetrics{},
				CacheFilePath: cachePath, FullSyncIvl: 24 * time.Hour, FullSyncRetryIvl: time.Hour, ResponseSizeEstimate: 1024,
			}
		}
		first, err := profiledb.New(conf(&scriptStorage{w: w, resps: []*profiledb.StorageProfilesResponse{full}}))
		if err != nil {
			return nil, err
		}
		if err = first.Refresh(context.Background()); err != nil {
			return nil, fmt.Errorf("refresh before the restart: %w", err)
		}
		if fi, serr := os.Stat(cachePath); serr != nil || fi.Size() == 0 {
			return nil, fmt.Errorf("no cache file was written: %v", serr)
		}
		stg2 := &scriptStorage{w: w}
		second, err := profiledb.New(conf(stg2))
		if err != nil {
			return nil, err
		}
		if stg2.calls != 0 {
			return nil, fmt.Errorf("the restored database asked the storage")
		}
		w.db = &recDB{inner: second, w: w}
	default:
		return nil, fmt.Errorf("db kind %q", dbKind)
	}

	fg := &agd.FilteringGroup{ID: "fg", FilterConfig: &filter.ConfigGroup{Parental: &filter.ConfigParental{},
		RuleList: &filter.ConfigRuleList{}, SafeBrowsing: &filter.ConfigSafeBrowsing{}}}
	so := &stack.Options{ProfileDB: w.db, ServerGroups: agdGroups,
		FilteringGroups: map[agd.FilteringGroupID]*agd.FilteringGroup{"fg": fg}}
	for _, f := range tweak {
		f(so)
	}
	st, err := stack.New(so)
	if err != nil {
		return nil, err
	}
	w.st = st
	return w, nil
}

// ---- recording profile database wrapper ----

// recDB delegates to the database under it, counts the calls by kind and
// registers automatically created devices with the model.
type recDB struct {
	inner profiledb.Interface
	w     *world

	mu    sync.Mutex
	calls map[string]int
	// onHuman, if set, is called at the start of every ProfileByHumanID with
	// copies of the arguments and may block.
	onHuman func(prof, humanLower string)
}

func (db *recDB) count(k string) {
	db.mu.Lock()
	if db.calls == nil {
		db.calls = map[string]int{}
	}
	db.calls[k]++
	db.mu.Unlock()
}

func (db *recDB) snapshot() map[string]int {
	db.mu.Lock()
	defer db.mu.Unlock()
	m := map[string]int{}
	for k, v := range db.calls {
		m[k] = v
	}
	return m
}

func (db *recDB) CreateAutoDevice(ctx context.Context, id agd.ProfileID, h agd.HumanID, t agd.DeviceType) (*agd.Profile, *agd.Device, error) {
	db.count("create-auto")
	p, d, err := db.inner.CreateAutoDevice(ctx, id, h, t)
	if err == nil && d != nil {
		db.count("create-auto-ok")
		w := db.w
		w.mu.Lock()
		if w.byID[d.ID] == nil {
			// Copies: the strings the code under test hands out are not trusted
			// to stay what they are.
			ds := &devSpec{ID: agd.DeviceID(strings.Clone(string(d.ID))), Prof: id, Kind: akOff, State: stLive,
				HumanLower: strings.Clone(string(d.HumanIDLower)), Auto: true, dev: d}
			if ps := w.Profs[id]; ps != nil && ps.Deleted {
				ds.State = stDeleted
			}
			w.byID[d.ID] = ds
			// The human-id index of the model is NOT updated: whether a later
			// request with the same human id finds this device or creates it
			// again is the database's business; both are entitled.
		}
		w.mu.Unlock()
	}
	return p, d, err
}

func (db *recDB) ProfileByDedicatedIP(ctx context.Context, ip netip.Addr) (*agd.Profile, *agd.Device, error) {
	db.count("dedicated-ip")
	return db.inner.ProfileByDedicatedIP(ctx, ip)
}

func (db *recDB) ProfileByDeviceID(ctx context.Context, id agd.DeviceID) (*agd.Profile, *agd.Device, error) {
	db.count("device-id")
	return db.inner.ProfileByDeviceID(ctx, id)
}

func (db *recDB) ProfileByHumanID(ctx context.Context, id agd.ProfileID, h agd.HumanIDLower) (*agd.Profile, *agd.Device, error) {
	db.count("human-id")
	db.mu.Lock()
	hook := db.onHuman
	db.mu.Unlock()
	if hook != nil {
		// A slow database; no lock is held meanwhile.
		hook(string(id), strings.Clone(string(h)))
	}
	return db.inner.ProfileByHumanID(ctx, id, h)
}

func (db *recDB) ProfileByLinkedIP(ctx context.Context, ip netip.Addr) (*agd.Profile, *agd.Device, error) {
	db.count("linked-ip")
	return db.inner.ProfileByLinkedIP(ctx, ip)
}

// ---- scripted storage for the real profile database ----

type scriptStorage struct {
	w *world

	mu    sync.Mutex
	resps []*profiledb.StorageProfilesResponse
	calls int
	auto  map[string]*agd.Device
	// onCreate, if set, is called at the start of every CreateAutoDevice and
	// may block.
	onCreate func(req *profiledb.StorageCreateAutoDeviceRequest)
}

func (s *scriptStorage) Profiles(_ context.Context, _ *profiledb.StorageProfilesRequest) (*profiledb.StorageProfilesResponse, error) {
	s.mu.Lock()
	defer s.mu.Unlock()
	if s.calls >= len(s.resps) {
		return nil, fmt.Errorf("unexpected sync %d", s.calls)
	}
	r := s.resps[s.calls]
	s.calls++
	return r, nil
}

func (s *scriptStorage) CreateAutoDevice(_ context.Context, req *profiledb.StorageCreateAutoDeviceRequest) (*profiledb.StorageCreateAutoDeviceResponse, error) {
	s.mu.Lock()
	hook := s.onCreate
	s.mu.Unlock()
	if hook != nil {
		// A slow backend call; no lock of the storage is held meanwhile.
		hook(req)
	}
	s.mu.Lock()
	defer s.mu.Unlock()
	if s.auto == nil {
		s.auto = map[string]*agd.Device{}
	}
	human := strings.Clone(string(req.HumanID))
	k := string(req.ProfileID) + "/" + strings.ToLower(human)
	d := s.auto[k]
	if d == nil {
		d = &agd.Device{Auth: &agd.AuthSettings{PasswordHash: agdpasswd.AllowAuthenticator{}},
			ID: agd.DeviceID(fmt.Sprintf("au%04d", len(s.auto))), HumanIDLower: agd.HumanIDLower(strings.Clone(strings.ToLower(human))),
			Name: agd.DeviceName(human), FilteringEnabled: true}
		s.auto[k] = d
	}
	return &profiledb.StorageCreateAutoDeviceResponse{Device: d}, nil
}

type errColl struct {
	mu   sync.Mutex
	errs []string
}

func (e *errColl) Collect(_ context.Context, err error) {
	e.mu.Lock()
	e.errs = append(e.errs, err.Error())
	e.mu.Unlock()
}

// ---- message helpers ----

const cpeIDOption = 65074

type ednsOpt struct {
	Code uint16 `json:"code"`
	Data string `json:"data"`
}

// newMsg builds the query and passes it through the wire format, so that the
// stack sees what a server would have parsed.
func newMsg(id uint16, name string, opts []ednsOpt) (*dns.Msg, error) {
	m := stack.NewQuery(id, name, dns.TypeA, dns.ClassINET)
	if len(opts) > 0 {
		m.SetEdns0(1232, false)
		o := m.IsEdns0()
		for _, e := range opts {
			o.Option = append(o.Option, &dns.EDNS0_LOCAL{Code: e.Code, Data: []byte(e.Data)})
		}
	}
	b, err := m.Pack()
	if err != nil {
		return nil, err
	}
	out := &dns.Msg{}
	if err = out.Unpack(b); err != nil {
		return nil, err
	}
	return out, nil
}
