package c03

import (
	"fmt"
	"math/rand/v2"
	"net/netip"
	"strings"

	"github.com/AdguardTeam/AdGuardDNS/internal/agd"
	"github.com/AdguardTeam/AdGuardDNS/verif/vkit"
)

// gen produces the fixed, seed-determined case list for one world.
type gen struct {
	r     *vkit.Run
	w     *world
	round int
	idx   int
	// only, if set, restricts the per-device products to some devices and
	// switches the seeded cross cases off.
	only func(d *devSpec) bool
	emit func(*reqSpec)
}

func (g *gen) base(s *srvSpec, d *devSpec, name string) *reqSpec {
	g.idx++
	rq := &reqSpec{Idx: g.idx, Gen: name, Group: s.Group, Server: s.Name,
		Remote: netip.AddrPortFrom(neutralRemote, uint16(20000+g.idx%30000)).String(), Local: s.Own.String()}
	if d != nil {
		rq.Dev = string(d.ID)
	}
	return rq
}

func (g *gen) linkedRemote(rq *reqSpec, d *devSpec) {
	rq.Remote = netip.AddrPortFrom(d.Linked, uint16(20000+rq.Idx%30000)).String()
}

func mixCase(rnd *rand.Rand, s string) string {
	b := []byte(s)
	changed := false
	for i, c := range b {
		if c >= 'a' && c <= 'z' && rnd.IntN(2) == 0 {
			b[i] = c - 'a' + 'A'
			changed = true
		}
	}
	if !changed {
		return strings.ToUpper(s)
	}
	return string(b)
}

const unknownID = "nosuch1"

// ednsVariants returns named EDNS option lists aiming at device d.
func ednsVariants(d *devSpec) (names []string, opts [][]ednsOpt) {
	id := string(d.ID)
	add := func(n string, o []ednsOpt) { names = append(names, n); opts = append(opts, o) }
	add("none", nil)
	add("id", []ednsOpt{{cpeIDOption, id}})
	add("upper", []ednsOpt{{cpeIDOption, strings.ToUpper(id)}})
	add("unknown", []ednsOpt{{cpeIDOption, unknownID}})
	add("othercode", []ednsOpt{{cpeIDOption - 1, id}})
	add("toolong", []ednsOpt{{cpeIDOption, id + "toolong"}})
	add("second", []ednsOpt{{65001, "x"}, {cpeIDOption, id}})
	add("unknown+id", []ednsOpt{{cpeIDOption, unknownID}, {cpeIDOption, id}})
	return names, opts
}

func extID(d *devSpec, typ string) string {
	return typ + "-" + string(d.Prof) + "-" + d.HumanLower
}

// sniVariants returns named TLS server names aiming at device d.
func sniVariants(rnd *rand.Rand, d *devSpec) (names, snis []string) {
	id := string(d.ID)
	add := func(n, s string) { names = append(names, n); snis = append(snis, s) }
	add("none", "")
	add("exact", id+"."+domMain)
	add("upper", strings.ToUpper(id+"."+domMain))
	add("mixed", mixCase(rnd, id+"."+domMain))
	add("alt", id+"."+domAlt)
	add("nested", "x."+id+"."+domMain)
	add("nested-under", id+".x."+domMain)
	add("foreign", id+".foreign.example")
	add("evil-suffix", id+"."+domMain+".evil.example")
	add("bare-domain", domMain)
	add("unknown", unknownID+"."+domMain)
	add("toolong", id+"toolong."+domMain)
	// Near misses: names that merely END with the characters of a device
	// domain, or lie next to it; all are syntactically valid host names and
	// none is a child of a device domain.
	for _, dom := range []string{domMain, domAlt} {
		for _, b := range []string{"x", "Z", "0", "9", "-"} {
			add("near-byte-"+b+"-"+dom, id+b+dom)
		}
		add("near-byte-upper-"+dom, strings.ToUpper(id+"0"+dom))
		add("near-byte-mixed-"+dom, id+"q"+mixCase(rnd, dom))
		add("near-glued-"+dom, id+dom)
		add("near-glued-upper-"+dom, strings.ToUpper(id+dom))
		add("near-label-prefixed-"+dom, id+".x"+dom)
		add("near-label-prefixed-upper-"+dom, strings.ToUpper(id)+".X"+strings.ToUpper(dom))
		_, parent, _ := strings.Cut(dom, ".")
		add("near-parent-"+dom, id+"."+parent)
		add("near-parent-upper-"+dom, id+"."+strings.ToUpper(parent))
	}
	if d.HumanLower != "" {
		add("ext", extID(d, "otr")+"."+domMain)
		add("ext-upper", strings.ToUpper(extID(d, "adr"))+"."+strings.ToUpper(domAlt))
		add("ext-nested", "x."+extID(d, "otr")+"."+domMain)
	}
	return names, snis
}

type cred struct {
	name    string
	has     bool
	user    string
	passSet bool
	pass    string
}

// credVariants returns the credential variants aiming at device d; other is a
// live device with a bcrypt hash whose valid credentials are used for the
// cross cases.
func credVariants(d, other *devSpec) []cred {
	id := string(d.ID)
	right, wrong := d.Password, d.Password+"x"
	if !d.hasHash() {
		right, wrong = "anything", "wrong"
	}
	return []cred{
		{name: "none"},
		{name: "unset", has: true, user: id},
		{name: "empty", has: true, user: id, passSet: true},
		{name: "wrong", has: true, user: id, passSet: true, pass: wrong},
		{name: "right", has: true, user: id, passSet: true, pass: right},
		{name: "otherpw", has: true, user: id, passSet: true, pass: other.Password},
		{name: "upperuser", has: true, user: strings.ToUpper(id), passSet: true, pass: right},
		{name: "othercreds", has: true, user: string(other.ID), passSet: true, pass: other.Password},
		{name: "unknownuser", has: true, user: unknownID, passSet: true, pass: right},
		{name: "toolonguser", has: true, user: id + "toolong", passSet: true, pass: right},
	}
}

func (c cred) apply(rq *reqSpec) {
	rq.HasUser, rq.User, rq.PassSet, rq.Pass = c.has, c.user, c.passSet, c.pass
}

func pathVariants(d, other *devSpec) (names, paths []string) {
	id := string(d.ID)
	add := func(n, p string) { names = append(names, n); paths = append(paths, p) }
	add("base", "/dns-query")
	add("id", "/dns-query/"+id)
	add("upper", "/dns-query/"+strings.ToUpper(id))
	add("slash", "/dns-query/"+id+"/")
	add("json", "/resolve/"+id)
	add("extra-elem", "/dns-query/x/"+id)
	add("other", "/dns-query/"+string(other.ID))
	add("unknown", "/dns-query/"+unknownID)
	if d.HumanLower != "" {
		add("ext", "/dns-query/"+extID(d, "lnx"))
		add("ext-upper", "/dns-query/"+strings.ToUpper(extID(d, "mac")))
	}
	return names, paths
}

func (g *gen) firstDev(kind, state string) *devSpec {
	for _, d := range g.w.Devs {
		if d.Kind == kind && d.State == state && d.HumanLower == "" {
			return d
		}
	}
	panic("no device " + kind + "/" + state)
}

// plain generates the plain-DNS and DNSCrypt cases.
func (g *gen) plain() {
	w := g.w
	for _, s := range w.Servers {
		if s.Proto != agd.ProtoDNS && s.Proto != agd.ProtoDNSCrypt {
			continue
		}
		for _, d := range w.Devs {
			if g.only != nil && !g.only(d) {
				continue
			}
			if d.BadHash != "" && d.BadHash != "empty" {
				continue // differs from the other kinds only in how DoH passwords are judged
			}
			enames, eopts := ednsVariants(d)
			for ei := range enames {
				if s.Proto == agd.ProtoDNSCrypt && ei > 1 {
					continue
				}
				for _, linked := range []bool{false, true} {
					locals := []string{"own"}
					if s.Iface {
						locals = append(locals, "dedicated", "unknown-dedicated")
					}
					for _, l := range locals {
						rq := g.base(s, d, fmt.Sprintf("plain/edns=%s/linked=%v/local=%s", enames[ei], linked, l))
						rq.EDNS = eopts[ei]
						if linked {
							g.linkedRemote(rq, d)
						}
						switch l {
						case "dedicated":
							rq.Local = netip.AddrPortFrom(d.Dedicated[s.Name], s.Own.Port()).String()
						case "unknown-dedicated":
							rq.Local = netip.AddrPortFrom(s.unknownDedicated(), s.Own.Port()).String()
						}
						g.emit(rq)
					}
				}
			}
		}
	}
	// Cross cases: identifiers of different devices through different channels.
	n := g.r.N(400, 6000)
	if g.only != nil {
		n = 0
	}
	var plains []*srvSpec
	for _, s := range w.Servers {
		if s.Proto == agd.ProtoDNS && s.Group == "gp" {
			plains = append(plains, s)
		}
	}
	for i := 0; i < n; i++ {
		rnd := g.r.Rand(fmt.Sprintf("cross-plain-%s-%d", w.DBKind, g.round), i)
		s := plains[rnd.IntN(len(plains))]
		x, y, z := w.Devs[rnd.IntN(len(w.Devs))], w.Devs[rnd.IntN(len(w.Devs))], w.Devs[rnd.IntN(len(w.Devs))]
		rq := g.base(s, x, "plain/cross")
		if rnd.IntN(3) > 0 {
			rq.EDNS = []ednsOpt{{cpeIDOption, string(x.ID)}}
		}
		if rnd.IntN(3) > 0 {
			g.linkedRemote(rq, y)
		}
		if s.Iface && rnd.IntN(3) > 0 {
			rq.Local = netip.AddrPortFrom(z.Dedicated[s.Name], s.Own.Port()).String()
		}
		g.emit(rq)
	}
}

// tls generates the DoT and DoQ cases.
func (g *gen) tls() {
	w := g.w
	for _, s := range w.Servers {
		if s.Proto != agd.ProtoDoT && s.Proto != agd.ProtoDoQ {
			continue
		}
		for di, d := range w.Devs {
			if g.only != nil && !g.only(d) {
				continue
			}
			if d.BadHash != "" && d.BadHash != "empty" {
				continue // differs from the other kinds only in how DoH passwords are judged
			}
			rnd := g.r.Rand(fmt.Sprintf("sni-%s-%s%s-%d", w.DBKind, s.Group, s.Name, g.round), di)
			names, snis := sniVariants(rnd, d)
			for si := range names {
				for _, edns := range []bool{false, true} {
					for _, linked := range []bool{false, true} {
						if s.Group != "gp" && (edns || linked) && si > 1 {
							continue
						}
						locals := []string{"own"}
						if s.Iface {
							locals = append(locals, "dedicated")
						}
						for _, l := range locals {
							rq := g.base(s, d, fmt.Sprintf("tls/sni=%s/edns=%v/linked=%v/local=%s", names[si], edns, linked, l))
							rq.SNI = snis[si]
							if edns {
								rq.EDNS = []ednsOpt{{cpeIDOption, string(d.ID)}}
							}
							if linked {
								g.linkedRemote(rq, d)
							}
							if l == "dedicated" {
								rq.Local = netip.AddrPortFrom(d.Dedicated[s.Name], s.Own.Port()).String()
							}
							g.emit(rq)
						}
					}
				}
			}
		}
	}
}

// doh generates the DoH cases.
func (g *gen) doh() {
	w := g.w
	other := g.firstDev(akOn, stLive)
	other2 := g.firstDev(akOff, stLive)
	for _, s := range w.Servers {
		if s.Proto != agd.ProtoDoH {
			continue
		}
		for _, d := range w.Devs {
			if g.only != nil && !g.only(d) {
				continue
			}
			o := other
			if d == other {
				o = g.firstDev(akDoHOnly, stLive)
			}
			po := other2
			if d == other2 {
				po = other
			}
			pnames, paths := pathVariants(d, po)
			creds := credVariants(d, o)
			snames := []string{"none", "exact", "nested", "foreign", "near-byte", "near-byte-upper", "near-label-prefixed", "near-parent"}
			_, parent, _ := strings.Cut(domMain, ".")
			snis := []string{"", string(d.ID) + "." + domMain, "x." + string(d.ID) + "." + domMain, string(d.ID) + ".foreign.example",
				string(d.ID) + "x" + domMain, strings.ToUpper(string(d.ID) + "-" + domAlt), string(d.ID) + ".x" + domMain, string(d.ID) + "." + parent}
			k := 0
			for pi := range pnames {
				for _, c := range creds {
					for si := range snames {
						k++
						full := s.Group == "gp"
						if !full {
							// Reduced product for the other groups.
							if pi > 1 || si > 1 || !(c.name == "none" || c.name == "right" || c.name == "wrong" || c.name == "unset") {
								continue
							}
						}
						rq := g.base(s, d, fmt.Sprintf("doh/path=%s/cred=%s/sni=%s", pnames[pi], c.name, snames[si]))
						rq.Path, rq.SNI = paths[pi], snis[si]
						c.apply(rq)
						g.emit(rq)
						if k%4 == 0 || !full {
							rq2 := g.base(s, d, rq.Gen+"/linked")
							rq2.Path, rq2.SNI = paths[pi], snis[si]
							c.apply(rq2)
							g.linkedRemote(rq2, d)
							if k%8 == 0 {
								rq2.EDNS = []ednsOpt{{cpeIDOption, string(d.ID)}}
							}
							g.emit(rq2)
						}
					}
				}
			}
		}
	}
	// Cross cases: path, user and server name of different devices.
	n := g.r.N(600, 8000)
	if g.only != nil {
		n = 0
	}
	s := w.server("gp", "doh")
	for i := 0; i < n; i++ {
		rnd := g.r.Rand(fmt.Sprintf("cross-doh-%s-%d", w.DBKind, g.round), i)
		x, y, z := w.Devs[rnd.IntN(len(w.Devs))], w.Devs[rnd.IntN(len(w.Devs))], w.Devs[rnd.IntN(len(w.Devs))]
		rq := g.base(s, x, "doh/cross")
		rq.Path = "/dns-query"
		if rnd.IntN(3) > 0 {
			rq.Path += "/" + string(x.ID)
		}
		if rnd.IntN(3) > 0 {
			rq.SNI = string(z.ID) + "." + domMain
		}
		if rnd.IntN(4) > 0 {
			rq.HasUser, rq.User = true, string(y.ID)
			switch rnd.IntN(5) {
			case 0:
			case 1:
				rq.PassSet = true
			case 2:
				rq.PassSet, rq.Pass = true, x.Password
			case 3:
				rq.PassSet, rq.Pass = true, y.Password
			default:
				rq.PassSet, rq.Pass = true, z.Password+"!"
			}
		}
		g.emit(rq)
	}
}

// human generates the automatic-device cases: extended human-readable
// identifiers of devices that do not exist yet.
func (g *gen) human() {
	w := g.w
	type ch struct {
		group, server, channel string
	}
	chans := []ch{{"gp", "doh", "path"}, {"gp", "doh", "sni"}, {"gp", "dot", "sni"}, {"gp", "doq", "sni"}, {"gnd", "doh", "path"},
		{"gnd", "dot", "sni"}, {"gnp", "doh", "path"}, {"gp", "dns", "edns"}, {"gp", "doh", "user"}, {"gp", "dnscrypt", "edns"}}
	profs := []string{"pauto", "pautodel", "plive", "nosuchp", "PAUTO"}
	for _, c := range chans {
		s := w.server(c.group, c.server)
		for _, p := range profs {
			for rep := 0; rep < 6; rep++ {
				// rep 0 and 1 use the same new human id (created, then found or
				// created again); rep 2 a case variant of it; rep 3..5 ids that
				// need normalisation (characters not allowed in a label).
				human := fmt.Sprintf("nd-%s-%s-%s", c.server, c.channel, strings.ToLower(p))
				switch rep {
				case 2:
					human = strings.ToUpper(human)
				case 3:
					human = fmt.Sprintf("nc%s_%s!%s", c.server, c.channel, strings.ToLower(p))
				case 4:
					human = fmt.Sprintf("_Nx%s \u00e9~%s__%s.", c.server, c.channel, strings.ToLower(p))
				case 5:
					human = fmt.Sprintf("nc%s_%s!%s", c.server, c.channel, strings.ToLower(p)) // the same as rep 3 again
				}
				ext := "lnx-" + p + "-" + human
				rq := g.base(s, nil, fmt.Sprintf("human/%s/%s/prof=%s/rep=%d", c.server, c.channel, p, rep))
				switch c.channel {
				case "path":
					rq.Path = "/dns-query/" + ext
				case "sni":
					rq.SNI = ext + "." + domMain
				case "edns":
					rq.EDNS = []ednsOpt{{cpeIDOption, ext}}
				case "user":
					rq.Path = "/dns-query"
					rq.HasUser, rq.User, rq.PassSet, rq.Pass = true, ext, true, "pw"
				}
				g.emit(rq)
			}
		}
	}
}

// humanCross presents the human id of an existing device under ANOTHER
// profile's id: it must never lead to that device.
func (g *gen) humanCross() {
	w := g.w
	for _, d := range append([]*devSpec(nil), w.Devs...) {
		if d.HumanLower == "" {
			continue
		}
		for _, p := range []string{"plive", "pdel", "pdet", "pauto", "pautodel", "nosuchp"} {
			if p == string(d.Prof) {
				continue
			}
			ext := "otr-" + p + "-" + d.HumanLower
			for _, c := range []struct{ server, channel string }{{"doh", "path"}, {"dot", "sni"}, {"doq", "sni"}} {
				s := w.server("gp", c.server)
				rq := g.base(s, d, fmt.Sprintf("human-cross/%s/%s/prof=%s", c.server, c.channel, p))
				if c.channel == "path" {
					rq.Path = "/dns-query/" + ext
				} else {
					rq.SNI = strings.ToUpper(ext[:5]) + ext[5:] + "." + domAlt
				}
				g.emit(rq)
			}
		}
	}
}

func (g *gen) all() {
	g.plain()
	g.tls()
	g.doh()
	g.human()
	g.humanCross()
}
