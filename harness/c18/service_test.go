package c18

// Configuration-level monitor: the real dnssvc.Service with Config.ConnLimiter
// set, server groups whose servers use (a) plain bind addresses and (b) bind
// data that carries its own ListenConfig (as the bindtodevice manager produces
// for bind_interfaces).  Real TCP / TLS client connections; a connection is
// "served" when its query has been answered, "open" until the client closes
// it.  Ground truth on the client side:
//
//	servedOpen = #connections answered and not yet closed by the client
//
// A served connection has certainly been accepted and the limiter releases a
// slot only after the client's close, so servedOpen <= (the limiter's count)
// at every instant.  Hence, for a correct service,
//
//   - servedOpen <= stop always;
//   - once servedOpen == stop (then the count is stop and nothing is pending),
//     no further connection is served on ANY stream listener of ANY server
//     until servedOpen has fallen to resume;
//   - after servedOpen has fallen to resume some waiting connection is served.
//
// The first two are decided by positive observations only (an answer that must
// not exist); waiting longer can only make the check more sensitive.

import (
	"context"
	"crypto/tls"
	"encoding/binary"
	"fmt"
	"io"
	"net"
	"net/http"
	"net/netip"
	"sync"
	"time"

	"github.com/AdguardTeam/AdGuardDNS/internal/agd"
	"github.com/AdguardTeam/AdGuardDNS/internal/agdtest"
	"github.com/AdguardTeam/AdGuardDNS/internal/connlimiter"
	"github.com/AdguardTeam/AdGuardDNS/internal/dnsserver"
	"github.com/AdguardTeam/AdGuardDNS/internal/dnsserver/netext"
	"github.com/AdguardTeam/AdGuardDNS/internal/dnssvc"
	"github.com/AdguardTeam/AdGuardDNS/internal/metrics"
	"github.com/AdguardTeam/AdGuardDNS/verif/vkit"
	"github.com/miekg/dns"
	dto "github.com/prometheus/client_model/go"
)

const (
	flavAddr = "bind-address"
	flavLC   = "bind-data-listenconfig"
)

type slistener struct {
	Idx     int    `json:"listener"`
	Server  string `json:"server"`
	Group   string `json:"group"`
	Proto   string `json:"proto"`
	Flavour string `json:"flavour"`
	Addr    string `json:"addr"`

	srv dnssvc.Listener
	tls bool

	// labels of the limiter's gauge for this listener
	confName, confAddr string
}

type sev struct {
	I        int    `json:"i"`
	K        string `json:"k"` // dial | served | close | remote-close | fail
	Conn     int    `json:"conn"`
	Listener int    `json:"listener"`
	Open     int    `json:"served_open"`
	Note     string `json:"note,omitempty"`
}

type sconn struct {
	id  int
	l   *slistener
	raw net.Conn

	// guarded by svcMon.mu
	served bool
	closed bool
	failed bool
}

type sviol struct {
	key, what string
	conn      *sconn
	at        int
}

type svcMon struct {
	mu         sync.Mutex
	stop       int
	resume     int
	log        []sev
	conns      []*sconn
	servedOpen int
	stopped    bool
	stoppedAt  int
	viols      []sviol
	tlsConf    *tls.Config
}

func (m *svcMon) add(k string, c *sconn, note string) int {
	i := len(m.log)
	m.log = append(m.log, sev{I: i, K: k, Conn: c.id, Listener: c.l.Idx, Open: m.servedOpen, Note: note})
	return i
}

func (m *svcMon) dial(l *slistener) (*sconn, error) {
	raw, err := net.DialTimeout("tcp", l.Addr, 20*time.Second)
	if err != nil {
		return nil, err
	}
	m.mu.Lock()
	c := &sconn{id: len(m.conns) + 1, l: l, raw: raw}
	m.conns = append(m.conns, c)
	m.add("dial", c, "")
	m.mu.Unlock()
	go m.run(c)
	return c, nil
}

func (m *svcMon) run(c *sconn) {
	var conn net.Conn = c.raw
	if c.l.tls {
		tc := tls.Client(c.raw, m.tlsConf)
		if err := tc.Handshake(); err != nil {
			m.fail(c, "handshake: "+err.Error())
			return
		}
		conn = tc
	}
	q := new(dns.Msg)
	q.SetQuestion(fmt.Sprintf("c%d.l%d.c18svc.example.", c.id, c.l.Idx), dns.TypeTXT)
	q.Id = uint16(c.id)
	b, _ := q.Pack()
	buf := make([]byte, 2+len(b))
	binary.BigEndian.PutUint16(buf, uint16(len(b)))
	copy(buf[2:], b)
	if _, err := conn.Write(buf); err != nil {
		m.fail(c, "write: "+err.Error())
		return
	}
	var l [2]byte
	if _, err := io.ReadFull(conn, l[:]); err != nil {
		m.fail(c, "read: "+err.Error())
		return
	}
	body := make([]byte, binary.BigEndian.Uint16(l[:]))
	if _, err := io.ReadFull(conn, body); err != nil {
		m.fail(c, "read: "+err.Error())
		return
	}
	resp := new(dns.Msg)
	if err := resp.Unpack(body); err != nil || resp.Id != q.Id || !resp.Response {
		m.fail(c, "bad answer")
		return
	}
	m.servedEv(c)
	// notice the server closing the connection on its own
	var one [1]byte
	_, _ = conn.Read(one[:])
	m.mu.Lock()
	if !c.closed {
		c.closed = true
		if c.served {
			m.servedOpen--
		}
		m.add("remote-close", c, "")
		m.afterClose()
	}
	m.mu.Unlock()
}

func (m *svcMon) fail(c *sconn, note string) {
	m.mu.Lock()
	if !c.closed {
		c.failed = true
		m.add("fail", c, note)
	}
	m.mu.Unlock()
}

func (m *svcMon) servedEv(c *sconn) {
	m.mu.Lock()
	defer m.mu.Unlock()
	if c.closed {
		return
	}
	c.served = true
	wasStopped, since := m.stopped, m.stoppedAt
	m.servedOpen++
	i := m.add("served", c, "")
	if wasStopped {
		m.viols = append(m.viols, sviol{
			key: "service:connection-served-while-stopped:" + c.l.Flavour,
			what: fmt.Sprintf("stop=%d resume=%d: %d answered connections were open (log index %d), none has been closed down to the resume threshold since, "+
				"yet a further connection to the %s listener of server %s (%s) was accepted and answered",
				m.stop, m.resume, m.stop, since, c.l.Proto, c.l.Server, c.l.Flavour),
			conn: c, at: i,
		})
	}
	if m.servedOpen > m.stop {
		m.viols = append(m.viols, sviol{
			key: "service:served-connections-exceed-stop:" + c.l.Flavour,
			what: fmt.Sprintf("stop=%d: %d answered connections are open at the same time across the listeners; the last one was accepted by the %s listener of server %s (%s)",
				m.stop, m.servedOpen, c.l.Proto, c.l.Server, c.l.Flavour),
			conn: c, at: i,
		})
	}
	if m.servedOpen >= m.stop && !m.stopped {
		m.stopped = true
		m.stoppedAt = i
	}
}

// afterClose is called with mu held.
func (m *svcMon) afterClose() {
	if m.stopped && m.servedOpen <= m.resume && m.servedOpen < m.stop {
		m.stopped = false
	}
}

// closeConn records the close first and closes the socket afterwards, so the
// ground truth never runs ahead of the server.
func (m *svcMon) closeConn(c *sconn) {
	m.mu.Lock()
	if !c.closed {
		c.closed = true
		if c.served {
			m.servedOpen--
		}
		m.add("close", c, "")
		m.afterClose()
	}
	m.mu.Unlock()
	_ = c.raw.Close()
}

func (m *svcMon) snapshot() (servedOpen, servedTotal int, stopped bool) {
	m.mu.Lock()
	defer m.mu.Unlock()
	for _, c := range m.conns {
		if c.served {
			servedTotal++
		}
	}
	return m.servedOpen, servedTotal, m.stopped
}

func (m *svcMon) isServed(c *sconn) bool {
	m.mu.Lock()
	defer m.mu.Unlock()
	return c.served
}

// waitServed polls until c is served or the budget is spent.
func (m *svcMon) waitServed(c *sconn, budget time.Duration) bool {
	dl := time.Now().Add(budget)
	for {
		if m.isServed(c) {
			return true
		}
		if time.Now().After(dl) {
			return false
		}
		time.Sleep(500 * time.Microsecond)
	}
}

type echoHandler struct{}

func (echoHandler) ServeDNS(ctx context.Context, rw dnsserver.ResponseWriter, req *dns.Msg) error {
	resp := new(dns.Msg).SetReply(req)
	return rw.WriteMsg(ctx, req, resp)
}

type nopErrColl struct{}

func (nopErrColl) Collect(context.Context, error) {}

var svcSerial int

// svcSkipHandshakes is set once the failed-handshake step has reported.
var svcSkipHandshakes bool

// freePort finds a port below the ephemeral range that is free for both UDP
// and TCP on ip (a plain-DNS server binds UDP first and then TCP on the same
// port, so port 0 does not work for it).
func freePort(ip string) (uint16, error) {
	for try := 0; try < 200; try++ {
		svcPortSeq = (svcPortSeq*1103515245 + 12345) & 0x7fffffff
		port := 20000 + int(svcPortSeq>>8)%12000
		addr := net.JoinHostPort(ip, fmt.Sprint(port))
		tl, err := net.Listen("tcp", addr)
		if err != nil {
			continue
		}
		ul, err := net.ListenPacket("udp", addr)
		_ = tl.Close()
		if err != nil {
			continue
		}
		_ = ul.Close()
		return uint16(port), nil
	}
	return 0, fmt.Errorf("no free port found")
}

var svcPortSeq = uint32(time.Now().UnixNano()) & 0x7fffffff

// buildService creates and starts the real DNS service; a start that fails
// because somebody else took a port in the meantime is retried.
func buildService(stop, resume int, tlsConf *tls.Config, o svcOpts) (svc *dnssvc.Service, ls []*slistener, err error) {
	for try := 0; try < 5; try++ {
		svc, ls, err = buildServiceOnce(stop, resume, tlsConf, o)
		if err == nil {
			return svc, ls, nil
		}
		if svc != nil {
			ctx, cancel := context.WithTimeout(context.Background(), 20*time.Second)
			_ = svc.Shutdown(ctx)
			cancel()
			svc = nil
		}
	}
	return nil, nil, err
}

func startService(svc *dnssvc.Service) (err error) {
	defer func() {
		if p := recover(); p != nil {
			err = fmt.Errorf("start panicked: %v", p)
		}
	}()
	return svc.Start(context.Background())
}

// svcOpts selects the shape of the service: "" = the full set of five stream
// listeners; "one-dns", "one-dot", "pair" = reduced sets for the
// pipeline-timeout cases.
type svcOpts struct {
	shape         string
	handleTimeout time.Duration
	pipeline      uint
	handler       dnsserver.Handler
}

func buildServiceOnce(stop, resume int, tlsConf *tls.Config, o svcOpts) (svc *dnssvc.Service, ls []*slistener, err error) {
	if o.handleTimeout == 0 {
		o.handleTimeout = 30 * time.Second
	}
	if o.handler == nil {
		o.handler = echoHandler{}
	}
	lim, err := connlimiter.New(&connlimiter.Config{Logger: discard, Stop: uint64(stop), Resume: uint64(resume)})
	if err != nil {
		return nil, nil, err
	}
	svcSerial++
	mk := func(name string, proto agd.Protocol, bd ...*agd.ServerBindData) *agd.Server {
		s := &agd.Server{
			Name: agd.ServerName(name), Protocol: proto,
			ReadTimeout: 60 * time.Second, WriteTimeout: 60 * time.Second,
			TCPConf:  &agd.TCPConfig{IdleTimeout: time.Hour, MaxPipelineEnabled: o.pipeline > 0, MaxPipelineCount: o.pipeline},
			UDPConf:  &agd.UDPConfig{MaxRespSize: dns.MaxMsgSize},
			QUICConf: &agd.QUICConfig{MaxStreamsPerPeer: 100},
		}
		if proto == agd.ProtoDoT {
			s.TLS = &agd.TLSConfig{Default: tlsConf.Clone()}
		}
		s.SetBindData(bd)
		return s
	}
	ap := func(ip string) netip.AddrPort {
		port, perr := freePort(ip)
		if perr != nil && err == nil {
			err = perr
		}
		return netip.AddrPortFrom(netip.MustParseAddr(ip), port)
	}
	flav := map[string]string{}
	var servers1, servers2 []*agd.Server
	switch o.shape {
	case "one-dns":
		servers1 = []*agd.Server{mk("dns-addr", agd.ProtoDNS, &agd.ServerBindData{AddrPort: ap("127.0.0.1")})}
	case "one-dot":
		servers2 = []*agd.Server{mk("dot-lc", agd.ProtoDoT, &agd.ServerBindData{ListenConfig: netext.DefaultListenConfig(nil), AddrPort: ap("127.0.0.1")})}
	case "pair":
		servers1 = []*agd.Server{mk("dns-lc", agd.ProtoDNS, &agd.ServerBindData{ListenConfig: netext.DefaultListenConfigWithOOB(nil), AddrPort: ap("127.0.0.1")})}
		servers2 = []*agd.Server{mk("dot-addr", agd.ProtoDoT, &agd.ServerBindData{AddrPort: ap("127.0.0.1")})}
	default:
		servers1 = []*agd.Server{
			mk("dns-addr", agd.ProtoDNS, &agd.ServerBindData{AddrPort: ap("127.0.0.1")}),
			mk("dns-lc", agd.ProtoDNS, &agd.ServerBindData{ListenConfig: netext.DefaultListenConfigWithOOB(nil), AddrPort: ap("127.0.0.1")}),
		}
		servers2 = []*agd.Server{
			mk("dot-addr", agd.ProtoDoT, &agd.ServerBindData{AddrPort: ap("127.0.0.1")}),
			mk("dot-lc", agd.ProtoDoT,
				&agd.ServerBindData{ListenConfig: netext.DefaultListenConfig(nil), AddrPort: ap("127.0.0.1")},
				&agd.ServerBindData{ListenConfig: netext.DefaultListenConfig(nil), AddrPort: ap("127.0.0.2")}),
		}
	}
	if err != nil {
		return nil, nil, err
	}
	flav["dns-addr"], flav["dot-addr"] = flavAddr, flavAddr
	flav["dns-lc"], flav["dot-lc"] = flavLC, flavLC
	var groups []*agd.ServerGroup
	if len(servers1) > 0 {
		groups = append(groups, &agd.ServerGroup{Name: "g-plain", Servers: servers1})
	}
	if len(servers2) > 0 {
		groups = append(groups, &agd.ServerGroup{Name: "g-tls", Servers: servers2})
	}
	handlers := dnssvc.Handlers{}
	grpOf := map[string]string{}
	for _, g := range groups {
		for _, s := range g.Servers {
			handlers[dnssvc.HandlerKey{Server: s, ServerGroup: g}] = o.handler
			grpOf[string(s.Name)] = string(g.Name)
		}
	}
	newListener := func(srv *agd.Server, baseConf dnsserver.ConfigBase, nonDNS http.Handler) (dnssvc.Listener, error) {
		l, lerr := dnssvc.NewListener(srv, baseConf, nonDNS)
		if lerr != nil {
			return nil, lerr
		}
		ls = append(ls, &slistener{
			Idx: len(ls), Server: string(srv.Name), Group: grpOf[string(srv.Name)], Proto: srv.Protocol.String(),
			Flavour: flav[string(srv.Name)], srv: l, tls: srv.Protocol == agd.ProtoDoT,
			confName: baseConf.Name, confAddr: baseConf.Addr,
		})
		return l, nil
	}
	svc, err = dnssvc.New(&dnssvc.Config{
		Handlers:         handlers,
		NewListener:      newListener,
		Cloner:           agdtest.NewCloner(),
		ConnLimiter:      lim,
		ErrColl:          nopErrColl{},
		NonDNS:           http.NotFoundHandler(),
		MetricsNamespace: fmt.Sprintf("c18svc%d", svcSerial),
		ServerGroups:     groups,
		HandleTimeout:    o.handleTimeout,
	})
	if err != nil {
		return nil, nil, err
	}
	if err = startService(svc); err != nil {
		return svc, nil, err
	}
	for _, l := range ls {
		a := l.srv.LocalTCPAddr()
		if a == nil {
			return svc, ls, fmt.Errorf("listener %s/%s has no TCP address", l.Server, l.Proto)
		}
		l.Addr = a.String()
	}
	return svc, ls, nil
}

const (
	svcFillWait   = 250 * time.Millisecond // how long a fill connection may take before the next listener is tried
	svcSettleWait = 300 * time.Millisecond // how long forbidden answers are given to show up
	svcExtra      = 2                      // further connections per listener
)

func serviceCase(r *vkit.Run, idx, stop, resume, filler int, tlsClient, tlsServer *tls.Config) {
	svc, ls, err := buildService(stop, resume, tlsServer, svcOpts{})
	if err != nil {
		r.Inconclusive(fmt.Sprintf("service: case %d: cannot build/start dnssvc: %v", idx, err))
		if svc != nil {
			ctx, cancel := context.WithTimeout(context.Background(), 20*time.Second)
			_ = svc.Shutdown(ctx)
			cancel()
		}
		return
	}
	m := &svcMon{stop: stop, resume: resume, tlsConf: tlsClient}
	desc := map[string]any{"monitor": "service", "case": idx, "stop": stop, "resume": resume, "listeners": ls, "filler_listener": filler}
	defer func() {
		// Tear down without leaving unaccepted connections in a backlog: a
		// connection accepted while Shutdown is in progress trips a WaitGroup
		// Add/Wait race in dnsserver's shutdown path, which is not this
		// property's business.  So: free slots until every dialled connection
		// has been accepted and answered, only then close and shut down.
		drained := false
		for polls := 0; polls < 8000 && !drained; polls++ {
			m.mu.Lock()
			var served []*sconn
			unserved := 0
			for _, c := range m.conns {
				switch {
				case c.closed || c.failed:
				case c.served:
					served = append(served, c)
				default:
					unserved++
				}
			}
			m.mu.Unlock()
			for _, c := range served {
				m.closeConn(c)
			}
			if unserved == 0 {
				drained = true
				break
			}
			time.Sleep(500 * time.Microsecond)
		}
		if !drained {
			r.Bucket("service_teardown_backlog_not_empty", 1)
		}
		m.mu.Lock()
		conns := append([]*sconn(nil), m.conns...)
		m.viols = nil // the tear-down is not part of the experiment
		m.mu.Unlock()
		for _, c := range conns {
			m.closeConn(c)
		}
		time.Sleep(20 * time.Millisecond)
		ctx, cancel := context.WithTimeout(context.Background(), 30*time.Second)
		_ = svc.Shutdown(ctx)
		cancel()
	}()
	diverged := false
	report := func() {
		m.mu.Lock()
		viols := append([]sviol(nil), m.viols...)
		if len(viols) > 0 {
			diverged = true
		}
		m.viols = nil
		logCopy := append([]sev(nil), m.log...)
		m.mu.Unlock()
		for _, v := range viols {
			w := map[string]any{"log": logCopy, "offending_connection": v.conn.id, "offending_listener": v.conn.l, "at_log_index": v.at}
			for k, x := range desc {
				w[k] = x
			}
			r.Violation(v.key, v.what, w)
		}
	}
	nL := len(ls)
	if stop < nL+1 {
		r.Inconclusive("service: stop too small for the number of listeners")
		return
	}

	// Phase 0: connections to the DoT listeners whose TLS handshake fails
	// (non-TLS bytes, a truncated ClientHello, nothing at all), stop+2 per
	// listener, every one closed by the client.  None of them is open any more,
	// so an ordinary exchange with the same listener must be served.
	if !svcSkipHandshakes {
		for _, l := range ls {
			if !l.tls {
				continue
			}
			for i := 0; i < stop+2; i++ {
				raw, derr := net.DialTimeout("tcp", l.Addr, 20*time.Second)
				if derr != nil {
					r.Inconclusive(fmt.Sprintf("service: case %d: cannot connect to %s: %v", idx, l.Addr, derr))
					return
				}
				switch i % 3 {
				case 0:
					_, _ = raw.Write([]byte("GET / HTTP/1.0\r\n\r\n"))
				case 1:
					// the beginning of a TLS 1.2 ClientHello record, cut short
					_, _ = raw.Write([]byte{0x16, 0x03, 0x01, 0x02, 0x00, 0x01, 0x00, 0x01, 0xfc, 0x03, 0x03})
				default:
				}
				_ = raw.Close()
				r.Bucket("service_failed_handshakes_sent", 1)
			}
			c, derr := m.dial(l)
			if derr != nil {
				r.Inconclusive(fmt.Sprintf("service: case %d: cannot connect to %s: %v", idx, l.Addr, derr))
				return
			}
			served := false
			for polls := 0; polls < 300 && !served; polls++ {
				served = m.isServed(c)
				if !served {
					time.Sleep(time.Duration(1+polls/8) * time.Millisecond)
				}
			}
			if !served {
				m.mu.Lock()
				logCopy := append([]sev(nil), m.log...)
				m.mu.Unlock()
				w := map[string]any{"log": logCopy, "listener": l, "failed_handshakes_before": stop + 2}
				for k, x := range desc {
					w[k] = x
				}
				r.Violation("service:dot-connection-not-served-after-failed-handshakes",
					fmt.Sprintf("stop=%d resume=%d: %d clients connected to the DoT listener of server %s (%s), failed the TLS handshake and went away; no connection is open, "+
						"but an ordinary DoT exchange with that listener is not served (300 polls, ~6 s): the failed handshakes still hold their slots",
						stop, resume, stop+2, l.Server, l.Flavour),
					w)
				svcSkipHandshakes = true // every further case would only wait for the same thing
				return
			}
			r.Bucket("service_dot_exchanges_served_after_failed_handshakes", 1)
			m.closeConn(c)
		}
	}

	// Let the server finish with the connections of phase 0 (a slot that is given
	// back a little later would, with the hysteresis, change how far phase A gets,
	// not what is allowed).  The limiter's own gauge says when only the idle
	// accept loops hold slots.  Not a verdict.
	for polls := 0; polls < 3000; polls++ {
		sum := 0.0
		for _, l := range ls {
			var d dto.Metric
			g := metrics.ConnLimiterActiveStreamConns.WithLabelValues(l.confName, l.Proto, l.confAddr)
			if g.Write(&d) == nil {
				sum += d.GetGauge().GetValue()
			}
		}
		if sum == float64(len(ls)) {
			r.Bucket("service_cases_started_from_idle_gauge", 1)
			break
		}
		time.Sleep(time.Millisecond)
	}

	// Phase A: `stop` served connections, as many as possible through the
	// filler listener, then one per other listener in turn.
	waiting := make([][]*sconn, nL)
	order := []int{}
	for i := 0; i < nL; i++ {
		order = append(order, (filler+i)%nL)
	}
	fillerDone := false
	pos := 1
	exhausted := map[int]bool{}
	for attempts := 0; attempts < stop+3*nL; attempts++ {
		so, _, _ := m.snapshot()
		if so >= stop {
			break
		}
		li := filler
		if fillerDone {
			// round robin over the others
			found := false
			for k := 0; k < nL; k++ {
				cand := order[pos]
				pos++
				if pos >= nL {
					pos = 1
				}
				if !exhausted[cand] {
					li, found = cand, true
					break
				}
			}
			if !found {
				break
			}
		}
		c, derr := m.dial(ls[li])
		if derr != nil {
			r.Inconclusive(fmt.Sprintf("service: case %d: cannot connect to %s: %v", idx, ls[li].Addr, derr))
			return
		}
		if !m.waitServed(c, svcFillWait) {
			waiting[li] = append(waiting[li], c)
			if li == filler {
				fillerDone = true
			} else {
				exhausted[li] = true
			}
		}
	}
	so, _, stoppedNow := m.snapshot()
	r.Bucket("service_cases", 1)
	if so < stop || !stoppedNow {
		// Not a verdict: without `stop` served connections the stopped phase
		// cannot be examined.  Counted; the gate below wants most cases complete.
		r.Bucket("service_cases_fill_incomplete", 1)
		report()
		return
	}
	r.Bucket("service_cases_stop_reached", 1)
	r.Bucket("service_cases_stop_reached_filler_"+ls[filler].Flavour, 1)

	// Phase B: further connections to EVERY stream listener of EVERY server.
	var extras []*sconn
	for li := range ls {
		for len(waiting[li]) < svcExtra {
			c, derr := m.dial(ls[li])
			if derr != nil {
				r.Inconclusive(fmt.Sprintf("service: case %d: cannot connect to %s: %v", idx, ls[li].Addr, derr))
				return
			}
			waiting[li] = append(waiting[li], c)
		}
		extras = append(extras, waiting[li]...)
	}
	time.Sleep(svcSettleWait)
	for _, c := range extras {
		if !m.isServed(c) {
			r.Bucket("service_further_connections_not_served_while_stopped", 1)
			r.Bucket("service_further_connections_not_served_while_stopped_"+c.l.Flavour, 1)
		}
	}
	report()

	// Phase C: close down to resume+1: still stopped.
	m.mu.Lock()
	var servedConns []*sconn
	for _, c := range m.conns {
		if c.served && !c.closed {
			servedConns = append(servedConns, c)
		}
	}
	m.mu.Unlock()
	nC := stop - resume - 1
	if nC > 0 {
		for _, c := range servedConns[:nC] {
			m.closeConn(c)
		}
		servedConns = servedConns[nC:]
		time.Sleep(svcSettleWait)
		for _, c := range extras {
			if !m.isServed(c) {
				r.Bucket("service_further_connections_not_served_above_resume", 1)
				r.Bucket("service_further_connections_not_served_above_resume_"+c.l.Flavour, 1)
			}
		}
		report()
	}

	if diverged {
		// The limiter's count is not what the client side sees (reported
		// above); the progress step would only restate that.
		return
	}

	// Phase D: one more close: the count is at the resume threshold; a waiting
	// connection must be served.  No-progress is counted in polls.
	_, totalBefore, _ := m.snapshot()
	m.closeConn(servedConns[0])
	progressed := false
	for polls := 0; polls < 400; polls++ {
		if _, total, _ := m.snapshot(); total > totalBefore {
			progressed = true
			break
		}
		time.Sleep(time.Duration(1+polls/4) * time.Millisecond)
	}
	if progressed {
		r.Bucket("service_cases_waiting_connection_served_after_resume", 1)
		time.Sleep(20 * time.Millisecond)
	} else {
		m.mu.Lock()
		logCopy := append([]sev(nil), m.log...)
		m.mu.Unlock()
		w := map[string]any{"log": logCopy}
		for k, x := range desc {
			w[k] = x
		}
		r.Violation("service:nothing-served-after-count-fell-to-resume",
			fmt.Sprintf("stop=%d resume=%d: the client closed connections until only %d answered connections were open, every listener has waiting connections, but none of them was served (400 polls, ~20 s)", stop, resume, resume),
			w)
	}
	report()
	r.Eval(fmt.Sprintf("service/stop%d/resume%d/filler-%s-%s", stop, resume, ls[filler].Server, ls[filler].Flavour), true)
	if idx%4 == 1 {
		m.mu.Lock()
		n := len(m.log)
		m.mu.Unlock()
		d := map[string]any{"events": n}
		for k, x := range desc {
			d[k] = x
		}
		r.Sample(d)
	}
}

func serviceMonitor(r *vkit.Run) {
	tlsServer, err := selfSigned()
	if err != nil {
		r.Inconclusive("service: cannot create a certificate: " + err.Error())
		return
	}
	tlsClient := &tls.Config{InsecureSkipVerify: true}
	const nL = 5
	rng := r.Rand("service", 0)
	// two threshold pairs per run, every listener once as the filler
	type pair struct{ stop, resume int }
	// resume >= number of listeners: the accept loops of idle listeners hold a
	// slot each (pending accepts count), so with a lower resume threshold a
	// stopped limiter may stay stopped for good once the clients are gone, which
	// is the limiter's documented counting, not a defect, but would leave
	// unaccepted connections behind at tear-down.
	all := []pair{{nL + 1, nL}, {nL + 1, nL + 1}, {nL + 2, nL}, {nL + 2, nL + 2}, {nL + 3, nL + 1}, {nL + 3, nL}, {nL + 4, nL + 2}}
	rng.Shuffle(len(all), func(i, j int) { all[i], all[j] = all[j], all[i] })
	nPairs := r.N(2, len(all))
	idx := 0
	for _, p := range all[:nPairs] {
		for filler := 0; filler < nL; filler++ {
			serviceCase(r, idx, p.stop, p.resume, filler, tlsClient, tlsServer)
			idx++
		}
	}
	pipelineBoundService(r, tlsServer)
	pipelineTimeoutService(r, tlsClient, tlsServer)
}

// pipelineBoundService: the pipeline bound on every stream listener that
// dnssvc builds (production wiring of the server's TCP configuration): a gated
// handler counts concurrent invocations per connection, one connection sends
// limit+4 .. limit+12 queries, the peak must not exceed the configured count.
func pipelineBoundService(r *vkit.Run, tlsServer *tls.Config) {
	limits := []uint{2}
	if r.Thorough() {
		limits = []uint{1, 2, 5}
	}
	idx := 0
	for _, n := range limits {
		h := &pipeHandler{}
		h.reset()
		svc, ls, err := buildService(len5+2, len5+1, tlsServer, svcOpts{pipeline: n, handler: h})
		if err != nil {
			r.Inconclusive(fmt.Sprintf("service-pipeline: cannot build/start dnssvc: %v", err))
			return
		}
		for _, l := range ls {
			rng := r.Rand("service-pipeline", idx)
			proto := "tcp"
			if l.tls {
				proto = "tls"
			}
			pipelineCase(r, "service-pipeline", idx, proto, int(n), l.Addr, h, []int{int(n) + 4 + rng.IntN(9)}, rng.IntN(2) == 0)
			r.Bucket("service-pipeline_listeners_"+l.Proto+"_"+l.Flavour, 1)
			idx++
		}
		time.Sleep(20 * time.Millisecond)
		ctx, cancel := context.WithTimeout(context.Background(), 20*time.Second)
		_ = svc.Shutdown(ctx)
		cancel()
	}
}

const len5 = 5 // stream listeners of the full service shape
