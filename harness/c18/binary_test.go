package c18

import (
	"encoding/json"
	"fmt"
	"os"
	"os/exec"
	"path/filepath"
	"time"

	"github.com/AdguardTeam/AdGuardDNS/verif/vkit"
)

// Pipeline limit of the configuration file on the real binary.
//
// The other pipeline phases start from an agd.Server / dnsserver
// configuration that the harness builds itself; the conversion of the
// ratelimit.tcp section of the file into the per-server TCP settings
// (internal/cmd) runs only in the real process.  This phase runs the binary of
// the tree under test on copies of config.dist.yaml with
//
//	ratelimit.tcp.enabled x ratelimit.quic.enabled in {true,false}^2,
//	ratelimit.tcp.max_pipeline_count = n   (2; 1, 2, 5 in the thorough tier)
//
// and sends, to every plain-DNS TCP and DoT address of every server group, one
// burst of n+6 never-cached queries on ONE connection.  The observer is the
// stub upstream (harness/c20/pipebin_test.go): it holds every query of the
// burst and records the peak number of DISTINCT names it holds at once; each of
// them is a query of that connection inside the server's handler.  Oracle:
//
//	tcp.enabled  => peak <= n               (violation otherwise)
//	reach        : tcp.enabled and peak == n and all answered
//	control      : !tcp.enabled and peak > n (the observer can see an excess)
//
// The count is a lower bound of the queries inside the handler only while the
// server waits for every held query, so the script raises dns.handle_timeout
// (which starts before the pipeline slot is acquired) to 30 s and the upstream
// timeouts to 10 s; the stub holds a query for 0.5 s and a burst that took more
// than 8 s is not evaluated.
//
// The machinery (fixtures, localisation of the file, process control) is the
// C20 bench, run as a child `go test` of package c20.

type binBurst struct {
	Server   string `json:"server"`
	Proto    string `json:"proto"`
	Addr     string `json:"addr"`
	Burst    int    `json:"burst"`
	Answered int    `json:"answered"`
	Peak     int    `json:"peak_distinct_queries_held_by_upstream"`
	Seen     int    `json:"distinct_queries_seen_by_upstream"`
	Err      string `json:"transport_error,omitempty"`
	MS       int64  `json:"elapsed_ms"`
}

type binCase struct {
	TCPEnabled  bool       `json:"ratelimit_tcp_enabled"`
	QUICEnabled bool       `json:"ratelimit_quic_enabled"`
	Limit       int        `json:"ratelimit_tcp_max_pipeline_count"`
	Verdict     string     `json:"process_verdict"`
	Class       string     `json:"process_class,omitempty"`
	What        string     `json:"process_what,omitempty"`
	Bursts      []binBurst `json:"bursts"`
}

type binReport struct {
	Error string    `json:"error,omitempty"`
	Cases []binCase `json:"cases"`
}

func binaryPipelineMonitor(r *vkit.Run) {
	scratch := os.Getenv("VERIF_SCRATCH")
	if scratch == "" {
		scratch = os.TempDir()
	}
	dir, err := os.MkdirTemp(scratch, "c18bin-")
	if err != nil {
		r.Inconclusive("binary-pipeline: " + err.Error())
		return
	}
	defer os.RemoveAll(dir)
	out := filepath.Join(dir, "pipe.json")
	args := []string{"test", "-tags", "verif", "-count=1", "-run", "^TestBinaryPipeline$", "-timeout=600s"}
	if mf := os.Getenv("VERIF_MODFILE"); mf != "" {
		args = append(args, "-modfile="+mf)
	}
	args = append(args, "./c20")
	cmd := exec.Command("go", args...)
	cmd.Dir = ".." // the harness module
	cmd.Env = append(os.Environ(), "C20_PIPE_OUT="+out)
	t0 := time.Now()
	cout, cerr := cmd.CombinedOutput()
	r.Extra("binary-pipeline_wall_s", time.Since(t0).Seconds())
	b, rerr := os.ReadFile(out)
	rep := binReport{}
	if rerr != nil || json.Unmarshal(b, &rep) != nil {
		r.Sample(map[string]any{"binary-pipeline_child_output": tailStr(string(cout), 1500), "err": fmt.Sprint(cerr)})
		r.Inconclusive("binary-pipeline: the child run produced no report")
		return
	}
	if rep.Error != "" {
		r.Sample(map[string]any{"binary-pipeline_error": rep.Error})
		r.Inconclusive("binary-pipeline: " + tailStr(rep.Error, 300))
		return
	}
	for _, c := range rep.Cases {
		r.Bucket("binary-pipeline_configurations_run", 1)
		if c.Verdict != "accepted" {
			// Whether the file is accepted and served is C20's question.
			r.Bucket("binary-pipeline_configurations_not_served:"+c.Verdict+":"+c.Class, 1)
			continue
		}
		for _, bu := range c.Bursts {
			class := fmt.Sprintf("binary-pipeline:%s:tcp.enabled=%v:quic.enabled=%v:n=%d", bu.Proto, c.TCPEnabled, c.QUICEnabled, c.Limit)
			r.Bucket("binary-pipeline_bursts", 1)
			r.Bucket("binary-pipeline_queries_sent", int64(bu.Burst))
			r.Bucket("binary-pipeline_queries_answered", int64(bu.Answered))
			if bu.Err != "" {
				r.Bucket("binary-pipeline_bursts_with_transport_error", 1)
			}
			switch {
			case bu.MS > 8000:
				// The stub's count is a lower bound of the queries inside the
				// handler only while no server-side timeout (10 s) can have
				// fired; a burst that took this long decides nothing.
				r.Eval(class, false)
				r.Bucket("binary-pipeline_bursts_too_slow_to_decide", 1)
			case c.TCPEnabled && bu.Peak > c.Limit:
				r.Eval(class, true)
				r.Violation(fmt.Sprintf("binary-pipeline:%s:tcp.enabled=true:quic.enabled=%v:more-than-limit-in-handler", bu.Proto, c.QUICEnabled),
					fmt.Sprintf("ratelimit.tcp.enabled=true, max_pipeline_count=%d: the upstream held %d distinct queries of one %s connection at the same time", c.Limit, bu.Peak, bu.Proto),
					map[string]any{"configuration": c, "burst": bu})
			case c.TCPEnabled && bu.Peak == c.Limit && bu.Answered == bu.Burst:
				r.Eval(class, true)
				r.Bucket("binary-pipeline_bursts_limit_reached_"+bu.Proto, 1)
			case !c.TCPEnabled && bu.Peak > c.Limit:
				r.Eval(class, true)
				r.Bucket("binary-pipeline_control_bursts_above_limit_"+bu.Proto, 1)
			default:
				r.Eval(class, false)
			}
		}
	}
	r.Sample(map[string]any{"binary-pipeline_first_configuration": first(rep.Cases)})
}

func first(cs []binCase) any {
	if len(cs) == 0 {
		return nil
	}
	return cs[0]
}

func tailStr(s string, n int) string {
	if len(s) <= n {
		return s
	}
	return s[len(s)-n:]
}
