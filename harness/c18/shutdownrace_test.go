package c18

// A connection that comes out of Accept while its server is being shut down:
// real ServerDNS / ServerTLS on connlimiter.NewListenConfig over a scripted
// inner listener whose pending Accept returns its one connection at the moment
// the listener is closed (as if the client had connected just before).  The
// server is down afterwards, so it cannot be serving that connection: the peer
// must see it closed, and its limiter slot must be free again for the other
// listeners of the same limiter.

import (
	"context"
	"crypto/tls"
	"fmt"
	"net"
	"sync"
	"time"

	"github.com/AdguardTeam/AdGuardDNS/internal/connlimiter"
	"github.com/AdguardTeam/AdGuardDNS/internal/dnsserver"
	"github.com/AdguardTeam/AdGuardDNS/internal/dnsserver/netext"
	"github.com/AdguardTeam/AdGuardDNS/internal/metrics"
	"github.com/AdguardTeam/AdGuardDNS/verif/vkit"
	dto "github.com/prometheus/client_model/go"
)

// obsConn tells when the server does anything with the connection.
type obsConn struct {
	net.Conn
	once    sync.Once
	handled chan struct{}
}

func (c *obsConn) touch() { c.once.Do(func() { close(c.handled) }) }

func (c *obsConn) Read(b []byte) (int, error)        { c.touch(); return c.Conn.Read(b) }
func (c *obsConn) SetReadDeadline(t time.Time) error { c.touch(); return c.Conn.SetReadDeadline(t) }
func (c *obsConn) SetDeadline(t time.Time) error     { c.touch(); return c.Conn.SetDeadline(t) }
func (c *obsConn) Close() error                      { c.touch(); return c.Conn.Close() }
func (c *obsConn) RemoteAddr() net.Addr              { return &net.TCPAddr{IP: net.IP{127, 0, 0, 1}, Port: 40000} }
func (c *obsConn) LocalAddr() net.Addr               { return &net.TCPAddr{IP: net.IP{127, 0, 0, 1}, Port: 53} }

// raceListener hands out exactly one connection, at the moment it is closed.
type raceListener struct {
	accepting chan struct{}
	closed    chan struct{}
	conn      *obsConn

	acceptOnce sync.Once
	closeOnce  sync.Once
	mu         sync.Mutex
	handedOut  bool
}

func (l *raceListener) Accept() (net.Conn, error) {
	l.acceptOnce.Do(func() { close(l.accepting) })
	<-l.closed
	l.mu.Lock()
	defer l.mu.Unlock()
	if l.handedOut {
		return nil, net.ErrClosed
	}
	l.handedOut = true
	return l.conn, nil
}

// Close returns once the server has begun to deal with the connection it has
// just got (or after a while, if it never does).  A Close that takes a moment
// is nothing unusual, and it orders the server's bookkeeping for that
// connection before the rest of the shutdown.
func (l *raceListener) Close() error {
	l.closeOnce.Do(func() { close(l.closed) })
	select {
	case <-l.conn.handled:
	case <-time.After(300 * time.Millisecond):
	}
	return nil
}

func (l *raceListener) Addr() net.Addr { return &net.TCPAddr{IP: net.IP{127, 0, 0, 1}, Port: 53} }

type pipeListener struct {
	mu     sync.Mutex
	closed chan struct{}
	once   sync.Once
}

func (l *pipeListener) Accept() (net.Conn, error) {
	select {
	case <-l.closed:
		return nil, net.ErrClosed
	default:
	}
	c, _ := net.Pipe()
	return c, nil
}
func (l *pipeListener) Close() error   { l.once.Do(func() { close(l.closed) }); return nil }
func (l *pipeListener) Addr() net.Addr { return &net.TCPAddr{IP: net.IP{127, 0, 0, 1}, Port: 853} }

type fixedListenConfig struct{ l net.Listener }

func (c *fixedListenConfig) Listen(context.Context, string, string) (net.Listener, error) {
	return c.l, nil
}
func (c *fixedListenConfig) ListenPacket(context.Context, string, string) (net.PacketConn, error) {
	return nil, fmt.Errorf("c18: no packet listener in this case")
}

var _ netext.ListenConfig = (*fixedListenConfig)(nil)

func shutdownRaceMonitor(r *vkit.Run, tlsServer *tls.Config) {
	type sc struct {
		proto        string
		stop, resume int
	}
	cases := []sc{{"tcp", 1, 1}, {"tcp", 2, 1}, {"tls", 1, 1}}
	if r.Thorough() {
		cases = append(cases, sc{"tls", 3, 0}, sc{"tcp", 4, 4}, sc{"tcp", 1, 0}, sc{"tls", 2, 2})
	}
	for ci, c := range cases {
		lim, err := connlimiter.New(&connlimiter.Config{Logger: discard, Stop: uint64(c.stop), Resume: uint64(c.resume)})
		if err != nil {
			r.Inconclusive("shutdown: " + err.Error())
			return
		}
		cli, srvEnd := net.Pipe()
		rl := &raceListener{accepting: make(chan struct{}), closed: make(chan struct{}),
			conn: &obsConn{Conn: srvEnd, handled: make(chan struct{})}}
		name := fmt.Sprintf("c18-shutdown-%d-%d", r.Seed, ci)
		base := dnsserver.ConfigDNS{
			ConfigBase: dnsserver.ConfigBase{
				Name: name, Addr: "127.0.0.1:53", Network: dnsserver.NetworkTCP, Handler: echoHandler{},
				ListenConfig: connlimiter.NewListenConfig(&fixedListenConfig{l: rl}, lim),
			},
			ReadTimeout: 500 * time.Millisecond,
		}
		var srv pserver
		p := dnsserver.ProtoDNS
		if c.proto == "tcp" {
			srv = dnsserver.NewServerDNS(base)
		} else {
			p = dnsserver.ProtoDoT
			srv = dnsserver.NewServerTLS(dnsserver.ConfigTLS{TLSConfig: tlsServer.Clone(), ConfigDNS: base})
		}
		desc := map[string]any{"monitor": "shutdown", "case": ci, "proto": c.proto, "stop": c.stop, "resume": c.resume}
		if err = srv.Start(context.Background()); err != nil {
			r.Inconclusive(fmt.Sprintf("shutdown: %s server does not start: %v", c.proto, err))
			return
		}
		reached := false
		for polls := 0; polls < 10000 && !reached; polls++ {
			select {
			case <-rl.accepting:
				reached = true
			default:
				time.Sleep(time.Millisecond)
			}
		}
		if !reached {
			r.Inconclusive("shutdown: the accept loop never reached the wrapped listener")
			return
		}
		ctx, cancel := context.WithTimeout(context.Background(), 20*time.Second)
		_ = srv.Shutdown(ctx)
		cancel()
		rl.mu.Lock()
		handed := rl.handedOut
		rl.mu.Unlock()
		if !handed {
			r.Bucket("shutdown_connection_not_handed_out", 1)
			continue
		}
		r.Bucket("shutdown_connections_accepted_during_shutdown", 1)

		// (1) the peer sees the connection closed
		peerClosed := make(chan struct{})
		go func() {
			defer close(peerClosed)
			var b [1]byte
			for {
				if _, rerr := cli.Read(b[:]); rerr != nil {
					return
				}
			}
		}()
		closed := false
		for polls := 0; polls < 300 && !closed; polls++ {
			select {
			case <-peerClosed:
				closed = true
			default:
				time.Sleep(time.Duration(1+polls/8) * time.Millisecond)
			}
		}
		gauge := func() float64 {
			var d dto.Metric
			if metrics.ConnLimiterActiveStreamConns.WithLabelValues(name, p.String(), "127.0.0.1:53").Write(&d) == nil {
				return d.GetGauge().GetValue()
			}
			return -1
		}
		ok := true
		if !closed {
			w := map[string]any{"gauge": gauge()}
			for k, v := range desc {
				w[k] = v
			}
			r.Violation("shutdown:connection-accepted-during-shutdown-never-closed",
				"a connection came out of Accept while the server was being shut down; Shutdown has returned, the server serves nothing any more, but the peer never sees the connection closed (300 polls, ~6 s)", w)
			ok = false
		} else {
			r.Bucket("shutdown_peer_saw_connection_closed", 1)
		}

		// (2) the slot is free: gauge at zero, another listener of the same
		// limiter can accept
		other := lim.Limit(&pipeListener{closed: make(chan struct{})}, &dnsserver.ServerInfo{Name: name + "-other", Addr: "127.0.0.1:853", Proto: dnsserver.ProtoDoT})
		// all `stop` slots must be available to it
		accepted := make(chan net.Conn, c.stop)
		go func() {
			for i := 0; i < c.stop; i++ {
				oc, aerr := other.Accept()
				if aerr != nil {
					return
				}
				accepted <- oc
			}
		}()
		got := 0
		for polls := 0; polls < 300 && got < c.stop; polls++ {
			select {
			case oc := <-accepted:
				got++
				defer oc.Close()
			default:
				if !ok && polls > 40 {
					polls = 300 // the first verdict stands; do not wait twice
				}
				time.Sleep(time.Duration(1+polls/8) * time.Millisecond)
			}
		}
		g := gauge()
		for polls := 0; polls < 300 && g != 0 && got == c.stop; polls++ {
			time.Sleep(time.Duration(1+polls/8) * time.Millisecond)
			g = gauge()
		}
		if got < c.stop {
			w := map[string]any{"gauge": g, "accepted_by_other_listener": got}
			for k, v := range desc {
				w[k] = v
			}
			r.Violation("shutdown:slot-of-connection-accepted-during-shutdown-not-released",
				fmt.Sprintf("stop=%d: a connection came out of Accept while the server was being shut down; the server is down, yet another listener of the same limiter gets only %d of the %d slots "+
					"(gauge of the dead server's listener: %v): the slot was never given back", c.stop, got, c.stop, g), w)
			ok = false
		} else if g != 0 {
			w := map[string]any{"gauge": g}
			for k, v := range desc {
				w[k] = v
			}
			r.Violation("shutdown:gauge-not-zero-after-shutdown",
				fmt.Sprintf("the server is down and nothing of it is open, but the active-connections gauge of its listener stays at %v", g), w)
			ok = false
		} else {
			r.Bucket("shutdown_slot_released_after_shutdown", 1)
		}
		_ = other.Close()
		_ = cli.Close()
		metrics.ConnLimiterActiveStreamConns.DeleteLabelValues(name, p.String(), "127.0.0.1:53")
		r.Eval(fmt.Sprintf("shutdown/%s/stop%d/resume%d", c.proto, c.stop, c.resume), ok)
		if ci == 0 {
			r.Sample(desc)
		}
		if !ok {
			return
		}
	}
}
