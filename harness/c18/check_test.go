// Package c18 monitors property C18: stream connections and pipelined queries
// never exceed their configured limits.
//
// Two monitors:
//
//   - limiter: the real connlimiter.Limiter wraps K harness listeners.  Actor
//     goroutines accept, dial, close (also twice, also concurrently) and close
//     listeners according to a seeded schedule that is organised in rounds;
//     every round ends in a quiescent point.  The harness listeners and
//     connections record the ground truth (pending inner accepts, open
//     connections) under one mutex, in the order in which it happened.
//   - pipeline: real ServerDNS (TCP) and ServerTLS with pipeline limiting; a
//     gated handler counts concurrent entries per connection.
package c18

import (
	"context"
	"crypto/ecdsa"
	"crypto/elliptic"
	"crypto/rand"
	"crypto/tls"
	"crypto/x509"
	"crypto/x509/pkix"
	"encoding/binary"
	"errors"
	"fmt"
	"io"
	"log/slog"
	"math/big"
	mrand "math/rand/v2"
	"net"
	"regexp"
	"runtime"
	"strconv"
	"strings"
	"sync"
	"sync/atomic"
	"testing"
	"time"

	"github.com/AdguardTeam/AdGuardDNS/internal/connlimiter"
	"github.com/AdguardTeam/AdGuardDNS/internal/dnsserver"
	"github.com/AdguardTeam/AdGuardDNS/internal/metrics"
	"github.com/AdguardTeam/AdGuardDNS/verif/vkit"
	"github.com/miekg/dns"
	dto "github.com/prometheus/client_model/go"
)

// ---------------------------------------------------------------------------
// Goroutine snapshots: the quiescence decision.
//
// runtime.Stack(all) stops the world, so the states it prints are one
// consistent cut.  A goroutine that the cut shows parked in a blocking
// primitive can only be made runnable by another goroutine; if every tracked
// goroutine with a call in progress is parked and every other call has
// returned, nothing can happen any more until the controller issues the next
// action.  That is what "quiescent point" means below; it is not a timeout.
// ---------------------------------------------------------------------------

var goroutineHdr = regexp.MustCompile(`^goroutine (\d+) [^\[\n]*\[([^\],]+)`)

// parkedStates are wait reasons from which a goroutine cannot leave by itself.
var parkedStates = map[string]bool{
	"sync.Cond.Wait":          true,
	"chan receive":            true,
	"chan send":               true,
	"select":                  true,
	"semacquire":              true,
	"sync.Mutex.Lock":         true,
	"sync.RWMutex.Lock":       true,
	"sync.RWMutex.RLock":      true,
	"sync.WaitGroup.Wait":     true,
	"select (no cases)":       true,
	"chan receive (nil chan)": true,
}

type gstate struct {
	state     string
	inLimiter bool
}

var snapBuf = make([]byte, 1<<20)

// snapshot is only called by the controller goroutine.
func snapshot() map[uint64]gstate {
	n := runtime.Stack(snapBuf, true)
	for n == len(snapBuf) {
		snapBuf = make([]byte, 2*len(snapBuf))
		n = runtime.Stack(snapBuf, true)
	}
	out := map[uint64]gstate{}
	for _, blk := range strings.Split(string(snapBuf[:n]), "\n\n") {
		m := goroutineHdr.FindStringSubmatch(blk)
		if m == nil {
			continue
		}
		id, _ := strconv.ParseUint(m[1], 10, 64)
		out[id] = gstate{state: m[2], inLimiter: strings.Contains(blk, "/connlimiter.")}
	}
	return out
}

func curGID() uint64 {
	var b [64]byte
	n := runtime.Stack(b[:], false)
	s := b[:n]
	const p = "goroutine "
	if len(s) < len(p) {
		return 0
	}
	var id uint64
	for _, ch := range s[len(p):] {
		if ch < '0' || ch > '9' {
			break
		}
		id = id*10 + uint64(ch-'0')
	}
	return id
}

// ---------------------------------------------------------------------------
// Monitor: event log + ground truth, everything under one mutex.
// ---------------------------------------------------------------------------

type ev struct {
	I    int    `json:"i"`
	K    string `json:"k"`
	Call int    `json:"call"`
	L    int    `json:"l"`
	Conn int    `json:"conn,omitempty"`
	Note string `json:"note,omitempty"`
}

const (
	kAccept = "accept"
	kCClose = "conn-close"
	kLClose = "listener-close"
)

type call struct {
	ID   int
	Kind string
	L    int // listener index (accept, lclose) or listener of the conn
	Conn int // target connection (cclose) / connection obtained (accept), 0 = none

	gid        uint64
	begin, end int // log indices, -1 = not yet
	innerBegin int // accept: harness listener's Accept entered
	innerEnd   int // accept: harness listener's Accept decided
	innerOK    bool
	wait       chan *hConn
	failKind   string // why the inner Accept failed: transient | closed | closed-late
	failErr    error
	err        error
	retConn    int // id of the connection that Accept returned to the actor
	parkedAtQ  bool
}

// errTransient is what a harness listener returns from Accept when the
// schedule injects a temporary failure; the listener stays open.
type transientErr struct{}

func (transientErr) Error() string   { return "c18: injected temporary accept failure" }
func (transientErr) Timeout() bool   { return false }
func (transientErr) Temporary() bool { return true }

var errTransient net.Error = transientErr{}

type hAddr struct{ id int }

func (a hAddr) Network() string { return "hpipe" }
func (a hAddr) String() string  { return fmt.Sprintf("hconn-%d", a.id) }

// hConn is the server end of a net.Pipe handed out by a harness listener.
type hConn struct {
	net.Conn
	peer net.Conn
	m    *monitor
	id   int
	l    int

	// guarded by m.mu
	closeErrMode int // 0: Close succeeds; 1: the first Close call returns an error; 2: every Close call does
	innerCloses  int
	firstClose   int   // log index of the first inner Close, -1
	closer       *call // call during which the first inner Close happened
	wrapper      net.Conn
	closeIssued  bool
}

func (c *hConn) RemoteAddr() net.Addr { return hAddr{c.id} }
func (c *hConn) LocalAddr() net.Addr  { return hAddr{-c.id} }

func (c *hConn) Close() error {
	m := c.m
	m.mu.Lock()
	cl := m.byGid[curGID()]
	c.innerCloses++
	i := m.add("inner-conn-close", cl, c.l, c.id, "")
	if c.innerCloses == 1 {
		c.firstClose = i
		c.closer = cl
		m.open--
	}
	fail := c.closeErrMode == 2 || (c.closeErrMode == 1 && c.innerCloses == 1)
	m.mu.Unlock()
	_ = c.peer.Close()
	err := c.Conn.Close()
	if fail {
		// The connection is gone all the same (as with ECONNRESET or EIO from
		// close(2)); only the report differs.
		return errInnerClose
	}
	return err
}

var errInnerClose = errors.New("c18: injected close failure: connection reset by peer")

// hListener is the inner listener that the limiter wraps.
type hListener struct {
	m    *monitor
	idx  int
	name string
	info *dnsserver.ServerInfo

	limited net.Listener

	closeBegunByPlan bool // controller only

	failLate bool // guarded by m.mu: Close leaves pending inner accepts to failPending

	// closeErr: Close closes the listener and reports an error all the same (as
	// a listener does whose owner has already closed it underneath).  Set
	// before the listener is used.
	closeErr bool

	// guarded by m.mu
	closed     bool
	closeBegun int // log index of the first limited Close begin, -1
	backlog    []*hConn
	waiters    []*call
}

func (l *hListener) Addr() net.Addr { return hAddr{-1000 - l.idx} }

func (l *hListener) Accept() (net.Conn, error) {
	m := l.m
	m.mu.Lock()
	c := m.byGid[curGID()]
	if c == nil || c.Kind != kAccept {
		// An inner Accept by a goroutine the monitor does not know: cannot be
		// tracked; the schedule is given up as inconclusive.
		m.untracked++
		m.mu.Unlock()
		return nil, net.ErrClosed
	}
	c.innerBegin = m.add("inner-accept-begin", c, l.idx, 0, "")
	m.pending++
	m.noteN()
	if l.closed {
		c.innerEnd = m.add("inner-accept-err", c, l.idx, 0, "listener closed")
		c.failKind = "closed"
		m.pending--
		m.mu.Unlock()
		return nil, net.ErrClosed
	}
	if len(l.backlog) > 0 {
		hc := l.backlog[0]
		l.backlog = l.backlog[1:]
		c.innerEnd = m.add("inner-accept-ok", c, l.idx, hc.id, "")
		c.innerOK = true
		c.Conn = hc.id
		m.pending--
		m.open++
		m.mu.Unlock()
		return hc, nil
	}
	c.wait = make(chan *hConn, 1)
	l.waiters = append(l.waiters, c)
	m.mu.Unlock()
	hc, ok := <-c.wait
	if !ok || hc == nil {
		m.mu.Lock()
		err := c.failErr
		m.mu.Unlock()
		if err == nil {
			err = net.ErrClosed
		}
		return nil, err
	}
	return hc, nil
}

func (l *hListener) Close() error {
	m := l.m
	m.mu.Lock()
	defer m.mu.Unlock()
	m.add("inner-listener-close", m.byGid[curGID()], l.idx, 0, "")
	if l.closed {
		return net.ErrClosed
	}
	l.closed = true
	var cerr error
	if l.closeErr {
		cerr = errInnerListenerClose
	}
	if l.failLate {
		// The pending inner accepts notice the close later (failPending): an
		// Accept of a real listener may return any time after Close.
		return cerr
	}
	for _, w := range l.waiters {
		w.innerEnd = m.add("inner-accept-err", w, l.idx, 0, "listener closed")
		w.failKind = "closed"
		w.failErr = net.ErrClosed
		m.pending--
		close(w.wait)
	}
	l.waiters = nil
	return cerr
}

var errInnerListenerClose = errors.New("c18: injected listener close failure: listener is closed, but the close reported an error")

// failPending makes the oldest pending inner Accept of l return an error: a
// temporary one while l is open, net.ErrClosed if l has been closed.
func (m *monitor) failPending(l *hListener) {
	m.mu.Lock()
	defer m.mu.Unlock()
	if len(l.waiters) == 0 {
		m.add("fail-pending-nobody", nil, l.idx, 0, "")
		return
	}
	w := l.waiters[0]
	l.waiters = l.waiters[1:]
	if l.closed {
		w.failKind, w.failErr = "closed-late", net.ErrClosed
	} else {
		w.failKind, w.failErr = "transient", errTransient
	}
	w.innerEnd = m.add("inner-accept-err", w, l.idx, 0, w.failKind)
	m.pending--
	close(w.wait)
}

type monitor struct {
	mu      sync.Mutex
	stop    int
	log     []ev
	calls   []*call
	active  map[int]*call
	byGid   map[uint64]*call
	conns   map[int]*hConn
	nextID  int
	pending int
	open    int

	exceedIdx int
	exceedN   int
	maxN      int
	untracked int
}

func newMonitor(stop int) *monitor {
	return &monitor{stop: stop, active: map[int]*call{}, byGid: map[uint64]*call{},
		conns: map[int]*hConn{}, exceedIdx: -1}
}

// add appends an event; the caller holds mu.
func (m *monitor) add(k string, c *call, l, conn int, note string) int {
	id := -1
	if c != nil {
		id = c.ID
	}
	i := len(m.log)
	m.log = append(m.log, ev{I: i, K: k, Call: id, L: l, Conn: conn, Note: note})
	return i
}

// noteN checks the ground-truth bound; the caller holds mu.
func (m *monitor) noteN() {
	n := m.pending + m.open
	if n > m.maxN {
		m.maxN = n
	}
	if n > m.stop && m.exceedIdx < 0 {
		m.exceedIdx = len(m.log) - 1
		m.exceedN = n
	}
}

func (m *monitor) newCall(kind string, l, conn int) *call {
	m.mu.Lock()
	defer m.mu.Unlock()
	m.nextID++
	c := &call{ID: m.nextID, Kind: kind, L: l, Conn: conn, begin: -1, end: -1, innerBegin: -1, innerEnd: -1}
	m.calls = append(m.calls, c)
	m.active[c.ID] = c
	return c
}

func (m *monitor) register(gid uint64, cs ...*call) {
	m.mu.Lock()
	for _, c := range cs {
		c.gid = gid
	}
	m.mu.Unlock()
}

func (m *monitor) beginCall(c *call, ls []*hListener) {
	m.mu.Lock()
	c.begin = m.add(c.Kind+"-begin", c, c.L, c.Conn, "")
	m.byGid[c.gid] = c
	if c.Kind == kLClose && ls[c.L].closeBegun < 0 {
		ls[c.L].closeBegun = c.begin
	}
	m.mu.Unlock()
}

func (m *monitor) endCall(c *call, conn net.Conn, err error) {
	m.mu.Lock()
	note := ""
	if err != nil {
		note = err.Error()
	}
	c.err = err
	if conn != nil {
		if a, ok := conn.RemoteAddr().(hAddr); ok {
			c.retConn = a.id
			if hc := m.conns[a.id]; hc != nil {
				hc.wrapper = conn
			}
		} else {
			c.retConn = -1
		}
	}
	c.end = m.add(c.Kind+"-end", c, c.L, c.retConn, note)
	delete(m.active, c.ID)
	if m.byGid[c.gid] == c {
		delete(m.byGid, c.gid)
	}
	m.mu.Unlock()
}

// dial makes one connection available on l (or hands it to a pending inner
// Accept).
func (m *monitor) dial(l *hListener, closeErrMode int) {
	srv, cli := net.Pipe()
	m.mu.Lock()
	defer m.mu.Unlock()
	if l.closed {
		m.add("dial-refused", nil, l.idx, 0, "")
		_ = srv.Close()
		_ = cli.Close()
		return
	}
	m.nextID++
	hc := &hConn{Conn: srv, peer: cli, m: m, id: m.nextID, l: l.idx, firstClose: -1, closeErrMode: closeErrMode}
	m.conns[hc.id] = hc
	if len(l.waiters) > 0 {
		w := l.waiters[0]
		l.waiters = l.waiters[1:]
		w.innerEnd = m.add("inner-accept-ok", w, l.idx, hc.id, "dial")
		w.innerOK = true
		w.Conn = hc.id
		m.pending--
		m.open++
		w.wait <- hc
		return
	}
	m.add("dial-backlog", nil, l.idx, hc.id, "")
	l.backlog = append(l.backlog, hc)
}

func (m *monitor) tail(n int) []ev {
	m.mu.Lock()
	defer m.mu.Unlock()
	if len(m.log) <= n {
		return append([]ev(nil), m.log...)
	}
	return append([]ev(nil), m.log[len(m.log)-n:]...)
}

// ---------------------------------------------------------------------------
// Reference model (from the property statement): a hysteresis counter.
//
//	admit:   only while accepting; count++; accepting stops when count == stop
//	release: count--; accepting resumes when count <= resume
//
// Operations of one round overlap; each takes effect somewhere between its
// begin and end marks.  The model is therefore run over every order that is
// compatible with the marks, which gives the set of model states possible at
// the next quiescent point.
// ---------------------------------------------------------------------------

type mstate struct {
	Count int  `json:"count"`
	Acc   bool `json:"accepting"`
}

type mev struct {
	ErrClose bool   `json:"inner_close_failed,omitempty"`    // release of a connection whose inner Close returned an error
	Failed   string `json:"failed_pending_accept,omitempty"` // release caused by a failing inner Accept: its kind
	L        int    `json:"l"`
	Adm      bool   `json:"admit"`
	Opt      bool   `json:"only_if_accepting,omitempty"`
	Lo       int    `json:"lo"`
	Hi       int    `json:"hi"`
	Desc     string `json:"desc"`
}

func explore(pre []mstate, evs []mev, stop, resume int) (finals []mstate) {
	n := len(evs)
	pred := make([]uint32, n)
	for j := range evs {
		for i := range evs {
			if i != j && evs[i].Hi < evs[j].Lo {
				pred[j] |= 1 << uint(i)
			}
		}
	}
	type key struct {
		mask  uint32
		count int
		acc   bool
	}
	seen := map[key]bool{}
	fin := map[mstate]bool{}
	full := uint32(1)<<uint(n) - 1
	var dfs func(mask uint32, st mstate)
	dfs = func(mask uint32, st mstate) {
		k := key{mask, st.Count, st.Acc}
		if seen[k] {
			return
		}
		seen[k] = true
		if mask == full {
			fin[st] = true
			return
		}
		for j := 0; j < n; j++ {
			if mask&(1<<uint(j)) != 0 || pred[j]&^mask != 0 {
				continue
			}
			nx := st
			if evs[j].Adm {
				switch {
				case st.Acc && st.Count < stop:
					nx.Count++
					if nx.Count >= stop {
						nx.Acc = false
					}
				case evs[j].Opt:
					// no effect
				default:
					continue
				}
			} else {
				if st.Count <= 0 {
					continue
				}
				nx.Count--
				if nx.Count <= resume {
					nx.Acc = true
				}
			}
			dfs(mask|1<<uint(j), nx)
		}
	}
	for _, p := range pre {
		dfs(0, p)
	}
	for _, st := range []mstate{{0, true}, {0, false}} {
		for c := 0; c <= stop+40; c++ {
			st.Count = c
			if fin[st] {
				finals = append(finals, st)
			}
		}
	}
	return finals
}

// ---------------------------------------------------------------------------
// Schedules
// ---------------------------------------------------------------------------

type action struct {
	Kind       string `json:"kind"` // accept | dial | close | stale-close | listener-close
	L          int    `json:"l"`
	Conn       int    `json:"conn,omitempty"`
	Times      int    `json:"times,omitempty"`
	Concurrent bool   `json:"concurrent,omitempty"`
	PreDial    bool   `json:"predial,omitempty"`
	FailLate   bool   `json:"pending_accepts_fail_later,omitempty"`
	CloseErr   int    `json:"conn_close_fails,omitempty"` // dial / predial: 1 first Close call of the connection fails, 2 every call
}

type features struct {
	stopped, parked, resumedWaiter, lcloseWaiter, doubleClose, concRound, pendingInner, lcloseMid bool
}

func (f features) String() string {
	b := []byte("-------")
	for i, v := range []bool{f.stopped, f.parked, f.resumedWaiter, f.lcloseWaiter, f.doubleClose, f.concRound, f.pendingInner} {
		if v {
			b[i] = "SPRLDCI"[i]
		}
	}
	return string(b)
}

type logCounter struct{ waiting, stoppedWaiting, closedConn atomic.Int64 }

func (h *logCounter) Enabled(context.Context, slog.Level) bool { return true }
func (h *logCounter) Handle(_ context.Context, r slog.Record) error {
	switch r.Message {
	case "accept waiting":
		h.waiting.Add(1)
	case "accept stopped waiting":
		h.stoppedWaiting.Add(1)
	case "closed conn":
		h.closedConn.Add(1)
	}
	return nil
}
func (h *logCounter) WithAttrs([]slog.Attr) slog.Handler { return h }
func (h *logCounter) WithGroup(string) slog.Handler      { return h }

// schedHandler is the limiter's logger of one schedule.  The limiter logs
// "accept waiting" after an Accept has found that it must wait and before it
// goes to sleep on the condition variable; the schedule may park the accepting
// goroutine right there, or make it yield.
type schedHandler struct {
	lc *logCounter
	s  *sched
}

func (h *schedHandler) Enabled(context.Context, slog.Level) bool { return true }
func (h *schedHandler) WithAttrs([]slog.Attr) slog.Handler       { return h }
func (h *schedHandler) WithGroup(string) slog.Handler            { return h }
func (h *schedHandler) Handle(ctx context.Context, r slog.Record) error {
	_ = h.lc.Handle(ctx, r)
	if r.Message != "accept waiting" {
		return nil
	}
	s := h.s
	gid := curGID()
	s.m.mu.Lock()
	c := s.m.byGid[gid]
	armed := c != nil && c == s.hookCall
	rel := s.hookRelease
	if armed {
		s.hookCall = nil
		s.hookParked = true
		s.m.add("parked-at-log-record", c, c.L, 0, "accept waiting")
	}
	yield := s.yieldOnLog
	s.m.mu.Unlock()
	switch {
	case armed:
		<-rel
	case yield:
		runtime.Gosched()
		runtime.Gosched()
	}
	return nil
}

type sched struct {
	r      *vkit.Run
	rng    *mrand.Rand
	Idx    int
	Stop   int
	Resume int
	K      int

	m      *monitor
	lim    *connlimiter.Limiter
	ls     []*hListener
	spares []*hListener
	F      []mstate
	FE     []mstate // the same history under the hypothesis that a connection whose inner Close failed keeps its slot
	FL     []mstate // the same history under the hypothesis that an Accept refused with net.ErrClosed keeps a slot
	lastQ  int
	rounds [][]action
	feat   features
	dead   bool
	why    string

	midClose      bool
	acceptOnClose bool
	roundsLeft    int
	gaugeOff      bool
	errClosed     []int // connections closed whose inner Close returned an error
	yieldOnLog    bool  // guarded by m.mu
	hookCall      *call // guarded by m.mu: the accept that parks at its "accept waiting" record
	hookParked    bool  // guarded by m.mu
	hookRelease   chan struct{}
	inHookRound   bool
	relFailed     int     // releases of this round caused by a failing inner Accept
	relOther      int     // other releases of this round
	prevParked    []*call // waiters on open listeners at the previous quiescent point
	suspects      []int   // accepts that returned ErrClosed without having been admitted
	quiescentPts  int
}

const maxActiveAccepts = 6

var discard = slog.New(slog.NewTextHandler(io.Discard, nil))

func (s *sched) addListener() *hListener {
	i := len(s.ls)
	l := &hListener{m: s.m, idx: i, name: fmt.Sprintf("c18-%d-s%d-l%d", s.r.Seed, s.Idx, i), closeBegun: -1, closeErr: s.rng.IntN(10) < 3}
	l.info = &dnsserver.ServerInfo{Name: l.name, Addr: "127.0.0.1:0", Proto: dnsserver.ProtoDoT}
	l.limited = s.lim.Limit(l, l.info)
	s.ls = append(s.ls, l)
	return l
}

func (s *sched) witness(extra map[string]any) map[string]any {
	w := map[string]any{
		"schedule": s.Idx, "stop": s.Stop, "resume": s.Resume, "listeners": s.K,
		"rounds": s.rounds, "model_states_possible": s.F, "log_tail": s.m.tail(80),
	}
	s.m.mu.Lock()
	w["open"] = s.m.open
	w["pending"] = s.m.pending
	s.m.mu.Unlock()
	for k, v := range extra {
		w[k] = v
	}
	return w
}

func (s *sched) abandon(why string) {
	s.dead = true
	s.why = why
	s.r.Bucket("limiter_schedules_abandoned", 1)
}

func (s *sched) doAccept(c *call, start <-chan struct{}) {
	s.m.register(curGID(), c)
	<-start
	s.m.beginCall(c, s.ls)
	conn, err := s.ls[c.L].limited.Accept()
	s.m.endCall(c, conn, err)
}

func (s *sched) doClose(cs []*call, w net.Conn, start <-chan struct{}) {
	s.m.register(curGID(), cs...)
	<-start
	for _, c := range cs {
		s.m.beginCall(c, s.ls)
		err := w.Close()
		s.m.endCall(c, nil, err)
	}
}

func (s *sched) doLClose(c *call, start <-chan struct{}) {
	s.m.register(curGID(), c)
	<-start
	s.m.beginCall(c, s.ls)
	err := s.ls[c.L].limited.Close()
	s.m.endCall(c, nil, err)
}

// runRound launches the actions of one round together and evaluates the
// quiescent point that follows.
func (s *sched) runRound(acts ...action) {
	if s.dead || len(acts) == 0 {
		return
	}
	s.rounds = append(s.rounds, acts)
	s.relFailed, s.relOther = 0, 0
	s.r.Bucket("limiter_rounds", 1)
	if len(acts) > 1 {
		s.feat.concRound = true
		s.r.Bucket("limiter_concurrent_rounds", 1)
	}
	start := make(chan struct{})
	var spawned []*call
	var dialWG sync.WaitGroup
	for _, a := range acts {
		switch a.Kind {
		case "dial":
			dialWG.Add(1)
			go func(l *hListener, mode int) { defer dialWG.Done(); <-start; s.m.dial(l, mode) }(s.ls[a.L], a.CloseErr)
		case "fail-pending":
			dialWG.Add(1)
			go func(l *hListener) { defer dialWG.Done(); <-start; s.m.failPending(l) }(s.ls[a.L])
		case "accept":
			if a.PreDial {
				s.m.dial(s.ls[a.L], a.CloseErr)
			}
			c := s.m.newCall(kAccept, a.L, 0)
			spawned = append(spawned, c)
			go s.doAccept(c, start)
			s.r.Bucket("limiter_accept_calls", 1)
		case "close", "stale-close":
			s.m.mu.Lock()
			hc := s.m.conns[a.Conn]
			hc.closeIssued = true
			w := hc.wrapper
			s.m.mu.Unlock()
			if a.Times > 1 || a.Kind == "stale-close" {
				s.feat.doubleClose = true
				s.r.Bucket("limiter_repeated_close_calls", int64(a.Times))
			}
			if a.Concurrent {
				for i := 0; i < a.Times; i++ {
					c := s.m.newCall(kCClose, hc.l, hc.id)
					spawned = append(spawned, c)
					go s.doClose([]*call{c}, w, start)
				}
			} else {
				var cs []*call
				for i := 0; i < a.Times; i++ {
					cs = append(cs, s.m.newCall(kCClose, hc.l, hc.id))
				}
				spawned = append(spawned, cs...)
				go s.doClose(cs, w, start)
			}
		case "listener-close":
			s.m.mu.Lock()
			s.ls[a.L].failLate = a.FailLate
			s.m.mu.Unlock()
			c := s.m.newCall(kLClose, a.L, 0)
			spawned = append(spawned, c)
			go s.doLClose(c, start)
			s.r.Bucket("limiter_listener_close_calls", 1)
		}
	}
	// all actors registered and parked at the barrier, then go
	for spins := 0; ; spins++ {
		s.m.mu.Lock()
		ok := true
		for _, c := range spawned {
			if c.gid == 0 {
				ok = false
			}
		}
		s.m.mu.Unlock()
		if ok {
			break
		}
		if spins > 2_000_000 {
			s.r.Inconclusive("limiter: actors did not start")
			s.abandon("actors did not start")
			close(start)
			return
		}
		runtime.Gosched()
	}
	close(start)
	dialWG.Wait()
	s.settle()
}

// quiesce waits for a quiescent point.  It returns the accept calls that are
// parked inside the limiter at that point.
func (s *sched) quiesce() (parked []*call, ok bool) {
	m := s.m
	sleep := 20 * time.Microsecond
	for polls := 0; polls < 600_000; polls++ {
		m.mu.Lock()
		l1 := len(m.log)
		ready := true
		parked = parked[:0]
		for _, c := range m.active {
			switch {
			case c.gid == 0 || c.begin < 0:
				ready = false
			case c.Kind != kAccept:
				ready = false
			case c.innerBegin >= 0 && c.innerEnd >= 0:
				ready = false // on its way back to the actor
			case c.innerBegin >= 0:
				// pending in the harness listener, waits for a dial
			default:
				parked = append(parked, c)
			}
		}
		unt := m.untracked
		m.mu.Unlock()
		if unt > 0 {
			return nil, false
		}
		if ready {
			if len(parked) == 0 {
				return nil, true
			}
			snap := snapshot()
			s.r.Bucket("limiter_goroutine_snapshots", 1)
			all := true
			for _, c := range parked {
				st, found := snap[c.gid]
				if !found || !parkedStates[st.state] {
					all = false
				}
			}
			if all {
				m.mu.Lock()
				same := len(m.log) == l1
				m.mu.Unlock()
				if same {
					return parked, true
				}
			}
		}
		if polls < 100 {
			runtime.Gosched()
			continue
		}
		time.Sleep(sleep)
		if sleep < 100*time.Microsecond {
			sleep *= 2
		}
	}
	return nil, false
}

// stillParked confirms, on fresh snapshots taken later, that nothing moved.
func (s *sched) stillParked(ws []*call, l1 int) bool {
	for i := 0; i < 3; i++ {
		time.Sleep(3 * time.Millisecond)
		snap := snapshot()
		s.m.mu.Lock()
		same := len(s.m.log) == l1
		s.m.mu.Unlock()
		if !same {
			return false
		}
		for _, c := range ws {
			st, found := snap[c.gid]
			if !found || !parkedStates[st.state] {
				return false
			}
		}
	}
	return true
}

func (s *sched) gaugeSum() float64 {
	sum := 0.0
	for _, set := range [][]*hListener{s.ls, s.spares} {
		for _, l := range set {
			var d dto.Metric
			g := metrics.ConnLimiterActiveStreamConns.WithLabelValues(l.name, l.info.Proto.String(), l.info.Addr)
			if err := g.Write(&d); err == nil {
				sum += d.GetGauge().GetValue()
			}
		}
	}
	return sum
}

// collect builds the model events since the last quiescent point and checks
// the results of the calls that ended.  The caller must be at a quiescent point.
func (s *sched) collect(upTo int) (evs, hyp []mev) {
	m := s.m
	r := s.r
	type bad struct {
		key, what string
		c         *call
	}
	var bads []bad
	m.mu.Lock()
	for _, c := range m.calls {
		if c.Kind != kAccept {
			continue
		}
		if c.innerBegin >= s.lastQ && c.innerBegin < upTo {
			evs = append(evs, mev{Adm: true, Lo: c.begin, Hi: c.innerBegin, Desc: fmt.Sprintf("admit accept#%d on l%d", c.ID, c.L)})
			if c.begin < s.lastQ && c.parkedAtQ {
				s.feat.resumedWaiter = true
				r.Bucket("limiter_waiters_released_after_resume", 1)
			}
		}
		if c.innerEnd >= s.lastQ && c.innerEnd < upTo && !c.innerOK {
			hi := c.end
			if hi < 0 {
				hi = len(m.log)
			}
			kind := c.failKind
			if kind == "" {
				kind = "closed"
			}
			evs = append(evs, mev{Adm: false, Failed: kind, L: c.L, Lo: c.innerEnd, Hi: hi, Desc: fmt.Sprintf("release pending accept#%d on l%d: inner Accept failed (%s)", c.ID, c.L, kind)})
			if kind == "transient" {
				r.Bucket("limiter_pending_accepts_failed_by_transient_error", 1)
			} else {
				r.Bucket("limiter_pending_accepts_failed_by_listener_close", 1)
			}
		}
		if c.end >= s.lastQ && c.end < upTo {
			l := s.ls[c.L]
			switch {
			case c.innerBegin < 0:
				// never admitted: only legal as the answer to a closed listener
				switch {
				case c.err == nil:
					bads = append(bads, bad{"limiter:accept-returned-without-inner-accept", "Accept returned without error although the wrapped listener was never asked", c})
				case !errors.Is(c.err, net.ErrClosed):
					bads = append(bads, bad{"limiter:accept-error-not-errclosed", "a released Accept returned an error that is not net.ErrClosed: " + c.err.Error(), c})
				case l.closeBegun < 0 || l.closeBegun > c.end:
					bads = append(bads, bad{"limiter:accept-failed-on-open-listener", "Accept returned net.ErrClosed although nobody closed its listener", c})
				default:
					s.suspects = append(s.suspects, c.ID)
					hyp = append(hyp, mev{Adm: true, Opt: true, Lo: c.begin, Hi: c.end, Desc: fmt.Sprintf("accept#%d refused with ErrClosed", c.ID)})
					if c.parkedAtQ {
						s.feat.lcloseWaiter = true
						r.Bucket("limiter_waiters_released_by_listener_close", 1)
						if l.closeErr {
							r.Bucket("limiter_waiters_released_by_listener_close_with_inner_close_error", 1)
						}
					} else {
						r.Bucket("limiter_accepts_on_closed_listener", 1)
					}
				}
			case c.innerOK:
				if c.err != nil || c.retConn != c.Conn {
					bads = append(bads, bad{"limiter:accept-result-mismatch", fmt.Sprintf("the wrapped listener handed out connection %d, Accept returned conn %d err %v", c.Conn, c.retConn, c.err), c})
				} else {
					r.Bucket("limiter_accepts_returned_connection", 1)
				}
			default:
				if c.err == nil {
					bads = append(bads, bad{"limiter:accept-result-mismatch", "the wrapped listener failed, Accept returned no error", c})
				}
			}
		}
	}
	for _, hc := range m.conns {
		if hc.firstClose >= s.lastQ && hc.firstClose < upTo {
			lo, hi := hc.firstClose, len(m.log)
			if hc.closer != nil && hc.closer.end >= 0 {
				lo, hi = hc.closer.begin, hc.closer.end
			}
			evs = append(evs, mev{Adm: false, ErrClose: hc.closeErrMode > 0, Lo: lo, Hi: hi, Desc: fmt.Sprintf("release conn %d (inner close error mode %d)", hc.id, hc.closeErrMode)})
			r.Bucket("limiter_connections_closed", 1)
			if hc.closeErrMode > 0 {
				s.errClosed = append(s.errClosed, hc.id)
				r.Bucket("limiter_connections_closed_with_inner_close_error", 1)
			}
		}
	}
	m.mu.Unlock()
	for _, b := range bads {
		r.Violation(b.key, b.what, s.witness(map[string]any{"call": b.c.ID, "listener": b.c.L}))
	}
	if len(bads) > 0 {
		s.abandon("bad accept result")
	}
	return evs, hyp
}

// settle waits for the quiescent point after a round and evaluates it.
func (s *sched) settle() {
	r := s.r
	m := s.m
	for attempt := 0; attempt < 50 && !s.dead; attempt++ {
		parked, ok := s.quiesce()
		if !ok {
			r.Inconclusive(fmt.Sprintf("limiter: schedule %d did not reach a quiescent point", s.Idx))
			r.Sample(s.witness(map[string]any{"inconclusive": "no quiescent point"}))
			s.abandon("no quiescent point")
			return
		}
		s.quiescentPts++
		r.Bucket("limiter_quiescent_points", 1)

		m.mu.Lock()
		l1 := len(m.log)
		exIdx, exN := m.exceedIdx, m.exceedN
		truth := m.pending + m.open
		pend := m.pending
		if m.maxN >= s.Stop {
			s.feat.stopped = true
		}
		var wOpen, wClosed []*call
		for _, c := range parked {
			if s.ls[c.L].closeBegun >= 0 {
				wClosed = append(wClosed, c)
			} else {
				wOpen = append(wOpen, c)
			}
		}
		m.mu.Unlock()
		if pend > 0 {
			s.feat.pendingInner = true
		}

		// (1) the bound, on the ground truth
		if exIdx >= 0 {
			r.Violation("limiter:bound-exceeded",
				fmt.Sprintf("open connections + pending accepts reached %d with stop=%d", exN, s.Stop),
				s.witness(map[string]any{"at_log_index": exIdx, "n": exN}))
			s.abandon("bound exceeded")
			return
		}

		// (2) every order of the overlapping operations, against the model
		evs, hyp := s.collect(l1)
		if s.dead {
			return
		}
		var finals []mstate
		if len(evs)+len(hyp) > 18 {
			r.Bucket("limiter_rounds_too_large_for_model", 1)
			finals = []mstate{{truth, true}, {truth, false}}
			s.FL, s.FE = nil, nil
		} else {
			finals = explore(s.F, evs, s.Stop, s.Resume)
			s.FL = explore(s.FL, append(append([]mev(nil), evs...), hyp...), s.Stop, s.Resume)
			var evsE []mev
			for _, e := range evs {
				if !e.ErrClose {
					evsE = append(evsE, e)
				}
			}
			s.FE = explore(s.FE, evsE, s.Stop, s.Resume)
		}
		if len(finals) == 0 {
			r.Violation("limiter:accepted-while-stopped",
				"no order of the recorded operations explains the admissions: a connection was admitted after the stop threshold had been reached and before the count fell to the resume threshold",
				s.witness(map[string]any{"operations": evs, "states_before": s.F}))
			s.abandon("admission while stopped")
			return
		}
		pre := s.F
		s.F = finals
		s.lastQ = l1
		var failedEv *mev
		for i := range evs {
			switch {
			case evs[i].Adm:
			case evs[i].Failed != "":
				s.relFailed++
				failedEv = &evs[i]
			default:
				s.relOther++
			}
		}
		// coverage: a pending accept of listener A failed while accepts were
		// parked on another listener, and that release made the limiter resume
		if failedEv != nil && s.relFailed == 1 && s.relOther == 0 && len(pre) == 1 && !pre[0].Acc && pre[0].Count-1 <= s.Resume {
			m.mu.Lock()
			elsewhere := 0
			for _, c := range s.prevParked {
				if c.L != failedEv.L && s.ls[c.L].closeBegun < 0 {
					elsewhere++
				}
			}
			m.mu.Unlock()
			if elsewhere > 0 {
				r.Bucket("limiter_failed_pending_accept_resumed_limiter_with_waiters_elsewhere", 1)
				r.Bucket("limiter_failed_pending_accept_resumed_limiter_with_waiters_elsewhere_"+failedEv.Failed, 1)
			}
		}

		// (3) closing a listener releases its waiters
		if len(wClosed) > 0 {
			if !s.stillParked(wClosed, l1) {
				continue
			}
			key, what := "limiter:listener-close-left-waiter-parked", "an Accept is still parked inside the limiter after its listener's Close has returned"
			m.mu.Lock()
			innerErr := false
			for _, c := range wClosed {
				if s.ls[c.L].closeErr {
					innerErr = true
				}
			}
			m.mu.Unlock()
			if innerErr {
				key += ":inner-listener-close-returned-error"
				what = "the wrapped listener's Close returned an error (the listener is closed all the same); " + what
			}
			if s.inHookRound {
				key += ":closed-between-check-and-wait"
				what = "the listener was closed while its Accept had found that it must wait but had not gone to sleep yet (held at the limiter's own \"accept waiting\" log record); Close has returned, " + what
			}
			r.Violation(key, what, s.witness(map[string]any{"parked_calls": ids(wClosed)}))
			s.abandon("waiter of closed listener parked")
			return
		}

		// (4) exact equality at the quiescent point
		if finals[0].Count != truth {
			r.Inconclusive(fmt.Sprintf("limiter: internal accounting mismatch model=%d truth=%d", finals[0].Count, truth))
			s.abandon("accounting")
			return
		}
		// The published gauge of "active stream connections": the limiter's
		// counter covers open connections and pending accepts; a gauge that
		// counts only the open ones is as good.  Anything outside is a slot
		// released twice or never.  The schedule goes on (the ground truth does
		// not depend on the gauge).
		if g := s.gaugeSum(); !s.gaugeOff && (g < float64(truth-pend) || g > float64(truth)) {
			// like every other verdict: only if it is still so on later
			// stop-the-world snapshots with no event in between
			if !s.stillParked(parked, l1) {
				r.Bucket("limiter_gauge_rechecks", 1)
				continue
			}
			if g2 := s.gaugeSum(); g2 >= float64(truth-pend) && g2 <= float64(truth) {
				r.Bucket("limiter_gauge_mismatch_not_confirmed", 1)
				r.Sample(s.witness(map[string]any{"note": "gauge mismatch not confirmed", "gauge_first": g, "gauge_then": g2, "open": truth - pend, "pending": pend}))
				continue
			}
			r.Violation("limiter:active-gauge-differs-from-open-plus-pending",
				fmt.Sprintf("at a quiescent point the limiter's active-connections gauge is %v, but %d connection(s) are open and %d accept(s) pending", g, truth-pend, pend),
				s.witness(map[string]any{"gauge": g, "open": truth - pend, "pending": pend}))
			s.gaugeOff = true
		}

		// mark the waiters
		m.mu.Lock()
		for _, c := range parked {
			c.parkedAtQ = true
		}
		m.mu.Unlock()
		s.prevParked = append(s.prevParked[:0], wOpen...)
		if len(wOpen) > 0 {
			s.feat.parked = true
			r.Bucket("limiter_quiescent_points_with_parked_waiters", 1)
		}

		// (5) bounded progress
		anyAcc, allAcc := false, true
		var notAcc []mstate
		for _, f := range s.F {
			if f.Acc {
				anyAcc = true
			} else {
				allAcc = false
				notAcc = append(notAcc, f)
			}
		}
		if len(wOpen) == 0 || !anyAcc {
			// nobody waits, or every explanation of the history says "stopped"
			return
		}
		// Some (allAcc: every) explanation of the history says: accepting with
		// capacity c >= 1, and w accepts wait on open listeners.
		if !s.stillParked(wOpen, l1) {
			r.Bucket("limiter_progress_rechecks", 1)
			continue
		}
		capacity := s.Stop - truth
		want := min(capacity, len(wOpen))
		// Diagnose: any Broadcast makes every waiter look at the counter again
		// without changing it.  Closing an unused listener of the same limiter
		// does exactly that.  A waiter that proceeds now could have proceeded
		// before (nothing was released in between): its wake-up was lost.
		s.nudge()
		parked2, ok := s.quiesce()
		if !ok {
			r.Inconclusive("limiter: no quiescent point after the diagnostic broadcast")
			s.abandon("no quiescent point")
			return
		}
		var still []*call
		m.mu.Lock()
		for _, c := range parked2 {
			if s.ls[c.L].closeBegun < 0 {
				still = append(still, c)
			}
		}
		m.mu.Unlock()
		released := len(wOpen) - len(still)
		wit := map[string]any{
			"model_before_round": pre, "operations_of_round": evs, "model_at_quiescent_point": finals,
			"waiting_accepts": ids(wOpen), "open_plus_pending": truth, "capacity": capacity,
			"must_proceed_if_accepting": want, "proceeded": 0,
			"proceeded_after_diagnostic_broadcast": released,
			"goroutine_state_of_waiters":           "parked in every one of 4 stop-the-world goroutine dumps taken over >= 9 ms, no event in between",
		}
		if released > 0 && s.relFailed > 0 && s.relOther == 0 {
			wit["releases_of_this_round"] = "only pending accepts whose inner Accept failed"
			r.Violation("limiter:waiter-left-parked-after-failed-pending-accept",
				fmt.Sprintf("stop=%d resume=%d: the inner Accept of a pending accept failed and gave its slot back; open+pending is now %d (capacity %d) and the limiter is accepting, "+
					"but %d accept(s) waiting on open listeners stay parked; %d of them proceed as soon as something broadcasts on the condition variable "+
					"(the failed accept released its slot without waking the waiters)",
					s.Stop, s.Resume, truth, capacity, len(wOpen), released),
				s.witness(wit))
			r.Bucket("limiter_lost_wakeups_observed", 1)
			continue
		}
		if released > 0 {
			r.Violation("limiter:waiter-left-parked-after-resume",
				fmt.Sprintf("stop=%d resume=%d: open+pending is %d (capacity %d), %d accept(s) wait on open listeners and stay parked at a quiescent point; "+
					"%d of them proceed as soon as something broadcasts on the condition variable although nothing was released in between "+
					"(the limiter was accepting, the wake-up was lost)",
					s.Stop, s.Resume, truth, capacity, len(wOpen), released),
				s.witness(wit))
			r.Bucket("limiter_lost_wakeups_observed", 1)
			continue // the admissions after the broadcast are new events
		}
		if !allAcc {
			// every waiter looked at the counter and went back to sleep: stopped
			s.F = notAcc
			r.Bucket("limiter_ambiguous_state_resolved_by_broadcast", 1)
			continue
		}
		key := "limiter:waiter-parked-with-capacity-after-broadcast"
		what := "the limiter refuses waiting accepts although open+pending is below the stop threshold and has been at/below the resume threshold since it last stopped; a broadcast does not help (its counter differs from reality)"
		leakExplains := false
		for _, f := range s.FL {
			if !f.Acc && f.Count > truth {
				leakExplains = true
			}
		}
		if leakExplains {
			key = "limiter:slot-kept-by-accept-on-closed-listener"
			what = "after an Accept on a closed listener returned net.ErrClosed the limiter behaves as if that Accept still held a slot: " + what
			wit["accepts_that_returned_errclosed_without_admission"] = s.suspects
			wit["model_if_those_accepts_kept_their_slot"] = s.FL
		}
		errCloseExplains := false
		for _, f := range s.FE {
			if !f.Acc && f.Count > truth {
				errCloseExplains = true
			}
		}
		if !leakExplains && errCloseExplains && len(s.errClosed) > 0 {
			key = "limiter:slot-kept-after-failed-conn-close"
			what = "after the Close of a connection whose inner Close returned an error the limiter behaves as if the connection still held its slot: " + what
			wit["connections_whose_inner_close_failed"] = s.errClosed
			wit["model_if_those_connections_kept_their_slot"] = s.FE
		}
		r.Violation(key, what, s.witness(wit))
		s.abandon(key)
		return
	}
	if !s.dead {
		r.Inconclusive(fmt.Sprintf("limiter: schedule %d kept moving at a quiescent point", s.Idx))
		s.abandon("unstable")
	}
}

func ids(cs []*call) (out []int) {
	for _, c := range cs {
		out = append(out, c.ID)
	}
	return out
}

// nudge closes a fresh, unused listener of the same limiter.
func (s *sched) nudge() {
	l := &hListener{m: s.m, idx: -1 - len(s.spares), name: fmt.Sprintf("c18-%d-s%d-spare%d", s.r.Seed, s.Idx, len(s.spares)), closeBegun: -1}
	l.info = &dnsserver.ServerInfo{Name: l.name, Addr: "127.0.0.1:0", Proto: dnsserver.ProtoDoT}
	l.limited = s.lim.Limit(l, l.info)
	s.spares = append(s.spares, l)
	_ = l.limited.Close()
	s.r.Bucket("limiter_diagnostic_broadcasts", 1)
}

type view struct {
	open, closed  []int
	pendingL      []int // listener index per pending inner accept, listener open
	pendingClosed []int // the same, listener already closed (failure not delivered yet)
	parked        int
	activeAccepts int
	openLs        []int
	closedLs      []int
}

func (s *sched) view() (v view) {
	m := s.m
	m.mu.Lock()
	defer m.mu.Unlock()
	for id := 1; id <= m.nextID; id++ {
		hc := m.conns[id]
		if hc == nil || hc.wrapper == nil {
			continue
		}
		if hc.closeIssued {
			v.closed = append(v.closed, id)
		} else {
			v.open = append(v.open, id)
		}
	}
	for _, c := range m.calls {
		if _, act := m.active[c.ID]; !act || c.Kind != kAccept {
			continue
		}
		v.activeAccepts++
		if c.innerBegin >= 0 && c.innerEnd >= 0 {
			continue // on its way back
		}
		if c.innerBegin >= 0 {
			if s.ls[c.L].closed {
				v.pendingClosed = append(v.pendingClosed, c.L)
			} else {
				v.pendingL = append(v.pendingL, c.L)
			}
		} else {
			v.parked++
		}
	}
	for _, l := range s.ls {
		if l.closeBegun >= 0 {
			v.closedLs = append(v.closedLs, l.idx)
		} else {
			v.openLs = append(v.openLs, l.idx)
		}
	}
	return v
}

// randomRound picks the actions of one round from the seeded generator and the
// current harness-side state.
func (s *sched) randomRound() []action {
	rng := s.rng
	v := s.view()
	n := 1
	switch x := rng.IntN(100); {
	case x < 50:
	case x < 80:
		n = 2
	case x < 95:
		n = 3
	default:
		n = 4
	}
	var acts []action
	usedConn := map[int]bool{}
	usedL := map[int]bool{}
	accepts := v.activeAccepts
	pend := append([]int(nil), v.pendingL...)
	pendClosed := append([]int(nil), v.pendingClosed...)
	for len(acts) < n {
		x := rng.IntN(100)
		switch {
		case x < 45: // accept
			if accepts >= maxActiveAccepts {
				break // too many accepts in flight: a close (below) instead
			}
			var l int
			if s.acceptOnClose && len(v.closedLs) > 0 && rng.IntN(4) == 0 {
				l = v.closedLs[rng.IntN(len(v.closedLs))]
			} else if len(v.openLs) > 0 {
				l = v.openLs[rng.IntN(len(v.openLs))]
			} else {
				break // no listener to accept on: a close (below) instead
			}
			acts = append(acts, action{Kind: "accept", L: l, PreDial: rng.IntN(4) != 0, CloseErr: closeErrMode(rng)})
			accepts++
			continue
		case x < 75:
		case x < 88: // dial, or let a pending inner accept fail
			if len(pendClosed) > 0 && rng.IntN(2) == 0 {
				acts = append(acts, action{Kind: "fail-pending", L: pendClosed[0]})
				pendClosed = pendClosed[1:]
				continue
			}
			if len(pend) > 0 {
				i := rng.IntN(len(pend))
				kind := "dial"
				if rng.IntN(5) == 0 {
					kind = "fail-pending" // temporary error, the listener stays open
				}
				acts = append(acts, action{Kind: kind, L: pend[i], CloseErr: closeErrMode(rng)})
				pend = append(pend[:i], pend[i+1:]...)
				continue
			}
			if len(v.openLs) > 0 && rng.IntN(3) == 0 {
				acts = append(acts, action{Kind: "dial", L: v.openLs[rng.IntN(len(v.openLs))]})
				continue
			}
		case x < 94: // close again a connection that was closed in an earlier round
			if len(v.closed) > 0 {
				id := v.closed[rng.IntN(len(v.closed))]
				if !usedConn[id] {
					usedConn[id] = true
					acts = append(acts, action{Kind: "stale-close", Conn: id, Times: 1 + rng.IntN(2), Concurrent: rng.IntN(2) == 0})
					continue
				}
			}
		default: // listener close
			if s.midClose && (len(v.openLs) >= 2 || (len(v.openLs) == 1 && s.roundsLeft <= 3)) {
				l := v.openLs[rng.IntN(len(v.openLs))]
				if len(pend) > 0 && rng.IntN(2) == 0 {
					l = pend[rng.IntN(len(pend))] // a listener with a pending inner accept
				}
				if !usedL[l] && s.ls[l].closeBegunByPlan == false {
					usedL[l] = true
					s.ls[l].closeBegunByPlan = true
					acts = append(acts, action{Kind: "listener-close", L: l, FailLate: rng.IntN(3) == 0})
					s.feat.lcloseMid = true
					continue
				}
			} else if s.midClose && len(v.closedLs) > 0 {
				l := v.closedLs[rng.IntN(len(v.closedLs))]
				if !usedL[l] {
					usedL[l] = true
					acts = append(acts, action{Kind: "listener-close", L: l})
					continue
				}
			}
		}
		// close (also the fall-back when the drawn action is not possible)
		var cand []int
		for _, id := range v.open {
			if !usedConn[id] {
				cand = append(cand, id)
			}
		}
		if len(cand) == 0 {
			if accepts < maxActiveAccepts && len(v.openLs) > 0 {
				acts = append(acts, action{Kind: "accept", L: v.openLs[rng.IntN(len(v.openLs))], PreDial: true})
				accepts++
				continue
			}
			if len(pend) > 0 {
				acts = append(acts, action{Kind: "dial", L: pend[0]})
				pend = pend[1:]
				continue
			}
			break
		}
		id := cand[rng.IntN(len(cand))]
		usedConn[id] = true
		times := 1
		switch y := rng.IntN(10); {
		case y < 6:
		case y < 9:
			times = 2
		default:
			times = 3
		}
		acts = append(acts, action{Kind: "close", Conn: id, Times: times, Concurrent: times > 1 && rng.IntN(2) == 0})
	}
	return acts
}

// closeErrMode draws how the inner Close of a new connection behaves.
func closeErrMode(rng *mrand.Rand) int {
	switch x := rng.IntN(100); {
	case x < 12:
		return 1
	case x < 20:
		return 2
	default:
		return 0
	}
}

// drain brings the limiter back to "nothing open, nothing pending", one
// action per round.
func (s *sched) drain() {
	for it := 0; it < 400 && !s.dead; it++ {
		v := s.view()
		switch {
		case len(v.pendingClosed) > 0:
			s.runRound(action{Kind: "fail-pending", L: v.pendingClosed[0]})
		case len(v.pendingL) > 0:
			s.runRound(action{Kind: "dial", L: v.pendingL[0]})
		case len(v.open) > 0:
			s.runRound(action{Kind: "close", Conn: v.open[0], Times: 1})
		default:
			return
		}
	}
}

// failedPendingProbe is scripted, from the empty state: listener B holds
// stop-1 connections, an accept of listener A is admitted and stays pending
// inside A's wrapped listener (count == stop, stopped), two accepts park on B,
// connections are closed until the count is resume+1 (still stopped).  Then
// A's inner Accept fails: with a temporary error (A stays open), with
// net.ErrClosed some time after A.Close() has returned (its broadcast came
// before the slot was given back), or with net.ErrClosed during A.Close().  The
// slot goes back, the count is at the resume threshold, the waiters on B must
// get in.
func (s *sched) failedPendingProbe() {
	if s.dead {
		return
	}
	a, b := s.addListener(), s.addListener()
	variant := s.rng.IntN(3)
	for i := 0; i < s.Stop-1 && !s.dead; i++ {
		s.runRound(action{Kind: "accept", L: b.idx, PreDial: true})
	}
	s.runRound(action{Kind: "accept", L: a.idx})
	if s.dead {
		return
	}
	const nWait = 2
	for i := 0; i < nWait; i++ {
		s.m.dial(b, 0)
	}
	for i := 0; i < nWait && !s.dead; i++ {
		s.runRound(action{Kind: "accept", L: b.idx})
	}
	closeN := max(0, s.Stop-1-s.Resume)
	for i := 0; i < closeN && !s.dead; i++ {
		v := s.view()
		if len(v.open) == 0 {
			break
		}
		s.runRound(action{Kind: "close", Conn: v.open[0], Times: 1})
	}
	if s.dead {
		return
	}
	v := s.view()
	if len(v.pendingL) == 1 && v.pendingL[0] == a.idx && v.parked == nWait && len(v.open) == s.Stop-1-closeN {
		s.r.Bucket("limiter_failed_pending_probes_set_up", 1)
	} else {
		// every deviation has already been reported by settle with its own key
		s.r.Bucket("limiter_failed_pending_probe_unexpected_shape", 1)
	}
	switch variant {
	case 0:
		s.runRound(action{Kind: "fail-pending", L: a.idx})
	case 1:
		s.runRound(action{Kind: "listener-close", L: a.idx, FailLate: true})
		s.runRound(action{Kind: "fail-pending", L: a.idx})
	default:
		s.runRound(action{Kind: "listener-close", L: a.idx})
	}
	s.drain()
}

// closeWindowProbe is scripted, from the empty state.  Listener A takes all
// `stop` slots with connections whose inner Close will fail.  An Accept on
// listener B finds that it must wait and is held at the limiter's own "accept
// waiting" log record, i.e. between the check of the wait condition and the
// sleep; B is closed meanwhile (Close either completes or blocks on the
// limiter's lock); the Accept is let go: it must return net.ErrClosed.  Then an
// Accept parks on A and the failing connections are closed, each twice: every
// one must give its slot back exactly once, so the waiter gets in.
func (s *sched) closeWindowProbe() {
	if s.dead {
		return
	}
	a, b := s.addListener(), s.addListener()
	b.closeErr = s.Idx%2 == 0
	for i := 0; i < s.Stop && !s.dead; i++ {
		s.runRound(action{Kind: "accept", L: a.idx, PreDial: true, CloseErr: 1 + i%2})
	}
	if s.dead {
		return
	}
	s.hookedCloseRound(b)
	if s.dead {
		return
	}
	s.m.dial(a, 0)
	s.runRound(action{Kind: "accept", L: a.idx})
	v := s.view()
	if v.parked == 1 && len(v.open) == s.Stop {
		s.r.Bucket("limiter_close_error_probes_set_up", 1)
	}
	for _, id := range v.open {
		s.runRound(action{Kind: "close", Conn: id, Times: 2, Concurrent: id%2 == 0})
	}
	s.drain()
}

// hookedCloseRound: see closeWindowProbe.
func (s *sched) hookedCloseRound(b *hListener) {
	m := s.m
	s.rounds = append(s.rounds, []action{{Kind: "accept-held-at-accept-waiting-record", L: b.idx}, {Kind: "listener-close", L: b.idx}})
	s.relFailed, s.relOther = 0, 0
	s.r.Bucket("limiter_rounds", 1)
	rel := make(chan struct{})
	released := false
	release := func() {
		if !released {
			released = true
			close(rel)
		}
	}
	defer release()
	c := m.newCall(kAccept, b.idx, 0)
	m.mu.Lock()
	s.hookCall, s.hookParked, s.hookRelease = c, false, rel
	m.mu.Unlock()
	start := make(chan struct{})
	go s.doAccept(c, start)
	close(start)
	// until the Accept is held at the record (or turns out never to get there)
	reached := false
	for polls := 0; polls < 400_000; polls++ {
		m.mu.Lock()
		reached = s.hookParked
		gid, begun, ended := c.gid, c.begin >= 0, c.end >= 0
		m.mu.Unlock()
		if reached || ended {
			break
		}
		if begun && polls%4 == 3 {
			if st, ok := snapshot()[gid]; ok && parkedStates[st.state] {
				m.mu.Lock()
				reached = s.hookParked
				m.mu.Unlock()
				if !reached {
					break // asleep somewhere else: the limiter does not log this record
				}
			}
		}
		time.Sleep(50 * time.Microsecond)
	}
	m.mu.Lock()
	s.hookCall = nil
	m.mu.Unlock()
	if !reached {
		s.r.Bucket("limiter_accept_waiting_record_not_reached", 1)
	}
	// close B now
	lc := m.newCall(kLClose, b.idx, 0)
	b.closeBegunByPlan = true
	start2 := make(chan struct{})
	go s.doLClose(lc, start2)
	close(start2)
	closedInWindow := false
	for polls := 0; polls < 400_000; polls++ {
		m.mu.Lock()
		gid, begun, ended := lc.gid, lc.begin >= 0, lc.end >= 0
		m.mu.Unlock()
		if ended {
			closedInWindow = true
			break
		}
		if begun && polls%4 == 3 {
			if st, ok := snapshot()[gid]; ok && parkedStates[st.state] {
				break // Close waits for the limiter's lock, which the held Accept owns
			}
		}
		time.Sleep(50 * time.Microsecond)
	}
	release()
	s.inHookRound = true
	s.settle()
	s.inHookRound = false
	if s.dead || !reached {
		return
	}
	m.mu.Lock()
	ok := c.end >= 0 && c.err != nil && errors.Is(c.err, net.ErrClosed)
	m.mu.Unlock()
	if ok {
		s.r.Bucket("limiter_listener_closed_while_accept_between_check_and_wait", 1)
		if b.closeErr {
			s.r.Bucket("limiter_listener_closed_while_accept_between_check_and_wait_inner_close_error", 1)
		}
		if closedInWindow {
			s.r.Bucket("limiter_listener_close_completed_inside_the_window", 1)
		} else {
			s.r.Bucket("limiter_listener_close_blocked_until_accept_slept", 1)
		}
	}
}

// probe is the scripted end of every schedule: from the empty state exactly
// stop accepts are admitted, two more wait; then either the listener is closed
// under the waiters or the connections are closed one by one.
func (s *sched) probe() {
	if s.dead {
		return
	}
	p := s.addListener()
	p.closeErr = s.Idx%3 != 0
	variant := s.rng.IntN(3)
	nDial := s.Stop + 2
	if variant == 2 {
		// the last admitted accept stays pending in the wrapped listener
		nDial = s.Stop - 1
	}
	for i := 0; i < nDial; i++ {
		s.m.dial(p, i%3)
	}
	for i := 0; i < s.Stop+2 && !s.dead; i++ {
		s.runRound(action{Kind: "accept", L: p.idx})
	}
	if s.dead {
		return
	}
	v := s.view()
	switch {
	case variant != 2 && len(v.open) == s.Stop && v.parked == 2:
		s.r.Bucket("limiter_probes_full_then_two_waiting", 1)
	case variant == 2 && len(v.open) == s.Stop-1 && len(v.pendingL) == 1 && v.parked == 2:
		s.r.Bucket("limiter_probes_full_with_pending_then_two_waiting", 1)
	default:
		// every deviation has already been reported by settle with its own key
		s.r.Bucket("limiter_probe_unexpected_shape", 1)
	}
	switch variant {
	case 0, 2:
		// close the listener under the waiters (and under the pending accept)
		s.runRound(action{Kind: "listener-close", L: p.idx})
		s.drain()
	default:
		// close the connections one by one: the waiters must get in
		s.drain()
		s.runRound(action{Kind: "listener-close", L: p.idx})
	}
	for _, l := range s.ls {
		s.runRound(action{Kind: "listener-close", L: l.idx})
	}
	s.drain()
	if s.dead {
		return
	}
	s.m.mu.Lock()
	left := len(s.m.active)
	truth := s.m.pending + s.m.open
	s.m.mu.Unlock()
	if left != 0 || truth != 0 {
		s.r.Inconclusive(fmt.Sprintf("limiter: schedule %d did not end empty (active=%d truth=%d)", s.Idx, left, truth))
	}
}

func (s *sched) cleanup() {
	for _, l := range s.ls {
		_ = l.limited.Close()
	}
	s.m.mu.Lock()
	var ws []net.Conn
	var raw []*hConn
	for _, hc := range s.m.conns {
		if hc.wrapper != nil && hc.innerCloses == 0 {
			ws = append(ws, hc.wrapper)
		} else if hc.innerCloses == 0 {
			raw = append(raw, hc)
		}
	}
	s.m.mu.Unlock()
	for _, w := range ws {
		_ = w.Close()
	}
	for _, hc := range raw {
		_ = hc.peer.Close()
		_ = hc.Conn.Close()
	}
	if s.dead {
		s.nudge()
		for i := 0; i < 40; i++ {
			s.m.mu.Lock()
			n := len(s.m.active)
			s.m.mu.Unlock()
			if n == 0 {
				break
			}
			time.Sleep(time.Millisecond)
		}
	}
	for _, set := range [][]*hListener{s.ls, s.spares} {
		for _, l := range set {
			p := l.info.Proto.String()
			metrics.ConnLimiterActiveStreamConns.DeleteLabelValues(l.name, p, l.info.Addr)
			metrics.StreamConnWaitDuration.DeleteLabelValues(l.name, p, l.info.Addr)
			metrics.StreamConnLifeDuration.DeleteLabelValues(l.name, p, l.info.Addr)
		}
	}
}

var pairs = func() (out [][2]int) {
	for stop := 1; stop <= 4; stop++ {
		for resume := 0; resume <= stop; resume++ {
			out = append(out, [2]int{stop, resume})
		}
	}
	return out
}()

func runSchedule(r *vkit.Run, idx int, lc *logCounter) {
	rng := r.Rand("limiter", idx)
	p := pairs[idx%len(pairs)]
	s := &sched{r: r, rng: rng, Idx: idx, Stop: p[0], Resume: p[1], K: 1 + (idx/len(pairs))%3}
	s.m = newMonitor(s.Stop)
	s.F = []mstate{{0, true}}
	s.FL = []mstate{{0, true}}
	s.FE = []mstate{{0, true}}
	s.midClose = rng.IntN(100) < 40
	s.yieldOnLog = rng.IntN(2) == 0
	s.acceptOnClose = s.midClose && rng.IntN(100) < 50
	lim, err := connlimiter.New(&connlimiter.Config{Logger: slog.New(&schedHandler{lc: lc, s: s}), Stop: uint64(s.Stop), Resume: uint64(s.Resume)})
	if err != nil {
		r.Violation("limiter:config-rejected", fmt.Sprintf("New rejects stop=%d resume=%d: %v", s.Stop, s.Resume, err), nil)
		return
	}
	s.lim = lim
	for i := 0; i < s.K; i++ {
		s.addListener()
	}
	defer s.cleanup()
	defer func() {
		if p := recover(); p != nil {
			r.Violation("panic:limiter", fmt.Sprint(p), s.witness(nil))
		}
	}()
	nRounds := 6 + rng.IntN(12)
	for i := 0; i < nRounds && !s.dead; i++ {
		s.roundsLeft = nRounds - i
		s.runRound(s.randomRound()...)
	}
	s.drain()
	s.failedPendingProbe()
	s.closeWindowProbe()
	s.probe()

	class := fmt.Sprintf("stop%d/resume%d/k%d/%s", s.Stop, s.Resume, s.K, s.feat)
	r.Eval(class, s.feat.stopped && s.feat.parked)
	r.Bucket("limiter_schedules", 1)
	if !s.dead {
		r.Bucket("limiter_schedules_completed", 1)
	}
	if s.feat.lcloseMid {
		r.Bucket("limiter_schedules_with_mid_listener_close", 1)
	}
	if idx%140 == 7 {
		r.Sample(map[string]any{"monitor": "limiter", "schedule": idx, "stop": s.Stop, "resume": s.Resume, "listeners": s.K,
			"features": s.feat.String(), "quiescent_points": s.quiescentPts, "abandoned": s.why, "rounds": s.rounds})
	}
}

func limiterMonitor(r *vkit.Run) {
	lc := &logCounter{}
	n := r.N(560, 6000)
	for i := 0; i < n; i++ {
		runSchedule(r, i, lc)
	}
	r.Bucket("limiter_log_accept_waiting", lc.waiting.Load())
	r.Bucket("limiter_log_accept_stopped_waiting", lc.stoppedWaiting.Load())
	r.Bucket("limiter_log_closed_conn", lc.closedConn.Load())
	// documented configuration limits
	if l, err := connlimiter.New(&connlimiter.Config{Logger: discard, Stop: 0, Resume: 0}); err == nil && l != nil {
		r.Extra("limiter_stop0", "accepted by New")
	} else {
		r.Extra("limiter_stop0", "rejected by New (documented: Stop must be greater than zero)")
	}
}

// ---------------------------------------------------------------------------
// Pipeline monitor
// ---------------------------------------------------------------------------

type pipeHandler struct {
	mu      sync.Mutex
	cur     map[string]int
	max     map[string]int
	entered map[string]int
	total   int
	token   chan struct{}
	open    chan struct{}
}

func (h *pipeHandler) reset() {
	h.mu.Lock()
	h.cur, h.max, h.entered = map[string]int{}, map[string]int{}, map[string]int{}
	h.total = 0
	h.token = make(chan struct{})
	h.open = make(chan struct{})
	h.mu.Unlock()
}

func (h *pipeHandler) ServeDNS(ctx context.Context, rw dnsserver.ResponseWriter, req *dns.Msg) error {
	key := rw.RemoteAddr().String()
	h.mu.Lock()
	h.cur[key]++
	h.entered[key]++
	h.total++
	if h.cur[key] > h.max[key] {
		h.max[key] = h.cur[key]
	}
	tok, open := h.token, h.open
	h.mu.Unlock()
	defer func() {
		h.mu.Lock()
		h.cur[key]--
		h.mu.Unlock()
	}()
	select {
	case <-tok:
	case <-open:
	}
	resp := new(dns.Msg).SetReply(req)
	if len(req.Question) == 1 {
		resp.Answer = append(resp.Answer, &dns.TXT{
			Hdr: dns.RR_Header{Name: req.Question[0].Name, Rrtype: dns.TypeTXT, Class: dns.ClassINET, Ttl: 10},
			Txt: []string{fmt.Sprintf("id=%d", req.Id)},
		})
	}
	return rw.WriteMsg(ctx, req, resp)
}

func (h *pipeHandler) snapshot() (total int, max map[string]int, entered map[string]int, cur map[string]int) {
	h.mu.Lock()
	defer h.mu.Unlock()
	max, entered, cur = map[string]int{}, map[string]int{}, map[string]int{}
	for k, v := range h.max {
		max[k] = v
	}
	for k, v := range h.entered {
		entered[k] = v
	}
	for k, v := range h.cur {
		cur[k] = v
	}
	return h.total, max, entered, cur
}

func selfSigned() (*tls.Config, error) {
	key, err := ecdsa.GenerateKey(elliptic.P256(), rand.Reader)
	if err != nil {
		return nil, err
	}
	tpl := x509.Certificate{
		SerialNumber: big.NewInt(18), Subject: pkix.Name{Organization: []string{"c18"}},
		NotBefore: time.Now().Add(-time.Hour), NotAfter: time.Now().Add(24 * time.Hour),
		KeyUsage: x509.KeyUsageDigitalSignature | x509.KeyUsageCertSign, ExtKeyUsage: []x509.ExtKeyUsage{x509.ExtKeyUsageServerAuth},
		BasicConstraintsValid: true, IsCA: true, DNSNames: []string{"c18.example"},
	}
	der, err := x509.CreateCertificate(rand.Reader, &tpl, &tpl, &key.PublicKey, key)
	if err != nil {
		return nil, err
	}
	return &tls.Config{Certificates: []tls.Certificate{{Certificate: [][]byte{der}, PrivateKey: key}}, MinVersion: tls.VersionTLS12}, nil
}

type pserver interface {
	Start(ctx context.Context) error
	Shutdown(ctx context.Context) error
	LocalTCPAddr() net.Addr
}

type clientRes struct {
	Conn      int            `json:"conn"`
	Local     string         `json:"local_addr"`
	Sent      int            `json:"sent"`
	Got       map[uint16]int `json:"-"`
	Answers   int            `json:"answers"`
	Mismatch  []string       `json:"mismatched,omitempty"`
	EOF       bool           `json:"eof"`
	ReadErr   string         `json:"read_err,omitempty"`
	WriteErr  string         `json:"write_err,omitempty"`
	Extra     int            `json:"extra_answers"`
	Stalled   bool           `json:"stalled"`
	DoneWrite bool           `json:"done_write"`
}

func qname(conn int, id uint16) string { return fmt.Sprintf("q%d.c%d.c18.example.", id, conn) }

func pipelineMonitor(r *vkit.Run) {
	tlsConf, err := selfSigned()
	if err != nil {
		r.Inconclusive("pipeline: cannot create a certificate: " + err.Error())
		return
	}
	reps := r.N(4, 40)
	caseIdx := 0
	for _, proto := range []string{"tcp", "tls"} {
		for _, n := range []int{1, 2, 5} {
			h := &pipeHandler{}
			h.reset()
			base := dnsserver.ConfigDNS{
				ConfigBase: dnsserver.ConfigBase{
					Name: fmt.Sprintf("c18-%s-%d", proto, n), Addr: "127.0.0.1:0", Handler: h, Network: dnsserver.NetworkTCP,
				},
				MaxPipelineEnabled: true,
				MaxPipelineCount:   uint(n),
				WriteTimeout:       30 * time.Second,
				ReadTimeout:        30 * time.Second,
			}
			var srv pserver
			if proto == "tcp" {
				srv = dnsserver.NewServerDNS(base)
			} else {
				srv = dnsserver.NewServerTLS(dnsserver.ConfigTLS{TLSConfig: tlsConf.Clone(), ConfigDNS: base})
			}
			if err = srv.Start(context.Background()); err != nil {
				r.Inconclusive(fmt.Sprintf("pipeline: %s server does not start: %v", proto, err))
				return
			}
			addr := srv.LocalTCPAddr().String()
			for rep := 0; rep < reps; rep++ {
				rng := r.Rand("pipeline", caseIdx)
				nconn := 1 + rng.IntN(2)
				bursts := make([]int, nconn)
				for i := range bursts {
					bursts[i] = 4*n + 8 + rng.IntN(40)
				}
				oneWrite := rng.IntN(2) == 0
				pipelineCase(r, "pipeline", caseIdx, proto, n, addr, h, bursts, oneWrite)
				caseIdx++
			}
			ctx, cancel := context.WithTimeout(context.Background(), 20*time.Second)
			_ = srv.Shutdown(ctx)
			cancel()
		}
	}
	pipelineTimeoutDirect(r, tlsConf)
	shutdownRaceMonitor(r, tlsConf)
}

// pipelineCase: scope is "pipeline" for servers built directly and
// "service-pipeline" for listeners built by dnssvc; it prefixes keys and buckets.
func pipelineCase(r *vkit.Run, scope string, idx int, proto string, n int, addr string, h *pipeHandler, bursts []int, oneWrite bool) {
	h.reset()
	desc := map[string]any{"monitor": scope, "case": idx, "proto": proto, "limit": n, "bursts": bursts, "one_write": oneWrite}
	conns := make([]net.Conn, len(bursts))
	for i := range bursts {
		var c net.Conn
		var err error
		if proto == "tcp" {
			c, err = net.DialTimeout("tcp", addr, 10*time.Second)
		} else {
			c, err = tls.DialWithDialer(&net.Dialer{Timeout: 10 * time.Second}, "tcp", addr, &tls.Config{InsecureSkipVerify: true})
		}
		if err != nil {
			r.Inconclusive(fmt.Sprintf(scope+": cannot connect to the %s server: %v", proto, err))
			return
		}
		conns[i] = c
		defer c.Close()
	}
	res := make([]*clientRes, len(bursts))
	var progress atomic.Int64
	var wg sync.WaitGroup
	stopRead := make(chan struct{})
	for i, c := range conns {
		cr := &clientRes{Conn: i, Local: c.LocalAddr().String(), Sent: bursts[i], Got: map[uint16]int{}}
		res[i] = cr
		// writer
		wg.Add(1)
		go func(i int, c net.Conn, cr *clientRes) {
			defer wg.Done()
			var all []byte
			for id := 1; id <= bursts[i]; id++ {
				q := new(dns.Msg)
				q.SetQuestion(qname(i, uint16(id)), dns.TypeTXT)
				q.Id = uint16(id)
				b, _ := q.Pack()
				var l [2]byte
				binary.BigEndian.PutUint16(l[:], uint16(len(b)))
				all = append(all, l[:]...)
				all = append(all, b...)
				if !oneWrite {
					if _, err := c.Write(all); err != nil {
						cr.WriteErr = err.Error()
						return
					}
					all = all[:0]
				}
			}
			if oneWrite {
				if _, err := c.Write(all); err != nil {
					cr.WriteErr = err.Error()
					return
				}
			}
			cr.DoneWrite = true
		}(i, c, cr)
		// reader
		wg.Add(1)
		go func(i int, c net.Conn, cr *clientRes) {
			defer wg.Done()
			for {
				var l [2]byte
				if _, err := io.ReadFull(c, l[:]); err != nil {
					select {
					case <-stopRead:
					default:
						cr.EOF = errors.Is(err, io.EOF) || errors.Is(err, io.ErrUnexpectedEOF)
						cr.ReadErr = err.Error()
					}
					return
				}
				buf := make([]byte, binary.BigEndian.Uint16(l[:]))
				if _, err := io.ReadFull(c, buf); err != nil {
					cr.ReadErr = err.Error()
					return
				}
				m := new(dns.Msg)
				if err := m.Unpack(buf); err != nil {
					cr.Mismatch = append(cr.Mismatch, "unparsable answer")
					progress.Add(1)
					continue
				}
				cr.Answers++
				cr.Got[m.Id]++
				if cr.Answers > cr.Sent {
					cr.Extra++
				}
				ok := m.Response && len(m.Question) == 1 && m.Question[0].Name == qname(i, m.Id) &&
					len(m.Answer) == 1
				if ok {
					t, isT := m.Answer[0].(*dns.TXT)
					ok = isT && len(t.Txt) == 1 && t.Txt[0] == fmt.Sprintf("id=%d", m.Id)
				}
				if !ok && len(cr.Mismatch) < 5 {
					cr.Mismatch = append(cr.Mismatch, fmt.Sprintf("id %d: %s", m.Id, strings.ReplaceAll(m.String(), "\n", " | ")))
				}
				progress.Add(1)
			}
		}(i, c, cr)
	}

	fail := func(key, what string, extra map[string]any) {
		w := map[string]any{}
		for k, v := range desc {
			w[k] = v
		}
		for k, v := range extra {
			w[k] = v
		}
		r.Violation(scope+":"+proto+":"+key, what, w)
	}

	// Phase 1: gate shut.  Wait until every connection has n queries inside
	// the handler (it must get there), then until nothing new enters for a
	// while (only makes the check more sensitive).
	reached := false
	for polls := 0; polls < 30000; polls++ {
		_, _, entered, _ := h.snapshot()
		cnt := 0
		for _, c := range conns {
			if entered[c.LocalAddr().String()] >= n {
				cnt++
			}
		}
		if cnt == len(conns) {
			reached = true
			break
		}
		time.Sleep(time.Millisecond)
	}
	if !reached {
		_, max, entered, _ := h.snapshot()
		close(h.open)
		close(stopRead)
		for _, c := range conns {
			_ = c.Close()
		}
		wg.Wait()
		r.Inconclusive(fmt.Sprintf(scope+": case %d: the first %d queries did not reach the handler (entered %v, max %v)", idx, n, entered, max))
		return
	}
	last, stable := -1, 0
	for polls := 0; polls < 400 && stable < 12; polls++ {
		total, _, _, _ := h.snapshot()
		if total == last {
			stable++
		} else {
			stable, last = 0, total
		}
		time.Sleep(time.Millisecond)
	}
	_, max1, entered1, _ := h.snapshot()
	// Phase 2: let queries through one by one (each token lets one handler
	// finish, after which the server may admit the next), then open the gate.
	sumB := 0
	for _, b := range bursts {
		sumB += b
	}
	tokens := sumB / 2
	for t := 0; t < tokens; t++ {
		select {
		case h.token <- struct{}{}:
		case <-time.After(20 * time.Second):
			t = tokens
		}
	}
	close(h.open)
	// Phase 3: all answers.  No-progress is counted in polls, not seconds.
	want := int64(sumB)
	idle, lastP := 0, int64(-1)
	for idle < 300 {
		p := progress.Load()
		if p >= want {
			break
		}
		if p == lastP {
			idle++
		} else {
			idle, lastP = 0, p
		}
		time.Sleep(100 * time.Millisecond)
	}
	if progress.Load() >= want {
		// a little room for answers that must not exist
		time.Sleep(5 * time.Millisecond)
	}
	total, max, entered, cur := h.snapshot()
	close(stopRead)
	for _, c := range conns {
		_ = c.SetReadDeadline(time.Now())
	}
	wg.Wait()

	r.Bucket(scope+"_cases", 1)
	r.Bucket(scope+"_cases_"+proto, 1)
	r.Bucket(scope+"_connections", int64(len(conns)))
	r.Bucket(scope+"_handler_entries", int64(total))
	atLimit := true
	for i, c := range conns {
		key := c.LocalAddr().String()
		cr := res[i]
		r.Bucket(scope+"_queries_sent", int64(cr.Sent))
		r.Bucket(scope+"_answers_received", int64(cr.Answers))
		if max[key] > n {
			fail("concurrency-above-limit",
				fmt.Sprintf("%d queries of one connection were inside the handler at the same time, limit %d", max[key], n),
				map[string]any{"conn": i, "max_concurrent": max[key], "max_concurrent_with_gate_shut": max1[key], "entered_with_gate_shut": entered1[key]})
		}
		if max[key] < n {
			atLimit = false
		}
		if cr.WriteErr != "" {
			r.Bucket(scope+"_client_write_errors", 1)
		}
		missing, dup := []uint16{}, []uint16{}
		for id := 1; id <= cr.Sent; id++ {
			switch g := cr.Got[uint16(id)]; {
			case g == 0:
				missing = append(missing, uint16(id))
			case g > 1:
				dup = append(dup, uint16(id))
			}
		}
		unknown := []uint16{}
		for id := range cr.Got {
			if id < 1 || int(id) > cr.Sent {
				unknown = append(unknown, id)
			}
		}
		det := map[string]any{"conn": i, "client": cr, "entered": entered[key], "in_handler_now": cur[key]}
		if len(dup) > 0 || cr.Extra > 0 {
			det["duplicated_ids"] = dup
			fail("answer-duplicated", "a query was answered more than once on the connection", det)
		}
		if len(unknown) > 0 {
			det["unknown_ids"] = unknown
			fail("answer-with-unknown-id", "an answer carries an ID that was never sent on this connection", det)
		}
		if len(cr.Mismatch) > 0 {
			fail("answer-mismatched", "an answer's question/payload does not belong to its ID", det)
		}
		if len(missing) > 0 {
			det["missing_ids"] = missing
			switch {
			case cr.WriteErr != "" || !cr.DoneWrite:
				r.Bucket(scope+"_ambiguous_client_write", 1)
			case cr.EOF:
				fail("connection-closed-before-all-answers", "the server closed the connection although queries were unanswered", det)
			case entered[key] < cr.Sent && cur[key] == 0:
				fail("stalled-with-free-slots", "the gate is open, no query of the connection is being processed, yet the remaining queries are not read (300 polls without progress)", det)
			default:
				fail("answers-missing", "the gate is open, every query has been processed or is being processed, but answers are missing (300 polls without progress)", det)
			}
		}
	}
	class := fmt.Sprintf("%s/%s/n%d/conns%d/onewrite=%v", scope, proto, n, len(conns), oneWrite)
	r.Eval(class, atLimit)
	if atLimit {
		r.Bucket(scope+"_cases_limit_reached", 1)
	}
	if idx%7 == 3 {
		d := map[string]any{"max_concurrent": max, "entered_with_gate_shut": entered1}
		for k, v := range desc {
			d[k] = v
		}
		r.Sample(d)
	}
}

// ---------------------------------------------------------------------------

func TestCheck(t *testing.T) {
	r := vkit.Start(t, "C18", "exploration")
	defer r.Finish()
	r.Rule("limiter: schedule i uses (stop,resume) = i-th pair of {0<=resume<=stop, 1<=stop<=4} (14 pairs, cyclic), K=1+(i/14)%3 listeners sharing one real Limiter; " +
		"6..17 seeded rounds of 1..4 concurrent actions (accept with/without a waiting client, dial, close x1..3 sequential or concurrent, close again later, " +
		"listener close / double close in 40% of schedules, accept on a closed listener in 20%; a pending inner accept may be dialled, fail with a temporary error, " +
		"or fail with net.ErrClosed during or some time after its listener's Close), each round followed by a quiescent point, then a drain, a scripted failed-pending-accept probe " +
		"(count at stop with one slot held by a pending accept of listener A, two accepts parked on listener B, A's inner Accept fails in one of the three ways and makes the limiter resume) and a scripted probe " +
		"(stop+2 accepts from empty, listener close under waiters or closes one by one). distinct = (stop,resume,K,feature set observed); " +
		"non-trivial = the stop threshold was reached AND an accept was parked in the limiter at a quiescent point. " +
		"pipeline: proto x limit n in {1,2,5} x seeded (1..2 connections, burst 4n+8..4n+47, one write or one write per query); distinct = (proto,n,connections,write mode); " +
		"non-trivial = every connection had exactly n queries inside the gated handler. " +
		"service: real dnssvc.Service with Config.ConnLimiter, 2 groups / 4 servers / 5 stream listeners (plain DNS over TCP and DoT, each with a server on bind addresses and a server whose bind data " +
		"carries its own ListenConfig; the DoT one has two bind-data entries); 2 seeded (stop,resume) pairs with stop > 5 (all 7 in thorough) x every listener as the one through which the connections are opened first; " +
		"real TCP/TLS client connections; distinct = (stop,resume,filler listener); non-trivial = `stop` answered connections were open at once and further connections to every listener were probed. " +
		"binary-pipeline: the real binary on config.dist.yaml with ratelimit.tcp.enabled x ratelimit.quic.enabled in {true,false}^2 and max_pipeline_count n = 2 (1, 2, 5 in thorough); one burst of n+6 never-cached queries on one connection " +
		"to every plain-DNS TCP and DoT address; observer = the stub upstream holding the burst's queries and recording the peak number of distinct names held at once; distinct = (proto, tcp.enabled, quic.enabled, n); " +
		"non-trivial = the limit was reached exactly (enabled) or exceeded (disabled: control)")
	r.Assume("quiescent point = one stop-the-world goroutine dump shows every actor with a call in progress parked in a blocking primitive (sync.Cond.Wait, channel, mutex), " +
		"all other calls have returned and the event log did not grow; the limiter has no timers or goroutines of its own")
	r.Assume("service monitor: a connection counts as accepted-and-open from the moment the client has its answer until the client closes it; the servers' idle timeout (1 h) never closes one first")
	r.Assume("stop=0 is outside the limiter's documented domain (New rejects it)")
	r.Assume("the active_stream_conns gauge lies between the number of open connections and open+pending at quiescent points")

	t0 := time.Now()
	limiterMonitor(r)
	t1 := time.Now()
	pipelineMonitor(r)
	t2 := time.Now()
	serviceMonitor(r)
	binaryPipelineMonitor(r)
	r.Extra("wall_s_limiter_pipeline_service", []float64{t1.Sub(t0).Seconds(), t2.Sub(t1).Seconds(), time.Since(t2).Seconds()})

	r.Require("limiter_schedules_completed", int64(r.N(100, 1000)))
	r.Require("limiter_quiescent_points", int64(r.N(4000, 40000)))
	r.Require("limiter_quiescent_points_with_parked_waiters", int64(r.N(800, 8000)))
	r.Require("limiter_waiters_released_after_resume", int64(r.N(300, 3000)))
	r.Require("limiter_waiters_released_by_listener_close", int64(r.N(150, 1500)))
	r.Require("limiter_repeated_close_calls", int64(r.N(300, 3000)))
	r.Require("limiter_pending_accepts_failed_by_listener_close", int64(r.N(40, 400)))
	r.Require("limiter_concurrent_rounds", int64(r.N(500, 5000)))
	r.Require("limiter_listener_closed_while_accept_between_check_and_wait", int64(r.N(300, 3000)))
	r.Require("limiter_listener_closed_while_accept_between_check_and_wait_inner_close_error", int64(r.N(150, 1500)))
	r.Require("limiter_waiters_released_by_listener_close_with_inner_close_error", int64(r.N(200, 2000)))
	r.Require("limiter_connections_closed_with_inner_close_error", int64(r.N(1000, 10000)))
	r.Require("limiter_close_error_probes_set_up", int64(r.N(300, 3000)))
	r.Require("limiter_failed_pending_accept_resumed_limiter_with_waiters_elsewhere", int64(r.N(300, 3000)))
	r.Require("limiter_failed_pending_accept_resumed_limiter_with_waiters_elsewhere_transient", int64(r.N(60, 600)))
	r.Require("limiter_failed_pending_accept_resumed_limiter_with_waiters_elsewhere_closed-late", int64(r.N(60, 600)))
	r.Require("limiter_failed_pending_accept_resumed_limiter_with_waiters_elsewhere_closed", int64(r.N(60, 600)))
	r.Require("service_cases_stop_reached", int64(r.N(8, 28)))
	r.Require("service_dot_exchanges_served_after_failed_handshakes", int64(r.N(24, 84)))
	r.Require("service_further_connections_not_served_while_stopped_"+flavLC, int64(r.N(40, 140)))
	r.Require("service_further_connections_not_served_while_stopped_"+flavAddr, int64(r.N(25, 90)))
	r.Require("service_cases_waiting_connection_served_after_resume", int64(r.N(8, 28)))
	r.Require("service_pipeline_slot_wait_timeouts_exercised", int64(r.N(5, 14)))
	r.Require("service_connections_served_after_pipeline_slot_wait_timeouts", int64(r.N(4, 10)))
	r.Require("shutdown_connections_accepted_during_shutdown", int64(r.N(3, 7)))
	r.Require("shutdown_slot_released_after_shutdown", int64(r.N(3, 7)))
	r.Require("binary-pipeline_bursts_limit_reached_tls", int64(r.N(1, 3)))
	r.Require("binary-pipeline_bursts_limit_reached_dns", int64(r.N(1, 3)))
	r.Require("binary-pipeline_control_bursts_above_limit_tls", 1)
	r.Require("service-pipeline_cases_limit_reached", int64(r.N(5, 15)))
	r.Require("service-pipeline_cases_tls", int64(r.N(3, 9)))
	r.Require("service-pipeline_cases_tcp", int64(r.N(2, 6)))
	r.Require("pipeline_pipeline_slot_wait_timeouts_exercised", int64(r.N(3, 10)))
	r.Require("pipeline_connections_served_after_pipeline_slot_wait_timeouts", int64(r.N(2, 6)))
	r.Require("pipeline_cases_limit_reached", int64(r.N(12, 120)))
	r.Require("pipeline_answers_received", int64(r.N(250, 2500)))
}
