package c18

// Pipeline limit and connection limiter together: a connection with a full
// pipeline (n slow queries being processed) sends one more query; that query
// waits for a pipeline slot until its request (handle) timeout expires and the
// server gives the connection up.  Whatever the server does with the queries,
// the connection itself must be released exactly once: after the slow queries
// have finished and the client is gone its limiter slot is free, the gauge is
// back at the idle value and later connections are served.
//
// The slow queries are slow because the handler holds them at a gate, not
// because of a sleep; the gate stays shut for several request timeouts.  Whether
// the extra query really ran into its timeout is read off the outcome (it got
// no answer); an extra query that was answered means the case was not
// exercised, which is counted, never judged.

import (
	"context"
	"crypto/tls"
	"encoding/binary"
	"errors"
	"fmt"
	"io"
	"net"
	"strings"
	"sync"
	"time"

	"github.com/AdguardTeam/AdGuardDNS/internal/connlimiter"
	"github.com/AdguardTeam/AdGuardDNS/internal/dnsserver"
	"github.com/AdguardTeam/AdGuardDNS/internal/dnsserver/netext"
	"github.com/AdguardTeam/AdGuardDNS/internal/metrics"
	"github.com/AdguardTeam/AdGuardDNS/verif/vkit"
	"github.com/miekg/dns"
	dto "github.com/prometheus/client_model/go"
)

const (
	ptTimeout = 120 * time.Millisecond // request (handle) timeout of the servers in these cases
	ptHold    = 4 * ptTimeout          // how long the gate stays shut after the slow queries are in
)

// slowHandler answers at once, except that queries for slow.* wait at the gate.
type slowHandler struct {
	mu      sync.Mutex
	gate    chan struct{}
	entered int
}

func (h *slowHandler) arm() {
	h.mu.Lock()
	h.gate = make(chan struct{})
	h.entered = 0
	h.mu.Unlock()
}

func (h *slowHandler) open() {
	h.mu.Lock()
	if h.gate != nil {
		close(h.gate)
		h.gate = nil
	}
	h.mu.Unlock()
}

func (h *slowHandler) shut() bool {
	h.mu.Lock()
	defer h.mu.Unlock()
	return h.gate != nil
}

func (h *slowHandler) nEntered() int {
	h.mu.Lock()
	defer h.mu.Unlock()
	return h.entered
}

func (h *slowHandler) ServeDNS(ctx context.Context, rw dnsserver.ResponseWriter, req *dns.Msg) error {
	if len(req.Question) == 1 && strings.HasPrefix(req.Question[0].Name, "slow.") {
		h.mu.Lock()
		h.entered++
		g := h.gate
		h.mu.Unlock()
		if g != nil {
			<-g
		}
	}
	return rw.WriteMsg(ctx, req, new(dns.Msg).SetReply(req))
}

type ptTarget struct {
	Name  string `json:"listener"`
	Addr  string `json:"addr"`
	TLS   bool   `json:"tls"`
	N     int    `json:"pipeline_limit"`
	h     *slowHandler
	gauge func() float64 // the limiter's gauge summed over the listeners of the limiter
}

type burstRes struct {
	SlowEntered   int  `json:"slow_queries_in_handler"`
	ExtraAnswered bool `json:"extra_query_answered"`
	SlowAnswered  int  `json:"slow_queries_answered"`
	ServerClosed  bool `json:"server_closed_connection"`
	// ExtraWhileFull: the extra query was answered while the gate was shut and
	// all N slow queries of the same connection were parked in the handler.
	ExtraWhileFull bool   `json:"extra_query_answered_while_pipeline_full"`
	ReadErr        string `json:"read_end"`
}

func ptDial(t *ptTarget, tlsClient *tls.Config) (net.Conn, error) {
	raw, err := net.DialTimeout("tcp", t.Addr, 20*time.Second)
	if err != nil {
		return nil, err
	}
	if !t.TLS {
		return raw, nil
	}
	tc := tls.Client(raw, tlsClient)
	_ = raw.SetDeadline(time.Now().Add(20 * time.Second))
	if err = tc.Handshake(); err != nil {
		_ = raw.Close()
		return nil, err
	}
	_ = raw.SetDeadline(time.Time{})
	return tc, nil
}

func ptQuery(name string, id uint16) []byte {
	q := new(dns.Msg)
	q.SetQuestion(name, dns.TypeTXT)
	q.Id = id
	b, _ := q.Pack()
	out := make([]byte, 2+len(b))
	binary.BigEndian.PutUint16(out, uint16(len(b)))
	copy(out[2:], b)
	return out
}

func ptRead(c net.Conn) (*dns.Msg, error) {
	var l [2]byte
	if _, err := io.ReadFull(c, l[:]); err != nil {
		return nil, err
	}
	b := make([]byte, binary.BigEndian.Uint16(l[:]))
	if _, err := io.ReadFull(c, b); err != nil {
		return nil, err
	}
	m := new(dns.Msg)
	return m, m.Unpack(b)
}

// burst runs one full-pipeline-plus-one history on a fresh connection and
// leaves with the client side closed.  ok=false: the slow queries never reached
// the handler (no slot for the connection, for instance): nothing to judge.
func (t *ptTarget) burst(tlsClient *tls.Config) (res burstRes, ok bool, err error) {
	t.h.arm()
	defer t.h.open()
	c, err := ptDial(t, tlsClient)
	if err != nil {
		return res, false, err
	}
	defer c.Close()
	var buf []byte
	for i := 0; i < t.N; i++ {
		buf = append(buf, ptQuery(fmt.Sprintf("slow.q%d.c18pt.example.", i), uint16(i+1))...)
	}
	buf = append(buf, ptQuery("extra.c18pt.example.", 1000)...)
	if _, err = c.Write(buf); err != nil {
		return res, false, nil
	}
	for polls := 0; polls < 10000 && t.h.nEntered() < t.N; polls++ {
		time.Sleep(time.Millisecond)
	}
	res.SlowEntered = t.h.nEntered()
	if res.SlowEntered < t.N {
		return res, false, nil
	}
	// While the gate is shut nothing but the extra query can be answered; an
	// answer now means it was processed next to N parked queries.
	holdEnd := time.Now().Add(ptHold)
	for time.Now().Before(holdEnd) {
		_ = c.SetReadDeadline(holdEnd)
		m, rerr := ptRead(c)
		if rerr != nil {
			var ne net.Error
			if !(errors.As(rerr, &ne) && ne.Timeout()) {
				res.ReadErr = rerr.Error()
				res.ServerClosed = true
				return res, true, nil
			}
			break
		}
		if m.Id == 1000 {
			res.ExtraAnswered = true
			res.ExtraWhileFull = t.h.shut() && t.h.nEntered() >= t.N
		}
	}
	t.h.open()
	// what the server still sends, until it closes the connection or goes quiet
	for {
		_ = c.SetReadDeadline(time.Now().Add(1500 * time.Millisecond))
		m, rerr := ptRead(c)
		if rerr != nil {
			res.ReadErr = rerr.Error()
			var ne net.Error
			res.ServerClosed = !(errors.As(rerr, &ne) && ne.Timeout())
			break
		}
		if m.Id == 1000 {
			res.ExtraAnswered = true
		} else {
			res.SlowAnswered++
		}
	}
	return res, true, nil
}

// exchange: an ordinary query on a fresh connection, up to 8 attempts of at
// most a second each (the request timeout of these servers is short, so on a
// busy machine a single answer may legitimately be lost).  A connection that
// cannot get a limiter slot is never answered, however often one tries.
func (t *ptTarget) exchange(tlsClient *tls.Config) (served bool, err error) {
	for attempt := 0; attempt < 8; attempt++ {
		raw, derr := net.DialTimeout("tcp", t.Addr, 20*time.Second)
		if derr != nil {
			return false, derr
		}
		_ = raw.SetDeadline(time.Now().Add(time.Second))
		var c net.Conn = raw
		if t.TLS {
			tc := tls.Client(raw, tlsClient)
			if tc.Handshake() != nil {
				_ = raw.Close()
				continue
			}
			c = tc
		}
		if _, werr := c.Write(ptQuery("fast.c18pt.example.", 7)); werr == nil {
			if m, rerr := ptRead(c); rerr == nil && m.Id == 7 {
				_ = c.Close()
				return true, nil
			}
		}
		_ = c.Close()
	}
	return false, nil
}

// gaugeBack polls until the gauge is at most idle.
func (t *ptTarget) gaugeBack(idle float64) (last float64, back bool) {
	for polls := 0; polls < 300; polls++ {
		last = t.gauge()
		if last <= idle {
			return last, true
		}
		time.Sleep(time.Duration(1+polls/8) * time.Millisecond)
	}
	return last, false
}

// ptRun: `bursts` full-pipeline-plus-one histories on t, then an ordinary
// exchange.  It returns false after a violation.
func ptRun(r *vkit.Run, where string, t *ptTarget, tlsClient *tls.Config, bursts int, idle float64, gaugeTells bool, desc map[string]any) bool {
	var hist []burstRes
	for b := 0; b < bursts; b++ {
		var res burstRes
		ok := false
		for try := 0; try < 3; try++ {
			var err error
			res, ok, err = t.burst(tlsClient)
			if err != nil {
				r.Inconclusive(fmt.Sprintf("%s: cannot connect to %s: %v", where, t.Addr, err))
				return false
			}
			if ok && res.ExtraWhileFull {
				w := map[string]any{"target": t, "burst": res}
				for k, v := range desc {
					w[k] = v
				}
				r.Violation(where+":pipeline-bound-exceeded:query-processed-while-pipeline-full",
					fmt.Sprintf("%s: pipeline limit %d: %d queries of one connection were parked inside the handler (gate shut) and a further query of the same connection was processed and answered all the same: %d at the same time",
						t.Name, t.N, t.N, t.N+1),
					w)
				return false
			}
			if ok && !res.ExtraAnswered {
				break
			}
			r.Bucket(where+"_pipeline_bursts_not_exercised", 1)
		}
		hist = append(hist, res)
		if !ok || res.ExtraAnswered {
			continue
		}
		r.Bucket(where+"_pipeline_slot_wait_timeouts_exercised", 1)
		if res.ServerClosed {
			r.Bucket(where+"_pipeline_slot_wait_timeouts_server_closed_connection", 1)
		}
		if gaugeTells {
			if g, back := t.gaugeBack(idle); !back {
				w := map[string]any{"target": t, "bursts": hist, "gauge": g, "idle_gauge": idle}
				for k, v := range desc {
					w[k] = v
				}
				r.Violation(where+":connection-slot-not-released-after-pipeline-slot-wait-timeout",
					fmt.Sprintf("%s: pipeline limit %d: %d slow queries were being processed, one more query waited for a pipeline slot beyond the request timeout (it was never answered); "+
						"the slow queries have finished and the client has closed the connection, but the limiter's active-connections gauge stays at %v (idle value %v, 300 polls ~6 s): the connection was never released",
						t.Name, t.N, t.N, g, idle),
					w)
				return false
			}
			r.Bucket(where+"_gauge_back_to_idle_after_pipeline_slot_wait_timeout", 1)
		}
	}
	served, err := t.exchange(tlsClient)
	if err != nil {
		r.Inconclusive(fmt.Sprintf("%s: %v", where, err))
		return false
	}
	exercised := 0
	for _, h := range hist {
		if h.SlowEntered == t.N && !h.ExtraAnswered {
			exercised++
		}
	}
	if !served {
		w := map[string]any{"target": t, "bursts": hist}
		for k, v := range desc {
			w[k] = v
		}
		r.Violation(where+":connection-not-served-after-pipeline-slot-wait-timeouts",
			fmt.Sprintf("%s: after %d connection(s) on which a query waited for a pipeline slot beyond the request timeout, all of them closed by their clients, "+
				"an ordinary connection to the same listener is not served (8 attempts of 1 s): those connections still hold their limiter slots", t.Name, exercised),
			w)
		return false
	}
	if exercised > 0 {
		r.Bucket(where+"_connections_served_after_pipeline_slot_wait_timeouts", 1)
	}
	return true
}

// pipelineTimeoutService drives the history through dnssvc.
func pipelineTimeoutService(r *vkit.Run, tlsClient, tlsServer *tls.Config) {
	type pc struct {
		shape        string
		stop, resume int
		pipeline     uint
	}
	cases := []pc{{"one-dns", 1, 1, 1}, {"one-dot", 1, 1, 2}, {"pair", 3, 2, 1}}
	if r.Thorough() {
		cases = append(cases, pc{"one-dot", 1, 0, 1}, pc{"one-dns", 2, 1, 2}, pc{"pair", 4, 2, 2}, pc{"pair", 3, 3, 1})
	}
	for ci, c := range cases {
		h := &slowHandler{}
		svc, ls, err := buildService(c.stop, c.resume, tlsServer, svcOpts{shape: c.shape, handleTimeout: ptTimeout, pipeline: c.pipeline, handler: h})
		if err != nil {
			r.Inconclusive(fmt.Sprintf("service: pipeline-timeout case %d: cannot build/start dnssvc: %v", ci, err))
			continue
		}
		gauge := func() float64 {
			sum := 0.0
			for _, l := range ls {
				var d dto.Metric
				if metrics.ConnLimiterActiveStreamConns.WithLabelValues(l.confName, l.Proto, l.confAddr).Write(&d) == nil {
					sum += d.GetGauge().GetValue()
				}
			}
			return sum
		}
		nL := len(ls)
		idle := float64(min(nL, c.stop))
		// with stop <= number of listeners an open connection and a pending
		// accept look the same in the gauge
		gaugeTells := c.stop > nL
		desc := map[string]any{"monitor": "service", "phase": "pipeline-timeout", "case": ci, "shape": c.shape, "stop": c.stop, "resume": c.resume,
			"request_timeout_ms": ptTimeout.Milliseconds(), "gate_shut_ms": ptHold.Milliseconds(), "listeners": ls}
		okAll := true
		for _, l := range ls {
			t := &ptTarget{Name: l.Server + "/" + l.Proto + "/" + l.Flavour, Addr: l.Addr, TLS: l.tls, N: int(c.pipeline), h: h, gauge: gauge}
			// stop-L+1 leaked connections through one listener leave it without
			// a slot for good
			bursts := max(1, c.stop-nL+1)
			if !ptRun(r, "service", t, tlsClient, bursts, idle, gaugeTells, desc) {
				okAll = false
				break
			}
		}
		r.Eval(fmt.Sprintf("service/pipeline-timeout/%s/stop%d/resume%d/n%d", c.shape, c.stop, c.resume, c.pipeline), okAll)
		if ci == 0 {
			r.Sample(desc)
		}
		ctx, cancel := context.WithTimeout(context.Background(), 5*time.Second)
		_ = svc.Shutdown(ctx)
		cancel()
		if !okAll {
			return // the same thing again would only cost time
		}
	}
}

// pipelineTimeoutDirect drives the same history against ServerDNS / ServerTLS
// built directly on a limited listen config.
func pipelineTimeoutDirect(r *vkit.Run, tlsServer *tls.Config) {
	tlsClient := &tls.Config{InsecureSkipVerify: true}
	ns := []int{1, 2}
	if r.Thorough() {
		ns = []int{1, 2, 5}
	}
	idx := 0
	for _, proto := range []string{"tcp", "tls"} {
		for _, n := range ns {
			idx++
			if !r.Thorough() && (idx == 2 || idx == 3) {
				continue // quick: tcp/n=1 and tls/n=2
			}
			lim, err := connlimiter.New(&connlimiter.Config{Logger: discard, Stop: 2, Resume: 1})
			if err != nil {
				r.Inconclusive("pipeline: " + err.Error())
				return
			}
			h := &slowHandler{}
			name := fmt.Sprintf("c18-pt-%s-%d-%d", proto, n, r.Seed)
			base := dnsserver.ConfigDNS{
				ConfigBase: dnsserver.ConfigBase{
					Name: name, Addr: "127.0.0.1:0", Handler: h, Network: dnsserver.NetworkTCP,
					RequestContext: dnsserver.NewTimeoutContextConstructor(ptTimeout),
					ListenConfig:   connlimiter.NewListenConfig(netext.DefaultListenConfig(nil), lim),
				},
				MaxPipelineEnabled: true, MaxPipelineCount: uint(n),
				ReadTimeout: 30 * time.Second, WriteTimeout: 30 * time.Second, TCPIdleTimeout: time.Hour,
			}
			var srv pserver
			p := dnsserver.ProtoDNS
			if proto == "tcp" {
				srv = dnsserver.NewServerDNS(base)
			} else {
				p = dnsserver.ProtoDoT
				srv = dnsserver.NewServerTLS(dnsserver.ConfigTLS{TLSConfig: tlsServer.Clone(), ConfigDNS: base})
			}
			if err = srv.Start(context.Background()); err != nil {
				r.Inconclusive(fmt.Sprintf("pipeline: %s server does not start: %v", proto, err))
				return
			}
			gauge := func() float64 {
				var d dto.Metric
				if metrics.ConnLimiterActiveStreamConns.WithLabelValues(name, p.String(), "127.0.0.1:0").Write(&d) == nil {
					return d.GetGauge().GetValue()
				}
				return 0
			}
			t := &ptTarget{Name: name, Addr: srv.LocalTCPAddr().String(), TLS: proto == "tls", N: n, h: h, gauge: gauge}
			desc := map[string]any{"monitor": "pipeline", "phase": "pipeline-timeout", "proto": proto, "limit": n, "stop": 2, "resume": 1,
				"request_timeout_ms": ptTimeout.Milliseconds(), "gate_shut_ms": ptHold.Milliseconds()}
			ok := ptRun(r, "pipeline", t, tlsClient, 2, 1, true, desc)
			r.Eval(fmt.Sprintf("pipeline/pipeline-timeout/%s/n%d", proto, n), ok)
			ctx, cancel := context.WithTimeout(context.Background(), 5*time.Second)
			_ = srv.Shutdown(ctx)
			cancel()
			if !ok {
				return
			}
		}
	}
}
