// Package stack builds the real AdGuard DNS middleware stack
// (dnssvc.NewHandlers) around recording fakes, so that checks can inject
// requests at the handler boundary and observe every downstream side effect
// per request.
package stack

import (
	"context"
	"fmt"
	"io"
	"log/slog"
	"net"
	"net/netip"
	"net/url"
	"sync"
	"sync/atomic"
	"time"

	"github.com/AdguardTeam/AdGuardDNS/internal/access"
	"github.com/AdguardTeam/AdGuardDNS/internal/agd"
	"github.com/AdguardTeam/AdGuardDNS/internal/agdcache"
	"github.com/AdguardTeam/AdGuardDNS/internal/dnscheck"
	"github.com/AdguardTeam/AdGuardDNS/internal/dnsmsg"
	"github.com/AdguardTeam/AdGuardDNS/internal/dnsserver"
	"github.com/AdguardTeam/AdGuardDNS/internal/dnsserver/ratelimit"
	"github.com/AdguardTeam/AdGuardDNS/internal/dnssvc"
	"github.com/AdguardTeam/AdGuardDNS/internal/filter"
	"github.com/AdguardTeam/AdGuardDNS/internal/geoip"
	"github.com/AdguardTeam/AdGuardDNS/internal/profiledb"
	"github.com/AdguardTeam/AdGuardDNS/internal/querylog"
	"github.com/AdguardTeam/golibs/container"
	"github.com/AdguardTeam/golibs/netutil"
	"github.com/miekg/dns"
	"github.com/prometheus/client_golang/prometheus"
)

// Logger returns a logger that discards everything.
func Logger() *slog.Logger { return slog.New(slog.NewTextHandler(io.Discard, nil)) }

// Trace is everything the fakes observed for one request (keyed by the
// agd.RequestID that Serve puts into the context).
type Trace struct {
	mu sync.Mutex

	// UpstreamReqs are packed copies of the requests that reached the terminal
	// (upstream) handler, UpstreamECS the ECS option seen in each.
	UpstreamReqs []*dns.Msg
	UpstreamRI   []RISnapshot
	// FilterForConfig counts filter.Storage.ForConfig calls.
	FilterForConfig int
	FilterRequests  int
	FilterResponses int
	QueryLog        []*querylog.Entry
	Bill            []BillRec
	RuleStat        []RuleRec
	DNSDB           int
	DNSCheck        int
	HashMatch       int
	Errors          []string
	GlobalRLChecks  int
	GlobalRLCounts  int
}

// RISnapshot is a copy of the interesting fields of agd.RequestInfo at the
// moment the terminal handler ran (the original is pooled and must not be
// retained).
type RISnapshot struct {
	ProfileID agd.ProfileID
	DeviceID  agd.DeviceID
	Result    string // "", "ok", "authfail", "error", "unknown-dedicated"
	Host      string
	QType     uint16
	QClass    uint16
	RemoteIP  netip.Addr
	Location  *geoip.Location
	ECS       *dnsmsg.ECS
	Proto     agd.Protocol
	Server    agd.ServerName
}

// BillRec is one billstat.Recorder.Record call.
type BillRec struct {
	Device agd.DeviceID
	Ctry   geoip.Country
	ASN    geoip.ASN
	Start  time.Time
	Proto  agd.Protocol
}

// RuleRec is one rulestat Collect call.
type RuleRec struct {
	ID   filter.ID
	Text filter.RuleText
}

// SideEffects returns the number of downstream side effects of any kind
// (used by "leaves no trace" oracles).
func (t *Trace) SideEffects() int {
	t.mu.Lock()
	defer t.mu.Unlock()
	return len(t.UpstreamReqs) + t.FilterForConfig + t.FilterRequests + t.FilterResponses +
		len(t.QueryLog) + len(t.Bill) + len(t.RuleStat) + t.DNSDB + t.DNSCheck + t.HashMatch
}

// Options configures a Stack.  Zero values select neutral fakes.
type Options struct {
	Cache            *dnssvc.CacheConfig
	CacheManager     agdcache.Manager
	Cloner           *dnsmsg.Cloner
	Messages         *dnsmsg.Constructor
	FilterStorage    filter.Storage
	ProfileDB        profiledb.Interface
	GeoIP            geoip.Interface
	AccessManager    access.Interface
	RateLimit        ratelimit.Interface
	HashMatcher      filter.HashMatcher
	DNSCheck         dnscheck.Interface
	Upstream         UpstreamFunc
	QueryLog         querylog.Interface // additionally written to (after recording)
	ServerGroups     []*agd.ServerGroup
	FilteringGroups  map[agd.FilteringGroupID]*agd.FilteringGroup
	EDEEnabled       bool
	SDE              *dnsmsg.StructuredDNSErrorsConfig
	MetricsNamespace string
	// Yield, if set, is called by the fakes between middlewares (used to widen
	// interleavings in concurrent runs).
	Yield func()
}

// UpstreamFunc produces the upstream answer for a request; returning nil
// means "write nothing"; an error is returned from the handler.
type UpstreamFunc func(ctx context.Context, req *dns.Msg, ri *agd.RequestInfo) (resp *dns.Msg, err error)

// Stack is a constructed handler set plus the recorders.
type Stack struct {
	Handlers dnssvc.Handlers
	Opts     *Options
	Cloner   *dnsmsg.Cloner

	mu     sync.Mutex
	traces map[agd.RequestID]*Trace
	orphan *Trace

	upstreamCalls atomic.Int64
}

var nsCounter atomic.Int64

// DefaultMessages returns a constructor like the production default (null-IP
// blocking, 10 s TTL).
func DefaultMessages(cloner *dnsmsg.Cloner, ede bool) *dnsmsg.Constructor {
	c, err := dnsmsg.NewConstructor(&dnsmsg.ConstructorConfig{
		Cloner:              cloner,
		BlockingMode:        &dnsmsg.BlockingModeNullIP{},
		StructuredErrors:    SDE(false),
		FilteredResponseTTL: 10 * time.Second,
		EDEEnabled:          ede,
	})
	if err != nil {
		panic(err)
	}
	return c
}

// SDE returns a structured-DNS-errors configuration.
func SDE(enabled bool) *dnsmsg.StructuredDNSErrorsConfig {
	c := &dnsmsg.StructuredDNSErrorsConfig{Enabled: enabled}
	if enabled {
		c.Contact = []*url.URL{{Scheme: "mailto", Opaque: "support@dns.example"}}
		c.Justification = "Filtered by AdGuard DNS"
		c.Organization = "Test Org"
	}
	return c
}

// New builds the stack.
func New(o *Options) (*Stack, error) {
	s := &Stack{Opts: o, traces: map[agd.RequestID]*Trace{}, orphan: &Trace{}}
	if o.Cloner == nil {
		o.Cloner = dnsmsg.NewCloner(dnsmsg.EmptyClonerStat{})
	}
	s.Cloner = o.Cloner
	if o.SDE == nil {
		o.SDE = SDE(false)
	}
	if o.Messages == nil {
		o.Messages = DefaultMessages(o.Cloner, o.EDEEnabled)
	}
	if o.Cache == nil {
		o.Cache = &dnssvc.CacheConfig{Type: dnssvc.CacheTypeNone}
	}
	if o.CacheManager == nil {
		o.CacheManager = agdcache.EmptyManager{}
	}
	if o.GeoIP == nil {
		o.GeoIP = NewGeo()
	}
	if o.AccessManager == nil {
		o.AccessManager = noAccess{}
	}
	if o.ProfileDB == nil {
		o.ProfileDB = NewMapDB()
	}
	if o.FilterStorage == nil {
		o.FilterStorage = emptyStorage{}
	}
	if o.Upstream == nil {
		o.Upstream = DefaultUpstream
	}
	if o.MetricsNamespace == "" {
		o.MetricsNamespace = fmt.Sprintf("verif%d", nsCounter.Add(1))
	}
	// Several constructors use promauto on the default registerer.
	reg := prometheus.NewRegistry()
	prometheus.DefaultRegisterer = reg
	prometheus.DefaultGatherer = reg

	var rl ratelimit.Interface = &recRateLimit{s: s, inner: o.RateLimit}
	var hm filter.HashMatcher = &recHashMatcher{s: s, inner: o.HashMatcher}
	var dc dnscheck.Interface = &recDNSCheck{s: s, inner: o.DNSCheck}

	hc := &dnssvc.HandlersConfig{
		BaseLogger:           Logger(),
		Cloner:               o.Cloner,
		Cache:                o.Cache,
		HumanIDParser:        agd.NewHumanIDParser(),
		Messages:             o.Messages,
		PluginRegistry:       nil,
		StructuredErrors:     o.SDE,
		AccessManager:        o.AccessManager,
		BillStat:             &recBill{s: s},
		CacheManager:         o.CacheManager,
		DNSCheck:             dc,
		DNSDB:                &recDNSDB{s: s},
		ErrColl:              &recErrColl{s: s},
		FilterStorage:        &recStorage{s: s, inner: o.FilterStorage},
		GeoIP:                o.GeoIP,
		Handler:              &upstream{s: s},
		HashMatcher:          hm,
		ProfileDB:            o.ProfileDB,
		PrometheusRegisterer: prometheus.NewRegistry(),
		QueryLog:             &recQueryLog{s: s, inner: o.QueryLog},
		RateLimit:            rl,
		RuleStat:             &recRuleStat{s: s},
		MetricsNamespace:     o.MetricsNamespace,
		FilteringGroups:      o.FilteringGroups,
		ServerGroups:         o.ServerGroups,
		EDEEnabled:           o.EDEEnabled,
	}
	h, err := dnssvc.NewHandlers(context.Background(), hc)
	if err != nil {
		return nil, err
	}
	s.Handlers = h
	return s, nil
}

// UpstreamCalls returns the total number of calls of the terminal handler.
func (s *Stack) UpstreamCalls() int64 { return s.upstreamCalls.Load() }

func (s *Stack) trace(ctx context.Context) *Trace {
	id, ok := agd.RequestIDFromContext(ctx)
	if !ok {
		return s.orphan
	}
	s.mu.Lock()
	defer s.mu.Unlock()
	t := s.traces[id]
	if t == nil {
		return s.orphan
	}
	return t
}

// OrphanBill returns a copy of the billing records made by requests that did
// not come through Serve (for example requests served by a real listener that
// uses s.Handlers directly), in the order they were recorded.
func (s *Stack) OrphanBill() []BillRec {
	s.orphan.mu.Lock()
	defer s.orphan.mu.Unlock()
	return append([]BillRec(nil), s.orphan.Bill...)
}

func (s *Stack) yield() {
	if s.Opts.Yield != nil {
		s.Opts.Yield()
	}
}

// Request describes one injected request.
type Request struct {
	Server *agd.Server
	Group  *agd.ServerGroup
	Msg    *dns.Msg
	Remote netip.AddrPort
	Local  netip.AddrPort
	// DoH/TLS channel data, as the real servers put it into the context.
	TLSServerName string
	URL           *url.URL
	Userinfo      *url.Userinfo
	Timeout       time.Duration
}

// Outcome is what the client side observed.
type Outcome struct {
	// Responses are deep copies of every message passed to WriteMsg, in order.
	Responses []*dns.Msg
	// Packed are the same messages packed immediately at write time.
	Packed [][]byte
	Err    error
	Trace  *Trace
	ID     agd.RequestID
	Panic  any
}

// Resp returns the single response or nil.
func (o *Outcome) Resp() *dns.Msg {
	if len(o.Responses) == 0 {
		return nil
	}
	return o.Responses[0]
}

type recRW struct {
	local, remote net.Addr
	mu            sync.Mutex
	out           *Outcome
	packErr       error
}

func (w *recRW) LocalAddr() net.Addr  { return w.local }
func (w *recRW) RemoteAddr() net.Addr { return w.remote }
func (w *recRW) WriteMsg(_ context.Context, _, resp *dns.Msg) error {
	w.mu.Lock()
	defer w.mu.Unlock()
	// Pack at once, as a real transport does, then keep an independent copy.
	b, err := resp.Pack()
	if err != nil {
		w.packErr = err
		w.out.Responses = append(w.out.Responses, resp.Copy())
		w.out.Packed = append(w.out.Packed, nil)
		return nil
	}
	m := &dns.Msg{}
	if err = m.Unpack(b); err != nil {
		w.packErr = err
		m = resp.Copy()
	}
	w.out.Responses = append(w.out.Responses, m)
	w.out.Packed = append(w.out.Packed, b)
	return nil
}

func netAddr(proto agd.Protocol, ap netip.AddrPort) net.Addr {
	switch proto {
	case agd.ProtoDNS, agd.ProtoDNSCrypt, agd.ProtoDoQ:
		return net.UDPAddrFromAddrPort(ap)
	default:
		return net.TCPAddrFromAddrPort(ap)
	}
}

// Serve injects one request as the server of req.Server's protocol would.
// The request message is used as is (the stack may modify it, as it may with
// a message parsed from the wire).
func (s *Stack) Serve(req *Request) (out *Outcome) {
	h := s.Handlers[dnssvc.HandlerKey{Server: req.Server, ServerGroup: req.Group}]
	if h == nil {
		return &Outcome{Err: fmt.Errorf("no handler for server %q", req.Server.Name)}
	}
	id := agd.NewRequestID()
	tr := &Trace{}
	s.mu.Lock()
	s.traces[id] = tr
	s.mu.Unlock()
	out = &Outcome{Trace: tr, ID: id}
	to := req.Timeout
	if to == 0 {
		to = 30 * time.Second
	}
	ctx, cancel := context.WithTimeout(context.Background(), to)
	defer cancel()
	ctx = agd.WithRequestID(ctx, id)
	ctx = dnsserver.ContextWithServerInfo(ctx, &dnsserver.ServerInfo{
		Name: string(req.Server.Name), Addr: req.Local.String(), Proto: req.Server.Protocol,
	})
	ctx = dnsserver.ContextWithRequestInfo(ctx, &dnsserver.RequestInfo{
		URL: req.URL, Userinfo: req.Userinfo, StartTime: time.Now(), TLSServerName: req.TLSServerName,
	})
	rw := &recRW{local: netAddr(req.Server.Protocol, req.Local), remote: netAddr(req.Server.Protocol, req.Remote), out: out}
	func() {
		defer func() {
			if p := recover(); p != nil {
				out.Panic = p
			}
		}()
		out.Err = h.ServeDNS(ctx, rw, req.Msg)
	}()
	if rw.packErr != nil && out.Err == nil {
		out.Err = fmt.Errorf("response does not pack: %w", rw.packErr)
	}
	return out
}

// Forget drops the trace of a finished request (long runs).
func (s *Stack) Forget(o *Outcome) {
	s.mu.Lock()
	delete(s.traces, o.ID)
	s.mu.Unlock()
}

// ---- terminal handler ----

type upstream struct{ s *Stack }

func snapshotRI(ri *agd.RequestInfo) RISnapshot {
	sn := RISnapshot{Host: ri.Host, QType: ri.QType, QClass: ri.QClass, RemoteIP: ri.RemoteIP,
		Proto: ri.Proto, Server: ri.Server}
	if ri.Location != nil {
		l := *ri.Location
		sn.Location = &l
	}
	if ri.ECS != nil {
		e := *ri.ECS
		if e.Location != nil {
			l := *e.Location
			e.Location = &l
		}
		sn.ECS = &e
	}
	switch r := ri.DeviceResult.(type) {
	case nil:
	case *agd.DeviceResultOK:
		sn.Result = "ok"
		sn.ProfileID, sn.DeviceID = r.Profile.ID, r.Device.ID
	case *agd.DeviceResultAuthenticationFailure:
		sn.Result = "authfail"
	case *agd.DeviceResultError:
		sn.Result = "error"
	case *agd.DeviceResultUnknownDedicated:
		sn.Result = "unknown-dedicated"
	}
	return sn
}

func (u *upstream) ServeDNS(ctx context.Context, rw dnsserver.ResponseWriter, req *dns.Msg) error {
	s := u.s
	s.upstreamCalls.Add(1)
	s.yield()
	ri := agd.MustRequestInfoFromContext(ctx)
	t := s.trace(ctx)
	// Snapshot outside the lock: under a seeded defect the pooled RequestInfo
	// may be torn and the snapshot may panic; the trace mutex must not stay
	// locked then.
	reqCopy, sn := req.Copy(), snapshotRI(ri)
	t.mu.Lock()
	t.UpstreamReqs = append(t.UpstreamReqs, reqCopy)
	t.UpstreamRI = append(t.UpstreamRI, sn)
	t.mu.Unlock()
	resp, err := s.Opts.Upstream(ctx, req, ri)
	if err != nil {
		return err
	}
	s.yield()
	if resp == nil {
		return nil
	}
	return rw.WriteMsg(ctx, req, resp)
}

// Marker is the address every default upstream A answer carries in its first
// octets; AnswerIP derives the rest from the name.
var markerNet = netip.MustParsePrefix("198.51.100.0/24")

// IsUpstreamIP reports whether ip was produced by DefaultUpstream.
func IsUpstreamIP(ip netip.Addr) bool {
	ip = ip.Unmap()
	if ip.Is4() {
		return markerNet.Contains(ip)
	}
	return netip.MustParsePrefix("2001:db8:5151::/48").Contains(ip)
}

func nameHash(name string) uint32 {
	h := uint32(2166136261)
	for i := 0; i < len(name); i++ {
		c := name[i]
		if 'A' <= c && c <= 'Z' {
			c += 'a' - 'A'
		}
		h = (h ^ uint32(c)) * 16777619
	}
	return h
}

// DefaultUpstream answers A/AAAA/HTTPS/TXT/others with recognisable "marker"
// records, a pure function of the question.
func DefaultUpstream(_ context.Context, req *dns.Msg, _ *agd.RequestInfo) (*dns.Msg, error) {
	resp := &dns.Msg{}
	resp.SetReply(req)
	resp.RecursionAvailable = true
	q := req.Question[0]
	h := nameHash(q.Name)
	hdr := dns.RR_Header{Name: q.Name, Rrtype: q.Qtype, Class: dns.ClassINET, Ttl: 300}
	switch q.Qtype {
	case dns.TypeA:
		resp.Answer = append(resp.Answer, &dns.A{Hdr: hdr, A: net.IPv4(198, 51, 100, byte(h))})
	case dns.TypeAAAA:
		ip := netip.MustParseAddr("2001:db8:5151::").As16()
		ip[14], ip[15] = byte(h>>8), byte(h)
		resp.Answer = append(resp.Answer, &dns.AAAA{Hdr: hdr, AAAA: net.IP(ip[:])})
	case dns.TypeHTTPS:
		resp.Answer = append(resp.Answer, &dns.HTTPS{SVCB: dns.SVCB{Hdr: hdr, Priority: 1, Target: ".",
			Value: []dns.SVCBKeyValue{&dns.SVCBAlpn{Alpn: []string{"h2"}}, &dns.SVCBIPv4Hint{Hint: []net.IP{net.IPv4(198, 51, 100, byte(h))}}}}})
	case dns.TypeTXT:
		resp.Answer = append(resp.Answer, &dns.TXT{Hdr: hdr, Txt: []string{fmt.Sprintf("upstream-marker-%08x", h)}})
	case dns.TypeCNAME:
		resp.Answer = append(resp.Answer, &dns.CNAME{Hdr: hdr, Target: "upstream-marker.example."})
	default:
		resp.Ns = append(resp.Ns, &dns.SOA{Hdr: dns.RR_Header{Name: q.Name, Rrtype: dns.TypeSOA, Class: dns.ClassINET, Ttl: 60},
			Ns: "ns.upstream-marker.example.", Mbox: "h.upstream-marker.example.", Serial: h, Refresh: 1, Retry: 1, Expire: 1, Minttl: 60})
	}
	if o := req.IsEdns0(); o != nil {
		resp.SetEdns0(o.UDPSize(), o.Do())
	}
	return resp, nil
}

// ---- recording fakes ----

type recBill struct{ s *Stack }

func (r *recBill) Record(ctx context.Context, id agd.DeviceID, c geoip.Country, a geoip.ASN, st time.Time, p agd.Protocol) {
	t := r.s.trace(ctx)
	t.mu.Lock()
	t.Bill = append(t.Bill, BillRec{id, c, a, st, p})
	t.mu.Unlock()
}

type recDNSDB struct{ s *Stack }

func (r *recDNSDB) Record(ctx context.Context, _ *dns.Msg, _ *agd.RequestInfo) {
	r.s.yield()
	t := r.s.trace(ctx)
	t.mu.Lock()
	t.DNSDB++
	t.mu.Unlock()
}

type recErrColl struct{ s *Stack }

func (r *recErrColl) Collect(ctx context.Context, err error) {
	t := r.s.trace(ctx)
	t.mu.Lock()
	t.Errors = append(t.Errors, err.Error())
	t.mu.Unlock()
}

type recRuleStat struct{ s *Stack }

func (r *recRuleStat) Collect(ctx context.Context, id filter.ID, text filter.RuleText) {
	t := r.s.trace(ctx)
	t.mu.Lock()
	t.RuleStat = append(t.RuleStat, RuleRec{id, text})
	t.mu.Unlock()
}

type recQueryLog struct {
	s     *Stack
	inner querylog.Interface
}

func (r *recQueryLog) Write(ctx context.Context, e *querylog.Entry) error {
	r.s.yield()
	c := *e
	t := r.s.trace(ctx)
	t.mu.Lock()
	t.QueryLog = append(t.QueryLog, &c)
	t.mu.Unlock()
	if r.inner != nil {
		return r.inner.Write(ctx, e)
	}
	return nil
}

type recDNSCheck struct {
	s     *Stack
	inner dnscheck.Interface
}

func (r *recDNSCheck) Check(ctx context.Context, req *dns.Msg, ri *agd.RequestInfo) (*dns.Msg, error) {
	t := r.s.trace(ctx)
	t.mu.Lock()
	t.DNSCheck++
	t.mu.Unlock()
	if r.inner != nil {
		return r.inner.Check(ctx, req, ri)
	}
	return nil, nil
}

type recHashMatcher struct {
	s     *Stack
	inner filter.HashMatcher
}

func (r *recHashMatcher) MatchByPrefix(ctx context.Context, host string) ([]string, bool, error) {
	t := r.s.trace(ctx)
	t.mu.Lock()
	t.HashMatch++
	t.mu.Unlock()
	if r.inner != nil {
		return r.inner.MatchByPrefix(ctx, host)
	}
	return nil, false, nil
}

type recRateLimit struct {
	s     *Stack
	inner ratelimit.Interface
}

func (r *recRateLimit) IsRateLimited(ctx context.Context, req *dns.Msg, ip netip.Addr) (bool, bool, error) {
	t := r.s.trace(ctx)
	t.mu.Lock()
	t.GlobalRLChecks++
	t.mu.Unlock()
	if r.inner != nil {
		return r.inner.IsRateLimited(ctx, req, ip)
	}
	return false, false, nil
}

func (r *recRateLimit) CountResponses(ctx context.Context, resp *dns.Msg, ip netip.Addr) {
	t := r.s.trace(ctx)
	t.mu.Lock()
	t.GlobalRLCounts++
	t.mu.Unlock()
	if r.inner != nil {
		r.inner.CountResponses(ctx, resp, ip)
	}
}

type recStorage struct {
	s     *Stack
	inner filter.Storage
}

func (r *recStorage) ForConfig(ctx context.Context, c filter.Config) filter.Interface {
	t := r.s.trace(ctx)
	t.mu.Lock()
	t.FilterForConfig++
	t.mu.Unlock()
	return &recFilter{s: r.s, inner: r.inner.ForConfig(ctx, c)}
}

func (r *recStorage) HasListID(id filter.ID) bool { return r.inner.HasListID(id) }

type recFilter struct {
	s     *Stack
	inner filter.Interface
}

func (f *recFilter) FilterRequest(ctx context.Context, req *filter.Request) (filter.Result, error) {
	f.s.yield()
	t := f.s.trace(ctx)
	t.mu.Lock()
	t.FilterRequests++
	t.mu.Unlock()
	return f.inner.FilterRequest(ctx, req)
}

func (f *recFilter) FilterResponse(ctx context.Context, resp *filter.Response) (filter.Result, error) {
	f.s.yield()
	t := f.s.trace(ctx)
	t.mu.Lock()
	t.FilterResponses++
	t.mu.Unlock()
	return f.inner.FilterResponse(ctx, resp)
}

type noAccess struct{}

func (noAccess) IsBlockedHost(string, uint16) bool { return false }
func (noAccess) IsBlockedIP(netip.Addr) bool       { return false }

type emptyStorage struct{}

func (emptyStorage) ForConfig(context.Context, filter.Config) filter.Interface { return filter.Empty{} }
func (emptyStorage) HasListID(filter.ID) bool                                  { return false }

// ---- geoip fake ----

// Geo is a deterministic GeoIP fake: locations by longest matching prefix,
// subnets by (country, ASN-less) location and family.
type Geo struct {
	mu      sync.RWMutex
	nets    []geoNet
	subnets map[string]netip.Prefix
	// Calls counts Data calls.
	Calls atomic.Int64
}

type geoNet struct {
	p netip.Prefix
	l *geoip.Location
}

// NewGeo returns an empty fake (every address has no location).
func NewGeo() *Geo { return &Geo{subnets: map[string]netip.Prefix{}} }

// AddNet maps every address in p to l.
func (g *Geo) AddNet(p netip.Prefix, l *geoip.Location) {
	g.mu.Lock()
	g.nets = append(g.nets, geoNet{p.Masked(), l})
	g.mu.Unlock()
}

func subnetKey(c geoip.Country, sub string, asn geoip.ASN, fam int) string {
	return fmt.Sprintf("%s/%s/%d/%d", c, sub, asn, fam)
}

// SetSubnet sets the coarse subnet for a location and family (4 or 6).  Both
// the ASN-specific and the country-wide key can be set (asn 0 = country).
func (g *Geo) SetSubnet(c geoip.Country, asn geoip.ASN, fam int, p netip.Prefix) {
	g.mu.Lock()
	g.subnets[subnetKey(c, "", asn, fam)] = p
	g.mu.Unlock()
}

// Data implements geoip.Interface.
func (g *Geo) Data(_ string, ip netip.Addr) (*geoip.Location, error) {
	g.Calls.Add(1)
	if !ip.IsValid() {
		return nil, nil
	}
	ip = ip.Unmap()
	g.mu.RLock()
	defer g.mu.RUnlock()
	best := -1
	var l *geoip.Location
	for _, n := range g.nets {
		if n.p.Contains(ip) && n.p.Bits() > best {
			best, l = n.p.Bits(), n.l
		}
	}
	if l == nil {
		return nil, nil
	}
	c := *l
	return &c, nil
}

// SubnetByLocation implements geoip.Interface: ASN-specific subnet first, then
// the country-wide one, else the zero prefix.
func (g *Geo) SubnetByLocation(l *geoip.Location, fam netutil.AddrFamily) (netip.Prefix, error) {
	f := 4
	if fam == netutil.AddrFamilyIPv6 {
		f = 6
	}
	g.mu.RLock()
	defer g.mu.RUnlock()
	// Like geoip.File: an unspecified (zero) prefix of the family when there is
	// no subnet for the location.
	if l == nil {
		return netutil.ZeroPrefix(fam), nil
	}
	if p, ok := g.subnets[subnetKey(l.Country, "", l.ASN, f)]; ok {
		return p, nil
	}
	if p, ok := g.subnets[subnetKey(l.Country, "", 0, f)]; ok {
		return p, nil
	}
	return netutil.ZeroPrefix(fam), nil
}

// ---- profile database fake ----

// MapDB is a simple thread-safe profiledb.Interface over maps.
type MapDB struct {
	mu        sync.RWMutex
	Profiles  map[agd.ProfileID]*agd.Profile
	Devices   map[agd.DeviceID]*agd.Device
	DevToProf map[agd.DeviceID]agd.ProfileID
	// Calls counts lookups by kind.
	Calls map[string]int
}

// NewMapDB returns an empty database.
func NewMapDB() *MapDB {
	return &MapDB{Profiles: map[agd.ProfileID]*agd.Profile{}, Devices: map[agd.DeviceID]*agd.Device{},
		DevToProf: map[agd.DeviceID]agd.ProfileID{}, Calls: map[string]int{}}
}

// Add adds a profile with its devices.
func (db *MapDB) Add(p *agd.Profile, devs ...*agd.Device) {
	db.mu.Lock()
	defer db.mu.Unlock()
	db.Profiles[p.ID] = p
	for _, d := range devs {
		db.Devices[d.ID] = d
		db.DevToProf[d.ID] = p.ID
		found := false
		for _, id := range p.DeviceIDs {
			if id == d.ID {
				found = true
			}
		}
		if !found {
			p.DeviceIDs = append(p.DeviceIDs, d.ID)
		}
	}
}

func (db *MapDB) find(kind string, match func(d *agd.Device, p *agd.Profile) bool) (*agd.Profile, *agd.Device, error) {
	db.mu.Lock()
	db.Calls[kind]++
	db.mu.Unlock()
	db.mu.RLock()
	defer db.mu.RUnlock()
	for id, d := range db.Devices {
		p := db.Profiles[db.DevToProf[id]]
		if p != nil && match(d, p) {
			return p, d, nil
		}
	}
	return nil, nil, profiledb.ErrDeviceNotFound
}

// CreateAutoDevice implements profiledb.Interface.
func (db *MapDB) CreateAutoDevice(_ context.Context, id agd.ProfileID, h agd.HumanID, _ agd.DeviceType) (*agd.Profile, *agd.Device, error) {
	db.mu.Lock()
	defer db.mu.Unlock()
	db.Calls["create-auto"]++
	p := db.Profiles[id]
	if p == nil || !p.AutoDevicesEnabled {
		return nil, nil, profiledb.ErrProfileNotFound
	}
	d := &agd.Device{Auth: &agd.AuthSettings{}, ID: agd.DeviceID(fmt.Sprintf("auto%04d", len(db.Devices))),
		HumanIDLower: agd.HumanIDToLower(h), FilteringEnabled: true}
	db.Devices[d.ID] = d
	db.DevToProf[d.ID] = id
	return p, d, nil
}

// ProfileByDedicatedIP implements profiledb.Interface.
func (db *MapDB) ProfileByDedicatedIP(_ context.Context, ip netip.Addr) (*agd.Profile, *agd.Device, error) {
	return db.find("dedicated-ip", func(d *agd.Device, _ *agd.Profile) bool {
		for _, x := range d.DedicatedIPs {
			if x == ip {
				return true
			}
		}
		return false
	})
}

// ProfileByDeviceID implements profiledb.Interface.
func (db *MapDB) ProfileByDeviceID(_ context.Context, id agd.DeviceID) (*agd.Profile, *agd.Device, error) {
	return db.find("device-id", func(d *agd.Device, _ *agd.Profile) bool { return d.ID == id })
}

// ProfileByHumanID implements profiledb.Interface.
func (db *MapDB) ProfileByHumanID(_ context.Context, id agd.ProfileID, h agd.HumanIDLower) (*agd.Profile, *agd.Device, error) {
	db.mu.RLock()
	_, ok := db.Profiles[id]
	db.mu.RUnlock()
	if !ok {
		return nil, nil, profiledb.ErrProfileNotFound
	}
	return db.find("human-id", func(d *agd.Device, p *agd.Profile) bool { return p.ID == id && d.HumanIDLower == h && h != "" })
}

// ProfileByLinkedIP implements profiledb.Interface.
func (db *MapDB) ProfileByLinkedIP(_ context.Context, ip netip.Addr) (*agd.Profile, *agd.Device, error) {
	return db.find("linked-ip", func(d *agd.Device, _ *agd.Profile) bool { return d.LinkedIP == ip && ip.IsValid() })
}

// ---- helpers to build groups and servers ----

// NewServer builds an agd.Server of the given protocol bound to addr.
func NewServer(name string, proto agd.Protocol, addr netip.AddrPort, linkedIP bool) *agd.Server {
	s := &agd.Server{
		Name: agd.ServerName(name), Protocol: proto, LinkedIPEnabled: linkedIP,
		TCPConf: &agd.TCPConfig{IdleTimeout: 10 * time.Second}, UDPConf: &agd.UDPConfig{MaxRespSize: dns.MaxMsgSize},
		QUICConf: &agd.QUICConfig{}, ReadTimeout: time.Second, WriteTimeout: time.Second,
	}
	s.SetBindData([]*agd.ServerBindData{{AddrPort: addr}})
	return s
}

// NewDDR returns a disabled-templates DDR config.
func NewDDR(enabled bool) *agd.DDR {
	return &agd.DDR{DeviceTargets: container.NewMapSet[string](), PublicTargets: container.NewMapSet[string](), Enabled: enabled}
}

// NewQuery builds a query.
func NewQuery(id uint16, name string, qt, qc uint16) *dns.Msg {
	m := &dns.Msg{}
	m.Id = id
	m.RecursionDesired = true
	m.Question = []dns.Question{{Name: dns.Fqdn(name), Qtype: qt, Qclass: qc}}
	return m
}
