package stack

import (
	"net/netip"
	"testing"

	"github.com/AdguardTeam/AdGuardDNS/internal/access"
	"github.com/AdguardTeam/AdGuardDNS/internal/agd"
	"github.com/AdguardTeam/AdGuardDNS/internal/agdpasswd"
	"github.com/AdguardTeam/AdGuardDNS/internal/dnsmsg"
	"github.com/AdguardTeam/AdGuardDNS/internal/filter"
	"github.com/miekg/dns"
)

func TestSmoke(t *testing.T) {
	srv := NewServer("dot", agd.ProtoDoT, netip.MustParseAddrPort("192.0.2.1:853"), false)
	grp := &agd.ServerGroup{DDR: NewDDR(false), DeviceDomains: []string{"d.example"}, Name: "g", FilteringGroup: "fg",
		Servers: []*agd.Server{srv}, ProfilesEnabled: true}
	fg := &agd.FilteringGroup{ID: "fg", FilterConfig: &filter.ConfigGroup{Parental: &filter.ConfigParental{}, RuleList: &filter.ConfigRuleList{}, SafeBrowsing: &filter.ConfigSafeBrowsing{}}}
	db := NewMapDB()
	db.Add(&agd.Profile{ID: "prof1", FilterConfig: &filter.ConfigClient{Custom: &filter.ConfigCustom{}, Parental: &filter.ConfigParental{}, RuleList: &filter.ConfigRuleList{}, SafeBrowsing: &filter.ConfigSafeBrowsing{}},
		Access: access.EmptyProfile{}, BlockingMode: &dnsmsg.BlockingModeNullIP{}, Ratelimiter: agd.GlobalRatelimiter{}, FilteringEnabled: true, QueryLogEnabled: true},
		&agd.Device{ID: "dev1", Auth: &agd.AuthSettings{PasswordHash: agdpasswd.AllowAuthenticator{}}, FilteringEnabled: true})
	s, err := New(&Options{ProfileDB: db, ServerGroups: []*agd.ServerGroup{grp}, FilteringGroups: map[agd.FilteringGroupID]*agd.FilteringGroup{"fg": fg}})
	if err != nil {
		t.Fatal(err)
	}
	o := s.Serve(&Request{Server: srv, Group: grp, Msg: NewQuery(7, "www.example.org", dns.TypeA, dns.ClassINET),
		Remote: netip.MustParseAddrPort("203.0.113.5:4444"), Local: netip.MustParseAddrPort("192.0.2.1:853"), TLSServerName: "dev1.d.example"})
	if o.Err != nil || o.Panic != nil || o.Resp() == nil {
		t.Fatalf("%+v", o)
	}
	t.Logf("%v", o.Resp())
	t.Logf("trace %+v", o.Trace)
	if len(o.Trace.QueryLog) != 1 || len(o.Trace.Bill) != 1 || o.Trace.UpstreamRI[0].DeviceID != "dev1" {
		t.Fatalf("unexpected trace")
	}
}
