package c05

import (
	"encoding/hex"
	"fmt"
	"math/rand/v2"
	"net/netip"
	"sort"
	"strings"
	"sync"
	"time"

	"github.com/AdguardTeam/AdGuardDNS/internal/agd"
	"github.com/AdguardTeam/AdGuardDNS/internal/dnsserver"
	"github.com/AdguardTeam/AdGuardDNS/internal/dnssvc"
	"github.com/AdguardTeam/AdGuardDNS/verif/stack"
	"github.com/AdguardTeam/AdGuardDNS/verif/tbench"
	"github.com/AdguardTeam/AdGuardDNS/verif/vkit"
	"github.com/miekg/dns"
)

// Listener-level phase: the dnssvc handler chain of the stack behind the REAL
// servers of every transport; the ECS option corpus is sent as raw wire bytes
// and the statement's response rules are judged on what the CLIENT receives
// (every response until the transport is quiet).

type wireCase struct {
	Transport string  `json:"transport"`
	ID        int     `json:"case"`
	Name      string  `json:"name"`
	Target    string  `json:"name_seen_by_upstream"`
	Mode      string  `json:"upstream_mode"`
	DO        bool    `json:"do"`
	ECS       ecsSpec `json:"ecs"`
	Query     string  `json:"query_hex"`
	// LocalParse tells whether the DNS library parses the query at all.
	LocalParse bool `json:"dns_library_parses_query"`
	// Attempts are the outcomes of the attempts made (a case that yields no
	// DNS message is retried on a fresh connection).
	Attempts []string `json:"attempts"`

	res tbench.Result
}

// listenerKinds is the corpus, per transport and repetition.
var listenerKinds = []string{
	"none", "none", "valid", "valid", "valid", "mapped", "zero", "zero",
	"badfam", "badfam", "fam0", "longprefix", "longprefix", "hostbits", "hostbits", "hostbits",
	"truncated", "padlong", "short", "dup", "dup",
}

func genKind(rng *rand.Rand, w *world, kind string) ecsSpec {
	switch kind {
	case "truncated":
		// OPTION-DATA shorter than the fixed part of the option, or a
		// family-2 option whose address is longer than 16 octets.
		raw := [][]byte{{0, 1, 24}, {0, 1}, {}, {0, 2, 56, 0, 0xfd, 0, 0, 1, 2, 3, 4, 5, 6, 7, 8, 9, 10, 11, 12, 13, 14, 15, 16, 17, 18}}[rng.IntN(4)]
		return ecsSpec{Kind: "truncated", Raw: raw}
	case "mapped":
		for {
			if e := genValid(rng, w, 0); e.isMapped() {
				return e
			}
		}
	}
	for {
		if e := genECS(rng, w, 0); e.Kind == kind && !(kind == "valid" && e.isMapped()) {
			return e
		}
	}
}

func listenerPhase(r *vkit.Run) {
	fail := func(why string) { r.Inconclusive("listener phase: " + why) }
	rng := r.Rand("listener", 0)
	w := newWorld(rng)
	// Every client of this phase is 127.0.0.1; GeoIP puts loopback into the
	// first location.
	w.Nets[0][0] = netip.MustParsePrefix("127.0.0.0/8")
	w.Clients = []client{{Addr: netip.MustParseAddr("127.0.0.1"), Loc: 0}}
	h := &history{Variant: "listener", World: w}
	h.Cache.ECSCount, h.Cache.NoECSCount = 100, 100

	protos := map[tbench.Server]agd.Protocol{
		tbench.SrvDNS: agd.ProtoDNS, tbench.SrvDoT: agd.ProtoDoT, tbench.SrvDoH: agd.ProtoDoH,
		tbench.SrvDoQ: agd.ProtoDoQ, tbench.SrvDNSCrypt: agd.ProtoDNSCrypt,
	}
	var srvs []*agd.Server
	bySrv := map[tbench.Server]*agd.Server{}
	for _, ts := range []tbench.Server{tbench.SrvDNS, tbench.SrvDoT, tbench.SrvDoH, tbench.SrvDoQ, tbench.SrvDNSCrypt} {
		s := stack.NewServer("c05-l-"+string(ts), protos[ts], netip.MustParseAddrPort("127.0.0.1:53"), false)
		srvs = append(srvs, s)
		bySrv[ts] = s
	}
	grp := &agd.ServerGroup{DDR: stack.NewDDR(false), Name: "c05l", FilteringGroup: "fg", Servers: srvs}
	rn := &runner{h: h, calls: map[int]*callRec{}, altCtr: map[int]int{}}
	gi, err := w.geo()
	if err != nil {
		fail(err.Error())
		return
	}
	st, err := stack.New(&stack.Options{
		Cache: &dnssvc.CacheConfig{Type: dnssvc.CacheTypeECS, ECSCount: 100, NoECSCount: 100},
		GeoIP: gi, FilterStorage: aliasStorage{}, Upstream: rn.upstream, ServerGroups: []*agd.ServerGroup{grp}, FilteringGroups: filteringGroups,
	})
	if err != nil {
		fail("cannot build the stack: " + err.Error())
		return
	}
	handlers := map[tbench.Server]dnsserver.Handler{}
	var only []tbench.Server
	for ts, s := range bySrv {
		hd := st.Handlers[dnssvc.HandlerKey{Server: s, ServerGroup: grp}]
		if hd == nil {
			fail("no handler for " + string(ts))
			return
		}
		handlers[ts] = hd
		only = append(only, ts)
	}
	b, err := tbench.Start(tbench.Config{Handlers: handlers, Only: only,
		DNS: tbench.StreamOptions{MaxUDPRespSize: 4096}})
	if err != nil {
		fail("cannot start the servers: " + err.Error())
		return
	}
	defer b.Close()

	const quiet = 100 * time.Millisecond
	// A session is one client connection (socket) of a transport.  A case
	// that must be answered and yields no DNS message at all (time-out, reset,
	// QUIC or HTTP client error: outcomes of the infrastructure, not
	// responses) is retried on a fresh session with a longer wait.
	type session struct {
		send  func(wire []byte, wait time.Duration) tbench.Result
		close func()
	}
	streamSession := func(dial func() (*tbench.StreamClient, error)) func() (*session, error) {
		// Streams: one connection per query; after the first frame keep reading
		// until the connection is quiet or closed.
		return func() (*session, error) {
			return &session{send: func(wire []byte, wait time.Duration) tbench.Result {
				c, derr := dial()
				if derr != nil {
					return tbench.Result{Outcome: tbench.Failed, Err: derr.Error()}
				}
				defer c.Close()
				res := c.Exchange(wire, wait)
				if res.Outcome == tbench.Answered {
					more, _, _ := c.ReadUntilClosed(quiet)
					res.Responses = append(res.Responses, more...)
				}
				return res
			}, close: func() {}}, nil
		}
	}
	httpSession := func(v tbench.HTTPVariant, get bool) func() (*session, error) {
		return func() (*session, error) {
			hc, herr := b.NewHTTPClient(v)
			if herr != nil {
				return nil, herr
			}
			return &session{send: func(q []byte, wait time.Duration) tbench.Result {
				if get {
					return hc.Get(q, wait)
				}
				return hc.Post(q, wait)
			}, close: hc.Close}, nil
		}
	}
	dnscryptSession := func(network string) func() (*session, error) {
		return func() (*session, error) {
			dc, derr := b.DialDNSCrypt(network)
			if derr != nil {
				return nil, derr
			}
			return &session{send: func(q []byte, wait time.Duration) tbench.Result {
				res := dc.Exchange(q, wait)
				if network == "udp" && res.Outcome == tbench.Answered {
					res.Responses = append(res.Responses, dc.Drain(quiet)...)
				}
				return res
			}, close: func() { _ = dc.Close() }}, nil
		}
	}
	type transport struct {
		name string
		dial func() (*session, error)
	}
	trs := []transport{
		{"udp", func() (*session, error) {
			u, uerr := b.DialUDP()
			if uerr != nil {
				return nil, uerr
			}
			return &session{send: func(q []byte, wait time.Duration) tbench.Result { return u.Exchange(q, wait, quiet) },
				close: func() { _ = u.Close() }}, nil
		}},
		{"tcp", streamSession(b.DialTCP)},
		{"dot", streamSession(b.DialDoT)},
		{"doh-h2-post", httpSession(tbench.HTTP2, false)},
		{"doh-h1-get", httpSession(tbench.HTTP1TLS, true)},
		{"doq", func() (*session, error) {
			qc, qerr := b.DialDoQ()
			if qerr != nil {
				return nil, qerr
			}
			return &session{send: func(q []byte, wait time.Duration) tbench.Result { return qc.Exchange(q, wait) },
				close: func() { _ = qc.Close() }}, nil
		}},
		{"dnscrypt-udp", dnscryptSession("udp")},
		{"dnscrypt-tcp", dnscryptSession("tcp")},
	}
	r.Bucket("listener_transports", int64(len(trs)))

	reps := r.N(3, 10)
	all := make([][]*wireCase, len(trs))
	var wg sync.WaitGroup
	for ti := range trs {
		wg.Add(1)
		go func(ti int) {
			defer wg.Done()
			tr := trs[ti]
			trng := r.Rand("listener-"+tr.name, 0)
			var cur *session
			drop := func() {
				if cur != nil {
					cur.close()
					cur = nil
				}
			}
			defer drop()
			for rep := 0; rep < reps; rep++ {
				for ki, kind := range listenerKinds {
					id := ti*5000 + rep*100 + ki + 1
					wc := &wireCase{Transport: tr.name, ID: id, ECS: genKind(trng, w, kind), DO: trng.IntN(4) == 0,
						Mode: []string{"eq", "scope0", "less", "noopt", "fixed16"}[trng.IntN(5)]}
					wc.Target = fmt.Sprintf("%s-%d.c05-wire.example.", wc.Mode, id)
					wc.Name = wc.Target
					if ki%3 == 2 {
						// rewritten by the filter to the target name
						wc.Name = aliasLabel + wc.Target
					}
					var opts [][]byte
					if wc.ECS.Kind != "none" {
						opts = append(opts, ecsWire(&wc.ECS))
						if wc.ECS.Second != nil {
							opts = append(opts, ecsWire(wc.ECS.Second))
						}
					}
					wire := packQuery(uint16(id), wc.Name, dns.TypeA, len(opts) > 0 || wc.DO || ki%2 == 1, wc.DO, opts)
					wc.Query = hex.EncodeToString(wire)
					wc.LocalParse = (&dns.Msg{}).Unpack(wire) == nil
					// A query the DNS library cannot decode may be dropped, and
					// either outcome is accepted: one attempt, short wait.
					attempts, wait := 1, 300*time.Millisecond
					if wc.LocalParse {
						attempts, wait = 3, 10*time.Second
					}
					for a := 0; a < attempts; a++ {
						if cur == nil {
							var derr error
							if cur, derr = tr.dial(); derr != nil {
								cur = nil
								wc.res = tbench.Result{Outcome: tbench.Failed, Err: "dial: " + derr.Error()}
								wc.Attempts = append(wc.Attempts, wc.res.String())
								continue
							}
						}
						wc.res = cur.send(wire, wait)
						wc.Attempts = append(wc.Attempts, string(wc.res.Outcome))
						if len(wc.res.Responses) > 0 {
							break
						}
						// no DNS message: next attempt on a fresh session
						drop()
						wait = 25 * time.Second
					}
					if !wc.LocalParse {
						// the server may have torn the connection down
						drop()
					}
					all[ti] = append(all[ti], wc)
				}
			}
		}(ti)
	}
	wg.Wait()

	// upstream calls by question name
	byName := map[string][]*callRec{}
	rn.mu.Lock()
	for _, c := range rn.calls {
		byName[c.Name] = append(byName[c.Name], c)
	}
	rn.mu.Unlock()

	cl := w.Clients[0]
	for _, cases := range all {
		for _, wc := range cases {
			wc := wc
			cls := wc.ECS.class()
			if wc.ECS.Kind == "truncated" {
				cls = "malformed"
			}
			var rcodes []string
			var msgs []*dns.Msg
			// Only DNS messages that answer THIS query (ID and question) count
			// as its responses.
			for _, raw := range wc.res.Responses {
				m := &dns.Msg{}
				if uerr := m.Unpack(raw); uerr != nil {
					if len(raw) >= 2 && int(raw[0])<<8|int(raw[1]) == wc.ID&0xffff {
						rcodes = append(rcodes, "undecodable-message")
					} else {
						r.Bucket("listener_stray_messages", 1)
					}
					continue
				}
				if int(m.Id) != wc.ID&0xffff || len(m.Question) != 1 || !strings.EqualFold(m.Question[0].Name, wc.Name) {
					r.Bucket("listener_stray_messages", 1)
					continue
				}
				msgs = append(msgs, m)
				rcodes = append(rcodes, strings.ToLower(dns.RcodeToString[m.Rcode]))
			}
			observed := strings.Join(rcodes, "+")
			if observed == "" {
				observed = "no-dns-message(" + string(wc.res.Outcome) + ")"
			}
			if len(wc.Attempts) > 1 {
				r.Bucket("listener_retried_cases", 1)
			}
			ups := byName[strings.ToLower(wc.Target)]
			wit := func() any {
				var rs []string
				for _, m := range msgs {
					rs = append(rs, msgStr(m))
				}
				return map[string]any{"case": wc, "observed": observed, "result": wc.res.String(), "responses": rs,
					"upstream_calls": ups, "world": w, "client": cl.Addr}
			}
			r.Bucket("listener_cases", 1)
			r.Bucket("listener_cases:"+wc.Transport, 1)
			r.Bucket("listener_kind:"+wc.ECS.Kind, 1)
			r.Eval(fmt.Sprintf("listener/%s/%s/parse=%v/%s", wc.Transport, wc.ECS.Kind, wc.LocalParse, observed), cls != "none")

			pfx := "listener:malformed-ecs:"
			switch {
			case cls == "malformed" && !wc.LocalParse:
				// The DNS library itself refuses the message (family unknown
				// to it, prefix longer than the family, truncated option), so
				// the server sees an undecodable MESSAGE and treats it as its
				// transport prescribes (no reply, closed connection, HTTP 400,
				// DoQ protocol error); the ECS validation of the statement is
				// never reached.  Accepted: no DNS answer at all, or exactly
				// one FORMERR; never an answer, never an upstream call.
				r.Bucket("listener_cases_unparseable", 1)
				switch {
				case len(ups) != 0:
					viol(r, "listener:unparseable-ecs:"+wc.Transport+":reached-upstream", "an undecodable query reached the upstream", wit)
				case len(rcodes) == 0:
					r.Bucket("listener_unparseable_dropped:"+wc.Transport+":"+string(wc.res.Outcome), 1)
				case observed == "formerr":
					r.Bucket("listener_unparseable_formerr", 1)
				default:
					viol(r, "listener:unparseable-ecs:"+wc.Transport+":"+observed,
						"a query whose ECS option the DNS library cannot decode got DNS responses other than one FORMERR", wit)
				}
				continue
			case len(rcodes) == 0:
				// The query is decodable and must be answered, but after three
				// attempts on fresh connections no DNS message came back: an
				// outcome of the infrastructure (time-out, reset, QUIC / HTTP
				// client error), not a response.  Never a verdict; but nothing
				// of a malformed query may have reached the upstream.
				r.Bucket("listener_ambiguous", 1)
				r.Bucket("listener_ambiguous:"+wc.Transport, 1)
				r.Sample(map[string]any{"listener_ambiguous_case": wc, "result": wc.res.String()})
				if cls == "malformed" && len(ups) != 0 {
					viol(r, pfx+wc.Transport+":reached-upstream", "a query with a malformed ECS option reached the upstream", wit)
				}
				continue
			case cls == "malformed":
				r.Bucket("listener_cases_malformed", 1)
				r.Bucket("listener_malformed_decided:"+wc.Transport, 1)
				switch {
				case observed != "formerr":
					viol(r, pfx+wc.Transport+":"+observed+"-instead-of-exactly-formerr",
						"a query with a malformed ECS option, sent to a real listener, is not answered with exactly one FORMERR", wit)
				case len(ups) != 0:
					viol(r, pfx+wc.Transport+":reached-upstream", "a query with a malformed ECS option reached the upstream", wit)
				default:
					r.Bucket("listener_formerr_ok", 1)
				}
				continue
			case cls == "lenient" && observed == "formerr" && len(ups) == 0:
				r.Bucket("listener_lenient_rejected", 1)
				continue
			}
			r.Bucket("listener_cases_valid_or_zero", 1)
			if len(msgs) != 1 || len(rcodes) != 1 || (msgs[0].Rcode != dns.RcodeSuccess && msgs[0].Rcode != dns.RcodeNameError) {
				viol(r, "listener:wellformed-ecs:"+wc.Transport+":"+observed+"-instead-of-one-answer",
					"a query with a well-formed (or no) ECS option, sent to a real listener, did not get exactly one resolved answer", wit)
				continue
			}
			resp := msgs[0]
			fam, set := w.mapped(cl, &wc.ECS)
			declined := wc.ECS.declined()
			if len(ups) == 0 {
				viol(r, "listener:"+wc.Transport+":answer-without-upstream-call", "an answer for a unique name without any upstream call", wit)
			}
			for _, c := range ups {
				for k, e := range c.ECS {
					p := e.Prefix
					switch {
					case cls == "dup" && k >= 1 && p.IsValid() && p == wc.ECS.Second.prefix():
						viol(r, "privacy:dup-option:second-ecs-option-forwarded-upstream",
							"a query with two ECS options: the second, client-supplied subnet is forwarded to the upstream unchanged", wit)
					case p.IsValid() && p.Bits() == 0 && p.Addr().IsUnspecified():
						r.Bucket("listener_upstream_ecs_zero", 1)
					case declined:
						viol(r, "optout:upstream-ecs-not-zero", "a client that opted out with a /0 option caused a non-/0 ECS in the upstream request", wit)
					case inSet(p, set):
						r.Bucket("listener_upstream_ecs_coarse", 1)
					default:
						viol(r, "privacy:listener:upstream-ecs-not-the-geoip-subnet-of-the-client",
							"the upstream request carries an ECS that is neither the GeoIP coarse subnet for the client's (or its option's) location and family nor /0", wit)
					}
				}
			}
			_ = fam
			respECS := ecsOf(resp)
			switch cls {
			case "none":
				if len(respECS) != 0 {
					viol(r, "echo:ecs-in-response-to-query-without-ecs", "a resolved response carries an ECS option although the query had none", wit)
				} else {
					r.Bucket("listener_echo_absent_ok", 1)
				}
			case "valid", "lenient":
				want := wc.ECS.prefix()
				switch {
				case len(respECS) == 0:
					viol(r, "echo:missing", "a resolved response lacks an ECS option although the query had a valid one", wit)
				case len(respECS) > 1:
					viol(r, "echo:duplicate", "a resolved response carries more than one ECS option", wit)
				case respECS[0].Family != wc.ECS.Family || respECS[0].Prefix != want:
					viol(r, "echo:not-the-client-prefix", "the ECS option of the response is not the client's own prefix", wit)
				case respECS[0].Scope != wc.ECS.Bits:
					viol(r, "echo:scope-not-source-length", "the ECS option of the response has a scope different from the client's source prefix length", wit)
				default:
					r.Bucket("listener_echo_ok", 1)
				}
			case "dup":
				if len(respECS) == 0 {
					viol(r, "echo:dup-option:missing", "a resolved response lacks an ECS option although the query had valid ones", wit)
				}
			}
		}
	}
	// one written-out example per transport
	var names []string
	for ti := range trs {
		names = append(names, trs[ti].name)
	}
	sort.Strings(names)
	r.Extra("listener_transports", names)
	if len(all) > 0 && len(all[0]) > 8 {
		wc := all[0][8]
		r.Sample(map[string]any{"listener_case": wc, "result": wc.res.String()})
	}
}
