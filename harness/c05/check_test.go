// Package c05 monitors property C05: client subnets stay private and
// ECS-dependent answers stay in their region.
//
// The real middleware stack (dnssvc.NewHandlers with the real ratelimitmw and
// the real ecscache in front of a scripted, recording upstream) is driven with
// seeded histories of requests.  Every upstream call answers with a unique
// payload, so every client response identifies the upstream call it came from;
// a small reference model written from the property statement decides which
// upstream call may serve which client and what may leave towards upstream.
package c05

import (
	"context"
	"encoding/binary"
	"encoding/hex"
	"encoding/json"
	"fmt"
	"math/rand/v2"
	"net"
	"net/netip"
	"os"
	"runtime"
	"sort"
	"strings"
	"sync"
	"sync/atomic"
	"testing"
	"time"

	"github.com/AdguardTeam/AdGuardDNS/internal/agd"
	"github.com/AdguardTeam/AdGuardDNS/internal/agdcache"
	"github.com/AdguardTeam/AdGuardDNS/internal/dnssvc"
	"github.com/AdguardTeam/AdGuardDNS/internal/ecscache"
	"github.com/AdguardTeam/AdGuardDNS/internal/filter"
	"github.com/AdguardTeam/AdGuardDNS/internal/geoip"
	"github.com/AdguardTeam/AdGuardDNS/verif/stack"
	"github.com/AdguardTeam/AdGuardDNS/verif/vkit"
	"github.com/AdguardTeam/golibs/container"
	"github.com/AdguardTeam/golibs/netutil"
	"github.com/miekg/dns"
	"github.com/oschwald/maxminddb-golang"
)

// includeDupOption enables the input class "two ECS options in one query".
// It has its own violation keys (privacy:dup-option:*).
const includeDupOption = true

// ---------------------------------------------------------------------------
// World: locations, GeoIP tables, clients.
// ---------------------------------------------------------------------------

type location struct {
	Country string `json:"country"`
	ASN     uint32 `json:"asn"`
}

var locationPool = []location{
	{"DE", 64501}, {"DE", 64502}, {"JP", 64503}, {"US", 64504}, {"US", 0}, {"FR", 64505},
}

type client struct {
	Addr netip.Addr `json:"addr"`
	// Loc is the index into world.Locs, -1 = address unknown to GeoIP.
	Loc int `json:"loc"`
}

// world is the GeoIP ground truth of one history.  The GeoIP fake is
// configured from it and the model reads it directly.
type world struct {
	Locs []location `json:"locations"`
	// Nets[i] are the address ranges (v4, v6) that GeoIP maps to Locs[i].
	Nets [][2]netip.Prefix `json:"nets"`
	// ASNSub["<loc>/<fam>"] is the ASN-specific coarse subnet, CtrySub
	// ["<country>/<fam>"] the country-wide one.
	ASNSub  map[string]netip.Prefix `json:"asn_subnets"`
	CtrySub map[string]netip.Prefix `json:"country_subnets"`
	Clients []client                `json:"clients"`
	// Plans is how the coarse subnets of a family (v4, v6) relate.
	Plans [2]string `json:"coarse_subnet_plans"`
	// Real is set in the phase that runs the real geoip.File on the test
	// databases: Real[i][f] are the coarse subnets a reference geoip.File
	// instance assigns to the location of zone Nets[i] in family f (0 = IPv4,
	// 1 = IPv6; with and without the subdivision).  Countries[i] is its country.
	Real      [][2][]netip.Prefix `json:"real_geoip_subnets,omitempty"`
	Countries []string            `json:"-"`
	IPCache   int                 `json:"real_geoip_ip_cache,omitempty"`
}

func famOf(a netip.Addr) int {
	if a.Is4() {
		return 4
	}
	return 6
}

func zeroPrefix(fam int) netip.Prefix {
	if fam == 4 {
		return netip.PrefixFrom(netip.IPv4Unspecified(), 0)
	}
	return netip.PrefixFrom(netip.IPv6Unspecified(), 0)
}

// locOf returns the index of the location GeoIP assigns to a, or -1.
func (w *world) locOf(a netip.Addr) int {
	// GeoIP treats an IPv4-mapped IPv6 address as the IPv4 address.
	a = a.Unmap()
	for i, n := range w.Nets {
		if n[0].Contains(a) || n[1].Contains(a) {
			return i
		}
	}
	return -1
}

// coarse is the documented SubnetByLocation semantics: the ASN-specific
// subnet, then the country-wide one, else the unspecified (zero) prefix.
func (w *world) coarse(loc, fam int) netip.Prefix {
	if loc < 0 {
		return zeroPrefix(fam)
	}
	if w.Real != nil {
		return w.Real[loc][fam/6][0]
	}
	if p, ok := w.ASNSub[fmt.Sprintf("%d/%d", loc, fam)]; ok {
		return p
	}
	if p, ok := w.CtrySub[fmt.Sprintf("%s/%d", w.Locs[loc].Country, fam)]; ok {
		return p
	}
	return zeroPrefix(fam)
}

// coarseSet is coarse for worlds where the reference may name more than one
// subnet for a location (real database: with and without the subdivision).
func (w *world) coarseSet(loc, fam int) []netip.Prefix {
	if loc >= 0 && w.Real != nil {
		return w.Real[loc][fam/6]
	}
	return []netip.Prefix{w.coarse(loc, fam)}
}

// isCoarse reports whether p is any GeoIP coarse subnet of this world.
func (w *world) isCoarse(p netip.Prefix) bool {
	for _, z := range w.Real {
		for _, ps := range z {
			for _, q := range ps {
				if q == p && q.Bits() > 0 {
					return true
				}
			}
		}
	}
	for _, q := range w.ASNSub {
		if q == p {
			return true
		}
	}
	for _, q := range w.CtrySub {
		if q == p {
			return true
		}
	}
	return false
}

var unknown4 = []netip.Prefix{netip.MustParsePrefix("192.0.2.0/24"), netip.MustParsePrefix("203.0.113.0/24"), netip.MustParsePrefix("172.20.0.0/16")}
var unknown6 = []netip.Prefix{netip.MustParsePrefix("2001:db8:99::/48"), netip.MustParsePrefix("fd99:1234::/32")}

// randAddrIn returns a random address inside p with a non-zero host part.
func randAddrIn(rng *rand.Rand, p netip.Prefix) netip.Addr {
	b := p.Addr().AsSlice()
	bits := p.Bits()
	for i := range b {
		for j := 0; j < 8; j++ {
			if i*8+j >= bits && rng.IntN(2) == 1 {
				b[i] |= 0x80 >> j
			}
		}
	}
	b[len(b)-1] |= 1
	a, _ := netip.AddrFromSlice(b)
	return a
}

func newWorld(rng *rand.Rand) *world {
	w := &world{ASNSub: map[string]netip.Prefix{}, CtrySub: map[string]netip.Prefix{}}
	perm := rng.Perm(len(locationPool))
	for _, i := range perm[:3] {
		w.Locs = append(w.Locs, locationPool[i])
	}
	// Coarse subnets live in 100.64.0.0/10 and 2001:dc00::/24; no client
	// address or client-supplied prefix is ever taken from there.  Per family a
	// history follows a plan for how its coarse subnets relate to each other
	// (a subnet is identified by address AND length, bit for bit):
	//   partial  - same non-byte-aligned length, same leading whole bytes,
	//              different bits in the last, partial byte
	//   lastbyte - same length, different only in the last whole byte
	//   nested   - same network address, longer prefix
	//   free     - unrelated
	var prev [2][]netip.Prefix
	var plans [2]string
	for f := range plans {
		switch x := rng.IntN(100); {
		case x < 40:
			plans[f] = "partial"
		case x < 55:
			plans[f] = "lastbyte"
		case x < 70:
			plans[f] = "nested"
		default:
			plans[f] = "free"
		}
	}
	w.Plans = plans
	// fixedBits is the part of the address that keeps the subnet inside the
	// coarse space.
	fixedBits := map[int]int{4: 10, 6: 24}
	unaligned := map[int][]int{
		4: {12, 13, 14, 15, 18, 19, 20, 21, 22, 23, 26, 27, 28, 29, 30},
		6: {34, 36, 37, 39, 42, 44, 45, 47, 50, 52, 53, 55, 58, 60, 61, 63},
	}
	aligned := map[int][]int{4: {16, 24}, 6: {32, 40, 48, 56, 64}}
	isNew := func(fam int, p netip.Prefix) bool {
		if !p.IsValid() || p != p.Masked() {
			return false
		}
		for _, q := range prev[fam/6] {
			if q == p {
				return false
			}
		}
		return true
	}
	fresh := func(fam int, plan string) netip.Prefix {
		for {
			var bits int
			switch {
			case plan == "partial" || (plan != "lastbyte" && rng.IntN(2) == 0):
				bits = unaligned[fam][rng.IntN(len(unaligned[fam]))]
			case plan == "lastbyte" && rng.IntN(2) == 0:
				bits = []int{18, 20, 22, 27}[rng.IntN(4)]
				if fam == 6 {
					bits = []int{36, 44, 52, 60}[rng.IntN(4)]
				}
			default:
				bits = aligned[fam][rng.IntN(len(aligned[fam]))]
			}
			var p netip.Prefix
			if fam == 4 {
				a := netip.AddrFrom4([4]byte{100, byte(64 + rng.IntN(64)), byte(rng.IntN(256)), byte(rng.IntN(256))})
				p = netip.PrefixFrom(a, bits).Masked()
			} else {
				b := [16]byte{0x20, 0x01, 0xdc}
				for i := 3; i < 10; i++ {
					b[i] = byte(rng.IntN(256))
				}
				p = netip.PrefixFrom(netip.AddrFrom16(b), bits).Masked()
			}
			if isNew(fam, p) {
				return p
			}
		}
	}
	// flipIn returns o with the bits [from, to) of its address re-drawn.
	flipIn := func(o netip.Prefix, from, to int) netip.Prefix {
		b := o.Addr().AsSlice()
		for i := from; i < to; i++ {
			b[i/8] &^= 0x80 >> (i % 8)
			if rng.IntN(2) == 1 {
				b[i/8] |= 0x80 >> (i % 8)
			}
		}
		a, _ := netip.AddrFromSlice(b)
		return netip.PrefixFrom(a, o.Bits())
	}
	related := func(fam int, plan string, o netip.Prefix) netip.Prefix {
		L := o.Bits()
		switch plan {
		case "partial":
			if L%8 == 0 {
				return netip.Prefix{}
			}
			return flipIn(o, max(fixedBits[fam], L/8*8), L)
		case "lastbyte":
			lo := (L/8 - 1) * 8
			return flipIn(o, max(fixedBits[fam], lo), lo+8)
		case "nested":
			var cand []int
			for _, b := range append(append([]int{}, unaligned[fam]...), aligned[fam]...) {
				if b > L {
					cand = append(cand, b)
				}
			}
			if len(cand) == 0 {
				return netip.Prefix{}
			}
			return netip.PrefixFrom(o.Addr(), cand[rng.IntN(len(cand))])
		}
		return netip.Prefix{}
	}
	newCoarse := func(fam int) netip.Prefix {
		plan := plans[fam/6]
		ps := prev[fam/6]
		if len(ps) >= 2 && rng.IntN(4) == 0 {
			// a third subnet sometimes follows another plan
			plan = []string{"partial", "lastbyte", "nested", "free"}[rng.IntN(4)]
		}
		var p netip.Prefix
		for try := 0; try < 8 && len(ps) > 0 && plan != "free"; try++ {
			if q := related(fam, plan, ps[rng.IntN(len(ps))]); isNew(fam, q) {
				p = q
				break
			}
		}
		if !p.IsValid() {
			p = fresh(fam, plan)
		}
		prev[fam/6] = append(prev[fam/6], p)
		return p
	}
	for i, l := range w.Locs {
		o := byte(16*(i+1) + rng.IntN(16))
		w.Nets = append(w.Nets, [2]netip.Prefix{
			netip.PrefixFrom(netip.AddrFrom4([4]byte{10, o, 0, 0}), 16),
			netip.PrefixFrom(netip.AddrFrom16([16]byte{0xfd, 0x00, 0x00, o}), 32),
		})
		for _, fam := range []int{4, 6} {
			switch x := rng.IntN(100); {
			case x < 45 && l.ASN != 0:
				w.ASNSub[fmt.Sprintf("%d/%d", i, fam)] = newCoarse(fam)
			case x < 85:
				key := fmt.Sprintf("%s/%d", l.Country, fam)
				if _, ok := w.CtrySub[key]; !ok {
					w.CtrySub[key] = newCoarse(fam)
				}
			default:
				// no subnet for this location and family
			}
		}
	}
	add := func(loc, fam int) {
		var p netip.Prefix
		switch {
		case loc >= 0:
			p = w.Nets[loc][fam/6]
		case fam == 4:
			p = unknown4[rng.IntN(len(unknown4))]
		default:
			p = unknown6[rng.IntN(len(unknown6))]
		}
		w.Clients = append(w.Clients, client{Addr: randAddrIn(rng, p), Loc: loc})
	}
	for loc := 0; loc < 3; loc++ {
		add(loc, 4)
		add(loc, 6)
	}
	add(-1, 4)
	add(-1, 6)
	for i := 0; i < 2; i++ {
		add(rng.IntN(4)-1, []int{4, 6}[rng.IntN(2)])
	}
	return w
}

func (w *world) geo() (geoip.Interface, error) {
	if w.Real != nil {
		return newRealFile(w.IPCache)
	}
	g := stack.NewGeo()
	for i, l := range w.Locs {
		gl := &geoip.Location{Country: geoip.Country(l.Country), Continent: geoip.ContinentEU, ASN: geoip.ASN(l.ASN)}
		g.AddNet(w.Nets[i][0], gl)
		g.AddNet(w.Nets[i][1], gl)
		for _, fam := range []int{4, 6} {
			if p, ok := w.ASNSub[fmt.Sprintf("%d/%d", i, fam)]; ok {
				g.SetSubnet(geoip.Country(l.Country), geoip.ASN(l.ASN), fam, p)
			}
			if p, ok := w.CtrySub[fmt.Sprintf("%s/%d", l.Country, fam)]; ok {
				g.SetSubnet(geoip.Country(l.Country), 0, fam, p)
			}
		}
	}
	return g, nil
}

// ---------------------------------------------------------------------------
// Real GeoIP database (geoip.File on the repository's test databases).
// ---------------------------------------------------------------------------

// zone is a range of addresses that all have the same records in both test
// databases and that covers at most one block of the GeoIP IP cache (/24,
// /56), so that the documented cache granularity cannot make lookups
// order-dependent.  Sub are the coarse subnets a reference geoip.File assigns
// to its location.
type zone struct {
	Net     netip.Prefix
	Country string
	ASN     uint32
	Sub     [2][]netip.Prefix
}

type realDB struct {
	zones4, zones6, unknown []zone
}

var (
	realOnce sync.Once
	realData *realDB
	realErr  error
)

func geoPaths() (city, isp string) {
	repo := os.Getenv("VERIF_REPO")
	if repo == "" {
		repo = "/repo"
	}
	return repo + "/internal/geoip/testdata/GeoIP2-City-Test.mmdb", repo + "/internal/geoip/testdata/GeoIP2-ISP-Test.mmdb"
}

// newRealFile builds and refreshes a geoip.File configured like the
// repository's own tests.
func newRealFile(ipCache int) (*geoip.File, error) {
	city, _ := geoPaths()
	return newRealFileAt(city, ipCache)
}

// newRealFileAt is newRealFile with the country database at another path.
func newRealFileAt(city string, ipCache int) (*geoip.File, error) {
	_, isp := geoPaths()
	top := map[geoip.Country]geoip.ASN{geoip.CountryAU: 1221, geoip.CountryJP: 2516, geoip.CountryUS: 7922}
	f := geoip.NewFile(&geoip.FileConfig{
		Logger: stack.Logger(), CacheManager: agdcache.EmptyManager{}, ASNPath: isp, CountryPath: city,
		HostCacheCount: 0, IPCacheCount: ipCache,
		AllTopASNs: container.NewMapSet[geoip.ASN](1221, 2516, 7922), CountryTopASNs: top,
	})
	ctx, cancel := context.WithTimeout(context.Background(), 2*time.Minute)
	defer cancel()
	if err := f.Refresh(ctx); err != nil {
		return nil, err
	}
	return f, nil
}

func ipnetPrefix(n *net.IPNet) netip.Prefix {
	if n == nil {
		return netip.Prefix{}
	}
	ones, bits := n.Mask.Size()
	a, ok := netip.AddrFromSlice(n.IP)
	if !ok {
		return netip.Prefix{}
	}
	if bits == 128 && a.Is4In6() && ones >= 96 {
		return netip.PrefixFrom(a.Unmap(), ones-96)
	}
	if a.Is4In6() {
		a = a.Unmap()
	}
	if ones > a.BitLen() {
		return netip.Prefix{}
	}
	return netip.PrefixFrom(a, ones)
}

func cacheBlock(a netip.Addr) netip.Prefix {
	bits := 24
	if a.Is6() {
		bits = 56
	}
	p, _ := a.Prefix(bits)
	return p
}

// loadRealDB enumerates the networks of the test databases, cuts zones out of
// them and asks a reference geoip.File (its own instance, queried with plain,
// unmapped addresses only, once per zone) for their locations and subnets.
func loadRealDB() (*realDB, error) {
	realOnce.Do(func() {
		city, isp := geoPaths()
		cr, err := maxminddb.Open(city)
		if err != nil {
			realErr = err
			return
		}
		defer cr.Close()
		ar, err := maxminddb.Open(isp)
		if err != nil {
			realErr = err
			return
		}
		defer ar.Close()
		ref, err := newRealFile(8192)
		if err != nil {
			realErr = err
			return
		}
		// The enumeration is deterministic (database order, fixed offsets).
		rng := rand.New(rand.NewPCG(5, 5))
		var cands []netip.Addr
		nets := cr.Networks(maxminddb.SkipAliasedNetworks)
		for nets.Next() {
			var rec struct {
				Country struct {
					ISO string `maxminddb:"iso_code"`
				} `maxminddb:"country"`
			}
			n, nerr := nets.Network(&rec)
			if nerr != nil || rec.Country.ISO == "" {
				continue
			}
			p := ipnetPrefix(n)
			if !p.IsValid() {
				continue
			}
			cands = append(cands, p.Addr(), randAddrIn(rng, p), randAddrIn(rng, p))
		}
		for _, s := range []string{"10.77.1.9", "192.0.2.77", "fd12:3456:789a:1100::5", "2001:db8:77:100::9"} {
			cands = append(cands, netip.MustParseAddr(s))
		}
		blocks := map[netip.Prefix]bool{}
		var zones []zone
		for _, a := range cands {
			var x, y any
			cn, _, e1 := cr.LookupNetwork(net.IP(a.AsSlice()), &x)
			an, _, e2 := ar.LookupNetwork(net.IP(a.AsSlice()), &y)
			z, zb := ipnetPrefix(cn), ipnetPrefix(an)
			if e1 != nil || e2 != nil || !z.IsValid() || !zb.IsValid() || !z.Contains(a) || !zb.Contains(a) {
				continue
			}
			if zb.Bits() > z.Bits() {
				z = zb
			}
			b := cacheBlock(a)
			if z.Bits() < b.Bits() {
				z = b
			}
			if blocks[b] {
				continue
			}
			l, lerr := ref.Data("", randAddrIn(rng, z))
			if lerr != nil || l == nil {
				continue
			}
			zn := zone{Net: z, Country: string(l.Country), ASN: uint32(l.ASN)}
			for f, fam := range []netutil.AddrFamily{netutil.AddrFamilyIPv4, netutil.AddrFamilyIPv6} {
				for _, sub := range []string{"", l.TopSubdivision} {
					lc := &geoip.Location{Country: l.Country, ASN: l.ASN, TopSubdivision: sub}
					sp, serr := ref.SubnetByLocation(lc, fam)
					if serr != nil || !sp.IsValid() {
						continue
					}
					if !inSet(sp, zn.Sub[f]) {
						zn.Sub[f] = append(zn.Sub[f], sp)
					}
				}
			}
			if len(zn.Sub[0]) == 0 || len(zn.Sub[1]) == 0 {
				continue
			}
			blocks[b] = true
			zones = append(zones, zn)
		}
		// No zone may touch a coarse subnet: a client address or client prefix
		// inside one would make a leak unrecognisable.
		var coarse []netip.Prefix
		for _, zn := range zones {
			for _, ps := range zn.Sub {
				for _, q := range ps {
					if q.Bits() > 0 {
						coarse = append(coarse, q)
					}
				}
			}
		}
		d := &realDB{}
		for _, zn := range zones {
			if overlapsAny(zn.Net, coarse) {
				continue
			}
			switch {
			case zn.Country == "":
				d.unknown = append(d.unknown, zn)
			case zn.Net.Addr().Is4():
				d.zones4 = append(d.zones4, zn)
			default:
				d.zones6 = append(d.zones6, zn)
			}
		}
		realData = d
	})
	return realData, realErr
}

func countriesOf(zs []zone) map[string]bool {
	m := map[string]bool{}
	for _, z := range zs {
		m[z.Country] = true
	}
	return m
}

// newRealWorld picks zones of the real databases for one history: all IPv4
// zones, some IPv6 zones of different countries and the zones without a
// country.
func newRealWorld(rng *rand.Rand, d *realDB) *world {
	w := &world{ASNSub: map[string]netip.Prefix{}, CtrySub: map[string]netip.Prefix{}, IPCache: []int{1, 3, 64, 64}[rng.IntN(4)]}
	add := func(z zone) int {
		n := [2]netip.Prefix{}
		n[famOf(z.Net.Addr())/6] = z.Net
		w.Nets = append(w.Nets, n)
		w.Locs = append(w.Locs, location{z.Country, z.ASN})
		w.Real = append(w.Real, z.Sub)
		w.Countries = append(w.Countries, z.Country)
		return len(w.Nets) - 1
	}
	var idx4, idx6, idxU []int
	for _, i := range rng.Perm(len(d.zones4)) {
		if len(idx4) < 10 {
			idx4 = append(idx4, add(d.zones4[i]))
		}
	}
	seen := map[string]int{}
	for _, i := range rng.Perm(len(d.zones6)) {
		if z := d.zones6[i]; len(idx6) < 7 && seen[z.Country] < 2 {
			seen[z.Country]++
			idx6 = append(idx6, add(z))
		}
	}
	for _, z := range d.unknown {
		idxU = append(idxU, add(z))
	}
	all := append(append(append([]int{}, idx4...), idx6...), idxU...)
	for k := 0; k < 10; k++ {
		pool := all
		switch {
		case k < 4:
			pool = idx4
		case k < 8:
			pool = idx6
		}
		zi := pool[rng.IntN(len(pool))]
		z := w.Nets[zi][0]
		if !z.IsValid() {
			z = w.Nets[zi][1]
		}
		a := randAddrIn(rng, z)
		if z.Bits() == a.BitLen() {
			a = z.Addr()
		}
		w.Clients = append(w.Clients, client{Addr: a, Loc: zi})
	}
	return w
}

// ---------------------------------------------------------------------------
// Requests.
// ---------------------------------------------------------------------------

// ecsSpec describes the ECS option of a query as it is put on the wire.
type ecsSpec struct {
	// Kind: none | valid | zero | badfam | fam0 | longprefix | hostbits |
	// addrlen | padlong | short | dup.
	Kind   string `json:"kind"`
	Family uint16 `json:"family,omitempty"`
	Bits   uint8  `json:"bits,omitempty"`
	// Addr is the ADDRESS field exactly as sent (hex in JSON).
	Addr hexBytes `json:"addr,omitempty"`
	// Second is the second option of a "dup" query.
	Second *ecsSpec `json:"second,omitempty"`
	// Raw, if set, is the complete OPTION-DATA as sent (listener phase only:
	// forms that cannot even be expressed as family/prefix/address).
	Raw hexBytes `json:"raw,omitempty"`
}

type hexBytes []byte

func (h hexBytes) MarshalJSON() ([]byte, error) { return json.Marshal(hex.EncodeToString(h)) }

// class is the model's view of the option: "none", "valid" (includes /0),
// "malformed", "lenient" (the wire form is irregular but the parsed option is
// indistinguishable from a regular one: either FORMERR or normal service is
// accepted) or "dup".
func (e *ecsSpec) class() string {
	switch e.Kind {
	case "none":
		return "none"
	case "valid", "zero":
		return "valid"
	case "padlong", "short":
		return "lenient"
	case "dup":
		return "dup"
	default:
		return "malformed"
	}
}

// prefix returns the prefix a well-formed option denotes (ADDRESS padded with
// zeros to the family's length).
func (e *ecsSpec) prefix() netip.Prefix {
	n := 4
	if e.Family == 2 {
		n = 16
	}
	b := make([]byte, n)
	copy(b, e.Addr)
	a, _ := netip.AddrFromSlice(b)
	return netip.PrefixFrom(a, int(e.Bits))
}

// declined: the (first) option is well-formed and has a zero-length prefix.
func (e *ecsSpec) declined() bool {
	c := e.class()
	return (c == "valid" || c == "dup") && e.Bits == 0
}

type question struct {
	Name  string `json:"name"` // lower-case FQDN
	Qtype uint16 `json:"qtype"`
	// Mode of the scripted upstream for this question: noopt | optnoecs |
	// scope0 | eq | less | more | fixed16 | alt | nx-eq | nx-0.
	Mode string `json:"mode"`
	TTL  uint32 `json:"ttl"`
	Fake bool   `json:"fake_ecs_list"`
}

type step struct {
	Client int     `json:"client"`
	Q      int     `json:"q"`
	DO     bool    `json:"do"`
	OPT    bool    `json:"opt"`
	Flip   uint32  `json:"case_flip"`
	Srv    int     `json:"srv"`
	ECS    ecsSpec `json:"ecs"`
	// Alias: the query asks for aliasLabel + the question's name; the filter
	// of the stack rewrites it (like a $dnsrewrite CNAME rule) to the
	// question's name, so the request travels the rewritten-request path of the
	// filtering middleware and shares the cache with direct queries.
	Alias bool `json:"alias,omitempty"`
}

const aliasLabel = "cname-alias."

// aliasStorage is a filter.Storage whose filter rewrites every question that
// starts with aliasLabel to the rest of the name, the way the rule-list
// filters do for CNAME rewrite rules.
type aliasStorage struct{}

func (aliasStorage) ForConfig(context.Context, filter.Config) filter.Interface { return aliasFilter{} }
func (aliasStorage) HasListID(filter.ID) bool                                  { return false }

type aliasFilter struct{}

func (aliasFilter) FilterRequest(_ context.Context, req *filter.Request) (filter.Result, error) {
	name := req.DNS.Question[0].Name
	if len(name) <= len(aliasLabel) || !strings.EqualFold(name[:len(aliasLabel)], aliasLabel) {
		return nil, nil
	}
	mod := req.DNS.Copy()
	mod.Question[0].Name = name[len(aliasLabel):]
	return &filter.ResultModifiedRequest{Msg: mod, List: "c05_alias", Rule: "|cname-alias.*^$dnsrewrite=NOERROR;CNAME;*"}, nil
}

func (aliasFilter) FilterResponse(context.Context, *filter.Response) (filter.Result, error) {
	return nil, nil
}

type history struct {
	Variant   string     `json:"variant"`
	Index     int        `json:"history"`
	World     *world     `json:"world"`
	Questions []question `json:"questions"`
	Steps     []step     `json:"-"`
	Cache     struct {
		ECSCount, NoECSCount int
		MinTTL               time.Duration
		Override             bool
	} `json:"cache"`
}

var fakeNames []string
var fakeOnce sync.Once

func fakeList() []string {
	fakeOnce.Do(func() {
		for _, v := range ecscache.FakeECSFQDNs.Values() {
			// Plain host names only; skip anything the wire crafter would not
			// encode one-to-one.
			if len(v) > 60 || strings.ContainsAny(v, "*_ ") || v != strings.ToLower(v) {
				continue
			}
			fakeNames = append(fakeNames, v)
		}
		sort.Strings(fakeNames)
	})
	return fakeNames
}

var scopedModes = []string{"eq", "less", "more", "fixed16", "alt", "nx-eq"}
var unscopedModes = []string{"noopt", "optnoecs", "scope0", "nx-0"}

func pickTTL(rng *rand.Rand) uint32 {
	switch x := rng.IntN(100); {
	case x < 8:
		return 0
	case x < 14:
		return 2
	default:
		return 3600
	}
}

func newHistory(rng *rand.Rand, variant string, idx int) *history {
	return newHistoryIn(rng, variant, idx, newWorld(rng))
}

func newHistoryIn(rng *rand.Rand, variant string, idx int, w *world) *history {
	h := &history{Variant: variant, Index: idx, World: w}
	h.Cache.ECSCount = []int{1, 3, 100, 100}[rng.IntN(4)]
	h.Cache.NoECSCount = []int{1, 3, 100, 100}[rng.IntN(4)]
	if rng.IntN(3) == 0 {
		h.Cache.Override, h.Cache.MinTTL = true, 30*time.Second
	}
	qtypes := []uint16{dns.TypeA, dns.TypeA, dns.TypeAAAA, dns.TypeTXT}
	names := []string{"www.c05.example.", "cdn.geo.c05.example.", "api.c05-region.example.", "static.c05.example.org."}
	for i := 0; i < 4; i++ {
		q := question{Name: names[rng.IntN(len(names))], Qtype: qtypes[rng.IntN(len(qtypes))], TTL: pickTTL(rng)}
		switch {
		case i < 2:
			q.Mode = scopedModes[rng.IntN(len(scopedModes))]
		case i == 2:
			q.Mode = unscopedModes[rng.IntN(len(unscopedModes))]
		default:
			if fl := fakeList(); len(fl) > 0 && rng.IntN(2) == 0 {
				q.Name, q.Fake = fl[rng.IntN(len(fl))], true
				q.Mode = []string{"eq", "less", "fixed16"}[rng.IntN(3)]
			} else {
				all := append(append([]string{}, scopedModes...), unscopedModes...)
				q.Mode = all[rng.IntN(len(all))]
			}
		}
		if strings.HasPrefix(q.Mode, "nx") {
			q.Qtype = dns.TypeA
		}
		dupQ := false
		for _, o := range h.Questions {
			if o.Name == q.Name && o.Qtype == q.Qtype {
				dupQ = true
			}
		}
		if dupQ {
			i--
			continue
		}
		h.Questions = append(h.Questions, q)
	}
	n := 40 + rng.IntN(161)
	for i := 0; i < n; i++ {
		s := step{Client: rng.IntN(len(h.World.Clients)), Q: rng.IntN(4), DO: rng.IntN(10) < 3,
			OPT: rng.IntN(2) == 0, Flip: rng.Uint32(), Srv: rng.IntN(2)}
		if rng.IntN(3) > 0 {
			s.Flip = 0
		}
		s.ECS = genECS(rng, h.World, s.Client)
		// (a function of the indices, so that the draws above stay what they
		// were before aliases existed)
		s.Alias = (uint32(i)*2654435761+uint32(idx)*40503)>>7%6 == 0
		h.Steps = append(h.Steps, s)
	}
	return h
}

// genValid makes a well-formed, non-zero option from client space.
func genValid(rng *rand.Rand, w *world, cl int) ecsSpec {
	if w.Real != nil {
		return genValidReal(rng, w)
	}
	if rng.IntN(12) == 0 {
		// An IPv6-family option that carries an IPv4-mapped address; GeoIP
		// locates it like the IPv4 address.
		base := unknown4[rng.IntN(len(unknown4))]
		if rng.IntN(4) > 0 {
			base = w.Nets[rng.IntN(3)][0]
		}
		return mappedSpec(netip.PrefixFrom(randAddrIn(rng, base), 16+rng.IntN(17)).Masked())
	}
	fam := []int{4, 6}[rng.IntN(2)]
	if rng.IntN(3) > 0 {
		fam = famOf(w.Clients[cl].Addr)
	}
	var base netip.Prefix
	short := false
	switch x := rng.IntN(100); {
	case x < 65: // a (usually different) known location
		loc := rng.IntN(3)
		base = w.Nets[loc][fam/6]
	case x < 80: // space unknown to GeoIP
		if fam == 4 {
			base = unknown4[rng.IntN(len(unknown4))]
		} else {
			base = unknown6[rng.IntN(len(unknown6))]
		}
	case x < 90: // the client's own address (what a forwarder would put there)
		a := w.Clients[cl].Addr
		fam = famOf(a)
		base = netip.PrefixFrom(a, a.BitLen())
	default:
		short = true
		base = w.Nets[rng.IntN(3)][fam/6]
	}
	a := randAddrIn(rng, base)
	if base.Bits() == a.BitLen() {
		a = base.Addr()
	}
	var bits int
	switch {
	case short:
		bits = 1 + rng.IntN(12)
	case fam == 4:
		bits = []int{24, 24, 24, 32, 16 + rng.IntN(17)}[rng.IntN(5)]
	default:
		bits = []int{56, 56, 48, 64, 128, 32 + rng.IntN(97)}[rng.IntN(6)]
	}
	p := netip.PrefixFrom(a, bits).Masked()
	raw := p.Addr().AsSlice()
	e := ecsSpec{Kind: "valid", Family: uint16(1 + fam/6), Bits: uint8(bits), Addr: raw[:(bits+7)/8]}
	return e
}

// mappedSpec is the IPv6-family option ::ffff:a.b.c.d/(96+n) for the IPv4
// prefix a.b.c.d/n.
func mappedSpec(p4 netip.Prefix) ecsSpec {
	a4 := p4.Masked().Addr().As4()
	raw := netip.AddrFrom16([16]byte{10: 0xff, 11: 0xff, 12: a4[0], 13: a4[1], 14: a4[2], 15: a4[3]}).AsSlice()
	bits := 96 + p4.Bits()
	return ecsSpec{Kind: "valid", Family: 2, Bits: uint8(bits), Addr: raw[:(bits+7)/8]}
}

// isMapped reports whether the option is an IPv6-family option with an
// IPv4-mapped address.
func (e *ecsSpec) isMapped() bool {
	c := e.class()
	return (c == "valid" || c == "dup" || c == "lenient") && e.Family == 2 && e.Bits >= 96 && e.prefix().Addr().Is4In6()
}

// genValidReal draws a well-formed option from the zones of a real-database
// world: never shorter than the zone (so that the reference location of its
// address is known), plain or, for IPv4 zones, IPv4-mapped.
func genValidReal(rng *rand.Rand, w *world) ecsSpec {
	zi := rng.IntN(len(w.Nets))
	z, fam := w.Nets[zi][0], 4
	if !z.IsValid() {
		z, fam = w.Nets[zi][1], 6
	}
	a := randAddrIn(rng, z)
	if z.Bits() == a.BitLen() {
		a = z.Addr()
	}
	bits := z.Bits() + rng.IntN(a.BitLen()-z.Bits()+1)
	if typical := map[int]int{4: 24, 6: 56}[fam]; typical >= z.Bits() && rng.IntN(2) == 0 {
		bits = typical
	}
	p := netip.PrefixFrom(a, bits).Masked()
	if fam == 4 && rng.IntN(2) == 0 {
		return mappedSpec(p)
	}
	raw := p.Addr().AsSlice()
	return ecsSpec{Kind: "valid", Family: uint16(1 + fam/6), Bits: uint8(bits), Addr: raw[:(bits+7)/8]}
}

func genECS(rng *rand.Rand, w *world, cl int) ecsSpec {
	if w.Real != nil && rng.IntN(100) < 45 {
		return genValid(rng, w, cl)
	}
	x := rng.IntN(100)
	switch {
	case x < 33:
		return ecsSpec{Kind: "none"}
	case x < 58:
		return genValid(rng, w, cl)
	case x < 73:
		return ecsSpec{Kind: "zero", Family: uint16(1 + rng.IntN(2))}
	case x < 76:
		return ecsSpec{Kind: "badfam", Family: []uint16{3, 0, 0x4001, 0xffff}[rng.IntN(4)], Bits: uint8(8 + rng.IntN(17)), Addr: []byte{10, 1, 2, 0}[:1+rng.IntN(3)]}
	case x < 79:
		return ecsSpec{Kind: "fam0"}
	case x < 82:
		e := genValid(rng, w, cl)
		e.Kind = "longprefix"
		full := e.prefix().Addr().AsSlice()
		e.Addr = full
		if e.Family == 1 {
			e.Bits = uint8(33 + rng.IntN(223))
		} else {
			e.Bits = uint8(129 + rng.IntN(127))
		}
		return e
	case x < 86:
		// Bits beyond the prefix are set: either inside the last needed octet
		// or in additional octets.
		e := genValid(rng, w, cl)
		e.Kind = "hostbits"
		max := 32
		if e.Family == 2 {
			max = 128
		}
		if int(e.Bits) >= max {
			e.Bits = uint8(max - 8)
		}
		full := e.prefix().Masked().Addr().AsSlice()
		bit := int(e.Bits) + rng.IntN(max-int(e.Bits))
		full[bit/8] |= 0x80 >> (bit % 8)
		e.Addr = full[:bit/8+1]
		return e
	case x < 89:
		// Struct-level only: an address whose length fits neither family.
		e := genValid(rng, w, cl)
		e.Kind = "addrlen"
		full := e.prefix().Addr().AsSlice()
		if e.Family == 1 {
			e.Addr = [][]byte{nil, full[:3], append(full, 0)}[rng.IntN(3)]
		} else {
			e.Addr = [][]byte{nil, full[:15], append(full, 0)}[rng.IntN(3)]
		}
		return e
	case x < 91:
		e := genValid(rng, w, cl)
		e.Kind = "padlong"
		e.Addr = e.prefix().Addr().AsSlice()
		return e
	case x < 93:
		e := genValid(rng, w, cl)
		if len(e.Addr) < 2 || w.Real != nil {
			// (in a real-database world a shortened address could leave its
			// zone)
			return e
		}
		e.Kind = "short"
		e.Addr = e.Addr[:len(e.Addr)-1]
		return e
	default:
		if !includeDupOption {
			return genValid(rng, w, cl)
		}
		first := genValid(rng, w, cl)
		if rng.IntN(3) == 0 {
			first = ecsSpec{Kind: "zero", Family: uint16(1 + rng.IntN(2))}
		}
		second := genValid(rng, w, cl)
		return ecsSpec{Kind: "dup", Family: first.Family, Bits: first.Bits, Addr: first.Addr, Second: &second}
	}
}

// ---- wire crafting (so that irregular options reach the parser as bytes) ----

func ecsWire(e *ecsSpec) []byte {
	b := []byte{0, 8, 0, 0, byte(e.Family >> 8), byte(e.Family), e.Bits, 0}
	b = append(b, e.Addr...)
	if e.Raw != nil {
		b = append([]byte{0, 8, 0, 0}, e.Raw...)
	}
	binary.BigEndian.PutUint16(b[2:], uint16(len(b)-4))
	return b
}

func packQuery(id uint16, name string, qtype uint16, opt, do bool, opts [][]byte) []byte {
	b := make([]byte, 12, 128)
	binary.BigEndian.PutUint16(b[0:], id)
	b[2] = 0x01 // RD
	binary.BigEndian.PutUint16(b[4:], 1)
	if opt {
		binary.BigEndian.PutUint16(b[10:], 1)
	}
	for _, l := range strings.Split(strings.TrimSuffix(name, "."), ".") {
		b = append(b, byte(len(l)))
		b = append(b, l...)
	}
	b = append(b, 0)
	b = binary.BigEndian.AppendUint16(b, qtype)
	b = binary.BigEndian.AppendUint16(b, dns.ClassINET)
	if opt {
		b = append(b, 0)
		b = binary.BigEndian.AppendUint16(b, dns.TypeOPT)
		b = binary.BigEndian.AppendUint16(b, 1232)
		ttl := uint32(0)
		if do {
			ttl |= 1 << 15
		}
		b = binary.BigEndian.AppendUint32(b, ttl)
		rd := []byte{}
		for _, o := range opts {
			rd = append(rd, o...)
		}
		b = binary.BigEndian.AppendUint16(b, uint16(len(rd)))
		b = append(b, rd...)
	}
	return b
}

func flipCase(name string, flip uint32) string {
	b := []byte(name)
	for i := range b {
		if flip>>(uint(i)%32)&1 == 1 && 'a' <= b[i] && b[i] <= 'z' {
			b[i] -= 'a' - 'A'
		}
	}
	return string(b)
}

func subnetOpt(e *ecsSpec) *dns.EDNS0_SUBNET {
	o := &dns.EDNS0_SUBNET{Code: dns.EDNS0SUBNET, Family: e.Family, SourceNetmask: e.Bits}
	if e.Addr != nil {
		o.Address = net.IP(append([]byte{}, e.Addr...))
	}
	return o
}

// buildQuery returns the message to inject: parsed from crafted wire bytes
// when the DNS library accepts them ("wire"), otherwise the same option as a
// message structure ("struct").
func buildQuery(id uint16, q *question, s *step) (m *dns.Msg, via string) {
	name := q.Name
	if s.Alias {
		name = aliasLabel + name
	}
	name = flipCase(name, s.Flip)
	var opts [][]byte
	if s.ECS.Kind != "none" {
		opts = append(opts, ecsWire(&s.ECS))
		if s.ECS.Second != nil {
			opts = append(opts, ecsWire(s.ECS.Second))
		}
	}
	opt := s.OPT || s.DO || len(opts) > 0
	wire := packQuery(id, name, q.Qtype, opt, s.DO, opts)
	m = &dns.Msg{}
	if err := m.Unpack(wire); err == nil && s.ECS.Kind != "addrlen" {
		return m, "wire"
	}
	m = &dns.Msg{}
	m.Id = id
	m.RecursionDesired = true
	m.Question = []dns.Question{{Name: name, Qtype: q.Qtype, Qclass: dns.ClassINET}}
	m.SetEdns0(1232, s.DO)
	o := m.IsEdns0()
	o.Option = append(o.Option, subnetOpt(&s.ECS))
	if s.ECS.Second != nil {
		o.Option = append(o.Option, subnetOpt(s.ECS.Second))
	}
	return m, "struct"
}

// ---------------------------------------------------------------------------
// Observation.
// ---------------------------------------------------------------------------

// ecsSeen is one ECS option as seen on the wire.
type ecsSeen struct {
	Family uint16       `json:"family"`
	Source uint8        `json:"source"`
	Scope  uint8        `json:"scope"`
	Prefix netip.Prefix `json:"prefix"`
}

// wireView packs and re-parses m, i.e. returns what a peer would receive.
func wireView(m *dns.Msg) (*dns.Msg, error) {
	b, err := m.Pack()
	if err != nil {
		return nil, err
	}
	out := &dns.Msg{}
	if err = out.Unpack(b); err != nil {
		return nil, err
	}
	return out, nil
}

func ecsOf(m *dns.Msg) (out []ecsSeen) {
	o := m.IsEdns0()
	if o == nil {
		return nil
	}
	for _, x := range o.Option {
		e, ok := x.(*dns.EDNS0_SUBNET)
		if !ok {
			continue
		}
		s := ecsSeen{Family: e.Family, Source: e.SourceNetmask, Scope: e.SourceScope}
		var a netip.Addr
		switch e.Family {
		case 1:
			if ip4 := e.Address.To4(); ip4 != nil {
				a, _ = netip.AddrFromSlice(ip4)
			}
		case 2:
			a, _ = netip.AddrFromSlice(e.Address.To16())
		default:
			a = netip.IPv4Unspecified()
		}
		if a.IsValid() {
			s.Prefix = netip.PrefixFrom(a, int(e.SourceNetmask))
		}
		out = append(out, s)
	}
	return out
}

// callRec is one call of the scripted upstream.
type callRec struct {
	N       int           `json:"call"`
	ReqID   agd.RequestID `json:"-"`
	ForStep int           `json:"for_step"`
	Name    string        `json:"name"` // lower case
	Qtype   uint16        `json:"qtype"`
	// ECS are the options of the upstream request (wire view), S0 the first.
	ECS []ecsSeen `json:"upstream_ecs"`
	// ReplyECS tells whether the scripted answer carried an ECS option, Scope
	// its scope.
	ReplyECS bool   `json:"reply_has_ecs"`
	Scope    uint8  `json:"reply_scope"`
	TTL      uint32 `json:"ttl"`
	PackErr  string `json:"pack_err,omitempty"`
}

// scoped: the upstream scoped this answer to a subnet.
func (c *callRec) scoped() bool { return c.ReplyECS && c.Scope != 0 }

type runner struct {
	h  *history
	st *stack.Stack

	mu     sync.Mutex
	calls  map[int]*callRec
	ncalls atomic.Int64
	altCtr map[int]int
}

const payloadTop = 240

func (rn *runner) upstream(ctx context.Context, req *dns.Msg, _ *agd.RequestInfo) (*dns.Msg, error) {
	n := int(rn.ncalls.Add(1))
	q := req.Question[0]
	lname := strings.ToLower(q.Name)
	var qs *question
	qi := -1
	for i := range rn.h.Questions {
		if rn.h.Questions[i].Name == lname && rn.h.Questions[i].Qtype == q.Qtype {
			qs, qi = &rn.h.Questions[i], i
		}
	}
	rec := &callRec{N: n, Name: lname, Qtype: q.Qtype, ForStep: -1}
	rec.ReqID, _ = agd.RequestIDFromContext(ctx)
	if wv, err := wireView(req); err != nil {
		rec.PackErr = err.Error()
		rec.ECS = ecsOf(req)
	} else {
		rec.ECS = ecsOf(wv)
	}
	resp := &dns.Msg{}
	resp.SetReply(req)
	resp.RecursionAvailable = true
	mode, ttl := "scope0", uint32(3600)
	if qs != nil {
		mode, ttl = qs.Mode, qs.TTL
	} else if i := strings.Index(lname, "-"); i > 0 && strings.HasSuffix(lname, ".c05-wire.example.") {
		// listener phase: the first label names the mode
		mode = lname[:i]
	}
	rec.TTL = ttl
	hdr := dns.RR_Header{Name: q.Name, Rrtype: q.Qtype, Class: dns.ClassINET, Ttl: ttl}
	switch {
	case strings.HasPrefix(mode, "nx"):
		resp.Rcode = dns.RcodeNameError
		resp.Ns = append(resp.Ns, &dns.SOA{Hdr: dns.RR_Header{Name: q.Name, Rrtype: dns.TypeSOA, Class: dns.ClassINET, Ttl: ttl},
			Ns: "ns.c05.example.", Mbox: "h.c05.example.", Serial: uint32(n), Refresh: 1, Retry: 1, Expire: 1, Minttl: ttl})
	case q.Qtype == dns.TypeA:
		resp.Answer = append(resp.Answer, &dns.A{Hdr: hdr, A: net.IPv4(payloadTop, byte(n>>16), byte(n>>8), byte(n))})
	case q.Qtype == dns.TypeAAAA:
		ip := netip.MustParseAddr("2001:db8:ffff::").As16()
		binary.BigEndian.PutUint32(ip[12:], uint32(n))
		resp.Answer = append(resp.Answer, &dns.AAAA{Hdr: hdr, AAAA: net.IP(ip[:])})
	default:
		hdr.Rrtype = dns.TypeTXT
		resp.Answer = append(resp.Answer, &dns.TXT{Hdr: hdr, Txt: []string{fmt.Sprintf("c05-call-%d", n)}})
	}
	var reqECS *dns.EDNS0_SUBNET
	do := false
	if o := req.IsEdns0(); o != nil {
		do = o.Do()
		for _, x := range o.Option {
			if e, ok := x.(*dns.EDNS0_SUBNET); ok {
				reqECS = e
				break
			}
		}
	}
	if mode == "alt" {
		rn.mu.Lock()
		rn.altCtr[qi]++
		if rn.altCtr[qi]%2 == 1 {
			mode = "eq"
		} else {
			mode = "scope0"
		}
		rn.mu.Unlock()
	}
	if mode != "noopt" {
		resp.SetEdns0(1232, do)
		if reqECS != nil && mode != "optnoecs" {
			max := uint8(32)
			if reqECS.Family == 2 {
				max = 128
			}
			src := reqECS.SourceNetmask
			var scope uint8
			switch mode {
			case "scope0", "nx-0":
				scope = 0
			case "eq", "nx-eq":
				scope = src
			case "less":
				scope = (src + 1) / 2
			case "more":
				scope = min(src+4, max)
			case "fixed16":
				scope = 16
			}
			e := &dns.EDNS0_SUBNET{Code: dns.EDNS0SUBNET, Family: reqECS.Family, SourceNetmask: src, SourceScope: scope,
				Address: append(net.IP{}, reqECS.Address...)}
			o := resp.IsEdns0()
			o.Option = append(o.Option, e)
			rec.ReplyECS, rec.Scope = true, scope
		}
	}
	rn.mu.Lock()
	rn.calls[n] = rec
	rn.mu.Unlock()
	return resp, nil
}

// payloadOf extracts the upstream call number from a client response.
func payloadOf(m *dns.Msg) (n int, ok bool) {
	if m == nil {
		return 0, false
	}
	for _, rr := range m.Answer {
		switch v := rr.(type) {
		case *dns.A:
			if ip := v.A.To4(); ip != nil && ip[0] == payloadTop {
				return int(ip[1])<<16 | int(ip[2])<<8 | int(ip[3]), true
			}
		case *dns.AAAA:
			if ip := v.AAAA.To16(); ip != nil && ip[0] == 0x20 && ip[4] == 0xff && ip[5] == 0xff {
				return int(binary.BigEndian.Uint32(ip[12:])), true
			}
		case *dns.TXT:
			if len(v.Txt) == 1 {
				if _, err := fmt.Sscanf(v.Txt[0], "c05-call-%d", &n); err == nil {
					return n, true
				}
			}
		}
	}
	for _, rr := range m.Ns {
		if v, ok := rr.(*dns.SOA); ok && v.Ns == "ns.c05.example." {
			return int(v.Serial), true
		}
	}
	return 0, false
}

// obs is everything observed for one step.
type obs struct {
	Via      string
	ID       agd.RequestID
	NResp    int
	Resp     *dns.Msg
	Err      string
	Panic    string
	Upstream []*dns.Msg // as recorded by the stack (copies)
}

var servers = []*agd.Server{
	stack.NewServer("c05-dns", agd.ProtoDNS, netip.MustParseAddrPort("192.0.2.53:53"), false),
	stack.NewServer("c05-dot", agd.ProtoDoT, netip.MustParseAddrPort("192.0.2.53:853"), false),
}
var group = &agd.ServerGroup{DDR: stack.NewDDR(false), Name: "c05", FilteringGroup: "fg", Servers: servers}
var filteringGroups = map[agd.FilteringGroupID]*agd.FilteringGroup{"fg": {ID: "fg", FilterConfig: &filter.ConfigGroup{
	Parental: &filter.ConfigParental{}, RuleList: &filter.ConfigRuleList{}, SafeBrowsing: &filter.ConfigSafeBrowsing{}}}}

func newRunner(h *history, yield func()) (*runner, error) {
	rn := &runner{h: h, calls: map[int]*callRec{}, altCtr: map[int]int{}}
	gi, err := h.World.geo()
	if err != nil {
		return nil, err
	}
	st, err := stack.New(&stack.Options{
		Cache: &dnssvc.CacheConfig{Type: dnssvc.CacheTypeECS, ECSCount: h.Cache.ECSCount, NoECSCount: h.Cache.NoECSCount,
			MinTTL: h.Cache.MinTTL, OverrideCacheTTL: h.Cache.Override},
		GeoIP:           gi,
		FilterStorage:   aliasStorage{},
		Upstream:        rn.upstream,
		ServerGroups:    []*agd.ServerGroup{group},
		FilteringGroups: filteringGroups,
		Yield:           yield,
	})
	if err != nil {
		return nil, err
	}
	rn.st = st
	return rn, nil
}

func (rn *runner) serve(i int) *obs {
	s := &rn.h.Steps[i]
	q := &rn.h.Questions[s.Q]
	m, via := buildQuery(uint16(1000+i), q, s)
	srv := servers[s.Srv]
	out := rn.st.Serve(&stack.Request{Server: srv, Group: group, Msg: m,
		Remote: netip.AddrPortFrom(rn.h.World.Clients[s.Client].Addr, uint16(20000+i%20000)),
		Local:  netip.MustParseAddrPort("192.0.2.53:53")})
	o := &obs{Via: via, ID: out.ID, NResp: len(out.Responses), Resp: out.Resp()}
	if out.Err != nil {
		o.Err = out.Err.Error()
	}
	if out.Panic != nil {
		o.Panic = fmt.Sprint(out.Panic)
	}
	o.Upstream = append(o.Upstream, out.Trace.UpstreamReqs...)
	rn.st.Forget(out)
	return o
}

// ---------------------------------------------------------------------------
// Reference model (from the property statement).
// ---------------------------------------------------------------------------

// mapped returns the subnets a request may be mapped to: the GeoIP coarse
// subnet (or, lacking one, the zero prefix) for the location of the ECS
// option's address or of the client's address, in the family of the ECS option
// if there is one and of the client address otherwise.  A /0 option maps to
// nothing but the zero prefix.
func (w *world) mapped(c client, e *ecsSpec) (fam int, set []netip.Prefix) {
	fam = famOf(c.Addr)
	if e.class() == "none" {
		return fam, w.coarseSet(c.Loc, fam)
	}
	p := e.prefix()
	fam = famOf(p.Addr())
	if p.Bits() == 0 {
		return fam, nil
	}
	set = append(set, w.coarseSet(c.Loc, fam)...)
	if l := w.locOf(p.Addr()); l >= 0 {
		set = append(set, w.coarseSet(l, fam)...)
	}
	return fam, set
}

func inSet(p netip.Prefix, set []netip.Prefix) bool {
	for _, q := range set {
		if p == q {
			return true
		}
	}
	return false
}

// mayServe is the model's "who may share with whom": may the answer of
// upstream call c be given to a request with this mapping?  It returns "" or
// the name of the broken rule.
func mayServe(c *callRec, fakeListed, declined bool, fam int, set []netip.Prefix) string {
	s0 := zeroPrefix(fam)
	if len(c.ECS) > 0 && c.ECS[0].Prefix.IsValid() {
		s0 = c.ECS[0].Prefix
	}
	scoped := c.scoped() && !fakeListed
	if declined {
		// Opt-out: only answers obtained with a zero-length subnet.
		switch {
		case s0.Bits() == 0:
			return ""
		case scoped:
			return "optout:served-answer-scoped-to-a-subnet"
		default:
			return "optout:served-answer-obtained-for-a-subnet"
		}
	}
	if !scoped {
		// Answers the upstream did not scope are global.
		return ""
	}
	if inSet(s0, set) {
		return ""
	}
	if famOf(s0.Addr()) != fam {
		return "partition:scoped-answer-reused-for-other-family"
	}
	return "partition:scoped-answer-reused-for-other-subnet"
}

// ---------------------------------------------------------------------------
// Checker.
// ---------------------------------------------------------------------------

func stepStr(h *history, i int) string {
	s := &h.Steps[i]
	q := &h.Questions[s.Q]
	e := s.ECS.Kind
	if s.ECS.Kind != "none" {
		e = fmt.Sprintf("%s fam=%d /%d addr=%x", s.ECS.Kind, s.ECS.Family, s.ECS.Bits, []byte(s.ECS.Addr))
		if s.ECS.Second != nil {
			e += fmt.Sprintf(" + fam=%d /%d addr=%x", s.ECS.Second.Family, s.ECS.Second.Bits, []byte(s.ECS.Second.Addr))
		}
	}
	c := h.World.Clients[s.Client]
	name := q.Name
	if s.Alias {
		name = aliasLabel + name
	}
	return fmt.Sprintf("#%d client%d %s loc%d q%d %s/%d do=%v ecs[%s]", i, s.Client, c.Addr, c.Loc, s.Q, name, q.Qtype, s.DO, e)
}

func msgStr(m *dns.Msg) string {
	if m == nil {
		return "<nil>"
	}
	return strings.Join(strings.Fields(m.String()), " ")
}

func (rn *runner) check(r *vkit.Run, observed []*obs, sequential bool) {
	h := rn.h
	w := h.World
	// attribute upstream calls to the steps that caused them
	byID := map[agd.RequestID]int{}
	for i, o := range observed {
		if o != nil {
			byID[o.ID] = i
		}
	}
	for _, c := range rn.calls {
		if i, ok := byID[c.ReqID]; ok {
			c.ForStep = i
		}
	}
	// Witnesses are built lazily: only the first observation per key is
	// written out, later ones are only counted.
	witness := func(i int, extra map[string]any) func() any {
		return func() any { return rn.witness(observed, sequential, i, extra) }
	}
	lastMapped := ""
	for i, o := range observed {
		if o == nil {
			continue
		}
		s := &h.Steps[i]
		q := &h.Questions[s.Q]
		cl := w.Clients[s.Client]
		cls := s.ECS.class()
		r.Bucket("requests", 1)
		if w.Real != nil {
			r.Bucket("realgeo_requests", 1)
			noteCountry(w.Countries[cl.Loc], false)
		}
		if s.ECS.isMapped() {
			r.Bucket("mapped_option_requests", 1)
			if pl := w.locOf(s.ECS.prefix().Addr()); w.Real != nil && pl >= 0 {
				r.Bucket("realgeo_mapped_option_requests", 1)
				c := w.Countries[pl]
				noteCountry(c, true)
				if sequential && lastMapped != "" && lastMapped != c {
					r.Bucket("realgeo_mapped_option_after_mapped_option_of_other_country", 1)
				}
				lastMapped = c
			}
		} else if w.Real != nil && cls == "valid" && s.ECS.Bits > 0 {
			if pl := w.locOf(s.ECS.prefix().Addr()); pl >= 0 {
				noteCountry(w.Countries[pl], false)
			}
		}
		if s.Alias {
			r.Bucket("alias_requests", 1)
			if cls != "none" && cls != "malformed" {
				r.Bucket("alias_requests_with_ecs_option", 1)
			}
			if s.ECS.declined() {
				r.Bucket("alias_requests_optout", 1)
			}
		}
		r.Bucket("ecs_kind:"+s.ECS.Kind, 1)
		r.Bucket("injected_via_"+o.Via, 1)
		served := "?"
		nontrivial := cls != "none" || cl.Loc >= 0

		if o.Panic != "" {
			viol(r, "panic:serve", "the handler panicked on a request", witness(i, map[string]any{"panic": o.Panic}))
			r.Eval("panic", true)
			continue
		}

		// ---- malformed option => FORMERR, nothing leaves ----
		formerr := o.Resp != nil && o.Resp.Rcode == dns.RcodeFormatError
		if cls == "malformed" {
			switch {
			case o.NResp != 1 || !formerr:
				viol(r, "formerr:"+s.ECS.Kind+":not-formerr", "a query with a malformed ECS option was not answered with FORMERR",
					witness(i, map[string]any{"responses": o.NResp}))
			case len(o.Upstream) != 0:
				viol(r, "formerr:"+s.ECS.Kind+":reached-upstream", "a query with a malformed ECS option reached the upstream",
					witness(i, nil))
			default:
				r.Bucket("formerr_ok", 1)
			}
			r.Eval(fmt.Sprintf("malformed/%s/fam%d/%s/c%d", s.ECS.Kind, s.ECS.Family, o.Via, famOf(cl.Addr)), true)
			continue
		}
		if cls == "lenient" && formerr && len(o.Upstream) == 0 {
			r.Bucket("lenient_rejected", 1)
			r.Eval("lenient/formerr/"+s.ECS.Kind, true)
			continue
		}
		if formerr {
			viol(r, "valid-ecs:formerr", "a query with a well-formed (or no) ECS option was answered with FORMERR", witness(i, nil))
			r.Eval("valid/formerr", true)
			continue
		}
		if o.Resp == nil || o.NResp != 1 {
			viol(r, "serve:no-single-response", "a well-formed query did not get exactly one response although the upstream always answers",
				witness(i, map[string]any{"responses": o.NResp}))
			r.Eval("valid/noresp", true)
			continue
		}

		fam, set := w.mapped(cl, &s.ECS)
		declined := s.ECS.declined()
		if declined {
			r.Bucket("optout_requests", 1)
		}
		var clientPrefixes []netip.Prefix
		if cls != "none" {
			clientPrefixes = append(clientPrefixes, s.ECS.prefix())
		}
		if s.ECS.Second != nil {
			clientPrefixes = append(clientPrefixes, s.ECS.Second.prefix())
		}

		// ---- privacy: what left towards the upstream ----
		keyPfx := "privacy:"
		for _, u := range o.Upstream {
			r.Bucket("upstream_requests_checked", 1)
			wv, err := wireView(u)
			if err != nil {
				viol(r, "upstream:request-does-not-pack", "the request built for the upstream cannot be put on the wire",
					witness(i, map[string]any{"pack_err": err.Error()}))
				wv = u
			}
			seen := ecsOf(wv)
			if len(seen) == 0 {
				r.Bucket("upstream_request_without_ecs", 1)
			}
			for k, e := range seen {
				p := e.Prefix
				switch {
				case cls == "dup" && k >= 1 && p.IsValid() && p == s.ECS.Second.prefix():
					// One precise key for this input class: the second ECS
					// option of the client's query leaves unchanged.
					viol(r, "privacy:dup-option:second-ecs-option-forwarded-upstream",
						"a query with two ECS options: the second, client-supplied subnet is forwarded to the upstream unchanged",
						witness(i, map[string]any{"upstream_ecs": seen, "allowed": set, "family": fam}))
				case !p.IsValid():
					viol(r, keyPfx+"upstream-ecs-unparseable", "the upstream request carries an ECS option with an invalid address/prefix",
						witness(i, map[string]any{"upstream_ecs": seen}))
				case p.Bits() == 0 && p.Addr().IsUnspecified():
					r.Bucket("upstream_ecs_zero", 1)
				case declined:
					viol(r, "optout:upstream-ecs-not-zero", "a client that opted out with a /0 option caused a non-/0 ECS in the upstream request",
						witness(i, map[string]any{"upstream_ecs": seen}))
				case inSet(p, set):
					r.Bucket("upstream_ecs_coarse", 1)
				default:
					kind := "upstream-ecs-not-the-geoip-subnet-of-the-client"
					what := "the upstream request carries an ECS that is neither the GeoIP coarse subnet for the client's (or its option's) location and family nor /0"
					switch {
					case p.Contains(cl.Addr):
						kind = "upstream-ecs-covers-client-address"
					case overlapsAny(p, clientPrefixes):
						kind = "upstream-ecs-is-client-supplied-subnet"
					case w.isCoarse(p):
						kind = "upstream-ecs-is-coarse-subnet-of-other-location-or-family"
					}
					viol(r, keyPfx+kind, what, witness(i, map[string]any{"upstream_ecs": seen, "allowed": set, "family": fam}))
				}
			}
		}

		// ---- which upstream call produced the response ----
		n, ok := payloadOf(o.Resp)
		var call *callRec
		if ok {
			call = rn.calls[n]
		}
		switch {
		case call == nil:
			viol(r, "response:unknown-payload", "the response does not carry the payload of any upstream call of this history", witness(i, nil))
		case call.Name != q.Name || call.Qtype != q.Qtype:
			viol(r, "response:answer-of-another-question", "the response carries the answer of an upstream call for a different question",
				witness(i, map[string]any{"serving_call": call}))
			call = nil
		}
		if call != nil {
			own := call.ReqID == o.ID
			if own {
				served = "fresh"
				r.Bucket("served_fresh", 1)
			} else {
				served = "cached"
				r.Bucket("served_from_cache", 1)
				nontrivial = true
			}
			fakeListed := ecscache.FakeECSFQDNs.Has(q.Name)
			if rule := mayServe(call, fakeListed, declined, fam, set); rule != "" {
				src := ""
				if call.ForStep >= 0 {
					src = stepStr(h, call.ForStep)
				}
				viol(r, rule, "a client was served the answer of an upstream call that the model does not allow for it",
					witness(i, map[string]any{"serving_call": call, "serving_call_made_for": src, "client_mapped_to": set, "family": fam, "declined": declined}))
			}
			if !own {
				switch {
				case call.scoped() && fakeListed:
					served = "cached-fakelist"
					r.Bucket("reuse_fake_ecs_listed_scoped_answer", 1)
				case call.scoped():
					served = "cached-scoped"
					r.Bucket("reuse_scoped_answer_same_subnet", 1)
					if call.ForStep >= 0 && h.Steps[call.ForStep].Client != s.Client {
						r.Bucket("reuse_scoped_answer_same_subnet_other_client", 1)
					}
				default:
					served = "cached-unscoped"
					r.Bucket("reuse_unscoped_answer", 1)
				}
				if declined {
					r.Bucket("optout_served_from_cache", 1)
				}
			}
			// Evidence that the partition decision was exercised: the request
			// went upstream although an answer for the same question and DO,
			// still cacheable, was obtained earlier for another subnet.
			if own && sequential {
				past, sib := false, ""
				for m := 1; m < n; m++ {
					c2 := rn.calls[m]
					if c2 == nil || c2.ForStep < 0 || c2.ForStep >= i || c2.Name != call.Name || c2.Qtype != call.Qtype ||
						h.Steps[c2.ForStep].DO != s.DO || c2.TTL < 3600 {
						continue
					}
					if mayServe(c2, fakeListed, declined, fam, set) == "" {
						continue
					}
					past = true
					if c2.scoped() && !fakeListed && !declined && len(c2.ECS) > 0 {
						for _, p := range set {
							if k := siblingKind(c2.ECS[0].Prefix, p); k != "" {
								sib = k
							}
						}
					}
				}
				if past {
					if declined {
						r.Bucket("optout_went_upstream_past_subnet_answer", 1)
					} else {
						r.Bucket("went_upstream_past_other_subnet_answer", 1)
					}
					nontrivial = true
				}
				// Only where the earlier entry is certainly still cached (no
				// LRU pressure, TTL 3600): the request of one sibling subnet
				// went upstream although a scoped answer for the other sibling
				// was in the cache.
				if sib != "" && h.Cache.ECSCount >= 100 {
					r.Bucket("went_upstream_past_scoped_answer_of_"+sib+"_sibling_subnet", 1)
					served += "-past-" + sib + "-sibling"
				}
			}
		}

		// ---- ECS option of the response ----
		respECS := ecsOf(o.Resp)
		switch cls {
		case "none":
			if len(respECS) != 0 {
				key := "echo:ecs-in-response-to-query-without-ecs"
				viol(r, key, "a resolved response carries an ECS option although the query had none",
					witness(i, map[string]any{"response_ecs": respECS}))
			} else {
				r.Bucket("echo_absent_ok", 1)
			}
		case "valid", "lenient":
			want := s.ECS.prefix()
			switch {
			case len(respECS) == 0:
				viol(r, "echo:missing", "a resolved response lacks an ECS option although the query had a valid one", witness(i, nil))
			case len(respECS) > 1:
				viol(r, "echo:duplicate", "a resolved response carries more than one ECS option", witness(i, map[string]any{"response_ecs": respECS}))
			case respECS[0].Family != s.ECS.Family || respECS[0].Prefix != want:
				key := "echo:not-the-client-prefix"
				if w.isCoarse(respECS[0].Prefix) {
					key = "echo:coarse-subnet-instead-of-client-prefix"
				}
				viol(r, key, "the ECS option of the response is not the client's own prefix",
					witness(i, map[string]any{"response_ecs": respECS, "want_prefix": want, "want_family": s.ECS.Family}))
			case respECS[0].Scope != s.ECS.Bits:
				viol(r, "echo:scope-not-source-length", "the ECS option of the response has a scope different from the client's source prefix length",
					witness(i, map[string]any{"response_ecs": respECS, "want_scope": s.ECS.Bits}))
			default:
				r.Bucket("echo_ok", 1)
				if declined {
					r.Bucket("echo_ok_zero", 1)
				}
			}
		case "dup":
			if len(respECS) == 0 {
				viol(r, "echo:dup-option:missing", "a resolved response lacks an ECS option although the query had valid ones", witness(i, nil))
			}
			for _, e := range respECS {
				if w.isCoarse(e.Prefix) {
					viol(r, "echo:dup-option:coarse-subnet-in-response", "the response carries a GeoIP coarse subnet", witness(i, map[string]any{"response_ecs": respECS}))
				}
			}
		}

		locKind := "unknown"
		if cl.Loc >= 0 {
			locKind = "known"
			if w.coarse(cl.Loc, fam).Bits() == 0 {
				locKind = "known-nosubnet"
			}
		}
		ecsClass := s.ECS.Kind
		if s.ECS.Kind == "valid" || s.ECS.Kind == "dup" {
			pl := w.locOf(s.ECS.prefix().Addr())
			switch {
			case pl < 0:
				ecsClass += "-unknownloc"
			case pl == cl.Loc:
				ecsClass += "-sameloc"
			default:
				ecsClass += "-otherloc"
			}
		}
		if cls != "none" {
			ecsClass += fmt.Sprintf("-f%d", s.ECS.Family)
		}
		mode := q.Mode
		if q.Fake {
			mode += "-fakelist"
		}
		if s.Alias {
			served += "/alias"
		}
		r.Eval(fmt.Sprintf("c%d/%s/%s/%s/t%d/do%v/%s", famOf(cl.Addr), locKind, ecsClass, mode, q.Qtype, s.DO, served), nontrivial)
	}
}

// witness renders everything needed to understand one refuting observation.
func (rn *runner) witness(observed []*obs, sequential bool, i int, extra map[string]any) map[string]any {
	h := rn.h
	w := h.World
	o := observed[i]
	wt := map[string]any{
		"variant": h.Variant, "history": h.Index, "step": i, "step_desc": stepStr(h, i), "via": o.Via,
		"world": w, "questions": h.Questions, "cache": h.Cache,
		"ecs_spec": h.Steps[i].ECS, "response": msgStr(o.Resp), "err": o.Err,
	}
	var ups []string
	for _, u := range o.Upstream {
		ups = append(ups, msgStr(u))
	}
	wt["upstream_requests_of_step"] = ups
	var hist []string
	for j := 0; j <= i && j < len(h.Steps); j++ {
		hist = append(hist, stepStr(h, j))
	}
	if !sequential {
		hist = nil
		for j := range h.Steps {
			hist = append(hist, stepStr(h, j))
		}
	}
	wt["history_steps"] = hist
	for k, v := range extra {
		wt[k] = v
	}
	return wt
}

var (
	seenMu   sync.Mutex
	seenKeys = map[string]bool{}
)

var (
	countriesSeen       = map[string]bool{}
	countriesSeenMapped = map[string]bool{}
)

// noteCountry records a country whose addresses were used with the real
// database (as client address or option; mapped = in an IPv4-mapped option).
func noteCountry(c string, mapped bool) {
	if c == "" {
		return
	}
	seenMu.Lock()
	countriesSeen[c] = true
	if mapped {
		countriesSeenMapped[c] = true
	}
	seenMu.Unlock()
}

// viol reports a violation; the witness is only built for the first
// observation of a key, further observations are counted.
func viol(r *vkit.Run, key, what string, mk func() any) {
	seenMu.Lock()
	first := !seenKeys[key]
	seenKeys[key] = true
	seenMu.Unlock()
	r.Bucket("violation_observations:"+key, 1)
	if first {
		r.Violation(key, what, mk())
	}
}

// siblingKind classifies two distinct coarse subnets of the same family and
// length: "partial-byte" if the length is not byte-aligned and they differ only
// inside the last, partial byte; "last-byte" if they differ only in the last
// whole byte; "" otherwise.
func siblingKind(a, b netip.Prefix) string {
	if !a.IsValid() || !b.IsValid() || a == b || a.Bits() != b.Bits() || a.Addr().BitLen() != b.Addr().BitLen() || a.Bits() < 8 {
		return ""
	}
	x, y := a.Addr().AsSlice(), b.Addr().AsSlice()
	L := a.Bits()
	diff := -1
	for i := range x {
		if x[i] != y[i] {
			if diff >= 0 {
				return ""
			}
			diff = i
		}
	}
	switch {
	case L%8 != 0 && diff == L/8:
		return "partial-byte"
	case diff == L/8-1:
		return "last-byte"
	}
	return ""
}

func overlapsAny(p netip.Prefix, set []netip.Prefix) bool {
	for _, q := range set {
		if q.IsValid() && q.Bits() > 0 && p.Overlaps(q) {
			return true
		}
	}
	return false
}

// ---------------------------------------------------------------------------
// Drivers.
// ---------------------------------------------------------------------------

func runSequential(r *vkit.Run, idx int, verbose func(string, ...any)) {
	runSequentialH(r, newHistory(r.Rand("seq", idx), "seq", idx), verbose)
}

// runReal runs one history against the real geoip.File (a fresh instance per
// history, so its IP cache starts empty and fills during the history).
func runReal(r *vkit.Run, idx int, concurrent bool, verbose func(string, ...any)) {
	d, err := loadRealDB()
	if err != nil || d == nil {
		r.Inconclusive(fmt.Sprintf("real GeoIP databases unusable: %v", err))
		return
	}
	if len(countriesOf(d.zones4)) < 3 || len(countriesOf(d.zones6)) < 3 {
		r.Inconclusive(fmt.Sprintf("real GeoIP databases: too few usable zones (v4 countries %d, v6 countries %d)",
			len(countriesOf(d.zones4)), len(countriesOf(d.zones6))))
		return
	}
	variant := "real"
	if concurrent {
		variant = "realconc"
	}
	rng := r.Rand(variant, idx)
	h := newHistoryIn(rng, variant, idx, newRealWorld(rng, d))
	if concurrent {
		runConcurrentH(r, h)
	} else {
		runSequentialH(r, h, verbose)
	}
	r.Bucket("histories_real_geoip", 1)
}

func runSequentialH(r *vkit.Run, h *history, verbose func(string, ...any)) {
	idx := h.Index
	rn, err := newRunner(h, nil)
	if err != nil {
		r.Inconclusive("cannot build the stack: " + err.Error())
		return
	}
	observed := make([]*obs, len(h.Steps))
	for i := range h.Steps {
		observed[i] = rn.serve(i)
		if verbose != nil {
			verbose("%s\n   via=%s err=%q\n   -> %s", stepStr(h, i), observed[i].Via, observed[i].Err, msgStr(observed[i].Resp))
			for _, u := range observed[i].Upstream {
				verbose("   upstream: %s", msgStr(u))
			}
		}
	}
	rn.check(r, observed, true)
	r.Bucket("histories_sequential", 1)
	for _, fam := range []int{4, 6} {
		if h.World.Real != nil {
			break
		}
		kinds := map[string]bool{}
		for a := 0; a < 3; a++ {
			for b := a + 1; b < 3; b++ {
				if k := siblingKind(h.World.coarse(a, fam), h.World.coarse(b, fam)); k != "" {
					kinds[k] = true
				}
			}
		}
		for k := range kinds {
			r.Bucket("histories_x_family_with_"+k+"_sibling_locations", 1)
		}
	}
	r.Bucket("upstream_calls", int64(len(rn.calls)))
	if idx%37 == 3 {
		r.Sample(sampleOf(rn, observed))
	}
}

func sampleOf(rn *runner, observed []*obs) map[string]any {
	h := rn.h
	var steps []string
	for i := 0; i < len(h.Steps) && i < 12; i++ {
		o := observed[i]
		var ups []string
		for _, u := range o.Upstream {
			if wv, err := wireView(u); err == nil {
				ups = append(ups, fmt.Sprint(ecsOf(wv)))
			}
		}
		n, _ := payloadOf(o.Resp)
		rc := -1
		if o.Resp != nil {
			rc = o.Resp.Rcode
		}
		steps = append(steps, fmt.Sprintf("%s => rcode=%d call=%d upstream_ecs=%v response_ecs=%v", stepStr(h, i), rc, n, ups, ecsOf0(o.Resp)))
	}
	return map[string]any{"variant": h.Variant, "history": h.Index, "world": h.World, "questions": h.Questions, "first_steps": steps, "n_steps": len(h.Steps)}
}

func ecsOf0(m *dns.Msg) []ecsSeen {
	if m == nil {
		return nil
	}
	return ecsOf(m)
}

func runConcurrent(r *vkit.Run, idx int) {
	runConcurrentH(r, newHistory(r.Rand("conc", idx), "conc", idx))
}

func runConcurrentH(r *vkit.Run, h *history) {
	// Concentrate on two questions so that concurrent requests collide on
	// cache entries.
	for i := range h.Steps {
		if i%4 != 0 {
			h.Steps[i].Q = h.Steps[i].Q % 2
		}
	}
	var yc atomic.Uint64
	yield := func() {
		if yc.Add(1)%3 == 0 {
			runtime.Gosched()
		}
	}
	rn, err := newRunner(h, yield)
	if err != nil {
		r.Inconclusive("cannot build the stack: " + err.Error())
		return
	}
	observed := make([]*obs, len(h.Steps))
	workers := 8
	var next atomic.Int64
	var wg sync.WaitGroup
	for g := 0; g < workers; g++ {
		wg.Add(1)
		go func() {
			defer wg.Done()
			for {
				i := int(next.Add(1)) - 1
				if i >= len(h.Steps) {
					return
				}
				observed[i] = rn.serve(i)
			}
		}()
	}
	wg.Wait()
	rn.check(r, observed, false)
	r.Bucket("histories_concurrent", 1)
	r.Bucket("concurrent_requests", int64(len(h.Steps)))
	r.Bucket("upstream_calls", int64(len(rn.calls)))
}

func TestCheck(t *testing.T) {
	r := vkit.Start(t, "C05", "exploration")
	defer r.Finish()
	r.Rule("histories of 40-200 requests through the real stack (ratelimitmw -> ... -> ecscache -> scripted upstream) over 10 clients (IPv4+IPv6) in 3 GeoIP " +
		"locations (ASN-specific / country-wide / no coarse subnet per family) + unknown addresses x ECS option {none, valid (other/same/unknown location, any family), /0, " +
		"malformed: bad family, family 0, prefix too long, bits beyond prefix, bad address length; irregular-but-lenient wire forms; two options} x 4 questions " +
		"(upstream scope script: no OPT, no ECS, scope 0, =source, <source, >source, fixed 16, alternating, NXDOMAIN; names from the fake-ECS list; TTL 0/2/3600) x DO; " +
		"one evaluation per request; class = (client family, location kind, ECS class+family, upstream mode, qtype, DO, fresh/cached-scoped/cached-unscoped/cached-fakelist); " +
		"one request in six asks an alias name that the filter rewrites to the question's name (CNAME-rewrite path of the filtering middleware); " +
		"a second phase runs the same histories with the real geoip.File on the repository's test databases (clients and options from database networks of >=3 countries per family, " +
		"IPv6-family options with IPv4-mapped addresses, small and large GeoIP IP cache); " +
		"non-trivial = the request carried an ECS option, or came from a located client, or was served from the cache, or went upstream past a cached answer of another subnet")
	r.Assume("the GeoIP fake implements the documented SubnetByLocation order (ASN-specific, country-wide, unspecified prefix of the family)")
	r.Assume("names in ecscache.FakeECSFQDNs are documented as not ECS-dependent: their scoped answers may be shared")
	r.Assume("option validity is judged on the message as parsed by the DNS library; wire forms the library normalises (zero padding, short address) may be served or refused")
	r.Assume("real-database phase: the expected location and subnets of an address come from a second geoip.File instance queried once per zone with plain (unmapped) addresses; " +
		"every address used lies in a zone with uniform records in both test databases and no two zones share a block of the GeoIP IP cache (/24, /56)")
	r.Assume("extra upstream calls (TTL expiry, LRU eviction, concurrent misses) are never violations")

	if p := vkit.ReplayPath(); p != "" {
		var doc struct {
			Witness struct {
				Variant string `json:"variant"`
				History int    `json:"history"`
			} `json:"witness"`
		}
		if b, err := os.ReadFile(p); err == nil && json.Unmarshal(b, &doc) == nil && doc.Witness.Variant != "" {
			t.Logf("replaying %s history %d", doc.Witness.Variant, doc.Witness.History)
			switch doc.Witness.Variant {
			case "conc":
				runConcurrent(r, doc.Witness.History)
			case "real":
				runReal(r, doc.Witness.History, false, t.Logf)
			case "realconc":
				runReal(r, doc.Witness.History, true, nil)
			default:
				runSequential(r, doc.Witness.History, t.Logf)
				r.Sample(map[string]any{"replayed": p})
			}
			r.Sample(map[string]any{"replayed": p})
			return
		}
	}

	nSeq := r.N(150, 4000)
	for i := 0; i < nSeq; i++ {
		runSequential(r, i, nil)
	}
	nConc := r.N(40, 800)
	for i := 0; i < nConc; i++ {
		runConcurrent(r, i)
	}
	// The same kind of histories with the real geoip.File on the repository's
	// test databases (IPv4-mapped options, its IP cache).
	nReal, nRealConc := r.N(60, 1200), r.N(10, 200)
	for i := 0; i < nReal; i++ {
		runReal(r, i, false, nil)
	}
	for i := 0; i < nRealConc; i++ {
		runReal(r, i, true, nil)
	}
	seenMu.Lock()
	r.Bucket("realgeo_distinct_countries", int64(len(countriesSeen)))
	r.Bucket("realgeo_distinct_countries_in_mapped_options", int64(len(countriesSeenMapped)))
	seenMu.Unlock()
	if d, _ := loadRealDB(); d != nil {
		r.Extra("real_geoip_zones", map[string]any{"ipv4": len(d.zones4), "ipv6": len(d.zones6), "no_country": len(d.unknown),
			"ipv4_countries": len(countriesOf(d.zones4)), "ipv6_countries": len(countriesOf(d.zones6))})
	}
	refreshRace(r)
	listenerPhase(r)
	r.Extra("histories", map[string]int{"sequential": nSeq, "concurrent": nConc, "real_geoip_sequential": nReal, "real_geoip_concurrent": nRealConc})
	r.Exhaustive(false)

	r.Require("requests", 10000)
	r.Require("upstream_requests_checked", 3000)
	r.Require("upstream_ecs_coarse", 1000)
	r.Require("upstream_ecs_zero", 500)
	r.Require("served_from_cache", 2000)
	r.Require("reuse_scoped_answer_same_subnet_other_client", 100)
	r.Require("went_upstream_past_other_subnet_answer", 200)
	r.Require("went_upstream_past_scoped_answer_of_partial-byte_sibling_subnet", 30)
	r.Require("went_upstream_past_scoped_answer_of_last-byte_sibling_subnet", 10)
	r.Require("optout_requests", 1000)
	r.Require("optout_went_upstream_past_subnet_answer", 50)
	r.Require("formerr_ok", 500)
	r.Require("echo_ok", 2000)
	r.Require("echo_absent_ok", 2000)
	r.Require("concurrent_requests", 2000)
	r.Require("alias_requests_with_ecs_option", 1000)
	r.Require("alias_requests_optout", 200)
	r.Require("realgeo_requests", 3000)
	r.Require("realgeo_mapped_option_requests", 400)
	r.Require("realgeo_mapped_option_after_mapped_option_of_other_country", 200)
	r.Require("realgeo_distinct_countries_in_mapped_options", 3)
	r.Require("realgeo_distinct_countries", 10)
	r.Require("refresh_race_refreshes", 100)
	r.Require("listener_cases", 400)
	r.Require("listener_cases_malformed", 60)
	r.Require("listener_cases_unparseable", 60)
	r.Require("listener_cases_valid_or_zero", 120)
	r.Require("listener_transports", 8)
	for _, tr := range []string{"udp", "tcp", "dot", "doh-h2-post", "doh-h1-get", "doq", "dnscrypt-udp", "dnscrypt-tcp"} {
		// decided (= a DNS message was received) malformed cases per transport;
		// a run in which too many stayed ambiguous is inconclusive
		r.Require("listener_malformed_decided:"+tr, 6)
	}
	r.Require("refresh_race_reader_calls_during_refresh", 2000)
	r.Require("refresh_race_probes_location_changed_by_refresh", 1000)
}
