package c05

import (
	"bytes"
	"context"
	"fmt"
	"math/rand/v2"
	"net"
	"net/netip"
	"os"
	"path/filepath"
	"sync"
	"sync/atomic"
	"time"

	"github.com/AdguardTeam/AdGuardDNS/internal/agd"
	"github.com/AdguardTeam/AdGuardDNS/internal/dnssvc"
	"github.com/AdguardTeam/AdGuardDNS/internal/geoip"
	"github.com/AdguardTeam/AdGuardDNS/verif/stack"
	"github.com/AdguardTeam/AdGuardDNS/verif/vkit"
	"github.com/AdguardTeam/golibs/netutil"
	"github.com/miekg/dns"
	"github.com/oschwald/maxminddb-golang"
)

// Refresh-race sub-phase of the real-database phase.
//
// Two variants of the country database exist on disk: the repository's test
// database and a copy in which the ISO country codes are swapped pairwise
// (same length, the file stays a valid database).  Reader goroutines keep
// looking addresses up (directly and through the stack) while a refresher
// renames one or the other variant into the configured path and calls
// File.Refresh.  After a Refresh has RETURNED and all readers are parked, every
// address is looked up once and compared with a reference instance opened on
// the variant that is now current: the cache of the refreshed instance must not
// hold anything of the previous database.

var isoSwaps = [][2]string{{"US", "JP"}, {"GB", "SE"}, {"AU", "PH"}, {"DE", "FR"}, {"CN", "KR"}, {"RU", "NL"}}

func swapISO(c string) string {
	for _, p := range isoSwaps {
		switch c {
		case p[0]:
			return p[1]
		case p[1]:
			return p[0]
		}
	}
	return c
}

// patchCountryDB swaps the ISO codes that are values of an "iso_code" key in
// the data section of the database.
func patchCountryDB(b []byte) ([]byte, error) {
	rd, err := maxminddb.FromBytes(b)
	if err != nil {
		return nil, err
	}
	tree := int(rd.Metadata.NodeCount) * int(rd.Metadata.RecordSize) * 2 / 8
	meta := bytes.LastIndex(b, []byte("\xab\xcd\xefMaxMind.com"))
	if tree+16 >= meta || meta < 0 {
		return nil, fmt.Errorf("unexpected database layout")
	}
	out := append([]byte{}, b...)
	data := out[tree+16 : meta]
	keyOff := bytes.Index(data, []byte("\x48iso_code"))
	if keyOff < 0 || keyOff >= 2048 {
		return nil, fmt.Errorf("iso_code key not found at a short pointer offset")
	}
	prefixes := [][]byte{[]byte("iso_code"), {0x20 | byte(keyOff>>8), byte(keyOff)}}
	n := 0
	for i := 0; i+3 <= len(data); i++ {
		if data[i] != 0x42 {
			continue
		}
		ok := false
		for _, pf := range prefixes {
			ok = ok || (i >= len(pf) && bytes.Equal(data[i-len(pf):i], pf))
		}
		if !ok {
			continue
		}
		if c := string(data[i+1 : i+3]); swapISO(c) != c {
			copy(data[i+1:i+3], swapISO(c))
			n++
		}
	}
	if n == 0 {
		return nil, fmt.Errorf("nothing to swap")
	}
	return out, nil
}

type isoRec struct {
	Country struct {
		ISO string `maxminddb:"iso_code"`
	} `maxminddb:"country"`
}

// verifyVariants checks network by network that variant B is variant A with
// the countries swapped, and returns the IPv6 networks (at most /48) together
// with their country in A.
func verifyVariants(a, b []byte) (nets []netip.Prefix, swapped []bool, err error) {
	ra, err := maxminddb.FromBytes(a)
	if err != nil {
		return nil, nil, err
	}
	rb, err := maxminddb.FromBytes(b)
	if err != nil {
		return nil, nil, err
	}
	it := ra.Networks(maxminddb.SkipAliasedNetworks)
	changed := 0
	for it.Next() {
		var x, y isoRec
		n, nerr := it.Network(&x)
		if nerr != nil {
			return nil, nil, nerr
		}
		if _, _, lerr := rb.LookupNetwork(n.IP, &y); lerr != nil {
			return nil, nil, lerr
		}
		if y.Country.ISO != swapISO(x.Country.ISO) {
			return nil, nil, fmt.Errorf("network %v: %q in A, %q in B", n, x.Country.ISO, y.Country.ISO)
		}
		if x.Country.ISO != y.Country.ISO {
			changed++
		}
		if p := ipnetPrefix(n); p.IsValid() && p.Addr().Is6() && p.Bits() <= 48 && x.Country.ISO != "" {
			nets = append(nets, p)
			swapped = append(swapped, x.Country.ISO != y.Country.ISO)
		}
	}
	if changed < 20 || len(nets) < 20 {
		return nil, nil, fmt.Errorf("too few networks differ between the variants (%d)", changed)
	}
	return nets, swapped, nil
}

type locView struct {
	Country, Continent, Subdivision string
	ASN                             uint32
	Err                             string
}

func viewOf(l *geoip.Location, err error) locView {
	v := locView{}
	if err != nil {
		v.Err = err.Error()
	}
	if l != nil {
		v.Country, v.Continent, v.Subdivision, v.ASN = string(l.Country), string(l.Continent), l.TopSubdivision, uint32(l.ASN)
	}
	return v
}

func subnetsOf(g geoip.Interface, v locView) [2]string {
	var out [2]string
	for i, fam := range []netutil.AddrFamily{netutil.AddrFamilyIPv4, netutil.AddrFamilyIPv6} {
		p, err := g.SubnetByLocation(&geoip.Location{Country: geoip.Country(v.Country), ASN: geoip.ASN(v.ASN), TopSubdivision: v.Subdivision}, fam)
		out[i] = fmt.Sprint(p, err)
	}
	return out
}

// readerGate parks the readers between cycles.
type readerGate struct {
	mu     sync.Mutex
	cond   *sync.Cond
	paused bool
	parked int
	stop   bool
}

func newGate() *readerGate { g := &readerGate{}; g.cond = sync.NewCond(&g.mu); return g }

// checkpoint is called by a reader between two calls; it returns false when
// the reader must exit.
func (g *readerGate) checkpoint() bool {
	g.mu.Lock()
	defer g.mu.Unlock()
	if g.paused && !g.stop {
		g.parked++
		g.cond.Broadcast()
		for g.paused && !g.stop {
			g.cond.Wait()
		}
		g.parked--
	}
	return !g.stop
}

func (g *readerGate) pauseAll(n int) {
	g.mu.Lock()
	g.paused = true
	for g.parked < n {
		g.cond.Wait()
	}
	g.mu.Unlock()
}

func (g *readerGate) resume(stop bool) {
	g.mu.Lock()
	g.paused, g.stop = false, stop
	g.cond.Broadcast()
	g.mu.Unlock()
}

func refreshRace(r *vkit.Run) {
	fail := func(why string) { r.Inconclusive("refresh race: " + why) }
	d, err := loadRealDB()
	if err != nil || d == nil || len(d.zones4) < 4 || len(d.zones6) < 8 {
		fail(fmt.Sprintf("real GeoIP databases unusable: %v", err))
		return
	}
	base := os.Getenv("VERIF_SCRATCH")
	if base == "" {
		base = os.TempDir()
	}
	dir, err := os.MkdirTemp(base, "c05-geo-")
	if err != nil {
		fail(err.Error())
		return
	}
	defer os.RemoveAll(dir)
	city, isp := geoPaths()
	orig, err := os.ReadFile(city)
	if err != nil {
		fail(err.Error())
		return
	}
	patched, err := patchCountryDB(orig)
	if err != nil {
		fail("cannot derive a second database variant: " + err.Error())
		return
	}
	nets6, swapped6, err := verifyVariants(orig, patched)
	if err != nil {
		fail("second database variant is not a clean country swap: " + err.Error())
		return
	}
	paths := [2]string{filepath.Join(dir, "a.mmdb"), filepath.Join(dir, "b.mmdb")}
	live := filepath.Join(dir, "country.mmdb")
	for i, b := range [][]byte{orig, patched} {
		if err = os.WriteFile(paths[i], b, 0o644); err != nil {
			fail(err.Error())
			return
		}
	}
	if err = os.WriteFile(live, orig, 0o644); err != nil {
		fail(err.Error())
		return
	}
	var refs [2]*geoip.File
	for i := range refs {
		if refs[i], err = newRealFileAt(paths[i], 1<<16); err != nil {
			fail("reference instance: " + err.Error())
			return
		}
	}
	// Instances under test: a small and a large IP cache.
	small, err := newRealFileAt(live, 4)
	if err != nil {
		fail(err.Error())
		return
	}
	large, err := newRealFileAt(live, 1<<16)
	if err != nil {
		fail(err.Error())
		return
	}
	ispRd, err := maxminddb.Open(isp)
	if err != nil {
		fail(err.Error())
		return
	}
	defer ispRd.Close()

	// Hot set: a few fixed zone addresses (few /24s and /56s).
	rng := r.Rand("refresh", 0)
	var hot []netip.Addr
	for _, z := range d.zones4 {
		hot = append(hot, randAddrIn(rng, z.Net))
	}
	for _, i := range rng.Perm(len(d.zones6))[:8] {
		hot = append(hot, randAddrIn(rng, d.zones6[i].Net))
	}
	// Sanity: the variants answer differently for a good part of the hot set.
	diff := 0
	for _, a := range hot {
		if viewOf(refs[0].Data("", a)) != viewOf(refs[1].Data("", a)) {
			diff++
		}
	}
	if diff < 4 {
		fail(fmt.Sprintf("the database variants differ for %d hot addresses only", diff))
		return
	}

	// A stack on the large instance for the readers and probes that go through
	// the middlewares.
	var upMu sync.Mutex
	st, err := stack.New(&stack.Options{
		Cache: &dnssvc.CacheConfig{Type: dnssvc.CacheTypeECS, ECSCount: 100, NoECSCount: 100},
		GeoIP: large, ServerGroups: []*agd.ServerGroup{group}, FilteringGroups: filteringGroups,
		Upstream: func(ctx context.Context, req *dns.Msg, ri *agd.RequestInfo) (*dns.Msg, error) {
			upMu.Lock()
			defer upMu.Unlock()
			return stack.DefaultUpstream(ctx, req, ri)
		},
	})
	if err != nil {
		fail("cannot build the stack: " + err.Error())
		return
	}
	var qn atomic.Uint64
	serveFrom := func(a netip.Addr, e *ecsSpec) *stack.Outcome {
		n := qn.Add(1)
		s := &step{ECS: ecsSpec{Kind: "none"}}
		if e != nil {
			s.ECS = *e
		}
		q := &question{Name: fmt.Sprintf("p%d.c05-refresh.example.", n), Qtype: dns.TypeA}
		m, _ := buildQuery(uint16(n), q, s)
		out := st.Serve(&stack.Request{Server: servers[1], Group: group, Msg: m,
			Remote: netip.AddrPortFrom(a, 4000), Local: netip.MustParseAddrPort("192.0.2.53:853")})
		st.Forget(out)
		return out
	}

	const nDirectHot, nDirectFresh, nStack = 6, 10, 4
	nReaders := nDirectHot + nDirectFresh + nStack
	gate := newGate()
	var refreshing atomic.Bool
	var during, calls atomic.Int64
	type freshLog struct {
		mu    sync.Mutex
		addrs []netip.Addr
	}
	logs := make([]*freshLog, nDirectFresh)
	var wg sync.WaitGroup
	reader := func(id int, body func(rng *rand.Rand)) {
		defer wg.Done()
		rr := r.Rand("refresh-reader", id)
		for gate.checkpoint() {
			before := refreshing.Load()
			body(rr)
			calls.Add(1)
			if before || refreshing.Load() {
				during.Add(1)
			}
			time.Sleep(30 * time.Microsecond)
		}
	}
	for i := 0; i < nDirectHot; i++ {
		wg.Add(1)
		f := small
		if i%2 == 1 {
			f = large
		}
		go reader(i, func(rr *rand.Rand) {
			l, derr := f.Data("", hot[rr.IntN(len(hot))])
			if derr == nil && l != nil {
				lc := *l
				_, _ = f.SubnetByLocation(&lc, netutil.AddrFamilyIPv6)
			}
		})
	}
	for i := 0; i < nDirectFresh; i++ {
		wg.Add(1)
		lg := &freshLog{}
		logs[i] = lg
		go reader(100+i, func(rr *rand.Rand) {
			// A block nobody has looked up yet: a certain cache miss, so the
			// call reads the database.  Mostly from swapped countries.
			k := rr.IntN(len(nets6))
			for try := 0; try < 4 && !swapped6[k]; try++ {
				k = rr.IntN(len(nets6))
			}
			a := randAddrIn(rr, nets6[k])
			var x any
			if n, _, lerr := ispRd.LookupNetwork(net.IP(a.AsSlice()), &x); lerr != nil || !ipnetPrefix(n).IsValid() || ipnetPrefix(n).Bits() > 56 {
				return
			}
			lg.mu.Lock()
			full := len(lg.addrs) >= 1500
			if !full {
				lg.addrs = append(lg.addrs, a)
			} else {
				a = lg.addrs[rr.IntN(len(lg.addrs))]
			}
			lg.mu.Unlock()
			_, _ = large.Data("", a)
		})
	}
	for i := 0; i < nStack; i++ {
		wg.Add(1)
		go reader(200+i, func(rr *rand.Rand) {
			a := hot[rr.IntN(len(hot))]
			var e *ecsSpec
			if o := hot[rr.IntN(len(hot))]; rr.IntN(2) == 0 {
				// Full-length prefixes of the hot addresses themselves: any
				// other address of the same /24 or /56 could have other
				// records and, through the documented granularity of the
				// GeoIP IP cache, change what the hot address resolves to.
				bits := o.BitLen()
				p, _ := o.Prefix(bits)
				sp := ecsSpec{Kind: "valid", Family: uint16(1 + famOf(o)/6), Bits: uint8(bits), Addr: p.Addr().AsSlice()[:(bits+7)/8]}
				if o.Is4() && rr.IntN(2) == 0 {
					sp = mappedSpec(p)
				}
				e = &sp
			}
			serveFrom(a, e)
		})
	}

	cycles := r.N(160, 1500)
	ctx := context.Background()
	cur := 0
	tmp := filepath.Join(dir, "country.mmdb.tmp")
	dbs := [2][]byte{orig, patched}
	for c := 0; c < cycles; c++ {
		cur = 1 - cur
		if err = os.WriteFile(tmp, dbs[cur], 0o644); err == nil {
			err = os.Rename(tmp, live)
		}
		if err != nil {
			fail(err.Error())
			break
		}
		refreshing.Store(true)
		e1 := small.Refresh(ctx)
		e2 := large.Refresh(ctx)
		refreshing.Store(false)
		if e1 != nil || e2 != nil {
			fail(fmt.Sprintf("Refresh failed: %v %v", e1, e2))
			break
		}
		r.Bucket("refresh_race_refreshes", 2)
		// Both Refresh calls have returned; park the readers, then probe.
		gate.pauseAll(nReaders)
		ref, old := refs[cur], refs[1-cur]
		probe := func(inst string, f *geoip.File, a netip.Addr) {
			got := viewOf(f.Data("", a))
			want := viewOf(ref.Data("", a))
			prev := viewOf(old.Data("", a))
			r.Bucket("refresh_race_probes", 1)
			if want != prev {
				r.Bucket("refresh_race_probes_location_changed_by_refresh", 1)
			}
			wit := func() any {
				return map[string]any{"cycle": c, "current_variant": []string{"original", "countries-swapped"}[cur], "instance": inst, "address": a,
					"got": got, "want_from_reference_on_current_file": want, "reference_on_previous_file": prev}
			}
			switch {
			case got == want:
				if sg, sw := subnetsOf(f, got), subnetsOf(ref, got); sg != sw {
					viol(r, "geoip:stale-subnet-after-refresh", "after Refresh returned, SubnetByLocation differs from a fresh instance on the current file",
						func() any {
							m := wit().(map[string]any)
							m["got_subnets"], m["want_subnets"] = sg, sw
							return m
						})
				}
			case got == prev:
				viol(r, "geoip:stale-location-after-refresh",
					"after Refresh returned and with no lookup in flight, Data answers with the location of the PREVIOUS database file", wit)
			default:
				viol(r, "geoip:wrong-location-after-refresh", "after Refresh returned, Data answers with a location of neither database file", wit)
			}
		}
		for _, a := range hot {
			probe("cache=4", small, a)
			probe("cache=65536", large, a)
		}
		seenBlock := map[netip.Prefix]int{}
		var fresh []netip.Addr
		for _, lg := range logs {
			lg.mu.Lock()
			fresh = append(fresh, lg.addrs...)
			lg.addrs = lg.addrs[:0]
			lg.mu.Unlock()
		}
		for _, a := range fresh {
			seenBlock[cacheBlock(a)]++
		}
		for _, a := range fresh {
			if seenBlock[cacheBlock(a)] == 1 {
				probe("cache=65536/fresh-block", large, a)
			}
		}
		r.Bucket("refresh_race_fresh_blocks_probed", int64(len(fresh)))
		// Through the stack: the subnet sent upstream for a plain client.
		for k := 0; k < 4; k++ {
			a := hot[(c*4+k)%len(hot)]
			out := serveFrom(a, nil)
			want := viewOf(ref.Data("", a))
			fam := netutil.AddrFamilyIPv4
			if a.Is6() {
				fam = netutil.AddrFamilyIPv6
			}
			wp, _ := ref.SubnetByLocation(&geoip.Location{Country: geoip.Country(want.Country), ASN: geoip.ASN(want.ASN)}, fam)
			var seen []ecsSeen
			for _, u := range out.Trace.UpstreamReqs {
				if wv, werr := wireView(u); werr == nil {
					seen = append(seen, ecsOf(wv)...)
				}
			}
			r.Bucket("refresh_race_stack_probes", 1)
			if len(seen) != 1 || seen[0].Prefix != wp {
				viol(r, "geoip:stale-subnet-sent-upstream-after-refresh",
					"after Refresh returned, the ECS sent upstream is not the subnet the current database assigns to the client's location",
					func() any {
						return map[string]any{"cycle": c, "client": a, "upstream_ecs": seen, "want": wp, "want_location": want,
							"reference_on_previous_file": viewOf(old.Data("", a))}
					})
			}
		}
		gate.resume(false)
		if c%16 == 0 {
			r.Eval(fmt.Sprintf("refresh-race/to-variant-%d", cur), true)
		}
	}
	gate.pauseAll(nReaders)
	gate.resume(true)
	wg.Wait()
	r.Bucket("refresh_race_reader_calls", calls.Load())
	r.Bucket("refresh_race_reader_calls_during_refresh", during.Load())
}
